#!/bin/sh
# usage: check.sh <property> <quick|thorough>
# Rebuilds the checker if needed (offline) and decides one property on /repo's current working tree.
set -u
HERE=$(cd "$(dirname "$0")" && pwd)
export GOFLAGS=-mod=mod GOPROXY=off GOSUMDB=off GOTOOLCHAIN=local GOWORK=off
unset GOWORK_FILE 2>/dev/null
mkdir -p "$HERE/bin" "$HERE/evidence"
( cd "$HERE/checker" && go build -o "$HERE/bin/wrverif" ./cmd/wrverif ) || { echo "CHECKER-BROKEN: cannot build the checker" >&2; exit 2; }
exec "$HERE/bin/wrverif" -verif "$HERE" -repo "${VERIF_REPO:-/repo}" -property "$1" -tier "${2:-quick}"
