#!/usr/bin/env python3
"""Confirms seeded breaking changes produced by independent sub-agents and runs the checks against them.
usage: tools/seedcheck.py <seed-dir> [...]   where <seed-dir> holds patch.diff, demo/, README.md
For each seed: fresh scratch worktree of /repo HEAD (outside /repo and /verif), apply the patch, build, run the
263-test baseline, run the demo with and without the patch, run every claimed check against the patched tree.
Confirmed seeds are copied to /verif/seeded/<id>/ with meta.json. The scratch worktree is removed afterwards."""
import json, os, re, shutil, subprocess, sys, tempfile

VERIF = os.path.dirname(os.path.dirname(os.path.abspath(__file__)))
ENV = dict(os.environ, GOFLAGS="-mod=mod", GOPROXY="off", GOSUMDB="off", GOTOOLCHAIN="local", GOWORK="off")

def run(cmd, cwd=None, timeout=1800):
    return subprocess.run(cmd, cwd=cwd, env=ENV, capture_output=True, text=True, timeout=timeout)

def demo(demo_src, wt, tmp):
    d = os.path.join(tmp, "demo")
    if os.path.exists(d):
        shutil.rmtree(d)
    shutil.copytree(demo_src, d)
    gm = open(os.path.join(d, "go.mod")).read()
    gm = re.sub(r"(replace\s+github.com/benoitkugler/webrender\s+=>\s+)\S+", r"\1" + wt, gm)
    open(os.path.join(d, "go.mod"), "w").write(gm)
    shutil.copy(os.path.join(wt, "go.sum"), os.path.join(d, "go.sum"))
    r = run(["go", "test", "-count=1", "./..."], cwd=d)
    return r.returncode == 0, (r.stdout + r.stderr)[-1500:]

def recheck():
    """--recheck: for the seeds already confirmed under /verif/seeded, only re-run the checks (one load per seed)
    with the current checker and rewrite caught_by / caught in meta.json."""
    tmp = tempfile.mkdtemp(prefix="wrv_seedre_")
    wt = os.path.join(tmp, "repo")
    vdir = os.path.join(tmp, "verif")
    os.makedirs(vdir)
    shutil.copy(os.path.join(VERIF, "known_findings.json"), vdir)
    subprocess.check_call(["git", "-C", "/repo", "worktree", "add", "--detach", "-q", wt, "HEAD"])
    subprocess.check_call(["go", "build", "-o", os.path.join(tmp, "wrverif"), "./cmd/wrverif"], cwd=os.path.join(VERIF, "checker"), env=ENV)
    try:
        shard, nshards = 0, 1
        if len(sys.argv) > 3:
            shard, nshards = int(sys.argv[2]), int(sys.argv[3])
        for k, d in enumerate(sorted(os.listdir(os.path.join(VERIF, "seeded")))):
            if k % nshards != shard:
                continue
            only = os.environ.get("SEEDS")  # optional comma-separated list of seed ids
            if only and d not in only.split(","):
                continue
            mp = os.path.join(VERIF, "seeded", d, "meta.json")
            if not os.path.exists(mp):
                continue
            meta = json.load(open(mp))
            patch = os.path.join(VERIF, "seeded", d, "patch.diff")
            a = run(["git", "apply", "--whitespace=nowarn", patch], cwd=wt)
            if a.returncode != 0:
                a = run(["git", "apply", "--3way", "--whitespace=nowarn", patch], cwd=wt)
            if a.returncode != 0:
                print(d, "PATCH-DOES-NOT-APPLY (meta kept)")
                run(["git", "reset", "-q", "--hard"], cwd=wt)
                continue
            r = run([os.path.join(tmp, "wrverif"), "-repo", wt, "-verif", vdir, "-all"])
            caught = {}
            for l in r.stdout.splitlines():
                m = re.match(r"^  (C\d\d)\.(\S+)\s", l)
                if m:
                    caught.setdefault(m.group(1), set()).add(m.group(1) + "." + m.group(2))
            caught = {k: sorted(v) for k, v in caught.items()}
            run(["git", "reset", "-q", "--hard"], cwd=wt)
            run(["git", "clean", "-fdq"], cwd=wt)
            meta["caught_by"] = caught
            meta["caught"] = meta["property"] in caught
            json.dump(meta, open(mp, "w"), indent=1)
            print("%-8s caught=%s %s" % (d, meta["caught"], caught if caught else ""))
    finally:
        subprocess.call(["git", "-C", "/repo", "worktree", "remove", "--force", wt])
        shutil.rmtree(tmp, ignore_errors=True)

def main():
    if len(sys.argv) > 1 and sys.argv[1] == "--recheck":
        return recheck()
    manifest = json.load(open(os.path.join(VERIF, "MANIFEST.json")))
    claimed = [c["property_id"] for c in manifest["checks"]]
    tmp = tempfile.mkdtemp(prefix="wrv_seed_")
    wt = os.path.join(tmp, "repo")
    vdir = os.path.join(tmp, "verif")
    os.makedirs(vdir)
    shutil.copy(os.path.join(VERIF, "known_findings.json"), vdir)
    subprocess.check_call(["git", "-C", "/repo", "worktree", "add", "--detach", "-q", wt, "HEAD"])
    subprocess.check_call(["go", "build", "-o", os.path.join(tmp, "wrverif"), "./cmd/wrverif"], cwd=os.path.join(VERIF, "checker"), env=ENV)
    try:
        for sd in sys.argv[1:]:
            sid = os.path.basename(sd.rstrip("/"))
            prop = sid.split("_")[0]
            meta = {"id": sid, "property": prop, "source": "independent sub-agent given only the property text and a scratch worktree"}
            patch = os.path.join(sd, "patch.diff")
            # demo on the clean tree
            ok_clean, out_clean = demo(os.path.join(sd, "demo"), wt, tmp)
            a = run(["git", "apply", "--whitespace=nowarn", patch], cwd=wt)
            if a.returncode != 0:
                a = run(["git", "apply", "--3way", "--whitespace=nowarn", patch], cwd=wt)
            if a.returncode != 0:
                print(sid, "PATCH-DOES-NOT-APPLY", a.stderr.strip()[:200])
                run(["git", "reset", "-q", "--hard"], cwd=wt)  # a failed 3-way apply leaves conflict markers
                continue
            b = run(["go", "build", "./..."], cwd=wt)
            base = run(["python3", os.path.join(VERIF, "tools", "baseline.py"), wt])
            ok_patched, out_patched = demo(os.path.join(sd, "demo"), wt, tmp)
            caught = {}
            for pid in claimed:
                r = run([os.path.join(tmp, "wrverif"), "-repo", wt, "-verif", vdir, "-property", pid])
                if r.returncode != 0:
                    rules = sorted(set(l.split()[0] for l in r.stdout.splitlines() if l.startswith("  " + pid + ".")))
                    caught[pid] = rules or ["exit %d" % r.returncode]
            run(["git", "checkout", "--", "."], cwd=wt)
            run(["git", "clean", "-fdq"], cwd=wt)
            confirmed = b.returncode == 0 and base.returncode == 0 and ok_clean and not ok_patched
            meta.update({
                "compiles": b.returncode == 0, "baseline_passes": base.returncode == 0,
                "demo_passes_without_change": ok_clean, "demo_fails_with_change": not ok_patched,
                "confirmed": confirmed, "caught_by": caught, "caught": prop in caught,
                "ran": ["git apply patch.diff on a scratch worktree of /repo HEAD", "go build ./...", "tools/baseline.py <worktree>", "go test ./... in demo/ with and without the patch", "wrverif -repo <worktree> -property <each claimed>"],
            })
            print("%-8s confirmed=%s caught=%s %s" % (sid, confirmed, prop in caught, caught if caught else ""))
            if not confirmed:
                print("   build=%s baseline=%s demo_clean_pass=%s demo_patched_fail=%s" % (b.returncode == 0, base.returncode == 0, ok_clean, not ok_patched))
                if not ok_clean:
                    print("   clean demo output:", out_clean[-400:].replace("\n", " | "))
                continue
            dst = os.path.join(VERIF, "seeded", sid)
            if os.path.exists(dst):
                shutil.rmtree(dst)
            os.makedirs(dst)
            shutil.copy(patch, dst)
            shutil.copytree(os.path.join(sd, "demo"), os.path.join(dst, "demo"))
            if os.path.exists(os.path.join(sd, "README.md")):
                shutil.copy(os.path.join(sd, "README.md"), dst)
                readme = open(os.path.join(sd, "README.md")).read()
                meta["needs_to_manifest"] = " ".join(readme.split())[:600]
            json.dump(meta, open(os.path.join(dst, "meta.json"), "w"), indent=1)
    finally:
        subprocess.call(["git", "-C", "/repo", "worktree", "remove", "--force", wt])
        shutil.rmtree(tmp, ignore_errors=True)

if __name__ == "__main__":
    main()
