#!/bin/sh
# runs every claimed check on /repo's working tree with one load; prints one line per property; non-zero if any fails
cd "$(dirname "$0")/.."
export GOFLAGS=-mod=mod GOPROXY=off GOSUMDB=off GOTOOLCHAIN=local GOWORK=off
( cd checker && go build -o ../bin/wrverif ./cmd/wrverif ) || exit 2
./bin/wrverif -verif "$(pwd)" -all -tier "${1:-quick}" | grep "^C[0-9][0-9] tier\|^VIOLATION\|^KNOWN" | cut -c1-200
