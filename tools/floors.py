#!/usr/bin/env python3
"""Developer tool: raises the instance floor of every rule to 90 % of the instance count seen in /verif/evidence
(after a clean run on the pinned tree), never lowers one.  A floor is the coarse guard against a rule that silently
stops seeing the code it decides (for instance after a function was split into a wrapper and a worker)."""
import json, glob, re, os, sys
HERE = os.path.dirname(os.path.dirname(os.path.abspath(__file__)))
want = {}
for f in glob.glob(os.path.join(HERE, "evidence", "C??.json")):
    for r in json.load(open(f))["coverage"]["rules"]:
        n = r["instances"]
        new = n if n <= 5 else int(n * 0.9)
        if new > r["instance_floor"]:
            want[r["id"]] = (r["instance_floor"], new)
changed = 0
for src in glob.glob(os.path.join(HERE, "checker", "props", "*.go")):
    s = open(src).read()
    m = re.search(r'core\.Register\(\s*"(C\d\d)"|"(C\d\d)"', s)
    def sub(mo):
        global changed
        rid, floor = mo.group(2), int(mo.group(4))
        ps = props_of(src, s)
        if len(ps) != 1:
            return mo.group(0)  # a file shared by several properties: the rule's owner is not known here
        for prop in ps:
            k = prop + "." + rid
            if k in want and want[k][0] == floor:
                changed += 1
                return mo.group(1) + mo.group(2) + mo.group(3) + str(want[k][1]) + ")"
        return mo.group(0)
    def props_of(src, s):
        return sorted(set(re.findall(r'\bC\d\d\b', s)))
    t = re.sub(r'(c\.Rule\(")(R\w+)(",.*, )(\d+)\)$', sub, s, flags=re.M)
    if t != s:
        open(src, "w").write(t)
print("floors raised:", changed, "of", len(want))
