#!/usr/bin/env python3
import json, sys, glob, jsonschema
m = json.load(open('/verif/MANIFEST.json'))
jsonschema.validate(m, json.load(open('/root/.vp/MANIFEST.schema.json')))
es = json.load(open('/root/.vp/EVIDENCE.schema.json'))
bad = 0
for c in m['checks']:
    try:
        jsonschema.validate(json.load(open(c['evidence_file'])), es)
    except Exception as e:
        bad += 1
        print("INVALID", c['evidence_file'], str(e)[:200])
print("manifest ok,", len(m['checks']), "checks,", bad, "invalid evidence files")
sys.exit(1 if bad else 0)
