#!/usr/bin/env python3
"""Regenerates /verif/MANIFEST.json from the table below (kept next to the checker so that the
claimed set, the not_applicable list and the technique names stay in one place)."""
import json, os, sys
HERE = os.path.dirname(os.path.dirname(os.path.abspath(__file__)))

CLAIMED = {
 "C01": dict(
   technique="string/enum/dynamic-type value sets over SSA (validator returns refined by path conditions, field-based store sets, caller arguments, forall-loop idiom) compared with the cases guarding every panicking default + module-wide division/modulo hazard analysis + recursion-guard idioms on reference-following recursions (in-use set, destroyed reference, set-guarded resolver) + nil-guard and discarded-ok contradiction rules + counted-loop recognition",
   text="Decides structural necessary conditions of crash-freedom and termination of rendering: (R1) the panicking defaults over CSS keywords, enum constants and dynamic types cannot be reached by any value their producers can yield; (R2) no integer division or modulo in the module can see a zero divisor (named sites rest on list-length invariants); (R3) the reference-following recursions (var(), <use> by id and by URL, href inheritance, counter-style extends/fallback) are cycle-guarded, the var() guard scoped to the resolution in progress; (R4) no dereference of the root's missing parent style and no discarded-ok nil dereference; (R5) the re-pagination loop is counted and division loops have a divisor of at least 2; (R7) functions that panic on an empty string or slice are only called with non-empty arguments. Also: (R8) the argument-group guard of the SVG path interpreter refuses incomplete groups; (R9) the running quote depth never becomes negative. Not decided and named in the evidence: panicking defaults that rest on computed-value or box-class invariants, internal invariant panics (R6 inventory), index errors and nil dereferences in general, stack depth of structural recursions, progress of the page loop. Also: every strings.Repeat of css/counters and text has a count clamped by or tested against a constant (R10); the automatic range of counter styles is unbounded, so decimal, the last resort, never falls back to itself (R11); no function calls itself twice in one activation on what may be the same subtree (R12, exponential time in the nesting depth); the recursive descent of the CSS tokenizer goes through a depth counter (R13) and the SVG tree is built with a bounded depth (R14). Stack depth of the layout recursion over HTML nesting and the cost of nested flex containers are not decided.",
   ref="4 C01"),
 "C02": dict(
   technique="linear normal forms of the keys stored in resume stacks (loop indices over re-sliced child lists must carry the slice's lower bound) + use analysis of the resume point returned by every fragmenting layout call (a discarded one requires bottomSpace = −∞) + index provenance of resume points read from line boxes",
   text="Thin: decides three structural necessary conditions of content conservation in the fragmentation bookkeeping of html/layout: (R1) every key stored in a ResumeStack is an absolute child index — a loop index over children[skip:] enters a key only together with skip (39 keys); (R2) no fragmenting layout call that is given a real page bottom has its resume point thrown away (measurement passes run with bottomSpace = −∞; two reasoned sites; one reproduced defect, grid items cut at the page bottom and never continued, recorded as a known finding); (R3) a resume point read from a line box is read from the last line kept. That every character is laid out exactly once — which break positions are chosen, what each callee does with its skip stack, float and absolute placeholders, drawing — is a relation over runtime layout values and is not decided.",
   ref="5, 12.6"),
 "C03": dict(
   technique="constant/ordering folding of the precedence and comparison functions over SSA + guarded-by (path-condition reachability) on every cascaded-style write + provenance of sheet origins + loop/early-exit rules on the matcher + SSA pattern rules on nested-rule expansion + argument/parameter name agreement",
   text="Decides structural necessary conditions of the cascade order on the type-checked source: the precedence table and the weight/specificity comparisons on all orderings, guarded insertion into cascaded styles, the style-attribute weight, sheet order and origins, media filtering, that the matcher tests every selector of every rule without early exit, that each part of a nested selector list is made relative to the parent on its own and a rule's own declarations come before those of its nested rules. Not a proof of the behavioural statement: selector matching (C05) and in-sheet source order are not decided here.",
   ref="4 C03"),
 "C04": dict(
   technique="table/vocabulary agreement over go/types constants and literals + type flow into interface slots (SSA) + symbolic (polynomial) folding of tree.length_, of the percentage font-size and of the line-height computer + guarded-by on the defaulting skeleton and on every parent-style dereference + shared-memory write analysis of the computer functions",
   text="Decides structural necessary conditions of CSS defaulting: the six per-property tables agree with each other and with CSS 2.1 Appendix F (inherited flags, initial keywords), every value that can enter a style slot has the slot's type, the unit table holds the fixed CSS ratios, length_ multiplies each relative unit by the right font size (a percentage font-size refers to the parent's), computed dimensions carry computed units only, a percentage line-height becomes a length of the element's own font size, the inherit/initial skeleton of cascadeValue, no computer writes through the shared declared value, and the root never dereferences its missing parent. Pending var() paths, caching order and font metrics are not decided.",
   ref="4 C04"),
 "C05": dict(
   technique="vocabulary and dispatch-table agreement between parser, matchers and printers on the AST with go/types constants + specificity constants vs the Selectors-4 table + case-folding provenance and i-flag plumbing on SSA + empty-value scenario reachability + escaping of quoted interpolations + division guards",
   text="Decides necessary conditions of selector matching/weighing: no parser output can reach a panicking default of a Match dispatcher; specificity constants and the max rule of :is/:not/:has are those of Selectors 4; combinators, attribute operators and structural pseudo-class names dispatch to the specified relation with the specified (a,b,last,ofType); names are ASCII-lowercased and the i flag reaches every comparison; substring/word operators cannot match with an empty value; class and ~= matching split on the five CSS white space characters only and the *-of-type pseudo-classes compare element names; printed selectors escape quoted values and use names the parser accepts; no swapped same-typed arguments. The matching algorithms themselves (sibling walks, an+b arithmetic, :empty, :lang) are not decided.",
   ref="4 C05"),
 "C06": dict(
   technique="constant evaluation of the tokenizer's lexical tables from the source: code point predicates evaluated for every code point 0..0x100 from their syntax trees, regular-expression constants extracted and matched against batteries derived from the CSS Syntax railroad diagrams, order and constants of the preprocessing replacements on SSA, case structure of the string consumer + sibling-case rule (white space / comment) on every switch and condition of the parsing code + value-flow (append chain) rule on the declaration rewind",
   text="Thin: decides that input preprocessing, the name-start / name / whitespace code point classes, the number and hex-escape grammars and the termination rules of quoted strings are those of CSS Syntax 3, that every place of the parsing code that steps over white space steps over comments too, and that a failed declaration is re-parsed as a rule on exactly the tokens taken from the iterator (the ';' that stopped the attempt included, the remaining tail last). Also: the remnants of a bad url skip every valid escape (one reproduced defect fixed). Token values in general, url(), nested blocks, !important, source positions and error recovery in general quantify over all input strings and are not decided; that no cursor read leaves the input is decided under C07.R1, not here.",
   ref="4 C06, 12.6"),
 "C07": dict(
   technique="bounds/guard analysis over SSA (length by construction, path-condition reachability under len==n scenarios, inferred parameter preconditions checked at static and dynamic call sites, per-function tables of relational invariants) + hazard inventory (explicit panics, unchecked assertions, integer divisions) over the functions statically reachable from the parse entry points + dispatch-table totality",
   text="Decides necessary conditions of crash-freedom of the parsers of document text: every fixed-position read of a variable-length value is length-guarded (or is a counted, reasoned site), no explicit panic or unchecked assertion is reachable outside a reasoned table, no zero divisor, dispatch tables are total and validators/expanders are entered with tokens. Also: the guard hasSetsOrMore, on which the indexed reads of the SVG path interpreter rest, returns true only for whole groups. Variable indices in general (444 sites counted in the evidence), nil dereferences, stack depth and termination are not decided. Also: a position compared with the length of a buffer before one read is compared before every read at that position in the same function (R9, contradiction rule); the recursive descent of the tokenizer is bounded by a depth counter (R10).",
   ref="4 C07"),
 "C08": dict(
   technique="case-insensitivity taint over SSA (sources: identifier/unit/function-name/declaration-name fields; sanitisers: ASCII lowercasing; sinks: comparisons, prefix tests and table lookups against lettered constants; return summaries to a fixpoint) + shorthand table bijection and expander/longhand agreement on the AST + path-condition reachability under err != nil in the declaration loop + provenance of validated tokens + visited-set recursion guard",
   text="Decides necessary conditions of spelling-independence and of dropping bad declarations alone: no raw case-insensitive text reaches a lettered comparison or lookup; the shorthand tables are complete and inverse and expanders only emit declared longhands; a validation error only skips its own declaration; validators see whitespace-free tokens; var() resolution cannot recurse forever on a cycle; expandBackground puts every per-layer list back in source order; a style's table of custom properties is its own fresh map; no swapped same-typed arguments. Also: names being resolved by var() form a stack (removed when the resolution returns), comments are skipped wherever white space is, and the unitless-zero rule of the flex shorthand holds for all 32 assignments. That each expander assigns the right tokens to the right longhand, reset-to-initial of omitted parts and var() substitution semantics are not decided.",
   ref="4 C08"),
 "C09": dict(
   technique="table agreement between the display validator/computer vocabulary and makeBox's display → box class switch (AST + constants) against the CSS Display table + must-precede order of the anonymous-box passes on SSA",
   text="Thin: decides that every display value that can be produced has the box class the CSS Display table prescribes, that the anonymous-box passes run in the required order, that the flex and grid item fix-ups apply to block-level and inline-level containers alike, that an element with display none reaches no box creation, style write or recursion in elementToBox, and that table cells span at least one column. Also: wrapTable gives every cell its own grid slot and the anonymous-box passes test the box classes CSS 2.1 names (block-level, not block, children split an inline). What each rewriting pass does (block-in-inline splitting, table wrapping, blockification) and the table grid (spans) are not decided. Also: the anonymous table pass loses no box — every child its iterator takes is returned, stacked or kept as improper — and hands on unwrapped only a child that passed the test of the rule applied (R11).",
   ref="4 C09"),
 "C10": dict(
   technique="provenance rules on SSA (field stored / accessor read / property id triple of every resolveOnePercentage call; trace of the reference length back to the containing block, with the page-box test as path condition) + dominance order and write sets of the min/max wrappers + per-keyword dependence sets of the box-sizing adjustment + symbolic folding (one-path interpreter over polynomials, all branch scenarios enumerated) of blockLevelWidth_ and collapseMargin + path-condition guards of the collapse-through flag + side-symmetry, box-edge-sum and argument-name lints",
   text="Decides that every percentage-resolved used value is stored in the field of the property it was read from and refers to the right dimension of the containing block (vertical margins/paddings to the width except for page boxes); that max is clamped before min with the wrapped function re-run and only the own axis written; that the box-sizing adjustment depends on the paddings/borders CSS names for each keyword; that blockLevelWidth_, folded symbolically for the 8 combinations of auto among width and horizontal margins and both outcomes of the over-constraint test, satisfies the CSS 2.1 §10.3.3 equation with the specified treatment of auto values; that collapseMargin returns the largest positive plus the most negative margin for all 343 arrangements of three symbolic margins; that margins collapse through a box only under the §8.3.1 conditions; and side/argument consistency of the block layout code (one reproduced flex defect fixed). Also: boolean conditions over box edges test each kind of edge on the same sides. Which margins are adjoining at run time, auto heights, floats and clearance amounts are not decided.",
   ref="4 C10"),
 "C11": dict(
   technique="keyword-set extraction of every white-space classification test (AST boolean chains) compared with the CSS Text classes + validator/consumer vocabulary agreement + symbolic folding of layout.textAlign over all alignment combinations + truth-table reachability (every assignment of the six tests) for the character-wrapping permission in both text engines + linear normal forms of integer comparisons (doubled-offset lint) + side/argument lints",
   text="Decides that each white-space test uses the right CSS Text class at each site, that the white-space and text-align vocabularies are handled by their consumers, that layout.textAlign returns the specified offset for the 176 combinations of text-align / text-align-last / direction / last line / overflow, that a word is re-wrapped at character level exactly when the line overflows and word-break is break-all or the word starts the line with overflow-wrap anywhere (or break-word outside min-content), in both text engines, that no integer comparison of the layout and text code counts a resume offset twice, and side/argument consistency of the inline layout code. Also: running minima/maxima are compared with the variable they update, justification moves a text box by the advance accumulated before it and widens it by spacing × spaces (fold), and text-indent does not move the right limit of the first line. Measured widths, break opportunities found by the shaping engine and greedy filling itself are not decided.",
   ref="4 C11"),
 "C12": dict(
   technique="keyword-set extraction of the forced/avoid break predicates and of the sibling-resolution choice table (AST + constants) compared with the CSS Fragmentation sets + producer/consumer vocabulary agreement + division guard on the :nth() page arithmetic + symbolic folding of pageWidthOrHeight for all auto combinations + linear normal forms of the orphans/widows tests + box-edge-sum and argument-name lints",
   text="Decides that the forced and avoid break vocabularies are the CSS Fragmentation sets (column variants only in columns), that every break value the validators emit is classified, that forced beats avoid beats auto between siblings, that :nth() page matching never divides by zero, that pageWidthOrHeight, folded for the 8 combinations of auto among content size and margins, fills the page size as CSS Paged Media prescribes, that the orphans/widows tests of breakLine and findEarlierPageBreak are exactly the inequalities of CSS 2.1 §13.3.3 (compared as normalised linear forms), and side/argument consistency of the fragmentation code. Also: recto/verso resolve to the right/left page for both writing directions, and the start page name of the following content / the end name of the preceding content are the ones read at a break. Actual break positions, page selection and blank-page insertion are not decided.",
   ref="4 C12"),
 "C13": dict(
   technique="SSA pattern rules on the grid slot assignment of wrapTable (loop cursor provenance, advance by colspan, rowspan clamp, occupied-column marking) + constant lower bounds of the span attributes + sibling symmetry, box-edge sums and argument/parameter name agreement on the table layout code",
   text="Thin: decides that a cell spans at least one column, that the slot assignment gives each cell the first column free of row-spanning cells, advances by the colspan, clamps the rowspan to the row group and marks exactly the cell's columns in the spanned rows (so two cells never receive the same slot), and that the table layout code is side-consistent. Also: border-spacing is read only in the separated-borders model, the spacing term of a spanning cell counts the columns actually spanned, and a row's bottom edge is computed from its final height. Column width distribution, row heights in general, the border-spacing arithmetic and every equality between cell edges are numerical relations between runtime values and are not decided. Also: the edge cells are padded down to is the row's own bottom on every path (R9); the fixed layout never divides a possibly negative width among columns (R10); the spacings included in the table's width and those laid between the columns are counted the same way (R11: known finding, a column with no originating cell).",
   ref="12.6"),
 "C14": dict(
   technique="typestate analysis of the backend's current path over SSA (states Empty/NonEmpty, per-entry-state function summaries to a fixpoint, closures entered at their OnNewStack site, CHA for interface calls, non-empty range loops, case split on enum parameters from call-site constant sets) + loop/dominance rules on the page protocol + path-condition guards on link resolution + provenance of metadata and font values + non-zero proof of every integer count that divides a float (clamps, dominating tests, enclosing range loops) + argument-name lint",
   text="Decides structural necessary conditions of a well-formed drawing: (R1) every Paint/Clip of the drawing code is reached only with a path under construction (reasoned float-equality sites named, 2 reproduced defects recorded as known findings); (R2) one AddPage per page in order and one CreateAnchors after the loop fed by resolveLinks; (R3) anchors are defined once (first id wins) and dangling internal links are dropped; (R4) each metadata field reaches its own backend setter from its own <meta>/<title>; (R5) text is drawn only from CreateFirstLine results whose fonts were registered by AddFont; (R7) every floating point division by an integer count in the layout and drawing code is reached only with a non-zero count (9 named sites rest on value invariants or unread quotients); (R6) no swapped same-typed arguments. Also: (R8) the bookmark outline state is carried across pages; (R9) radial gradient radii are made non-degenerate before anything divides by them. Finiteness of numbers in general, the bookmark outline, per-canvas path separation and the order of graphic-state calls are not decided.",
   ref="4 C14"),
 "C15": dict(
   technique="field-sensitive shared-memory taint over SSA with strong updates and callee mutation/alias summaries to a fixpoint (seeds: declared values of computer functions, style accessor results, package-level variables) + lock-region check for memo caches + AST classifier of every map iteration (order-insensitive patterns, table confirmed by reading) + scan for nondeterminism sources, goroutines, channels and run-time stores to package-level variables",
   text="Decides necessary conditions of determinism and non-interference: no write into memory that outlives one computation (stylesheet values, initial values, globals) except mutex-guarded memo caches; every map iteration is order-insensitive by construction or a named, confirmed site; no clock/random/environment source, goroutine or channel. One reproduced defect (broken out-of-flow boxes re-laid in map order) is a known finding. Also: re-evaluation closures stored in the target collector capture slices and maps as fresh copies only. Races inside dependencies, caller-supplied objects and three named not-decided map iterations (grid track sizing, ResumeStack.Unpack) are outside what is decided.",
   ref="4 C15"),
 "C17": dict(
   technique="polynomial value numbering of the matrix routines over SSA (exact rationals, uninterpreted trig) compared with specification matrices + AST/SSA checks of vocabulary, arity, argument order, composition order and origin conjugation",
   text="Decides that each routine of package matrix, as a polynomial in its inputs, equals the specification matrix (and in-place operations equal right multiplication by the constructor), that SVG transform.applyTo right-multiplies by the specified matrix per kind with degrees converted to radians, that the CSS/SVG plumbing (names, arities, argument positions, left-to-right composition, transform-origin conjugation, angle-unit table) is as specified, and that determinants are only compared with 0 by equality (reflections are applied). Float rounding is outside the abstraction; the matrix finally handed to the backend is not traced further than getMatrix/applyTo.",
   ref="4 C17"),
 "C18": dict(
   technique="table agreement on the syntax tree of pathParser.addSeg (argument count per command against SVG 1.1 §8.3, relative/absolute pairing, emitted operations, reflection families, closepath state update on SSA) + recursion-guard idioms on <use> resolution and href inheritance + symbolic folding over polynomials and rational functions (reduction modulo sin²+cos²=1, uninterpreted square roots) of reflection, quadratic elevation, the ellipse parameterisation, the arc centre and radii correction, and of rect/ellipse drawing against a recording canvas + argument-name lint",
   text="Decides that each path command letter is handled with the SVG argument count, that lower-case letters switch to relative coordinates before sharing the upper-case code, that each command emits the operations SVG assigns to it (H/V keeping the other coordinate, Z returning to the sub-path start, smooth commands reflecting only after their own family, repeated smooth segments reflecting the previous one), that the viewBox origin is scaled with the axis scale, that <use> (by id and URL) and href inheritance are cycle-guarded; and, by symbolic folding, that reflection is 2p − r, quadratic-to-cubic elevation is exact, the ellipse parameterisation and its derivative are the standard ones, the arc centre is the one of SVG F.6.5 for the four flag combinations as the caller passes them with too-small radii scaled by √Λ in ratio (F.6.6), and rect/ellipse outlines pass through the points SVG defines with tangent control points. Also: a helper handed one argument group of a repeated command reads that group only (one reproduced defect fixed: repeated arc groups), and viewBox/preserveAspectRatio is folded for none/meet/slice and the nine alignments. The arc's angle bookkeeping (which way round, how many segments), the number scanner and gradients/patterns are not decided; the fixed-position reads of the SVG attribute parsers are decided under C07.",
   ref="4 C18"),
 "C19": dict(
   technique="division/modulo hazard analysis (path-condition reachability under divisor==0 and dividend<0 scenarios, coinductive loop-carried sign facts, caller-side preconditions) + vocabulary and dispatch-table agreement on the AST + visited-set (recursion guard) checks on SSA",
   text="Decides that no integer division or modulo of the counter renderer can see a zero divisor or index with a negative remainder (division loops have a divisor of at least 2, signs are fixed before the digit loops), that the counter-system vocabulary agrees across validator, symbols(), Validate and renderer, that each system dispatches to its algorithm with the Counter Styles negative-sign set and automatic ranges, that the extends/fallback walks use a visited set, and that a counter instance created by counter-set/increment is registered in the sibling scope. Also: extends merges a descriptor from the extended style only when the extending style did not set it (whole-field tests). The arithmetic of each system and counter scoping in the box tree beyond that registration are not decided. Also: decimal, the last resort, accepts every integer (R10: the automatic range is unbounded).",
   ref="4 C19"),
 "C16": dict(
   technique="must-precede / no-way-back analysis on the SSA control-flow graph of drawStackingContext's closures + path-condition reachability over all orderings/truth assignments for the z-index partition and the stacking-context predicate + sort-call and comparator inspection + guard and read-before-recursion rules on the dispatch into painting lists + argument-name lint",
   text="Decides that the Appendix E steps occur in order on every path of drawStackingContext (background, border, negative contexts, blocks, floats, inline content, cells, zero and positive contexts, outlines), that child contexts are partitioned by the sign of z-index and sorted stably with a strict comparison, that a box starts a stacking context exactly under the four CSS conditions (all 32 assignments), that only non-positioned floats go to the float layer and every insertion index is read before the descendants are dispatched. The scoping of opacity/transform groups and the content of each list beyond these guards are not decided.",
   ref="4 C16"),
 "C20": dict(
   technique="constant propagation of the separator table's init loops (cross product of literals) compared with the CSS Syntax §9 fusing-pair oracle + vocabulary agreement with Kind.String() + ParseError kind coverage + escaper case sets",
   text="Decides necessary conditions of serialize/re-tokenize round-tripping: every fusing pair of adjacent token kinds gets a separator, no row of the table is dead through a misspelt kind, every token-level ParseError kind is serialisable, the string/url/name escapers cover the required characters, an escaped leading digit is a terminated escape, the character after a leading dash is escaped as an identifier start, units that look like an exponent are escaped with their own letter, and literal tokens that fuse (computed from the tokenizer's own vocabulary: `|` before `||` or `|=`) get a separator. Number representation (values built in code) is not decided.",
   ref="4 C20"),
}

NOT_APPLICABLE = {
}
NOT_YET = "static rules for this property are designed (DESIGN.md section 4) but not built yet in this tree; not claimed until they run clean and fire on their mutants"

ALL = ["C%02d" % i for i in range(1, 21)]

def complete(pid, text):
    """Appends the statement of every rule present in the evidence of the last run that the hand-written text
    does not name, so the claim lists all the clauses decided (the evidence is the authority on what ran)."""
    import re
    p = os.path.join(HERE, "evidence", pid + ".json")
    if not os.path.exists(p):
        return text
    rules = json.load(open(p)).get("coverage", {}).get("rules", [])
    extra = []
    for r in rules:
        rid = r["id"].split(".", 1)[1]
        if rid == "X" or re.search(r"\b%s\b" % re.escape(rid), text):
            continue
        extra.append("(%s) %s" % (rid, r.get("text", "").rstrip(".")))
    if extra:
        text = text.rstrip() + " Further clauses decided, as stated by the rules of the last run: " + "; ".join(extra) + "."
    return text

def main():
    checks = []
    for pid in ALL:
        if pid not in CLAIMED:
            continue
        c = dict(CLAIMED[pid])
        c["text"] = complete(pid, c["text"])
        checks.append({
            "property_id": pid,
            "quick_cmd": "./check.sh %s quick" % pid,
            "thorough_cmd": "./check.sh %s thorough" % pid,
            "evidence_file": "/verif/evidence/%s.json" % pid,
            "replay_cmd_template": "./check.sh %s quick  # re-evaluates the obligations listed in {path}" % pid,
            "engine": "wrverif",
            "level_claimed": {"category": "other", "text": c["text"], "design_ref": c["ref"]},
            "level_note": "Trusted base: go/packages + go/types + go/ssa (x/tools v0.29.0) faithfully represent /repo's working tree; the specification tables and the reasoned exception tables typed into checker/props. Decides the named structural clauses only, not the behaviour.",
            "technique": "static analysis: " + c["technique"],
        })
    na = []
    for pid in ALL:
        if pid in CLAIMED:
            continue
        na.append({"property_id": pid, "reason": NOT_APPLICABLE.get(pid, NOT_YET)})
    m = {
        "version": 1,
        "setup_cmd": "cd /verif/checker && GOFLAGS=-mod=mod GOPROXY=off GOSUMDB=off GOTOOLCHAIN=local GOWORK=off go build -o /verif/bin/wrverif ./cmd/wrverif",
        "hooks": {
            "guard": "none",
            "enable": "no hooks: the checks read /repo's source (go/packages) and never build or run it; there is no build tag",
            "baseline_off_cmd": "cd /repo && go test -vet=off -count=1 ./...",
            "source_commits": [],
            "add_only": True,
        },
        "engines": [{"name": "wrverif", "path": "/verif/checker", "serves_properties": sorted(CLAIMED), "kind_free_text": "repository-specific static analyser over go/types + go/ssa: table/vocabulary agreement, abstract folding, guarded-by, must-precede, hazard inventory"}],
        "checks": checks,
        "not_applicable": na,
        "notes": "Static analysis only. Every check loads /repo's current working tree with go/packages, builds SSA and evaluates the property's rules; nothing from /repo is executed. Known genuine defects are listed in /verif/known_findings.json.",
    }
    with open(os.path.join(HERE, "MANIFEST.json"), "w") as f:
        json.dump(m, f, indent=1)
        f.write("\n")

if __name__ == "__main__":
    main()
