#!/usr/bin/env python3
"""Regenerates /verif/MANIFEST.json from the table below (kept next to the checker so that the
claimed set, the not_applicable list and the technique names stay in one place)."""
import json, os, sys
HERE = os.path.dirname(os.path.dirname(os.path.abspath(__file__)))

CLAIMED = {
 "C01": dict(
   technique="string/enum/dynamic-type value sets over SSA (validator returns refined by path conditions, field-based store sets, caller arguments, forall-loop idiom) compared with the cases guarding every panicking default + module-wide division/modulo hazard analysis + recursion-guard idioms on reference-following recursions (in-use set, destroyed reference, set-guarded resolver) + nil-guard and discarded-ok contradiction rules + counted-loop recognition",
   text="Decides structural necessary conditions of crash-freedom and termination of rendering: (R1) 15 panicking defaults over CSS keywords, enum constants and dynamic types cannot be reached by any value their producers can yield; (R2) no integer division or modulo in the module can see a zero divisor (5 named sites rest on list-length invariants); (R3) the five reference-following recursions (var(), <use> by id and by URL, href inheritance, counter-style fallback) are cycle-guarded; (R4) no dereference of the root's missing parent style and no discarded-ok nil dereference; (R5) the re-pagination loop is counted. Not decided and named in the evidence: 36 panicking defaults that rest on computed-value or box-class invariants, 70-odd internal invariant panics, index errors and nil dereferences in general, stack depth of structural recursions, progress of the page loop.",
   ref="4 C01"),
 "C03": dict(
   technique="constant/ordering folding of the precedence and comparison functions over SSA + guarded-by (path-condition reachability) on every cascaded-style write + provenance of sheet origins",
   text="Decides structural necessary conditions of the cascade order on the type-checked source (precedence table, weight/specificity comparison on all orderings, guarded insertion, style-attribute weight, sheet order/origins, media filtering). Not a proof of the behavioural statement: selector matching and in-sheet source order are not decided.",
   ref="4 C03"),
 "C04": dict(
   technique="table/vocabulary agreement over go/types constants and literals + type flow into interface slots (SSA) + polynomial folding of the unit conversion + guarded-by on the defaulting skeleton and on every parent-style dereference",
   text="Decides structural necessary conditions of CSS defaulting: the six per-property tables agree with each other and with CSS 2.1 Appendix F (inherited flags, initial keywords), every value that can enter a style slot has the slot's type, the unit table holds the fixed CSS ratios, length_ multiplies each relative unit by the right font size, the inherit/initial skeleton of cascadeValue, and the root never dereferences its missing parent. Pending var() paths, caching order and font metrics are not decided.",
   ref="4 C04"),
 "C05": dict(
   technique="vocabulary and dispatch-table agreement between parser, matchers and printers on the AST with go/types constants + specificity constants vs the Selectors-4 table + case-folding provenance and i-flag plumbing on SSA + empty-value scenario reachability + escaping of quoted interpolations + division guards",
   text="Decides necessary conditions of selector matching/weighing: no parser output can reach a panicking default of a Match dispatcher; specificity constants and the max rule of :is/:not/:has are those of Selectors 4; combinators, attribute operators and structural pseudo-class names dispatch to the specified relation with the specified (a,b,last,ofType); names are ASCII-lowercased and the i flag reaches every comparison; substring/word operators cannot match with an empty value; printed selectors escape quoted values and use names the parser accepts. The matching algorithms themselves (sibling walks, an+b arithmetic, :empty, :lang) are not decided.",
   ref="4 C05"),
 "C06": dict(
   technique="constant evaluation of the tokenizer's lexical tables from the source: code point predicates evaluated for every code point 0..0x100 from their syntax trees, regular-expression constants extracted and matched against batteries derived from the CSS Syntax railroad diagrams, order and constants of the preprocessing replacements on SSA, case structure of the string consumer",
   text="Thin: decides that input preprocessing, the name-start / name / whitespace code point classes, the number and hex-escape grammars and the termination rules of quoted strings are those of CSS Syntax 3. Token values in general, url(), nested blocks, !important, source positions and error recovery (how much input a malformed construct consumes) quantify over all input strings and are not decided; that no cursor read leaves the input is decided under C07.R1, not here.",
   ref="4 C06, 12.6"),
 "C07": dict(
   technique="bounds/guard analysis over SSA (length by construction, path-condition reachability under len==n scenarios, inferred parameter preconditions checked at static and dynamic call sites, per-function tables of relational invariants) + hazard inventory (explicit panics, unchecked assertions, integer divisions) over the functions statically reachable from the parse entry points + dispatch-table totality",
   text="Decides necessary conditions of crash-freedom of the parsers of document text: every fixed-position read of a variable-length value is length-guarded (or is a counted, reasoned site), no explicit panic or unchecked assertion is reachable outside a reasoned table, no zero divisor, dispatch tables are total and validators/expanders are entered with tokens. Variable indices in general (444 sites counted in the evidence), nil dereferences, stack depth and termination are not decided.",
   ref="4 C07"),
 "C08": dict(
   technique="case-insensitivity taint over SSA (sources: identifier/unit/function-name/declaration-name fields; sanitisers: ASCII lowercasing; sinks: comparisons, prefix tests and table lookups against lettered constants; return summaries to a fixpoint) + shorthand table bijection and expander/longhand agreement on the AST + path-condition reachability under err != nil in the declaration loop + provenance of validated tokens + visited-set recursion guard",
   text="Decides necessary conditions of spelling-independence and of dropping bad declarations alone: no raw case-insensitive text reaches a lettered comparison or lookup; the shorthand tables are complete and inverse and expanders only emit declared longhands; a validation error only skips its own declaration; validators see whitespace-free tokens; var() resolution cannot recurse forever on a cycle. That each expander assigns the right tokens to the right longhand, reset-to-initial of omitted parts and var() substitution semantics are not decided.",
   ref="4 C08"),
 "C09": dict(
   technique="table agreement between the display validator/computer vocabulary and makeBox's display → box class switch (AST + constants) against the CSS Display table + must-precede order of the anonymous-box passes on SSA",
   text="Thin: decides that every display value that can be produced has the box class the CSS Display table prescribes, that the anonymous-box passes run in the required order, that the flex and grid item fix-ups apply to block-level and inline-level containers alike, that an element with display none reaches no box creation, style write or recursion in elementToBox, and that table cells span at least one column. What each rewriting pass does (block-in-inline splitting, table wrapping, blockification) and the table grid (spans) are not decided.",
   ref="4 C09"),
 "C10": dict(
   technique="provenance rules on SSA (field stored / accessor read / property id triple of every resolveOnePercentage call; trace of the reference length back to the components of the containing-block parameter, with the page-box test as path condition) + dominance order and write sets of the min/max wrappers + per-keyword dependence sets of the box-sizing adjustment (path-condition selection of phi edges)",
   text="Thin: decides that every percentage-resolved used value is stored in the field of the property it was read from and refers to the right dimension of the containing block (vertical margins/paddings to the width except for page boxes), that max is clamped before min with the wrapped function re-run and only the own axis written, that the box-sizing adjustment depends on the paddings/borders CSS names for each keyword, that side-mirrored assignment pairs are mirrored consistently and that sums over margins, paddings and borders use consistent sides (one reproduced flex defect fixed). The width equation 10.3.3, auto margins, margin collapsing and auto heights are numerical relations between runtime values and are not decided.",
   ref="4 C10"),
 "C11": dict(
   technique="keyword-set extraction of every white-space classification test (AST boolean chains over values derived from GetWhiteSpace) compared with the CSS Text classes and a per-function table confirmed by reading + validator/consumer vocabulary agreement",
   text="Thin: decides that each white-space test uses the right CSS Text class (collapse spaces / collapse newlines / wrap / no-wrap) at each site that the white-space and text-align vocabularies are handled by their consumers, and that the side-mirrored assignment pairs of the inline layout code are mirrored consistently. Widths, break opportunities and greedy filling are not decided.",
   ref="4 C11"),
 "C12": dict(
   technique="keyword-set extraction of the forced/avoid break predicates and of the sibling-resolution choice table (AST + constants) compared with the CSS Fragmentation sets + producer/consumer vocabulary agreement + division guard on the :nth() page arithmetic",
   text="Thin: decides that the forced and avoid break vocabularies are the CSS Fragmentation sets (column variants only in columns), that every break value the validators emit is classified, that forced beats avoid beats auto between siblings, that :nth() page matching never divides by zero, and that the box-edge sums of the fragmentation code use consistent sides. Page geometry, actual break positions, orphans/widows and blank-page insertion are not decided.",
   ref="4 C12"),
 "C13": dict(
   technique="SSA pattern rules on the grid slot assignment of wrapTable (loop cursor provenance, advance by colspan, rowspan clamp, occupied-column marking) + constant lower bounds of the span attributes + sibling symmetry, box-edge sums and argument/parameter name agreement on the table layout code",
   text="Thin: decides that a cell spans at least one column, that the slot assignment gives each cell the first column free of row-spanning cells, advances by the colspan, clamps the rowspan to the row group and marks exactly the cell's columns in the spanned rows (so two cells never receive the same slot), and that the table layout code is side-consistent. Column width distribution, row heights, border-spacing and every equality between cell edges are numerical relations between runtime values and are not decided.",
   ref="12.6"),
 "C14": dict(
   technique="typestate analysis of the backend's current path over SSA (states Empty/NonEmpty, per-entry-state function summaries to a fixpoint, closures entered at their OnNewStack site, CHA for interface calls, non-empty range loops, case split on enum parameters from call-site constant sets) + loop/dominance rules on the page protocol + path-condition guards on link resolution + provenance of metadata and font values",
   text="Decides structural necessary conditions of a well-formed drawing: (R1) every Paint/Clip of the drawing code is reached only with a path under construction (24 sites decided, 2 reasoned float-equality sites, 2 reproduced defects recorded as known findings); (R2) one AddPage per page in order and one CreateAnchors after the loop fed by resolveLinks; (R3) anchors are defined once (first id wins) and dangling internal links are dropped; (R4) each metadata field reaches its own backend setter from its own <meta>/<title>; (R5) text is drawn only from CreateFirstLine results whose fonts were registered by AddFont. Finiteness of numbers (NaN from degenerate sizes or zoom 0), the bookmark outline, per-canvas path separation and the order of graphic-state calls are not decided.",
   ref="4 C14"),
 "C15": dict(
   technique="field-sensitive shared-memory taint over SSA with strong updates and callee mutation/alias summaries to a fixpoint (seeds: declared values of computer functions, style accessor results, package-level variables) + lock-region check for memo caches + AST classifier of every map iteration (order-insensitive patterns, table confirmed by reading) + scan for nondeterminism sources, goroutines, channels and run-time stores to package-level variables",
   text="Decides necessary conditions of determinism and non-interference: no write into memory that outlives one computation (stylesheet values, initial values, globals) except mutex-guarded memo caches; every map iteration is order-insensitive by construction or a named, confirmed site; no clock/random/environment source, goroutine or channel. One reproduced defect (broken out-of-flow boxes re-laid in map order) is a known finding. Races inside dependencies, caller-supplied objects and three named not-decided map iterations (grid track sizing, ResumeStack.Unpack) are outside what is decided.",
   ref="4 C15"),
 "C17": dict(
   technique="polynomial value numbering of the matrix routines over SSA (exact rationals, uninterpreted trig) compared with specification matrices + AST/SSA checks of vocabulary, arity, argument order, composition order and origin conjugation",
   text="Decides that each routine of package matrix, as a polynomial in its inputs, equals the specification matrix (and in-place operations equal right multiplication by the constructor), that SVG transform.applyTo right-multiplies by the specified matrix per kind with degrees converted to radians, and that the CSS/SVG plumbing (names, arities, argument positions, left-to-right composition, transform-origin conjugation, angle-unit table) is as specified. Float rounding is outside the abstraction; the matrix finally handed to the backend is not traced further than getMatrix/applyTo.",
   ref="4 C17"),
 "C18": dict(
   technique="table agreement on the syntax tree of pathParser.addSeg (argument count per command against SVG 1.1 §8.3, relative/absolute pairing, emitted operations, reflection families, closepath state update on SSA) + recursion-guard idioms on <use> resolution and href inheritance",
   text="Thin: decides that each path command letter is handled with the SVG argument count, that lower-case letters switch to relative coordinates before sharing the upper-case code, that each command emits the operations SVG assigns to it (H/V keeping the other coordinate, Z returning to the sub-path start, smooth commands reflecting only after their own family), and that <use> (by id and URL) and href inheritance are cycle-guarded. All geometry (arcs, reflections, quadratic elevation, viewBox/preserveAspectRatio arithmetic, basic shapes) is not decided; the fixed-position reads of the SVG attribute parsers are decided under C07.",
   ref="4 C18"),
 "C19": dict(
   technique="division/modulo hazard analysis (path-condition reachability under divisor==0 and dividend<0 scenarios, coinductive loop-carried sign facts, caller-side preconditions) + vocabulary and dispatch-table agreement on the AST + visited-set (recursion guard) checks on SSA",
   text="Decides that no integer division or modulo of the counter renderer can see a zero divisor or index with a negative remainder, that the counter-system vocabulary agrees across validator, symbols(), Validate and renderer, that each system dispatches to its algorithm with the Counter Styles negative-sign set and automatic ranges, and that the extends/fallback walks use a visited set. The arithmetic of each system and counter scoping in the box tree are not decided.",
   ref="4 C19"),
 "C16": dict(
   technique="must-precede / no-way-back analysis on the SSA control-flow graph of drawStackingContext's closures + path-condition reachability over all orderings/truth assignments for the z-index partition and the stacking-context predicate + sort-call and comparator inspection",
   text="Decides that the Appendix E steps occur in order on every path of drawStackingContext (background, border, negative contexts, blocks, floats, inline content, cells, zero and positive contexts, outlines), that child contexts are partitioned by the sign of z-index and sorted stably with a strict comparison, and that a box starts a stacking context exactly under the four CSS conditions (all 32 assignments). How boxes are dispatched into the block/float/cell lists and the scoping of opacity/transform groups are not decided.",
   ref="4 C16"),
 "C20": dict(
   technique="constant propagation of the separator table's init loops (cross product of literals) compared with the CSS Syntax §9 fusing-pair oracle + vocabulary agreement with Kind.String() + ParseError kind coverage + escaper case sets",
   text="Decides necessary conditions of serialize/re-tokenize round-tripping: every fusing pair of adjacent token kinds gets a separator, no row of the table is dead through a misspelt kind, every token-level ParseError kind is serialisable, the string/url/name escapers cover the required characters, an escaped leading digit is a terminated escape, the character after a leading dash is escaped as an identifier start, units that look like an exponent are escaped with their own letter, and literal tokens that fuse (computed from the tokenizer's own vocabulary: `|` before `||` or `|=`) get a separator. Number representation (values built in code) is not decided.",
   ref="4 C20"),
}

NOT_APPLICABLE = {
 "C02": "conservation of text across line/page fragmentation is a multiset equality over runtime layout values and resume stacks; no clause is visible in the shape of the code (DESIGN.md section 5)",
}
NOT_YET = "static rules for this property are designed (DESIGN.md section 4) but not built yet in this tree; not claimed until they run clean and fire on their mutants"

ALL = ["C%02d" % i for i in range(1, 21)]

def main():
    checks = []
    for pid in ALL:
        if pid not in CLAIMED:
            continue
        c = CLAIMED[pid]
        checks.append({
            "property_id": pid,
            "quick_cmd": "./check.sh %s quick" % pid,
            "thorough_cmd": "./check.sh %s thorough" % pid,
            "evidence_file": "/verif/evidence/%s.json" % pid,
            "replay_cmd_template": "./check.sh %s quick  # re-evaluates the obligations listed in {path}" % pid,
            "engine": "wrverif",
            "level_claimed": {"category": "other", "text": c["text"], "design_ref": c["ref"]},
            "level_note": "Trusted base: go/packages + go/types + go/ssa (x/tools v0.29.0) faithfully represent /repo's working tree; the specification tables and the reasoned exception tables typed into checker/props. Decides the named structural clauses only, not the behaviour.",
            "technique": "static analysis: " + c["technique"],
        })
    na = []
    for pid in ALL:
        if pid in CLAIMED:
            continue
        na.append({"property_id": pid, "reason": NOT_APPLICABLE.get(pid, NOT_YET)})
    m = {
        "version": 1,
        "setup_cmd": "cd /verif/checker && GOFLAGS=-mod=mod GOPROXY=off GOSUMDB=off GOTOOLCHAIN=local GOWORK=off go build -o /verif/bin/wrverif ./cmd/wrverif",
        "hooks": {
            "guard": "none",
            "enable": "no hooks: the checks read /repo's source (go/packages) and never build or run it; there is no build tag",
            "baseline_off_cmd": "cd /repo && go test -vet=off -count=1 ./...",
            "source_commits": [],
            "add_only": True,
        },
        "engines": [{"name": "wrverif", "path": "/verif/checker", "serves_properties": sorted(CLAIMED), "kind_free_text": "repository-specific static analyser over go/types + go/ssa: table/vocabulary agreement, abstract folding, guarded-by, must-precede, hazard inventory"}],
        "checks": checks,
        "not_applicable": na,
        "notes": "Static analysis only. Every check loads /repo's current working tree with go/packages, builds SSA and evaluates the property's rules; nothing from /repo is executed. Known genuine defects are listed in /verif/known_findings.json.",
    }
    with open(os.path.join(HERE, "MANIFEST.json"), "w") as f:
        json.dump(m, f, indent=1)
        f.write("\n")

if __name__ == "__main__":
    main()
