#!/usr/bin/env python3
"""Developer self-test (not registered in MANIFEST): applies one small breaking edit at a time to a scratch
worktree of /repo (outside /repo and /verif, removed at the end) and checks that the named property's check
fires and names the expected rule. Also runs a few behaviour-preserving edits that must stay silent.
usage: tools/selftest.py [mutant-id ...]"""
import json, os, subprocess, sys, shutil, tempfile

VERIF = os.path.dirname(os.path.dirname(os.path.abspath(__file__)))
ENV = dict(os.environ, GOFLAGS="-mod=mod", GOPROXY="off", GOSUMDB="off", GOTOOLCHAIN="local", GOWORK="off")

# (id, property, expected rule substring ('' = must stay silent), file, old, new)
MUTANTS = [
 ("c03-less-strict", "C03", "C03.R2", "html/tree/style.go", "w.specificity.Less(other.specificity) || w.specificity == other.specificity", "w.specificity.Less(other.specificity)"),
 ("c03-swap-prec", "C03", "C03.R1", "html/tree/style.go", 'else if origin == "author" && !importance {\n\t\treturn 3', 'else if origin == "author" && !importance {\n\t\treturn 4'),
 ("c03-unguarded-write", "C03", "C03.R3", "html/tree/style.go", "\t\t\t\t\tif oldWeight.isNone() || oldWeight.Less(we) {\n\t\t\t\t\t\tstyle[decl.Name] = weigthedValue{weight: we, value: decl.Value, shortand: decl.Shortand}\n\t\t\t\t\t}\n\t\t\t\t}\n\t\t\t}\n\t\t}\n\t\tout.setComputedStyles", "\t\t\t\t\tif oldWeight.isNone() || oldWeight.Less(we) || decl.Important {\n\t\t\t\t\t\tstyle[decl.Name] = weigthedValue{weight: we, value: decl.Value, shortand: decl.Shortand}\n\t\t\t\t\t}\n\t\t\t\t}\n\t\t\t}\n\t\t}\n\t\tout.setComputedStyles"),
 ("c03-media-continue", "C03", "C03.R6", "html/tree/style.go", "\t\t\t\tignoreImports = true\n\t\t\t\tif !evaluateMediaQuery(media, deviceMediaType) {\n\t\t\t\t\tcontinue\n\t\t\t\t}", "\t\t\t\tignoreImports = true\n\t\t\t\tif !evaluateMediaQuery(media, deviceMediaType) && len(media) > 1 {\n\t\t\t\t\tcontinue\n\t\t\t\t}"),
 ("c03-style-attr", "C03", "C03.R4", "html/tree/style.go", "selector.Specificity{math.MaxInt32, 0, 0}", "selector.Specificity{math.MaxInt32 / math.MaxInt32, 0, 0}"),
 ("c04-pt-ratio", "C04", "C04.R3", "css/properties/datas.go", "Pt: 1. / 0.75,", "Pt: 1. / 0.72,"),
 ("c04-inherited-drop", "C04", "C04.R1", "css/properties/datas.go", "\t\tPVisibility,\n\t\tPWhiteSpace,", "\t\tPWhiteSpace,"),
 ("c04-rem-own", "C04", "C04.R8", "html/tree/computed_values.go", "result = value.Value * computer.rootStyle.fontSize.Value", "result = value.Value * fontSize"),
 ("c04-root-inherit", "C04", "C04.R", "html/tree/style.go", "\tif value == pr.Inherit && c.isRootElement() {\n\t\t// On the root element, \"inherit\" from initial values\n\t\t// (this also covers \"inherit\" obtained through var())\n\t\tvalue = pr.Initial\n\t}\n", ""),
 ("c04-validator-type", "C04", "C04.R2", "css/validation/validation.go", "\tcase \"separate\", \"collapse\":\n\t\treturn pr.String(keyword)", "\tcase \"separate\", \"collapse\":\n\t\treturn pr.Strings{keyword}"),
 ("c16-swap-8-9", "C16", "C16.R1", "html/document/draw.go", "for _, childContext := range stackingContext.zeroZContexts {\n\t\t\t\tctx.drawStackingContext(childContext)\n\t\t\t}\n\n\t\t\t// Point 9\n\t\t\tfor _, childContext := range stackingContext.positiveZContexts {", "for _, childContext := range stackingContext.positiveZContexts {\n\t\t\t\tctx.drawStackingContext(childContext)\n\t\t\t}\n\n\t\t\t// Point 9\n\t\t\tfor _, childContext := range stackingContext.zeroZContexts {"),
 ("c16-unstable-sort", "C16", "C16.R2", "html/document/stacking.go", "sort.SliceStable(self.positiveZContexts", "sort.Slice(self.positiveZContexts"),
 ("c16-leq-cmp", "C16", "C16.R2", "html/document/stacking.go", "return self.negativeZContexts[i].zIndex < self.negativeZContexts[j].zIndex", "return self.negativeZContexts[i].zIndex <= self.negativeZContexts[j].zIndex"),
 ("c16-opacity-pred", "C16", "C16.R3", "html/document/stacking.go", "if absoluteAndZIndex || style.GetOpacity() < 1 ||", "if absoluteAndZIndex ||"),
 ("c17-leftmult", "C17", "C17.R2", "html/document/document.go", "matrix.RightMultBy(rightMat) //", "matrix.LeftMultBy(rightMat) //"),
 ("c17-invert-sign", "C17", "C17.R1", "matrix/matrix.go", "T.C = -T.C / det", "T.C = T.C / det"),
 ("c17-svg-deg", "C17", "C17.R3", "svg/elements.go", "mat.Skew(thetaX*math.Pi/180, thetaY*math.Pi/180)", "mat.Skew(thetaX*math.Pi/180, thetaY)"),
 ("c17-skewy-axis", "C17", "C17.R2", "css/validation/validation.go", 'return pr.SDimensions{String: "skew", Dimensions: []pr.Dimension{pr.ZeroPixels, pr.FToD(pr.Fl(angle))}}, nil', 'return pr.SDimensions{String: "skew", Dimensions: []pr.Dimension{pr.FToD(pr.Fl(angle)), pr.ZeroPixels}}, nil'),
 ("c19-cyclic-mod", "C19", "C19.R1", "css/counters/counters.go", "index := ((value-1)%L + L) % L", "index := (value - 1) % L"),
 ("c19-neg-set", "C19", "C19.R2b", "css/counters/counters.go", 'useNegative = system == "symbolic" || system == "alphabetic" || system == "numeric" || system == "additive"', 'useNegative = system == "symbolic" || system == "alphabetic" || system == "numeric"'),
 ("c19-visited", "C19", "C19.R3", "css/counters/counters.go", "\t} else if previousTypes.Has(counterName) {\n\t\treturn nil\n\t}\n\tpreviousTypes.Add(counterName)", "\t}"),
 ("c20-drop-pair", "C20", "C20.R1", "css/parser/serialize.go", 'for _, a := range []string{"unicode-range", ".", "+"} {', 'for _, a := range []string{"unicode-range", "."} {'),
 ("c20-kind-rename", "C20", "C20.R2", "css/parser/tokenizer.go", 'return "at-keyword"', 'return "atkeyword"'),
 ("c05-op-added", "C05", "C05.R1", "css/selector/parser.go", 'case "=", "!=", "~=", "|=", "^=", "$=", "*=", "#=":', 'case "=", "!=", "~=", "|=", "^=", "$=", "*=", "#=", "%=":'),
 ("c05-spec-class", "C05", "C05.R3", "css/selector/selector.go", "func (c classSelector) Specificity() Specificity {\n\treturn Specificity{0, 1, 0}", "func (c classSelector) Specificity() Specificity {\n\treturn Specificity{0, 0, 1}"),
 ("c05-last-of-type", "C05", "C05.R6", "css/selector/parser.go", "out = nthPseudoClassSelector{a: 0, b: 1, ofType: true, last: true}", "out = nthPseudoClassSelector{a: 0, b: 1, ofType: false, last: true}"),
 ("c05-empty-prefix", "C05", "C05.R8", "css/selector/selector.go", "func attributePrefixMatch(key, val string, n *html.Node, ignoreCase bool) bool {\n\tif val == \"\" { // an empty value matches nothing\n\t\treturn false\n\t}\n", "func attributePrefixMatch(key, val string, n *html.Node, ignoreCase bool) bool {\n"),
 ("c05-unescaped", "C05", "C05.R9", "css/selector/serialize.go", 'val = fmt.Sprintf(`"%s"`, escapeString(val))', 'val = fmt.Sprintf(`"%s"`, val)'),
 ("c05-sibling-swap", "C05", "C05.R6", "css/selector/selector.go", "return siblingMatch(t.first, t.second, true, n)\n\tcase '~':\n\t\treturn siblingMatch(t.first, t.second, false, n)", "return siblingMatch(t.first, t.second, false, n)\n\tcase '~':\n\t\treturn siblingMatch(t.first, t.second, true, n)"),
 ("c09-inline-flex", "C09", "C09.R1", "html/boxes/build.go", "b = NewInlineFlexBox(style, (*html.Node)(element), pseudoType, content)", "b = NewFlexBox(style, (*html.Node)(element), pseudoType, content)"),
 ("c09-pass-order", "C09", "C09.R2", "html/boxes/build.go", "\tbox = InlineInBlock(box)\n\tbox = BlockInInline(box)\n\treturn box", "\tbox = BlockInInline(box)\n\tbox = InlineInBlock(box)\n\treturn box"),
 ("c11-ws-class", "C11", "C11.R1", "html/layout/inline.go", 'textWrap := ws == "normal" || ws == "pre-wrap" || ws == "pre-line"', 'textWrap := ws == "normal" || ws == "pre-line"'),
 ("c11-ws-class2", "C11", "C11.R1", "html/boxes/build.go", 'newLineCollapse := styleWhiteSpace == "normal" || styleWhiteSpace == "nowrap"', 'newLineCollapse := styleWhiteSpace == "normal" || styleWhiteSpace == "nowrap" || styleWhiteSpace == "pre-line"'),
 ("c12-force-verso", "C12", "C12.R1", "html/layout/blocks.go", 'return pageBreak == "page" || pageBreak == "left" || pageBreak == "right" || pageBreak == "recto" || pageBreak == "verso"\n}', 'return pageBreak == "page" || pageBreak == "left" || pageBreak == "right" || pageBreak == "recto"\n}'),
 ("c12-choice", "C12", "C12.R1", "html/layout/blocks.go", '\t\t{"page", "avoid-page"}:     true,\n', ''),
 ("c12-nth-zero", "C12", "C12.R2", "html/tree/style.go", "\t\tif a == 0 {\n\t\t\treturn offset == 0\n\t\t} else {\n\t\t\treturn offset/a >= 0 && offset%a == 0\n\t\t}", "\t\treturn offset/a >= 0 && offset%a == 0"),
 # --- rules built in later sessions
 ("c01-marker-case", "C01", "C01.R1", "html/boxes/build.go", '\tcase "before", "after", "marker":', '\tcase "before", "after":'),
 ("c01-new-keyword", "C01", "C01.R1", "css/validation/validation.go", '\tcase "fill", "contain", "cover", "none", "scale-down":\n\t\treturn pr.String(keyword)', '\tcase "fill", "contain", "cover", "none", "scale-down", "crop":\n\t\treturn pr.String(keyword)'),
 ("c01-leader-int", "C01", "C01.R2", "html/layout/leader.go", "numberOfLeaders := int(line.Width.V() / textBox.Width.V())", "numberOfLeaders := int(line.Width.V()) / int(textBox.Width.V())"),
 ("c01-use-remote", "C01", "C01.R3", "svg/elements.go", "\t\tcontext.inUseIDs.Add(url)\n", ""),
 ("c01-href-delete", "C01", "C01.R3", "svg/tree.go", '\tdelete(node.attrs, "href")\n', ''),
 ("c01-var-unscoped", "C01", "C01.R3", "html/tree/style.go", "\t\t\tvisiting.Add(variableName)\n\t\t\tdefer delete(visiting, variableName)\n\t\t}\n\t}\n", "\t\t}\n\t}\n\tvisiting.Add(variableName)\n\tdefer delete(visiting, variableName)\n"),
 ("c01-discarded-ok", "C01", "C01.R4", "svg/svg.go", "\t\t\t\tif child, ok := node.children[0].graphicContent.(*textSpan); ok {\n\t\t\t\t\ttextAnchor = child.textAnchor\n\t\t\t\t}", "\t\t\t\tchild, _ := node.children[0].graphicContent.(*textSpan)\n\t\t\t\ttextAnchor = child.textAnchor"),
 ("c01-unbounded-loop", "C01", "C01.R5", "html/layout/layout.go", "for loop := 0; loop < maxLoops; loop += 1 {", "for loop := 0; ; loop += 1 {"),
 ("c01-empty-marker", "C01", "C01.R7", "html/boxes/build.go", 'if markerText := cs.RenderMarker(style.GetListStyleType(), counterValue); markerText != "" {', 'if markerText := cs.RenderMarker(style.GetListStyleType(), counterValue); true {'),
 ("c07-array-index", "C07", "C07.R1", "svg/parser.go", "\t\tcopy(tr.args[:], points)\n", "\t\tfor i, p := range points {\n\t\t\ttr.args[i] = p\n\t\t}\n"),
 ("c07-len-guard", "C07", "C07.R1", "css/validation/expanders.go", "\tif len(chunks) != 2 {\n\t\treturn nil, ErrInvalidValue\n\t}\n\n\tvar (\n\t\tautoTrack = -1", "\tif len(chunks) < 2 {\n\t\treturn nil, ErrInvalidValue\n\t}\n\n\tvar (\n\t\tautoTrack = -1"),
 ("c08-var-descend", "C08", "C08.R5", "html/tree/style.go", "\t\treturn []Token{pa.NewFunctionBlock(token.Pos(), fn.Name, arguments)}, false\n", "\t\ttoken = pa.NewFunctionBlock(token.Pos(), fn.Name, arguments)\n\t\tif resolved, _ := resolveVar(computed, token, visiting); len(resolved) != 0 {\n\t\t\treturn resolved, false\n\t\t}\n\t\treturn []Token{token}, false\n"),
 ("c09-grid-class", "C09", "C09.R3", "html/boxes/build.go", "func gridChildren(box Box, children []Box) []Box {\n\tif GridContainerT.IsInstance(box) {", "func gridChildren(box Box, children []Box) []Box {\n\tif GridT.IsInstance(box) {"),
 ("c10-margin-getter", "C10", "C10.R1", "html/layout/percentages.go", "box.MarginRight = resolveOnePercentage(box.Style.GetMarginRight(), pr.PMarginRight, cbWidth.V(), 0)", "box.MarginRight = resolveOnePercentage(box.Style.GetMarginLeft(), pr.PMarginRight, cbWidth.V(), 0)"),
 ("c10-padding-ref", "C10", "C10.R1", "html/layout/percentages.go", "box.PaddingTop = resolveOnePercentage(box.Style.GetPaddingTop(), pr.PPaddingTop, maybeHeight.V(), 0)", "box.PaddingTop = resolveOnePercentage(box.Style.GetPaddingTop(), pr.PPaddingTop, cbHeight.V(), 0)"),
 ("c10-box-sizing", "C10", "C10.R3", "html/layout/percentages.go", '\tcase "padding-box":\n\t\thorizontalDelta = box.PaddingLeft.V() + box.PaddingRight.V()\n', '\tcase "padding-box":\n\t\thorizontalDelta = box.PaddingLeft.V() + box.PaddingRight.V() + box.BorderLeftWidth.V()\n'),
 ("c11-side-slip", "C11", "C11.R3", "html/layout/inline.go", "newBox.MarginBottom = halfLeading - newBox.BorderBottomWidth.V() - newBox.PaddingBottom.V()", "newBox.MarginBottom = halfLeading - newBox.BorderBottomWidth.V() - newBox.PaddingTop.V()"),
 ("c14-clip-no-path", "C14", "C14.R1", "svg/elements.go", "\t\tdst.Rectangle(0, 0, width, height)\n\t\tdst.State().Clip(false)", "\t\tdst.State().Clip(false)\n\t\tdst.Rectangle(0, 0, width, height)"),
 ("c14-empty-clip", "C14", "C14.R1", "html/document/draw.go", "\t\t\tif len(clippedBoxes) == 0 {\n", "\t\t\tif false {\n"),
 ("c14-anchor-twice", "C14", "C14.R3", "html/document/document.go", "\t\t\tif !anchors.Has(anchorName) {\n\t\t\t\tpos := page.anchors[anchorName]", "\t\t\tif true {\n\t\t\t\tpos := page.anchors[anchorName]"),
 ("c14-dangling-link", "C14", "C14.R3", "html/document/document.go", "\t\t\t\tif !anchors.Has(link.Target) {\n", "\t\t\t\tif !anchors.Has(link.Target) && link.Target == \"\" {\n"),
 ("c14-meta-swap", "C14", "C14.R4", "html/document/document.go", "target.SetCreator(d.Metadata.Generator)", "target.SetCreator(d.Metadata.Description)"),
 ("c14-font-cache", "C14", "C14.R5", "text/draw/draw_pango.go", "\t\t\toutRun.Font = (*pangoFont)(pFont)\n", "\t\t\toutRun.Font = (*pangoFont)(glyphItem.Item.Analysis.Font.(*fcfonts.Font))\n"),
 ("c15-grid-names", "C15", "C15.R1", "html/layout/grid.go", "\t\t\t\ttracksList = append(tracksList, copyNames(track))\n", "\t\t\t\ttracksList = append(tracksList, track)\n"),
 ("c15-hyphen-write", "C15", "C15.R1", "text/hyphen/hyphen.go", "\t\t\tdata := *index.Data\n", "\t\t\tdata := index.Data\n"),
 ("c18-arity", "C18", "C18.R1", "svg/elements_path.go", "if !c.hasSetsOrMore(6, rel) {", "if !c.hasSetsOrMore(4, rel) {"),
 ("c18-h-axis", "C18", "C18.R1", "svg/elements_path.go", "\t\t\tc.lineTo(p, c.currentY)\n", "\t\t\tc.lineTo(p, c.currentX)\n"),
 ("c06-crlf-order", "C06", "C06.R1", "css/parser/tokenizer.go", '\tcss = bytes.ReplaceAll(css, []byte("\\r\\n"), []byte("\\n"))\n\tcss = bytes.ReplaceAll(css, []byte("\\r"), []byte("\\n"))\n', '\tcss = bytes.ReplaceAll(css, []byte("\\r"), []byte("\\n"))\n\tcss = bytes.ReplaceAll(css, []byte("\\r\\n"), []byte("\\n"))\n'),
 ("c06-name-class", "C06", "C06.R2", "css/parser/tokenizer.go", "abcdefghijklmnopqrstuvwxyz-_0123456789ABCDEFGHIJKLMNOPQRSTUVWXYZ", "abcdefghijklmnopqrstuvwxyz_0123456789ABCDEFGHIJKLMNOPQRSTUVWXYZ"),
 ("c06-number-re", "C06", "C06.R3", "css/parser/tokenizer.go", "([eE][+-]?[0-9]+)?`)", "([eE][+-]?[0-9]*)?`)"),
 ("c14-swapped-args", "C14", "C14.R6", "html/document/document.go", "rectangleAabb(*matrix, posX, posY, width, height)", "rectangleAabb(*matrix, posX, posY, height, width)"),
 ("c09-colspan-zero", "C09", "C09.R5", "html/boxes/boxes_tree.go", 'Get("colspan"), 1, maxColspan)', 'Get("colspan"), 0, maxColspan)'),
 ("c10-flex-border", "C10", "C10.R5", "html/layout/flex.go", "child.BorderTopWidth.V() - child.BorderBottomWidth.V()", "child.BorderTopWidth.V() - child.BorderTopWidth.V()"),
 ("c19-extends-key", "C19", "C19.R3", "css/counters/counters.go", "\t\t\tpreviousTypes.Add(system)\n\n\t\t\textends, system = \"\", \"symbolic\"", "\t\t\tpreviousTypes.Add(counterName)\n\n\t\t\textends, system = \"\", \"symbolic\""),
 ("c19-numeric-one", "C19", "C19.R1", "css/counters/counters.go", "\tif len(symbols) < 2 {\n\t\treturn \"\", false\n\t}\n\tvar reversedParts []string", "\tif len(symbols) < 1 {\n\t\treturn \"\", false\n\t}\n\tvar reversedParts []string"),
 ("c08-clip-unreversed", "C08", "C08.R6", "css/validation/expanders.go", "\t\tresultsClips[left], resultsClips[right] = resultsClips[right], resultsClips[left]\n", ""),
 # --- folding / truth-table / linear-form rules
 ("c18-elevation", "C18", "C18.R4", "svg/elements_path.go", "const twoThird = 2. / 3", "const twoThird = 1. / 3"),
 ("c18-prime-sign", "C18", "C18.R4", "svg/elements_path.go", "py = Fl(-aSinEta*sinTheta + bCosEta*cosTheta)", "py = Fl(-aSinEta*sinTheta - bCosEta*cosTheta)"),
 ("c18-arc-flag", "C18", "C18.R5", "svg/elements_path.go", "points[4] == 0, points[3] == 0)", "points[4] != 0, points[3] == 0)"),
 ("c18-arc-k", "C18", "C18.R5", "svg/elements_path.go", "hr = math.Sqrt(*rb**rb-midlenSq) / math.Sqrt(midlenSq)", "hr = math.Sqrt(*rb**rb-midlenSq) / math.Sqrt(*rb**rb)"),
 ("c18-arc-radii", "C18", "C18.R5", "svg/elements_path.go", "\t\t\t*ra = *ra * nrb / *rb\n\t\t}\n\t\t*rb = nrb\n", "\t\t\t*rb = nrb\n\t\t\t*ra = *ra * nrb / *rb\n\t\t}\n\t\t*rb = nrb\n"),
 ("c18-ellipse-ctrl", "C18", "C18.R6", "svg/elements.go", "dst.CubicTo(cx-ratioX, cy+ry, cx-rx, cy+ratioY, cx-rx, cy)", "dst.CubicTo(cx-ratioX, cy+ry, cx-rx, cy-ratioY, cx-rx, cy)"),
 ("c18-rect-edge", "C18", "C18.R6", "svg/elements.go", "dst.LineTo(x+width, y+height-ry)", "dst.LineTo(x+width, y+height-rx)"),
 ("c18-rect-wh", "C18", "C18.R6", "svg/elements.go", "dst.Rectangle(x, y, width, height)", "dst.Rectangle(x, y, height, width)"),
 ("c06-rewind-semicolon", "C06", "C06.R6", "css/parser/parser.go", "tokens = NewIter(append(append(declarationTokens, semicolonToken...), tokens.tail()...))", "tokens = NewIter(append(declarationTokens, tokens.tail()...))"),
 ("c12-orphans-leq", "C12", "C12.R6", "html/layout/blocks.go", "\t\tif index < orphans {", "\t\tif index <= orphans {"),
 ("c12-widows-geq", "C12", "C12.R6", "html/layout/blocks.go", "if needed > overOrphans && !pageIsEmpty {", "if needed >= overOrphans && !pageIsEmpty {"),
 ("c12-page-half", "C12", "C12.R5", "html/layout/pages.go", "box.marginA = (remaining - box.inner.V()) / 2", "box.marginA = (remaining - box.inner.V()) / 3"),
 ("c11-lastchild-offset", "C11", "C11.R7", "html/layout/inline.go", "lastChild := index == len(box.Children)-1", "lastChild := index == L-1"),
 ("c11-anywhere-midline", "C11", "C11.R8", "text/engine_pango.go", "\tcanBreak := wordBreak == WBBreakAll ||\n\t\t(isLineStart && (overflowWrap == OAnywhere || (overflowWrap == OBreakWord && !minimum)))", "\tcanBreak := wordBreak == WBBreakAll || overflowWrap == OAnywhere ||\n\t\t(isLineStart && overflowWrap == OBreakWord && !minimum)"),
 ("c11-breakword-min", "C11", "C11.R8", "text/engine_gotext.go", "(isLineStart && (overflowWrap == OAnywhere || (overflowWrap == OBreakWord && !minimum)))", "(isLineStart && (overflowWrap == OAnywhere || overflowWrap == OBreakWord))"),
 ("c14-repeat-zero", "C14", "C14.R7", "html/layout/backgrounds.go", "nRepeats := utils.MaxInt(1, int(math.Round(float64(positioningHeight/imageHeight))))", "nRepeats := int(math.Round(float64(positioningHeight / imageHeight)))"),
 ("ok-orphans-respelled", "C12", "", "html/layout/blocks.go", "\t\tif index < orphans {", "\t\tif !(len(children) >= orphans+widows) {"),
 ("ok-canbreak-switch", "C11", "", "text/engine_gotext.go", "\tcanBreak := wordBreak == WBBreakAll ||\n\t\t(isLineStart && (overflowWrap == OAnywhere || (overflowWrap == OBreakWord && !minimum)))\n\tif space < 0 && canBreak {", "\tcanBreak := wordBreak == WBBreakAll\n\tif !canBreak && isLineStart {\n\t\tswitch overflowWrap {\n\t\tcase OAnywhere:\n\t\t\tcanBreak = true\n\t\tcase OBreakWord:\n\t\t\tcanBreak = !minimum\n\t\t}\n\t}\n\tif canBreak && !(space >= 0) {"),
 ("ok-repeat-clamp-if", "C14", "", "html/layout/backgrounds.go", "nRepeats := utils.MaxInt(1, int(math.Round(float64(positioningHeight/imageHeight))))", "nRepeats := int(math.Round(float64(positioningHeight / imageHeight)))\n\t\tif nRepeats < 1 {\n\t\t\tnRepeats = 1\n\t\t}"),
 ("c18-arc-group", "C18", "C18.R7", "svg/elements_path.go", "c.currentX, c.currentY = c.addArc(points, Fl(cx), Fl(cy), c.currentX, c.currentY)", "c.currentX, c.currentY = c.addArc(c.points, Fl(cx), Fl(cy), c.currentX, c.currentY)"),
 ("c02-relative-key", "C02", "C02.R1", "html/layout/tables.go", "indexRow := i + skip", "indexRow := i"),
 ("c02-earlier-line", "C02", "C02.R3", "html/layout/blocks.go", "resumeAt = tree.ResumeStack{0: newChildren[len(newChildren)-1].(*bo.LineBox).ResumeAt}", "resumeAt = tree.ResumeStack{0: children[index].(*bo.LineBox).ResumeAt}"),
 ("c02-dropped-resume", "C02", "C02.R2", "html/layout/flex.go", "\t\t\t\tchildResumeAt := tmp.resumeAt\n\t\t\t\tif newChild == nil {\n\t\t\t\t\tif resumeAt != nil {", "\t\t\t\tvar childResumeAt tree.ResumeStack\n\t\t\t\t_ = tmp\n\t\t\t\tif newChild == nil {\n\t\t\t\t\tif resumeAt != nil {"),
 ("c01-colspan-unbounded", "C01", "C01.R10", "html/boxes/boxes_tree.go", 'Get("colspan"), 1, maxColspan)', 'Get("colspan"), 1, 1<<62)'),
 # behaviour-preserving edits: must stay silent
 ("ok-key-commuted", "C02", "", "html/layout/tables.go", "indexRow := i + skip", "indexRow := skip + i"),
 ("ok-separate-negated", "C13", "", "html/layout/tables.go", "\tif table.Style.GetBorderCollapse() == \"separate\" {\n\t\tborderSpacingX", "\tif table.Style.GetBorderCollapse() != \"collapse\" {\n\t\tborderSpacingX"),
 ("ok-edge-cond-reordered", "C10", "", "html/layout/blocks.go", "if pr.Is(box.BorderBottomWidth) || pr.Is(box.PaddingBottom) ||", "if pr.Is(box.PaddingBottom) || pr.Is(box.BorderBottomWidth) ||"),
 ("ok-extremum-flipped", "C11", "", "html/layout/inline.go", "childrenMaxY != nil && childrenMaxY.V() > maxY.V()", "childrenMaxY != nil && maxY.V() < childrenMaxY.V()"),
 ("ok-sides-spelled-out", "C12", "", "html/layout/pages.go", "\t\tif directionLtr != breakVerso {", "\t\tif (directionLtr && !breakVerso) || (!directionLtr && breakVerso) {"),
 ("ok-snapshot-append", "C15", "", "html/boxes/build.go", "origQuoteDepth := make([]int, len(quoteDepth))", "origQuoteDepth := append([]int(nil), quoteDepth...)"),
 ("ok-depth-guarded", "C01", "", "html/boxes/build.go", "quoteDepth[0] = utils.MaxInt(0, quoteDepth[0]-1)", "if quoteDepth[0] > 0 {\n\t\t\t\t\t\tquoteDepth[0]--\n\t\t\t\t\t}"),
 ("ok-rewind-two-steps", "C06", "", "css/parser/parser.go", "\t\ttokens = NewIter(append(append(declarationTokens, semicolonToken...), tokens.tail()...))", "\t\trebuilt := append(declarationTokens, semicolonToken...)\n\t\ttokens = NewIter(append(rebuilt, tokens.tail()...))"),
 ("ok-rename-local", "C03", "", "html/tree/style.go", "oldWeight := style[decl.Name].weight\n\t\t\tif oldWeight.isNone() || oldWeight.Less(we) {", "previous := style[decl.Name].weight\n\t\t\tif previous.isNone() || previous.Less(we) {"),
 ("ok-early-continue", "C03", "", "html/tree/style.go", "\t\t\tif oldWeight.isNone() || oldWeight.Less(we) {\n\t\t\t\tstyle[decl.Name] = weigthedValue{weight: we, value: decl.Value, shortand: decl.Shortand}\n\t\t\t}\n\t\t}\n\t}\n\n\t// First, add", "\t\t\tif !(oldWeight.isNone() || oldWeight.Less(we)) {\n\t\t\t\tcontinue\n\t\t\t}\n\t\t\tstyle[decl.Name] = weigthedValue{weight: we, value: decl.Value, shortand: decl.Shortand}\n\t\t}\n\t}\n\n\t// First, add"),
 ("ok-grid-copy-form", "C15", "", "html/layout/grid.go", "\tnames, _ := track.(pr.GridNames)\n\treturn append(pr.GridNames(nil), names...)", "\tnames, _ := track.(pr.GridNames)\n\tout := make(pr.GridNames, len(names))\n\tcopy(out, names)\n\treturn out"),
 ("ok-marker-len", "C01", "", "html/boxes/build.go", 'markerText != "" {', 'len(markerText) != 0 {'),
 ("ok-clip-var", "C14", "", "html/document/draw.go", "\t\t\tif len(clippedBoxes) == 0 {\n", "\t\t\tif n := len(clippedBoxes); n == 0 {\n"),
 ("ok-space-formfeed", "C06", "", "css/parser/tokenizer.go", "return r == ' ' || r == '\\n' || r == '\\t'", "return r == ' ' || r == '\\n' || r == '\\t' || r == '\\f'"),
 ("ok-matrix-reorder", "C17", "", "matrix/matrix.go", "out.A = t1.A*t2.A + t1.C*t2.B", "out.A = t1.C*t2.B + t2.A*t1.A"),
 # --- session 5: behaviour-preserving respellings of repaired code must stay silent
 ("c07r9-rename-silent", "C07", "", "css/parser/tokenizer.go", "\t\tpos := tk.pos + 1\n\t\t// Name-start code point\n\t\tnameStart := pos < len(tk.src) && (isNameStart(tk.src, pos) || tk.src[pos] == '-')\n\t\t// Valid escape\n\t\tvalidEscape := pos < len(tk.src) && tk.src[pos] == '\\\\' && !bytes.HasPrefix(tk.src[pos:], []byte(\"\\\\\\n\"))", "\t\tnxt := tk.pos + 1\n\t\tif nxt >= len(tk.src) {\n\t\t\treturn false\n\t\t}\n\t\tnameStart := isNameStart(tk.src, nxt) || tk.src[nxt] == '-'\n\t\tvalidEscape := tk.src[nxt] == '\\\\' && !bytes.HasPrefix(tk.src[nxt:], []byte(\"\\\\\\n\"))"),
 ("c01r12-order-silent", "C01", "", "html/boxes/boxes.go", "\t\tif childStart != \"\" {\n\t\t\tstart = childStart\n\t\t}\n\t\tif childEnd != \"\" {\n\t\t\tend = childEnd\n\t\t}", "\t\tif childEnd != \"\" {\n\t\t\tend = childEnd\n\t\t}\n\t\tif childStart != \"\" {\n\t\t\tstart = childStart\n\t\t}"),
 ("c03r10-reset-silent", "C03", "", "html/tree/style.go", "\t\t\t\t\t// the error is local to this rule : the following\n\t\t\t\t\t// (nested) rules are not concerned\n\t\t\t\t\tvar err error\n", "\t\t\t\t\terr = nil // local to this rule\n"),
 ("c01r18-else-silent", "C01", "", "text/engine_pango.go", "\t\tif nextWordBoundaries != nil {\n\t\t\t// We have a word to hyphenate\n", "\t\tif hasWord := nextWordBoundaries != nil; hasWord {\n\t\t\t// We have a word to hyphenate\n"),
 # --- session 6
 ("c08-var-noadd", "C08", "C08.R5", "html/tree/style.go", "\t\t\tvisiting.Add(variableName)\n\t\t\tdefer delete(visiting, variableName)\n", ""),
 ("c08-var-invalid-dropped", "C08", "C08.R16", "html/tree/style.go", "\t\t\tif invalid {\n\t\t\t\tsolvedTokens, invalidVar = rawTokens, true\n\t\t\t\tbreak\n\t\t\t}\n", "\t\t\t_ = invalid\n"),
 ("c08-var-final-valid", "C08", "C08.R16", "html/tree/style.go", "\t\treturn computedValue, false\n\t}\n\treturn nil, true\n}\n", "\t\treturn computedValue, false\n\t}\n\treturn []Token{}, false\n}\n"),
 ("c08-var-fallback-args", "C08", "C08.R17", "html/tree/style.go", "\t\t\tdefault_, hasDefault = pa.RemoveWhitespace(fn.Arguments[i+1:]), true\n", "\t\t\tdefault_, hasDefault = args[1:], true\n\t\t\t_ = i\n"),
 ("c20-identfuse-swap", "C20", "C20.R8", "css/parser/serialize.go", 'case "--":\n\t\treturn next == ">"', 'case "--":\n\t\treturn next == "+"'),
 ("c20-identfuse-upper", "C20", "C20.R8", "css/parser/serialize.go", 'case "u", "U":', 'case "u":'),
 ("c20-url-ctrl", "C20", "C20.R4", "css/parser/serialize.go", "if strings.ContainsRune(nonPrintable, c) {", "if c == 0x7f {"),
 ("c20-backslash-ok-only", "C20", "C20.R7", "css/parser/serialize.go", '\t\t\tok = ok && strings.HasPrefix(whitespace.Value, "\\n")\n', "\t\t\t_ = whitespace\n"),
 ("c18-circle-width", "C18", "C18.R11", "svg/elements.go", "\t\trx = dims.length(e.rx)\n", "\t\trx, _ = dims.point(e.rx, e.rx)\n"),
 ("c18-rect-copy", "C18", "C18.R11", "svg/elements.go", "\t\trx = r.rx.Resolve(dims.fontSize, dims.innerHeight)\n", "\t\trx = r.rx.Resolve(dims.fontSize, dims.innerWidth)\n"),
 ("c07-arity-counters", "C07", "C07.R12", "css/validation/utils.go", "\t\tif la != 3 && la != 4 {\n", "\t\tif la != 2 && la != 4 {\n"),
 ("c01-margin-range", "C01", "C01.R22", "html/layout/pages.go", "\tfor i := 0; i < len(positionedBoxes); i++ { // note that positionedBoxes may grow over the loop\n\t\tabsoluteLayout(context, positionedBoxes[i], mBox, &positionedBoxes, 0, nil)\n", "\tfor _, absBox := range positionedBoxes {\n\t\tabsoluteLayout(context, absBox, mBox, &positionedBoxes, 0, nil)\n"),
 ("c11-spacewidth-new", "C11", "C11.R12", "html/layout/inline.go", "\t\tspaceWidth = textBox.Width.V() - newBox.Box().Width.V()\n", "\t\tspaceWidth = newBox.Box().Width.V() - textBox.Width.V()\n"),
 ("c10-minwidth-guard", "C10", "C10.R14", "html/layout/percentages.go", "\t\tif box.MinWidth != pr.AutoF {\n\t\t\tbox.MinWidth = pr.Max(0, box.MinWidth.V()-horizontalDelta)\n", "\t\tif box.MinWidth != pr.AutoF && box.Width != pr.AutoF {\n\t\t\tbox.MinWidth = pr.Max(0, box.MinWidth.V()-horizontalDelta)\n"),
 # behaviour-preserving: must stay silent
 ("silent-c10-delta-order", "C10", "", "html/layout/percentages.go", "\t\tbox.MaxWidth = pr.Max(0, box.MaxWidth.V()-horizontalDelta)\n\t\tif box.MinWidth != pr.AutoF {\n\t\t\tbox.MinWidth = pr.Max(0, box.MinWidth.V()-horizontalDelta)\n\t\t}\n", "\t\tif box.MinWidth != pr.AutoF {\n\t\t\tbox.MinWidth = pr.Max(0, box.MinWidth.V()-horizontalDelta)\n\t\t}\n\t\tbox.MaxWidth = pr.Max(0, box.MaxWidth.V()-horizontalDelta)\n"),
 ("silent-c20-backslash-byte", "C20", "", "css/parser/serialize.go", '\t\t\tok = ok && strings.HasPrefix(whitespace.Value, "\\n")\n', '\t\t\tok = ok && len(whitespace.Value) > 0 && whitespace.Value[0] == \'\\n\'\n'),
 # --- rules written for the repairs after batch 11
 ("c08-csswide-helper", "C08", "", "css/validation/expanders.go", "\t\tfor _, token := range tokens {\n\t\t\tif keyword := getKeyword(token); keyword == \"inherit\" || keyword == \"initial\" {\n\t\t\t\treturn nil, fmt.Errorf(\"%s among several values\", keyword)\n\t\t\t}\n\t\t}\n", "\t\tisCSSWide := func(t Token) bool { k := getKeyword(t); return k == \"inherit\" || k == \"initial\" }\n\t\tfor _, token := range tokens {\n\t\t\tif isCSSWide(token) {\n\t\t\t\treturn nil, fmt.Errorf(\"css-wide keyword among several values\")\n\t\t\t}\n\t\t}\n"),
 ("c08-csswide-initial", "C08", "C08.R22", "css/validation/expanders.go", "if keyword := getKeyword(token); keyword == \"inherit\" || keyword == \"initial\" {", "if keyword := getKeyword(token); keyword == \"inherit\" {"),
 ("c08-csswide-len2", "C08", "C08.R22", "css/validation/expanders.go", "\tif len(tokens) > 1 {\n\t\tfor _, token := range tokens {\n\t\t\tif keyword := getKeyword(token)", "\tif len(tokens) > 2 {\n\t\tfor _, token := range tokens {\n\t\t\tif keyword := getKeyword(token)"),
 ("c18-radii-eq", "C18", "C18.R18", "svg/elements.go", "if rx <= 0 || ry <= 0 { // a negative radius is invalid", "if rx == 0 || ry <= 0 {"),
 ("c18-radii-demorgan", "C18", "", "svg/elements.go", "if rx <= 0 || ry <= 0 { // no border radius (a negative radius is invalid)", "if !(rx > 0 && ry > 0) {"),
 ("c18-viewbox-width-only", "C18", "C18.R19", "svg/tree.go", "(v.Width < 0 || v.Height < 0)", "(v.Width < 0)"),
 ("c18-nested-height", "C18", "C18.R20", "svg/elements.go", "\t\tif h.U == 0 {\n\t\t\th = Value{100, Perc}\n\t\t}\n\t\twidth, height = dims.point(w, h)", "\t\twidth, height = dims.point(w, h)"),
 ("c19-desc-append", "C19", "C19.R17", "css/validation/descriptors.go", "\tout.Symbols = l\n", "\tout.Symbols = append(out.Symbols, l...)\n"),
 ("c19-desc-early-write", "C19", "C19.R17", "css/validation/descriptors.go", "\tv, err := pad_(tokens, baseUrl)\n\tif err != nil {\n\t\treturn err\n\t}\n\tout.Pad = v\n\treturn nil", "\tv, err := pad_(tokens, baseUrl)\n\tout.Pad = v\n\treturn err"),
 ("c08-var-comma-any", "C08", "C08.R21", "css/parser/tokenizer.go", "if lastIsComma && name != \"var\" {", "if lastIsComma {"),
 ("c08-var-empty-len", "C08", "C08.R16", "html/tree/style.go", "\tif hasDefault {\n\t\tsources", "\tif hasDefault && len(default_) != 0 {\n\t\tsources"),
 ("c08-fontface-src-append", "C08", "C08.R23", "css/validation/descriptors.go", "\tout.Src = l // a repeated descriptor replaces the previous one\n", "\tout.Src = append(out.Src, l...)\n"),
 # --- rules written for batch 12: behaviour-preserving forms that must stay silent
 ("c02-insert-copy-form", "C02", "", "html/document/stacking.go", "\t*a = append((*a)[:i], append([]StackingContext{item}, (*a)[i:]...)...)\n", "\t*a = append(*a, item)\n\tcopy((*a)[i+1:], (*a)[i:])\n\t(*a)[i] = item\n"),
 ("c14-critical-positive-form", "C14", "", "svg/bounding_box.go", "\t\tif !(0 <= t && t <= 1) {\n\t\t\tcontinue\n\t\t}\n\t\tx, y := curve.evaluateCurve(t)\n\n\t\tbbox = append(bbox, point{x, y})\n", "\t\tif t >= 0 && t <= 1 {\n\t\t\tx, y := curve.evaluateCurve(t)\n\t\t\tbbox = append(bbox, point{x, y})\n\t\t}\n"),
 ("c01-repeat-two-tests", "C01", "", "css/counters/counters.go", "\t\tif repetitions < 0 || repetitions > maxSymbolRepeat {\n\t\t\treturn \"\", false\n\t\t}\n", "\t\tif repetitions < 0 {\n\t\t\treturn \"\", false\n\t\t}\n\t\tif repetitions > maxSymbolRepeat {\n\t\t\treturn \"\", false\n\t\t}\n"),
 ("c13-spacing-local", "C13", "", "html/layout/preferred.go", "\t\t\tspacing = pr.Float(cell.Colspan-1) * table.Style.GetBorderSpacing()[0].Value\n", "\t\t\tsp := table.Style.GetBorderSpacing()\n\t\t\tspacing = pr.Float(cell.Colspan-1) * sp[0].Value\n"),
 ("c03-flag-reset-form", "C03", "", "css/validation/validation.go", "\t\t\tvar declarationPrelude []Token\n\t\t\tfor i, part := range pa.SplitOnComma(declaration.Prelude) {\n\t\t\t\tif i != 0 {\n\t\t\t\t\tdeclarationPrelude = append(declarationPrelude, pa.NewLiteral(\",\", pos11))\n\t\t\t\t}\n\t\t\t\thasNesting := false\n", "\t\t\tvar (\n\t\t\t\tdeclarationPrelude []Token\n\t\t\t\thasNesting         bool\n\t\t\t)\n\t\t\tfor i, part := range pa.SplitOnComma(declaration.Prelude) {\n\t\t\t\thasNesting = false\n\t\t\t\tif i != 0 {\n\t\t\t\t\tdeclarationPrelude = append(declarationPrelude, pa.NewLiteral(\",\", pos11))\n\t\t\t\t}\n"),
 ("c16-sort-unstable-again", "C16", "C16.R13", "html/layout/grid.go", "sort.SliceStable(children, func(i, j int) bool { return children[i].Box().Style.GetOrder()", "sort.Slice(children, func(i, j int) bool { return children[i].Box().Style.GetOrder()"),
 ("c01-nilcheck-dropped", "C01", "C01.R33", "svg/elements.go", "\t\tif intrinsicRatio == nil { // default object size\n\t\t\tintrinsicHeight = pr.Float(150)\n\t\t} else {\n\t\t\tintrinsicHeight = intrinsicWidth.V() / intrinsicRatio.V()\n\t\t}\n", "\t\tintrinsicHeight = intrinsicWidth.V() / intrinsicRatio.V()\n"),
 # --- batch 13: behaviour-preserving forms
 ("c10-lastinflow-index-form", "C10", "", "html/layout/blocks.go", "\tfor _, previousChild := range reversedBoxes(newChildren) {\n\t\tif previousChild.Box().IsInNormalFlow() {\n\t\t\tlastInFlowChild = previousChild\n\t\t\tbreak\n\t\t}\n\t}\n\tcollapsingThrough := false", "\tfor k := len(newChildren) - 1; k >= 0; k-- {\n\t\tif newChildren[k].Box().IsInNormalFlow() {\n\t\t\tlastInFlowChild = newChildren[k]\n\t\t\tbreak\n\t\t}\n\t}\n\tcollapsingThrough := false"),
 ("c18-path-make-copy", "C18", "", "svg/elements_path.go", "\treturn append([]pathItem(nil), c.path...), nil\n", "\tout := make([]pathItem, len(c.path))\n\tcopy(out, c.path)\n\treturn out, nil\n"),
 ("c07-year-d4", "C07", "", "utils/html.go", "`(?P<year>\\d\\d\\d\\d)` +", "`(?P<year>\\d{4})` +"),
 ("c07-year-unbounded", "C07", "C07.R14", "utils/html.go", "`(?P<year>\\d\\d\\d\\d)` +", "`(?P<year>\\d+)` +"),
 ("c02-fixedheight-page", "C02", "C02.R15", "html/layout/blocks.go", "if overflows(box.PositionY+box.Height.V(), positionY) {", "if context.overflowsPage(box.PositionY+box.Height.V(), positionY) {"),
 ("c16-viewport-local", "C16", "", "html/boxes/build.go", "\trootBox.Box().ViewportOverflow = string(chosenBox.Box().Style.GetOverflow())\n\tchosenBox.Box().Style.SetOverflow(\"visible\")\n", "\tchosen := chosenBox.Box()\n\trootBox.Box().ViewportOverflow = string(chosen.Style.GetOverflow())\n\tchosen.Style.SetOverflow(\"visible\")\n"),
 ("c01-root-flag-form", "C01", "", "html/boxes/build.go", "\tif style.GetFloat() == \"footnote\" && state != nil {\n", "\tisRoot := state == nil\n\tif style.GetFloat() == \"footnote\" && !isRoot {\n"),
 ("c14-critical-isnan-form", "C14", "", "svg/bounding_box.go", "\t\tif !(0 <= t && t <= 1) {\n\t\t\tcontinue\n\t\t}\n", "\t\tif t < 0 || t > 1 || math.IsNaN(float64(t)) {\n\t\t\tcontinue\n\t\t}\n"),
 ("c18-radii-clamp-form", "C18", "", "svg/elements.go", "\trx, ry := e.radii(dims)\n\tif rx <= 0 || ry <= 0 { // a negative radius is invalid\n\t\treturn nil\n\t}\n", "\trx, ry := e.radii(dims)\n\tif rx < 0 {\n\t\trx = 0\n\t}\n\tif ry < 0 {\n\t\try = 0\n\t}\n\tif rx == 0 || ry == 0 {\n\t\treturn nil\n\t}\n"),
 ("c01-repeat-maxint-form", "C01", "", "css/counters/counters.go", "\t\tif repetitions < 0 || repetitions > maxSymbolRepeat {\n\t\t\treturn \"\", false\n\t\t}\n\t\tparts = append(parts, strings.Repeat(symbol(vs.NamedString), repetitions))", "\t\tif repetitions > maxSymbolRepeat {\n\t\t\treturn \"\", false\n\t\t}\n\t\tparts = append(parts, strings.Repeat(symbol(vs.NamedString), utils.MaxInt(0, repetitions)))"),
 ("c08-var-comma-index-form", "C08", "", "html/tree/style.go", "\tvar (\n\t\tdefault_   []Token\n\t\thasDefault bool // the default value may be empty: var(--a,)\n\t)\n\tfor i, argument := range fn.Arguments {\n\t\tif pa.IsLiteral(argument, \",\") {\n\t\t\tdefault_, hasDefault = pa.RemoveWhitespace(fn.Arguments[i+1:]), true\n\t\t\tbreak\n\t\t}\n\t}\n", "\tvar default_ []Token\n\thasDefault := false\n\tfor i := 0; i < len(fn.Arguments) && !hasDefault; i++ {\n\t\tif pa.IsLiteral(fn.Arguments[i], \",\") {\n\t\t\tdefault_ = pa.RemoveWhitespace(fn.Arguments[i+1:])\n\t\t\thasDefault = true\n\t\t}\n\t}\n"),
 ("c19-desc-local-first", "C19", "", "css/validation/descriptors.go", "\tout.Symbols = l\n\treturn nil\n", "\tif len(l) >= 0 {\n\t\tout.Symbols = l\n\t}\n\treturn nil\n"),
 ("c13-extent-loop-form", "C13", "", "html/layout/tables.go", "\t\tcolumns := group.Children\n\t\tfor len(columns) > 1 && columns[len(columns)-1].Box().GridX >= len(table.ColumnPositions) {\n\t\t\tcolumns = columns[:len(columns)-1]\n\t\t}\n", "\t\tcolumns := group.Children\n\t\tfor {\n\t\t\tif len(columns) <= 1 || columns[len(columns)-1].Box().GridX < len(table.ColumnPositions) {\n\t\t\t\tbreak\n\t\t\t}\n\t\t\tcolumns = columns[:len(columns)-1]\n\t\t}\n"),
 ("c08-parsefunction-nested-if", "C08", "", "css/parser/tokenizer.go", "\tif lastIsComma && name != \"var\" { // var(--a,) has an empty fallback\n\t\treturn \"\", nil\n\t}\n\treturn name, arguments", "\tif lastIsComma {\n\t\tif name == \"var\" {\n\t\t\treturn name, arguments\n\t\t}\n\t\treturn \"\", nil\n\t}\n\treturn name, arguments"),
 ("c18-size-helper-form", "C18", "", "svg/svg.go", "\tw, h := svg.root.width, svg.root.height\n\tif w.U == 0 {\n\t\tw = Value{100, Perc}\n\t}\n\tif h.U == 0 {\n\t\th = Value{100, Perc}\n\t}\n\treturn w, h\n}", "\torAuto := func(v Value) Value {\n\t\tif v.U == 0 {\n\t\t\treturn Value{100, Perc}\n\t\t}\n\t\treturn v\n\t}\n\treturn orAuto(svg.root.width), orAuto(svg.root.height)\n}"),
 ("c02-fixedheight-inline-form", "C02", "", "html/layout/blocks.go", "if overflows(box.PositionY+box.Height.V(), positionY) {", "if positionY > (box.PositionY+box.Height.V())*(1+1e-9) {"),
 ("c18-viewbox-early-error", "C18", "", "svg/tree.go", "\t\tif err == nil && (v.Width < 0 || v.Height < 0) {\n\t\t\t// a negative size invalidates the attribute\n\t\t\treturn nil, nil\n\t\t}\n\t\treturn &v, err", "\t\tif err != nil {\n\t\t\treturn &v, err\n\t\t}\n\t\tif v.Width < 0 || v.Height < 0 {\n\t\t\treturn nil, nil\n\t\t}\n\t\treturn &v, nil"),
 ("c08-none-equalfold", "C08", "", "css/validation/validation.go", "\t\tif utils.AsciiLower(name) == \"none\" { // the keyword is case-insensitive, the names of styles are not\n", "\t\tif strings.EqualFold(name, \"none\") {\n"),
 ("c01-grid-product", "C01", "", "html/boxes/build.go", "\tif gridWidth == 0 || gridHeight == 0 {\n\t\t// Don’t bother with empty tables", "\tif gridWidth*gridHeight == 0 {\n\t\t// Don’t bother with empty tables"),
 ("c01-nesting-size-compare", "C01", "", "css/validation/validation.go", "\t\t\tif budget := maxNestedSelectorSize; exceedsSize(declarationPrelude, &budget) {\n", "\t\t\tif countTokens := func(l []Token) int { b := maxNestedSelectorSize + 1; exceedsSize(l, &b); return maxNestedSelectorSize + 1 - b }; countTokens(declarationPrelude) > maxNestedSelectorSize {\n"),
 ("c18-use-len-form", "C18", "", "svg/elements.go", "\tif node.attrs[\"href\"] == \"\" { // nothing is referenced\n", "\tif len(node.attrs[\"href\"]) == 0 {\n"),
 ("c01-nesting-size-leq", "C01", "", "css/validation/validation.go", "\t\t\tif budget := maxNestedSelectorSize; exceedsSize(declarationPrelude, &budget) {\n", "\t\t\tif countTokens := func(l []Token) int { b := maxNestedSelectorSize + 1; exceedsSize(l, &b); return maxNestedSelectorSize + 1 - b }; !(countTokens(declarationPrelude) <= maxNestedSelectorSize) {\n"),
 ("c06-firsttoken-typeswitch", "C06", "", "css/parser/parser.go", "\tif _, isCurly := firstToken.(CurlyBracketsBlock); !IsLiteral(firstToken, \";\") && !isCurly {\n", "\tisCurly := false\n\tswitch firstToken.(type) {\n\tcase CurlyBracketsBlock:\n\t\tisCurly = true\n\t}\n\tif !IsLiteral(firstToken, \";\") && !isCurly {\n"),
 # --- generic respellings of older anchors
 ("c16-partition-switch-form", "C16", "", "html/document/stacking.go", "\t\tif context.zIndex < 0 {\n\t\t\tself.negativeZContexts = append(self.negativeZContexts, context)\n\t\t} else if context.zIndex == 0 {\n\t\t\tself.zeroZContexts = append(self.zeroZContexts, context)\n\t\t} else { // context.zIndex > 0\n\t\t\tself.positiveZContexts = append(self.positiveZContexts, context)\n\t\t}\n", "\t\tswitch z := context.zIndex; {\n\t\tcase z > 0:\n\t\t\tself.positiveZContexts = append(self.positiveZContexts, context)\n\t\tcase z < 0:\n\t\t\tself.negativeZContexts = append(self.negativeZContexts, context)\n\t\tdefault:\n\t\t\tself.zeroZContexts = append(self.zeroZContexts, context)\n\t\t}\n"),
 ("c16-sort-greater-swapped", "C16", "", "html/document/stacking.go", "\t\treturn self.positiveZContexts[i].zIndex < self.positiveZContexts[j].zIndex\n", "\t\treturn self.positiveZContexts[j].zIndex > self.positiveZContexts[i].zIndex\n"),
 ("c18-viewbox-scale-else-form", "C18", "", "svg/svg.go", "\tif viewboxWidth != 0 {\n\t\tscaleX = width / viewboxWidth\n\t}\n", "\tif viewboxWidth == 0 {\n\t\tscaleX = 1\n\t} else {\n\t\tscaleX = width / viewboxWidth\n\t}\n"),
 ("c03-less-negated-form", "C03", "", "html/tree/style.go", "(w.specificity.Less(other.specificity) || w.specificity == other.specificity))", "!other.specificity.Less(w.specificity))"),
 ("c04-pt-ratio-4-3", "C04", "", "css/properties/datas.go", "Pt: 1. / 0.75,", "Pt: 4. / 3.,"),
 ("c19-cyclic-mod-if-form", "C19", "", "css/counters/counters.go", "\tindex := ((value-1)%L + L) % L\n", "\tindex := (value - 1) % L\n\tif index < 0 {\n\t\tindex += L\n\t}\n"),
 ("c17-invert-neg-det", "C17", "", "matrix/matrix.go", "T.C = -T.C / det", "T.C = T.C / -det"),
 ("c20-pairs-reordered", "C20", "", "css/parser/serialize.go", "for _, a := range []string{\"unicode-range\", \".\", \"+\"} {", "for _, a := range []string{\"+\", \"unicode-range\", \".\"} {"),
 ("c01-loop-neq-form", "C01", "C01.R5", "html/layout/layout.go", "for loop := 0; loop < maxLoops; loop += 1 {", "for loop := 0; loop != maxLoops; loop++ {"),
]

def main():
    want = set(sys.argv[1:])
    tmp = tempfile.mkdtemp(prefix="wrv_selftest_")
    wt = os.path.join(tmp, "repo")
    vdir = os.path.join(tmp, "verif")
    os.makedirs(vdir)
    shutil.copy(os.path.join(VERIF, "known_findings.json"), vdir)
    subprocess.check_call(["git", "-C", "/repo", "worktree", "add", "--detach", "-q", wt, "HEAD"])
    subprocess.check_call(["go", "build", "-o", os.path.join(tmp, "wrverif"), "./cmd/wrverif"], cwd=os.path.join(VERIF, "checker"), env=ENV)
    results = []
    try:
        for mid, prop, rule, f, old, new in MUTANTS:
            if want and mid not in want:
                continue
            path = os.path.join(wt, f)
            src = open(path).read()
            if old not in src:
                results.append((mid, "STALE", "pattern not found in " + f))
                continue
            open(path, "w").write(src.replace(old, new, 1))
            b = subprocess.run(["go", "build", "./..."], cwd=wt, env=ENV, capture_output=True, text=True)
            if b.returncode != 0:
                results.append((mid, "NOCOMPILE", b.stderr.strip().splitlines()[-1] if b.stderr.strip() else ""))
                open(path, "w").write(src)
                continue
            r = subprocess.run([os.path.join(tmp, "wrverif"), "-repo", wt, "-verif", vdir, "-property", prop], env=ENV, capture_output=True, text=True)
            fired = [l.split()[0] for l in r.stdout.splitlines() if l.startswith("  " + prop + ".")]
            if rule == "":
                ok = r.returncode == 0
                results.append((mid, "OK-silent" if ok else "FALSE-ALARM", ",".join(sorted(set(fired)))))
            else:
                ok = r.returncode == 1 and any(rule in x for x in fired)
                results.append((mid, "CAUGHT" if ok else "MISSED", ",".join(sorted(set(fired))) or ("exit %d" % r.returncode)))
            open(path, "w").write(src)
    finally:
        subprocess.call(["git", "-C", "/repo", "worktree", "remove", "--force", wt])
        shutil.rmtree(tmp, ignore_errors=True)
    bad = 0
    for mid, status, detail in results:
        print("%-22s %-12s %s" % (mid, status, detail))
        if status not in ("CAUGHT", "OK-silent"):
            bad += 1
    print("%d mutants, %d not as expected" % (len(results), bad))
    sys.exit(1 if bad else 0)

if __name__ == "__main__":
    main()
