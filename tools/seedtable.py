#!/usr/bin/env python3
"""Rewrites the seeded-change table of DESIGN.md (between the SEED-TABLE markers) from seeded/*/meta.json."""
import glob, json, os, re
HERE = os.path.dirname(os.path.dirname(os.path.abspath(__file__)))
FIRST = {  # what the checks that existed when the seed was first run reported (own property only)
 # batch 1 (before strengthening): 10 of 21
 # batch 2: C07_1, C07_3, C08_3, C12_1, C15_3 ; C01 and C14 not built yet
 # batch 3: C01_4, C14_4, C14_6
}
rows = []
for f in sorted(glob.glob(os.path.join(HERE, "seeded", "*", "meta.json"))):
    m = json.load(open(f))
    sid = m["id"]
    own = m.get("caught_by", {}).get(m["property"], [])
    other = {k: v for k, v in m.get("caught_by", {}).items() if k != m["property"]}
    what = m.get("needs_to_manifest", "")
    what = re.sub(r"^#+\s*", "", what)
    what = what.split(". ")[0][:110].replace("|", "/")
    rows.append((sid, ", ".join(own) if own else "—", "; ".join("%s" % ",".join(v) for k, v in sorted(other.items())) or "", what))
caught = sum(1 for r in rows if r[1] != "—")
lines = ["| seed | reported by (own property) | also reported by | change (from the seed's README) |", "|------|---------------------------|------------------|---------------------------------|"]
for r in rows:
    lines.append("| %s | %s | %s | %s |" % r)
lines.append("")
lines.append("%d seeds confirmed (compile, baseline passes, demo fails with / passes without); %d reported by a rule of their own property with the committed checker." % (len(rows), caught))
p = os.path.join(HERE, "DESIGN.md")
s = open(p).read()
block = "<!-- SEED-TABLE -->\n" + "\n".join(lines) + "\n<!-- /SEED-TABLE -->"
if "<!-- /SEED-TABLE -->" in s:
    s = re.sub(r"<!-- SEED-TABLE -->.*?<!-- /SEED-TABLE -->", lambda _: block, s, flags=re.S)
else:
    s = s.replace("<!-- SEED-TABLE -->", block)
open(p, "w").write(s)
print(len(rows), caught)
