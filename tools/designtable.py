#!/usr/bin/env python3
"""Rewrites the claimed-set table of DESIGN.md section 12.1 (between the CLAIM-TABLE markers) from evidence/*.json."""
import glob, json, os, re
HERE = os.path.dirname(os.path.dirname(os.path.abspath(__file__)))
ENG = {"C01": "A2, H, G, D2, T, K", "C02": "L, use analysis, K", "C03": "A, F, G, S2, K", "C04": "A, B, P, E, F", "C05": "A, C, H, S2, K",
       "C06": "A (constant evaluation), F, T", "C07": "D, H, A, T, K", "C08": "C, A, F, G, S2, T, K", "C09": "A, F, B, S2, K",
       "C10": "F, P (symbolic folding), S, S', S2", "C11": "A, P, T, L, S, S', S2", "C12": "A, H, P, L, T, S, S2",
       "C13": "F, S, S2, K", "C14": "F1 (typestate), F, H', S2, K", "C15": "E", "C16": "F, A, S2, K", "C17": "P, A, F, K",
       "C18": "A, G, F, P (rational folding, recording canvas), S2", "C19": "H, A, G, K", "C20": "A"}
rows = []
tot = 0
for f in sorted(glob.glob(os.path.join(HERE, "evidence", "C??.json"))):
    d = json.load(open(f))
    cov = d["coverage"]
    rules = cov.get("rules", [])
    parts = []
    for r in sorted(rules, key=lambda r: (len(r["id"]), r["id"])):
        rid = r["id"].split(".")[1]
        if rid in ("X", "checker"):
            continue
        parts.append("%s %d" % (rid, r["discharged"]))
    kf = len([v for v in d.get("violations", [])]) if False else 0
    tot += cov.get("obligations", 0)
    rows.append("| %s | %s | %s | %s |" % (d["property_id"], " · ".join(parts), cov.get("named_not_decided", 0), ENG.get(d["property_id"], "")))
lines = ["| id | rules (discharged obligations) | named, not decided | engines |", "|----|--------------------------------|--------------------|---------|"] + rows
lines += ["", "%d obligations in total on the committed tree (quick tier)." % tot]
p = os.path.join(HERE, "DESIGN.md")
s = open(p).read()
block = "<!-- CLAIM-TABLE -->\n" + "\n".join(lines) + "\n<!-- /CLAIM-TABLE -->"
if "<!-- /CLAIM-TABLE -->" in s:
    s = re.sub(r"<!-- CLAIM-TABLE -->.*?<!-- /CLAIM-TABLE -->", lambda _: block, s, flags=re.S)
else:
    # replace the hand-written table of 12.1: from the header row to the blank line after the C20 row
    m = re.search(r"\| id \| rules \(discharged instances\).*?\n\| C20 \|[^\n]*\n", s, flags=re.S)
    if not m:
        raise SystemExit("table not found")
    s = s[:m.start()] + block + "\n" + s[m.end():]
open(p, "w").write(s)
print(len(rows), tot)
