#!/usr/bin/env python3
"""Developer self-test (not registered in MANIFEST): every defect recorded as fixed in known_findings.json must be
reported again when its fix: commit is taken out.  For each such commit a scratch worktree of /repo HEAD (outside
/repo and /verif, removed at the end) gets `git revert -n <commit>`; when the revert conflicts with later fixes the
commit's parent tree is checked instead.  The property's check must exit 1 and name the recorded rule.
usage: tools/revertcheck.py [commit ...]"""
import json, os, subprocess, sys, shutil, tempfile
VERIF = os.path.dirname(os.path.dirname(os.path.abspath(__file__)))
ENV = dict(os.environ, GOFLAGS="-mod=mod", GOPROXY="off", GOSUMDB="off", GOTOOLCHAIN="local", GOWORK="off")
def sh(cmd, cwd=None):
    return subprocess.run(cmd, cwd=cwd, env=ENV, capture_output=True, text=True)
def main():
    kf = json.load(open(os.path.join(VERIF, "known_findings.json")))
    by = {}
    for f in kf["findings"]:
        if f.get("status") == "fixed":
            by.setdefault(f["commit"], []).append(f)
    want = set(sys.argv[1:])
    tmp = tempfile.mkdtemp(prefix="wrv_revert_")
    wt = os.path.join(tmp, "repo"); vdir = os.path.join(tmp, "verif"); os.makedirs(vdir)
    shutil.copy(os.path.join(VERIF, "known_findings.json"), vdir)
    subprocess.check_call(["git", "-C", "/repo", "worktree", "add", "--detach", "-q", wt, "HEAD"])
    subprocess.check_call(["go", "build", "-o", os.path.join(tmp, "wrverif"), "./cmd/wrverif"], cwd=os.path.join(VERIF, "checker"), env=ENV)
    head = sh(["git", "rev-parse", "HEAD"], wt).stdout.strip()
    bad = 0
    try:
        for commit, fs in by.items():
            if want and commit not in want:
                continue
            mode = "revert"
            r = sh(["git", "revert", "-n", "--no-edit", commit], wt)
            if r.returncode != 0:
                sh(["git", "revert", "--abort"], wt); sh(["git", "reset", "-q", "--hard", head], wt)
                sh(["git", "checkout", "-q", "--detach", commit + "^"], wt)
                mode = "parent tree"
            b = sh(["go", "build", "./..."], wt)
            if b.returncode != 0 and mode == "revert":
                # a later fix uses something this commit introduced: check the commit's parent tree instead
                sh(["git", "reset", "-q", "--hard", head], wt)
                sh(["git", "checkout", "-q", "--detach", commit + "^"], wt)
                mode = "parent tree"
                b = sh(["go", "build", "./..."], wt)
            for prop in sorted(set(f["property"] for f in fs)):
                r = sh([os.path.join(tmp, "wrverif"), "-repo", wt, "-verif", vdir, "-property", prop])
                vio = []
                vp = os.path.join(vdir, "evidence", prop + ".violations.json")
                if r.returncode == 1 and os.path.exists(vp):
                    vio = json.load(open(vp)).get("violations", [])
                for f in fs:
                    if f["property"] != prop:
                        continue
                    rule_hit = [v for v in vio if v.get("rule") == f["rule"]]
                    key_hit = [v for v in rule_hit if v.get("key") == f["key"]]
                    st = "REPORTED(key)" if key_hit else ("REPORTED(rule)" if rule_hit else "MISSED")
                    if st == "MISSED":
                        bad += 1
                    print("%-8s %-14s %-12s %-8s %s | %s" % (commit, st, mode, f["rule"], f["key"][:70], "" if b.returncode == 0 else "NOCOMPILE"))
            sh(["git", "reset", "-q", "--hard", head], wt); sh(["git", "checkout", "-q", "--detach", head], wt); sh(["git", "clean", "-fdq"], wt)
    finally:
        subprocess.call(["git", "-C", "/repo", "worktree", "remove", "--force", wt]); shutil.rmtree(tmp, ignore_errors=True)
    print("%d fixed findings not reported again" % bad)
    sys.exit(1 if bad else 0)
main()
