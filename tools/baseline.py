#!/usr/bin/env python3
"""Runs /repo's test suite (guard off = plain build) and checks that every test of BASELINE.json's stable_pass passes."""
import json, subprocess, sys, os
env = dict(os.environ, GOFLAGS="-mod=mod", GOPROXY="off", GOSUMDB="off", GOTOOLCHAIN="local")
base = json.load(open("/root/.vp/BASELINE.json"))
want = set(base["stable_pass"])
p = subprocess.run(["go", "test", "-json", "-vet=off", "-count=1", "-timeout", "25m", "./..."], cwd=sys.argv[1] if len(sys.argv) > 1 else "/repo", env=env, capture_output=True, text=True)
passed, failed = set(), set()
for line in p.stdout.splitlines():
    try:
        ev = json.loads(line)
    except Exception:
        continue
    if ev.get("Test") and ev.get("Action") in ("pass", "fail"):
        name = ev["Package"] + "::" + ev["Test"]
        (passed if ev["Action"] == "pass" else failed).add(name)
missing = sorted(want - passed)
print("baseline tests: %d wanted, %d of them passed, %d missing/failing" % (len(want), len(want & passed), len(missing)))
for m in missing[:20]:
    print("  NOT PASSING:", m)
sys.exit(1 if missing else 0)
