package core

import (
	"go/token"
	"go/types"
	"strings"
	"unicode"

	"golang.org/x/tools/go/ssa"
)

// Engine C: case-insensitivity taint. Text that CSS treats ASCII case-insensitively (identifiers,
// at-keywords, units, function names, declaration names) must be ASCII-lowercased before it is
// compared with, or looked up under, a constant that contains a letter.

// CaseSink is one comparison / lookup of raw document text against a lettered constant.
type CaseSink struct {
	Fn     *ssa.Function
	Instr  ssa.Instruction
	Const  string
	What   string
	Source string
}

// CaseTaint runs the analysis over a set of functions.
type CaseTaint struct {
	P          *Prog
	Sanitizers map[*ssa.Function]bool
	// returnsRaw: module functions that may return raw (not lowercased) case-insensitive text
	returnsRaw map[*ssa.Function]bool
	paramMemo  map[*ssa.Function]map[int][]CaseSink
}

// rawSourceOf classifies a field read as a source of case-insensitive document text.
func rawSourceOf(v ssa.Value) string {
	var holder types.Type
	var field string
	switch x := v.(type) {
	case *ssa.Field:
		holder = x.X.Type()
		if st, ok := holder.Underlying().(*types.Struct); ok {
			field = st.Field(x.Field).Name()
		}
		// value read through the embedded stringVal: find the outer token type
		if field == "Value" && strings.HasSuffix(holder.String(), "parser.stringVal") {
			if in, ok := x.X.(*ssa.Field); ok {
				holder = in.X.Type()
			} else if ld, ok := x.X.(*ssa.UnOp); ok && ld.Op == token.MUL {
				if fa, ok := ld.X.(*ssa.FieldAddr); ok {
					holder = fa.X.Type().Underlying().(*types.Pointer).Elem()
				}
			}
		}
	case *ssa.UnOp:
		if x.Op != token.MUL {
			return ""
		}
		fa, ok := x.X.(*ssa.FieldAddr)
		if !ok {
			return ""
		}
		pt, ok := fa.X.Type().Underlying().(*types.Pointer)
		if !ok {
			return ""
		}
		holder = pt.Elem()
		if st, ok := holder.Underlying().(*types.Struct); ok {
			field = st.Field(fa.Field).Name()
		}
		if field == "Value" && strings.HasSuffix(holder.String(), "parser.stringVal") {
			if outer, ok := fa.X.(*ssa.FieldAddr); ok {
				holder = outer.X.Type().Underlying().(*types.Pointer).Elem()
			}
		}
	default:
		return ""
	}
	hs := holder.String()
	switch {
	case field == "Value" && (strings.HasSuffix(hs, "parser.Ident") || strings.HasSuffix(hs, "parser.AtKeyword")):
		return hs[strings.LastIndex(hs, ".")+1:] + ".Value"
	case field == "Unit" && strings.HasSuffix(hs, "parser.Dimension"):
		return "Dimension.Unit"
	case field == "Name" && strings.HasSuffix(hs, "parser.FunctionBlock"):
		return "FunctionBlock.Name"
	case field == "Name" && strings.HasSuffix(hs, "parser.Declaration"):
		return "Declaration.Name"
	case field == "AtKeyword" && strings.HasSuffix(hs, "parser.AtRule"):
		return "AtRule.AtKeyword"
	}
	return ""
}

func hasASCIILetter(s string) bool {
	for _, r := range s {
		if r < 128 && unicode.IsLetter(r) {
			return true
		}
	}
	return false
}

// NewCaseTaint builds the engine and computes return summaries to a fixpoint.
func NewCaseTaint(p *Prog, sanitizers []*ssa.Function) *CaseTaint {
	ct := &CaseTaint{P: p, Sanitizers: map[*ssa.Function]bool{}, returnsRaw: map[*ssa.Function]bool{}}
	for _, s := range sanitizers {
		if s != nil {
			ct.Sanitizers[s] = true
		}
	}
	for iter := 0; iter < 6; iter++ {
		changed := false
		for _, fn := range p.ModFuncs {
			if ct.returnsRaw[fn] || ct.Sanitizers[fn] {
				continue
			}
			raw, _ := ct.analyse(fn)
			ret := false
			Instrs(fn, func(in ssa.Instruction) {
				if r, ok := in.(*ssa.Return); ok {
					for _, res := range r.Results {
						if raw[res] != "" && isStringType(res.Type()) {
							ret = true
						}
					}
				}
			})
			if ret {
				ct.returnsRaw[fn] = true
				changed = true
			}
		}
		if !changed {
			break
		}
	}
	return ct
}

func isStringType(t types.Type) bool {
	b, ok := t.Underlying().(*types.Basic)
	return ok && b.Info()&types.IsString != 0
}

// analyse computes the raw values of fn (value -> source description) and, for phis that are
// "raw only when the text starts with --" (the custom property idiom), the marker "custom-or-lowered".
func (ct *CaseTaint) analyse(fn *ssa.Function) (map[ssa.Value]string, map[ssa.Value]bool) {
	return ct.analyseSeed(fn, nil)
}

// analyseSeed is analyse with one more source: the value seed (a parameter), taken to be raw text.
func (ct *CaseTaint) analyseSeed(fn *ssa.Function, seed ssa.Value) (map[ssa.Value]string, map[ssa.Value]bool) {
	raw := map[ssa.Value]string{}
	if seed != nil {
		raw[seed] = "text passed by the caller"
	}
	customOnly := map[ssa.Value]bool{}
	allocRaw := map[*ssa.Alloc]string{}
	set := func(v ssa.Value, src string) bool {
		if raw[v] != "" || src == "" {
			return false
		}
		raw[v] = src
		return true
	}
	changed := true
	for changed {
		changed = false
		for _, b := range fn.Blocks {
			for _, in := range b.Instrs {
				v, ok := in.(ssa.Value)
				if !ok {
					if st, ok := in.(*ssa.Store); ok && raw[st.Val] != "" {
						if al, ok := st.Addr.(*ssa.Alloc); ok && allocRaw[al] == "" {
							allocRaw[al] = raw[st.Val]
							changed = true
						}
					}
					continue
				}
				if raw[v] != "" {
					continue
				}
				if s := rawSourceOf(v); s != "" && isStringType(v.Type()) {
					changed = set(v, s) || changed
					continue
				}
				switch x := v.(type) {
				case *ssa.Phi:
					if !isStringType(x.Type()) {
						break
					}
					src := ""
					var rawEdges []int
					for i, e := range x.Edges {
						if raw[e] != "" {
							src = raw[e]
							rawEdges = append(rawEdges, i)
						}
					}
					if src != "" {
						changed = set(x, src) || changed
						// custom-property idiom: every raw edge arrives only when HasPrefix(raw, "--") held
						allCustom := true
						for _, i := range rawEdges {
							if !customOnly[x.Edges[i]] && !customGuarded(fn, x.Block().Preds[i], x.Block(), x.Edges[i]) {
								allCustom = false
							}
						}
						if allCustom {
							customOnly[x] = true
						}
					}
				case *ssa.Convert:
					if isStringType(x.Type()) && isStringType(x.X.Type()) {
						changed = set(x, raw[x.X]) || changed
						if customOnly[x.X] {
							customOnly[x] = true
						}
					}
				case *ssa.ChangeType:
					changed = set(x, raw[x.X]) || changed
					if customOnly[x.X] {
						customOnly[x] = true
					}
				case *ssa.BinOp:
					if x.Op == token.ADD && isStringType(x.Type()) {
						if raw[x.X] != "" {
							changed = set(x, raw[x.X]) || changed
						} else if raw[x.Y] != "" {
							changed = set(x, raw[x.Y]) || changed
						}
					}
				case *ssa.Slice:
					if isStringType(x.Type()) {
						changed = set(x, raw[x.X]) || changed
					}
				case *ssa.UnOp:
					if x.Op == token.MUL {
						if al, ok := x.X.(*ssa.Alloc); ok && allocRaw[al] != "" && isStringType(x.Type()) {
							changed = set(x, allocRaw[al]) || changed
						}
					}
				case *ssa.Call:
					callee := x.Call.StaticCallee()
					if callee == nil {
						break
					}
					if ct.Sanitizers[callee] {
						break
					}
					if ct.returnsRaw[callee] && isStringType(x.Type()) {
						changed = set(x, "result of "+callee.Name()) || changed
					}
					// strings.TrimPrefix / TrimSpace / TrimSuffix keep the case of their argument
					if callee.Pkg != nil && callee.Pkg.Pkg.Path() == "strings" && len(x.Call.Args) > 0 {
						switch callee.Name() {
						case "TrimPrefix", "TrimSuffix", "TrimSpace", "Trim", "TrimLeft", "TrimRight":
							changed = set(x, raw[x.Call.Args[0]]) || changed
							if customOnly[x.Call.Args[0]] {
								customOnly[x] = true
							}
						}
					}
				case *ssa.Extract:
					if call, ok := x.Tuple.(*ssa.Call); ok {
						if callee := call.Call.StaticCallee(); callee != nil && ct.returnsRaw[callee] && isStringType(x.Type()) {
							// only results that are raw in the callee: approximated by "some string result"
							if ct.resultRaw(callee, x.Index) {
								changed = set(x, "result of "+callee.Name()) || changed
							}
						}
					}
				}
			}
		}
	}
	return raw, customOnly
}

// resultRaw: is result idx of fn raw on some return?
func (ct *CaseTaint) resultRaw(fn *ssa.Function, idx int) bool {
	raw, _ := ct.analyse(fn)
	found := false
	Instrs(fn, func(in ssa.Instruction) {
		if r, ok := in.(*ssa.Return); ok && idx < len(r.Results) && raw[r.Results[idx]] != "" {
			found = true
		}
	})
	return found
}

// customGuarded: the edge pred->blk carrying value v is taken only when strings.HasPrefix(v, "--") is true.
func customGuarded(fn *ssa.Function, pred, blk *ssa.BasicBlock, v ssa.Value) bool {
	var atoms []ssa.Value
	for _, a := range CondAtomsReaching(fn, pred) {
		if call, ok := a.(*ssa.Call); ok {
			if callee := call.Call.StaticCallee(); callee != nil && callee.Name() == "HasPrefix" && len(call.Call.Args) == 2 {
				if s, ok := ConstStr(call.Call.Args[1]); ok && s == "--" && (call.Call.Args[0] == v || sameValue(call.Call.Args[0], v)) {
					atoms = append(atoms, a)
				}
			}
		}
	}
	if len(atoms) == 0 {
		return false
	}
	// with every such test false, the edge must be unreachable
	assign := map[ssa.Value]bool{}
	for _, a := range atoms {
		assign[a] = false
	}
	reach := ForwardReach(fn.Blocks[0], assign, nil)
	if !reach[pred] {
		return true
	}
	// pred reachable: is the edge pred->blk itself excluded (pred ends with the test)?
	if c, pol, ok := EdgeCond(pred, blk); ok {
		atom, neg := normCond(c)
		if val, has := assign[atom]; has && val != (pol != neg) {
			return true
		}
	}
	return false
}

// Sinks lists the comparisons / lookups of raw text against lettered constants in fn.
func (ct *CaseTaint) Sinks(fn *ssa.Function) []CaseSink {
	out := ct.sinksSeed(fn, nil)
	// raw text handed to a function of the module whose parameter reaches a sink there (one level)
	raw, customOnly := ct.analyse(fn)
	Instrs(fn, func(in ssa.Instruction) {
		call, ok := in.(ssa.CallInstruction)
		if !ok {
			return
		}
		var callees []*ssa.Function
		args := call.Common().Args
		if g := call.Common().StaticCallee(); g != nil {
			callees = append(callees, g)
		} else if call.Common().IsInvoke() {
			name := call.Common().Method.Name()
			for _, g := range ct.P.ModFuncs {
				if g.Name() == name && g.Signature.Recv() != nil && g.Blocks != nil && len(g.Params) == len(args)+1 {
					callees = append(callees, g)
				}
			}
		}
		for _, g := range callees {
			if g.Pkg == nil || !InModule(g.Pkg.Pkg.Path()) || g.Blocks == nil || ct.Sanitizers[g] || g == fn {
				continue
			}
			off := len(g.Params) - len(args) // 1 for an interface method call: the receiver
			for i, a := range args {
				if raw[a] == "" || i+off >= len(g.Params) || !isStringType(a.Type()) {
					continue
				}
				for _, s := range ct.paramSinks(g, i+off) {
					if customOnly[a] && !strings.HasPrefix(s.Const, "--") {
						continue // a custom property name or lower-cased text: only constants starting with -- matter
					}
					out = append(out, CaseSink{fn, in, s.Const, "passed to " + g.Name() + ", where it is " + s.What, raw[a]})
					break
				}
			}
		}
	})
	return out
}

// paramSinks: the sinks of g when its parameter i is raw text (memoised).
func (ct *CaseTaint) paramSinks(g *ssa.Function, i int) []CaseSink {
	if ct.paramMemo == nil {
		ct.paramMemo = map[*ssa.Function]map[int][]CaseSink{}
	}
	if m, ok := ct.paramMemo[g]; ok {
		if r, ok := m[i]; ok {
			return r
		}
	} else {
		ct.paramMemo[g] = map[int][]CaseSink{}
	}
	var r []CaseSink
	for _, s := range ct.sinksSeed(g, g.Params[i]) {
		if s.Source == "text passed by the caller" {
			r = append(r, s)
		}
	}
	ct.paramMemo[g][i] = r
	return r
}

func (ct *CaseTaint) sinksSeed(fn *ssa.Function, seed ssa.Value) []CaseSink {
	raw, customOnly := ct.analyseSeed(fn, seed)
	var out []CaseSink
	okConst := func(v ssa.Value, c string) bool {
		// a lettered constant; for custom-or-lowered values constants starting with "--" are the only unsafe ones
		if !hasASCIILetter(c) {
			return false
		}
		if customOnly[v] && !strings.HasPrefix(c, "--") {
			return false
		}
		return true
	}
	Instrs(fn, func(in ssa.Instruction) {
		switch x := in.(type) {
		case *ssa.BinOp:
			if x.Op != token.EQL && x.Op != token.NEQ {
				return
			}
			if c, ok := ConstStr(x.Y); ok && raw[x.X] != "" && okConst(x.X, c) {
				out = append(out, CaseSink{fn, in, c, "compared with", raw[x.X]})
			} else if c, ok := ConstStr(x.X); ok && raw[x.Y] != "" && okConst(x.Y, c) {
				out = append(out, CaseSink{fn, in, c, "compared with", raw[x.Y]})
			}
		case *ssa.Call:
			callee := x.Call.StaticCallee()
			if callee != nil && callee.Pkg != nil && callee.Pkg.Pkg.Path() == "strings" && len(x.Call.Args) == 2 {
				switch callee.Name() {
				case "HasPrefix", "HasSuffix", "Contains", "Index":
					if c, ok := ConstStr(x.Call.Args[1]); ok && raw[x.Call.Args[0]] != "" && okConst(x.Call.Args[0], c) {
						out = append(out, CaseSink{fn, in, c, "strings." + callee.Name() + " with", raw[x.Call.Args[0]]})
					}
				}
			}
			// membership tests on package-level sets: utils.Set.Has(global, raw) / keyed lookups are handled below
			if callee != nil && callee.Name() == "Has" && len(x.Call.Args) == 2 && raw[x.Call.Args[1]] != "" {
				if g := globalOf(x.Call.Args[0]); g != nil {
					if k := letteredKey(ct.P, g, customOnly[x.Call.Args[1]]); k != "" {
						out = append(out, CaseSink{fn, in, k, "membership in " + g.Name() + " (keys like " + k + ")", raw[x.Call.Args[1]]})
					}
				} else if prm, ok := x.Call.Args[0].(*ssa.Parameter); ok {
					// a set received as a parameter: the package-level sets the callers pass
					for i, fp := range fn.Params {
						if fp != prm {
							continue
						}
						for _, caller := range ct.P.ModFuncs {
							done := false
							Instrs(caller, func(ci ssa.Instruction) {
								cc, ok := ci.(ssa.CallInstruction)
								if !ok || done || cc.Common().StaticCallee() != fn || i >= len(cc.Common().Args) {
									return
								}
								if g := globalOf(cc.Common().Args[i]); g != nil {
									k := letteredKey(ct.P, g, customOnly[x.Call.Args[1]])
									if k == "" && g.Pkg != nil && Rel(g.Pkg.Pkg.Path()) == "css/validation" && !customOnly[x.Call.Args[1]] {
										// a keyword set of the validators filled in init(): its keys are CSS keywords
										k = "keywords of " + g.Name()
									}
									if k != "" {
										out = append(out, CaseSink{fn, in, k, "membership in " + g.Name() + " passed by " + caller.Name() + " (keys like " + k + ")", raw[x.Call.Args[1]]})
										done = true
									}
								}
							})
							if done {
								break
							}
						}
					}
				}
			}
		case *ssa.Lookup:
			if raw[x.Index] == "" {
				return
			}
			if g := globalOf(x.X); g != nil {
				if k := letteredKey(ct.P, g, customOnly[x.Index]); k != "" {
					out = append(out, CaseSink{fn, in, k, "lookup in " + g.Name() + " (keys like " + k + ")", raw[x.Index]})
				}
			}
		}
	})
	return out
}

func globalOf(v ssa.Value) *ssa.Global {
	if u, ok := v.(*ssa.UnOp); ok && u.Op == token.MUL {
		if g, ok := u.X.(*ssa.Global); ok {
			return g
		}
	}
	return nil
}

// letteredKey returns a sample lettered literal key of a package-level map / set, "" when none.
func letteredKey(p *Prog, g *ssa.Global, customOnly bool) string {
	if g.Pkg == nil || !InModule(g.Pkg.Pkg.Path()) {
		return ""
	}
	tab, err := p.Table(Rel(g.Pkg.Pkg.Path()), g.Name())
	if err != nil {
		return ""
	}
	for _, k := range StringKeys(tab) {
		if hasASCIILetter(k) && !(customOnly && !strings.HasPrefix(k, "--")) {
			return k
		}
	}
	// set constructors: NewSet("a", "b")
	for _, e := range tab {
		if e.Key != nil && e.Key.Kind().String() == "String" {
			continue
		}
	}
	return ""
}

// UnicodeFolds lists the calls that fold the case of raw case-insensitive text with a Unicode-wide function
// (strings.ToLower, ToUpper, EqualFold, ToTitle): such a fold maps U+212A KELVIN SIGN to k and U+017F to s, so text
// that is not an ASCII spelling of a keyword is accepted as one.
func (ct *CaseTaint) UnicodeFolds(fn *ssa.Function) []CaseSink {
	raw, _ := ct.analyse(fn)
	var out []CaseSink
	Instrs(fn, func(in ssa.Instruction) {
		x, ok := in.(*ssa.Call)
		if !ok {
			return
		}
		callee := x.Call.StaticCallee()
		if callee == nil || callee.Pkg == nil || callee.Pkg.Pkg.Path() != "strings" {
			return
		}
		switch callee.Name() {
		case "ToLower", "ToUpper", "EqualFold", "ToTitle":
		default:
			return
		}
		// EqualFold with a constant word that holds neither k nor s folds nothing but ASCII letters: the only
		// non-ASCII letters whose simple fold is an ASCII letter are U+212A (k) and U+017F (s)
		if callee.Name() == "EqualFold" {
			for _, a := range x.Call.Args {
				if w, ok := ConstStr(a); ok && !strings.ContainsAny(strings.ToLower(w), "ks") {
					return
				}
			}
		}
		for _, a := range x.Call.Args {
			if raw[a] != "" {
				out = append(out, CaseSink{fn, in, "", "strings." + callee.Name(), raw[a]})
				return
			}
		}
	})
	return out
}
