package core

import (
	"fmt"
	"go/ast"
	"go/constant"
	"go/types"
)

// TableEntry is one row of a package-level literal table.
type TableEntry struct {
	Key     constant.Value // constant key (nil when the key is not constant)
	KeyExpr ast.Expr
	Val     ast.Expr
	ValObj  types.Object // the object the value names, when it is an identifier / selector
	ValType types.Type
}

// Table reads a package-level variable initialised by a composite literal (map, array,
// slice, keyed or not) or by a call f(k1, k2, ...) (set constructors): rows in source order.
func (p *Prog) Table(pkg, name string) ([]TableEntry, error) {
	init := p.VarInit(pkg, name)
	if init == nil {
		return nil, fmt.Errorf("anchor %s.%s: no initialiser", pkg, name)
	}
	return p.TableOf(p.Info(pkg), init)
}

// TableOf reads the rows of a literal expression.
func (p *Prog) TableOf(info *types.Info, init ast.Expr) ([]TableEntry, error) {
	var out []TableEntry
	objOf := func(e ast.Expr) types.Object {
		switch x := e.(type) {
		case *ast.Ident:
			return info.Uses[x]
		case *ast.SelectorExpr:
			return info.Uses[x.Sel]
		}
		return nil
	}
	switch x := init.(type) {
	case *ast.CompositeLit:
		next := int64(0)
		for _, e := range x.Elts {
			if kv, ok := e.(*ast.KeyValueExpr); ok {
				te := TableEntry{KeyExpr: kv.Key, Val: kv.Value, Key: ConstOf(info, kv.Key), ValObj: objOf(kv.Value)}
				if tv, ok := info.Types[kv.Value]; ok {
					te.ValType = tv.Type
				}
				if te.Key != nil && te.Key.Kind() == constant.Int {
					n, _ := constant.Int64Val(te.Key)
					next = n + 1
				}
				out = append(out, te)
			} else {
				te := TableEntry{Val: e, Key: constant.MakeInt64(next), ValObj: objOf(e)}
				if tv, ok := info.Types[e]; ok {
					te.ValType = tv.Type
				}
				next++
				out = append(out, te)
			}
		}
		return out, nil
	case *ast.CallExpr:
		for _, a := range x.Args {
			te := TableEntry{KeyExpr: a, Key: ConstOf(info, a), Val: a, ValObj: objOf(a)}
			if tv, ok := info.Types[a]; ok {
				te.ValType = tv.Type
			}
			out = append(out, te)
		}
		return out, nil
	}
	return nil, fmt.Errorf("initialiser is neither a composite literal nor a constructor call")
}

// ConstsOfType lists the package-level constants of a named type, by value.
func (p *Prog) ConstsOfType(pkg, typeName string) map[int64]*types.Const {
	out := map[int64]*types.Const{}
	pk := p.ByPath[pkg]
	if pk == nil {
		return out
	}
	tobj := pk.Types.Scope().Lookup(typeName)
	if tobj == nil {
		return out
	}
	for _, n := range pk.Types.Scope().Names() {
		c, ok := pk.Types.Scope().Lookup(n).(*types.Const)
		if !ok || !types.Identical(c.Type(), tobj.Type()) {
			continue
		}
		if v, ok := constant.Int64Val(c.Val()); ok {
			if _, dup := out[v]; !dup || len(n) < len(out[v].Name()) {
				out[v] = c
			}
		}
	}
	return out
}

// StringKeys returns the string keys of a table.
func StringKeys(t []TableEntry) []string {
	var out []string
	for _, e := range t {
		if e.Key != nil && e.Key.Kind() == constant.String {
			out = append(out, constant.StringVal(e.Key))
		}
	}
	return out
}

// IntKeys returns the integer keys of a table.
func IntKeys(t []TableEntry) []int64 {
	var out []int64
	for _, e := range t {
		if e.Key != nil && e.Key.Kind() == constant.Int {
			n, _ := constant.Int64Val(e.Key)
			out = append(out, n)
		}
	}
	return out
}
