package core

import (
	"fmt"
	"go/constant"
	"go/token"
	"go/types"
	"regexp/syntax"
	"sort"
	"strings"

	"golang.org/x/tools/go/ssa"
)

// Engine D: fixed-position reads of variable-length values are length-guarded.
//
// A site reads position c (or the range [a:b], or the position len-c) of a slice / string whose
// length is not fixed by its type. It is discharged when the value has at least the needed length
// by construction, or when the site is unreachable under every scenario "len(A) == n" for n below
// the needed length (path-condition reachability: every test of len(A), of the length of a value
// A was sliced from, or of a callee result that is provably empty for such lengths, is decided by
// the scenario). What remains unproven on a parameter becomes a precondition of the function,
// which every call site must establish in turn.

// BoundSite is one fixed-position read.
type BoundSite struct {
	Fn    *ssa.Function
	Instr ssa.Instruction
	Base  ssa.Value // the slice / string value
	Need  int       // minimal length required
	Kind  string
}

func isVarLen(t types.Type) bool {
	switch u := t.Underlying().(type) {
	case *types.Slice:
		return true
	case *types.Basic:
		return u.Info()&types.IsString != 0
	}
	return false
}

// lenMinus: idx == len(base) - c for a constant c >= 0 ?
func lenMinus(idx ssa.Value, base ssa.Value) (int, bool) {
	b, ok := stripIntWiden(idx).(*ssa.BinOp)
	if !ok || b.Op != token.SUB {
		return 0, false
	}
	c, ok := ConstInt(b.Y)
	if !ok || c < 0 {
		return 0, false
	}
	call, ok := stripIntWiden(b.X).(*ssa.Call)
	if !ok {
		return 0, false
	}
	bi, ok := call.Call.Value.(*ssa.Builtin)
	if !ok || bi.Name() != "len" || !sameValue(call.Call.Args[0], base) {
		return 0, false
	}
	return int(c), true
}

// BoundSites lists the fixed-position reads of fn; uncovered counts the variable-index reads that are out of scope.
func BoundSites(fn *ssa.Function) (sites []BoundSite, uncovered int) {
	Instrs(fn, func(in ssa.Instruction) {
		switch x := in.(type) {
		case *ssa.IndexAddr:
			if !isVarLen(x.X.Type()) {
				return
			}
			if c, ok := ConstInt(x.Index); ok && c >= 0 {
				sites = append(sites, BoundSite{fn, in, x.X, int(c) + 1, fmt.Sprintf("index %d", c)})
			} else if c, ok := lenMinus(x.Index, x.X); ok {
				sites = append(sites, BoundSite{fn, in, x.X, c, fmt.Sprintf("index len-%d", c)})
			} else {
				uncovered++
			}
		case *ssa.Index:
			if !isVarLen(x.X.Type()) {
				return
			}
			if c, ok := ConstInt(x.Index); ok && c >= 0 {
				sites = append(sites, BoundSite{fn, in, x.X, int(c) + 1, fmt.Sprintf("index %d", c)})
			} else if c, ok := lenMinus(x.Index, x.X); ok {
				sites = append(sites, BoundSite{fn, in, x.X, c, fmt.Sprintf("index len-%d", c)})
			} else {
				uncovered++
			}
		case *ssa.Lookup:
			if !isVarLen(x.X.Type()) {
				return
			}
			if c, ok := ConstInt(x.Index); ok && c >= 0 {
				sites = append(sites, BoundSite{fn, in, x.X, int(c) + 1, fmt.Sprintf("index %d", c)})
			} else if c, ok := lenMinus(x.Index, x.X); ok {
				sites = append(sites, BoundSite{fn, in, x.X, c, fmt.Sprintf("index len-%d", c)})
			} else {
				uncovered++
			}
		case *ssa.Slice:
			if !isVarLen(x.X.Type()) {
				return
			}
			need, kind := 0, ""
			bound := func(v ssa.Value, name string) {
				if v == nil {
					return
				}
				if c, ok := ConstInt(v); ok {
					if int(c) > need {
						need = int(c)
					}
					kind += fmt.Sprintf(" %s=%d", name, c)
				} else if c, ok := lenMinus(v, x.X); ok {
					if c > need {
						need = c
					}
					kind += fmt.Sprintf(" %s=len-%d", name, c)
				} else {
					kind += " " + name + "=var"
				}
			}
			bound(x.Low, "low")
			bound(x.High, "high")
			if need > 0 {
				sites = append(sites, BoundSite{fn, in, x.X, need, "slice" + kind})
			} else if x.Low != nil || x.High != nil {
				if _, lc := x.Low.(*ssa.Const); !lc && x.Low != nil {
					uncovered++
				} else if _, hc := x.High.(*ssa.Const); !hc && x.High != nil {
					uncovered++
				}
			}
		}
	})
	return
}

// BoundsEngine holds summaries.
type BoundsEngine struct {
	P *Prog
	// Req[fn][param] = minimal length the function needs for that parameter (unproven locally)
	Req map[*ssa.Function]map[int]int
	// ReqWhy records which site created / raised a requirement
	ReqWhy map[*ssa.Function]map[int]string
	// regexps: global -> number of submatches+1
	regexpArity map[*ssa.Global]int
	emptyWhen   map[string]map[int]bool
	addrTaken   map[*ssa.Function]bool
}

func NewBoundsEngine(p *Prog) *BoundsEngine {
	e := &BoundsEngine{P: p, Req: map[*ssa.Function]map[int]int{}, ReqWhy: map[*ssa.Function]map[int]string{}, regexpArity: map[*ssa.Global]int{}, emptyWhen: map[string]map[int]bool{}}
	// regexp.MustCompile(const) stored to a global in a package initialiser
	for fn := range p.AllFuncs {
		if fn.Pkg == nil || !InModule(fn.Pkg.Pkg.Path()) || fn.Synthetic != "package initializer" && fn.Name() != "init" {
			continue
		}
		Instrs(fn, func(in ssa.Instruction) {
			st, ok := in.(*ssa.Store)
			if !ok {
				return
			}
			g, ok := st.Addr.(*ssa.Global)
			if !ok {
				return
			}
			call, ok := st.Val.(*ssa.Call)
			if !ok || call.Call.StaticCallee() == nil || call.Call.StaticCallee().Name() != "MustCompile" || len(call.Call.Args) != 1 {
				return
			}
			if pat, ok := ConstStr(call.Call.Args[0]); ok {
				if re, err := syntax.Parse(pat, syntax.Perl); err == nil {
					e.regexpArity[g] = re.MaxCap() + 1
				}
			}
		})
	}
	return e
}

// lenDomain: the set of lengths a value can have when it comes from a call with a known shape
// (nil or exactly n). ok=false: any length.
func (e *BoundsEngine) lenDomain(v ssa.Value) (exact int, ok bool) {
	call, isCall := v.(*ssa.Call)
	if !isCall {
		return 0, false
	}
	callee := call.Call.StaticCallee()
	if callee == nil || callee.Pkg == nil || callee.Pkg.Pkg.Path() != "regexp" || len(call.Call.Args) == 0 {
		return 0, false
	}
	g := globalOf(call.Call.Args[0])
	if g == nil {
		return 0, false
	}
	n, known := e.regexpArity[g]
	if !known {
		return 0, false
	}
	switch callee.Name() {
	case "FindStringSubmatch", "FindSubmatch":
		return n, true
	case "FindStringSubmatchIndex", "FindSubmatchIndex":
		return 2 * n, true
	case "FindStringIndex", "FindIndex":
		return 2, true
	}
	return 0, false
}

// minLen: a lower bound of len(v) that holds by construction.
func (e *BoundsEngine) minLen(v ssa.Value, depth int) int {
	if depth > 8 {
		return 0
	}
	switch x := v.(type) {
	case *ssa.Const:
		if x.Value != nil && x.Value.Kind() == constant.String {
			return len(constant.StringVal(x.Value))
		}
	case *ssa.Slice:
		if pt, ok := x.X.Type().Underlying().(*types.Pointer); ok {
			if at, ok := pt.Elem().Underlying().(*types.Array); ok {
				lo, hi := 0, int(at.Len())
				if x.Low != nil {
					c, ok := ConstInt(x.Low)
					if !ok {
						return 0
					}
					lo = int(c)
				}
				if x.High != nil {
					c, ok := ConstInt(x.High)
					if !ok {
						return 0
					}
					hi = int(c)
				}
				return hi - lo
			}
		}
		// x[L : L+c] has length c
		if x.Low != nil && x.High != nil {
			if hb, ok := stripIntWiden(x.High).(*ssa.BinOp); ok && hb.Op == token.ADD {
				if c, isC := ConstInt(hb.Y); isC && c >= 0 && sameValue(hb.X, x.Low) {
					return int(c)
				}
			}
		}
		base := e.minLen(x.X, depth+1)
		if x.High != nil {
			if c, ok := ConstInt(x.High); ok {
				base = int(c) // x[:c] has length c (and needs len >= c, which is its own site)
			} else if c, ok := lenMinus(x.High, x.X); ok {
				base -= c
			} else {
				return 0
			}
		}
		if x.Low != nil {
			c, ok := ConstInt(x.Low)
			if !ok {
				return 0
			}
			base -= int(c)
		}
		if base < 0 {
			base = 0
		}
		return base
	case *ssa.MakeSlice:
		if c, ok := ConstInt(x.Len); ok {
			return int(c)
		}
	case *ssa.Call:
		if bi, ok := x.Call.Value.(*ssa.Builtin); ok && bi.Name() == "append" {
			n := 0
			for _, a := range x.Call.Args {
				n += e.minLen(a, depth+1)
			}
			return n
		}
		if callee := x.Call.StaticCallee(); callee != nil && callee.Pkg != nil {
			full := callee.Pkg.Pkg.Path() + "." + callee.Name()
			switch full {
			case "strings.Split", "strings.SplitN", "strings.SplitAfter", "bytes.Split", ModPath + "/css/parser.SplitOnComma":
				if full == "strings.Split" && len(x.Call.Args) == 2 {
					if sa, ok := ConstStr(x.Call.Args[0]); ok {
						if sb, ok := ConstStr(x.Call.Args[1]); ok && sb != "" {
							return strings.Count(sa, sb) + 1
						}
					}
				}
				return 1
			}
			if IsModFunc(callee) {
				return e.minReturnLen(callee, 0, depth+1)
			}
		}
	case *ssa.Phi:
		m := -1
		for _, ed := range x.Edges {
			if ed == ssa.Value(x) {
				continue
			}
			n := e.minLen(ed, depth+1)
			if m < 0 || n < m {
				m = n
			}
		}
		if m > 0 {
			return m
		}
	case *ssa.ChangeType:
		return e.minLen(x.X, depth+1)
	case *ssa.Convert:
		// []byte(s) / string(b) keep the byte length; string(rune) is at least 1
		if isVarLen(x.X.Type()) {
			return e.minLen(x.X, depth+1)
		}
		return 1
	case *ssa.BinOp:
		if x.Op == token.ADD && isVarLen(x.Type()) {
			return e.minLen(x.X, depth+1) + e.minLen(x.Y, depth+1)
		}
	case *ssa.Extract:
		if call, ok := x.Tuple.(*ssa.Call); ok {
			if callee := call.Call.StaticCallee(); callee != nil && IsModFunc(callee) {
				return e.minReturnLen(callee, x.Index, depth+1)
			}
		}
	case *ssa.UnOp:
		if x.Op == token.MUL {
			if r := ResolveLoad(x); r != ssa.Value(x) {
				return e.minLen(r, depth+1)
			}
		}
	}
	return 0
}

var minRetCache = map[string]int{}

func (e *BoundsEngine) minReturnLen(fn *ssa.Function, idx int, depth int) int {
	key := fmt.Sprintf("%p|%d", fn, idx)
	if v, ok := minRetCache[key]; ok {
		return v
	}
	minRetCache[key] = 0 // recursion guard
	m := -1
	Instrs(fn, func(in ssa.Instruction) {
		if r, ok := in.(*ssa.Return); ok && idx < len(r.Results) {
			n := e.minLen(r.Results[idx], depth+1)
			if m < 0 || n < m {
				m = n
			}
		}
	})
	if m < 0 {
		m = 0
	}
	minRetCache[key] = m
	return m
}

// relatedLen: if len(x) == len(a) + off for the target value a (through constant slicing), returns off.
func relatedLen(x, a ssa.Value) (off int, ok bool) {
	if sameValue(x, a) || ResolveLoad(x) == ResolveLoad(a) {
		return 0, true
	}
	// a = x[k:]  => len(x) = len(a) + k
	if sl, isSl := a.(*ssa.Slice); isSl && sl.High == nil && sl.Low != nil {
		if k, isK := ConstInt(sl.Low); isK {
			if o, ok2 := relatedLen(x, sl.X); ok2 {
				return o + int(k), true
			}
		}
	}
	// a = x[:len(x)-c]  => len(x) = len(a) + c
	if sl, isSl := a.(*ssa.Slice); isSl && sl.Low == nil && sl.High != nil {
		if c, isLM := lenMinus(sl.High, sl.X); isLM {
			if o, ok2 := relatedLen(x, sl.X); ok2 {
				return o + c, true
			}
		}
	}
	// x = a[:len(a)-c]  => len(x) = len(a) - c
	if sl, isSl := x.(*ssa.Slice); isSl && sl.Low == nil && sl.High != nil {
		if c, isLM := lenMinus(sl.High, sl.X); isLM {
			if o, ok2 := relatedLen(sl.X, a); ok2 {
				return o - c, true
			}
		}
	}
	// x = a[k:]  => len(x) = len(a) - k
	if sl, isSl := x.(*ssa.Slice); isSl && sl.High == nil && sl.Low != nil {
		if k, isK := ConstInt(sl.Low); isK {
			if o, ok2 := relatedLen(sl.X, a); ok2 {
				return o - int(k), true
			}
		}
	}
	return 0, false
}

func sameConstOrValue(a, b ssa.Value) bool {
	if sa, ok := ConstStr(a); ok {
		if sb, ok := ConstStr(b); ok {
			return sa == sb
		}
	}
	return sameValue(a, b)
}

// zeroResultWhen: the set of lengths n in 0..4 of parameter pi for which result ri of fn is the zero
// value ("" / nil / false / 0) on every return reachable under len(param) == n.
func (e *BoundsEngine) zeroResultWhen(fn *ssa.Function, pi, ri int) map[int]bool {
	key := fmt.Sprintf("%p|%d|%d", fn, pi, ri)
	if m, ok := e.emptyWhen[key]; ok {
		return m
	}
	out := map[int]bool{}
	e.emptyWhen[key] = out
	if len(fn.Blocks) == 0 || pi >= len(fn.Params) || !isVarLen(fn.Params[pi].Type()) {
		return out
	}
	isZero := func(v ssa.Value) bool {
		k, ok := v.(*ssa.Const)
		if !ok {
			return false
		}
		if k.Value == nil {
			return true
		}
		switch k.Value.Kind() {
		case constant.String:
			return constant.StringVal(k.Value) == ""
		case constant.Bool:
			return !constant.BoolVal(k.Value)
		case constant.Int, constant.Float:
			return constant.Sign(k.Value) == 0
		}
		return false
	}
	for n := 0; n <= 4; n++ {
		allZero, any := true, false
		for _, b := range fn.Blocks {
			if len(b.Instrs) == 0 {
				continue
			}
			ret, ok := b.Instrs[len(b.Instrs)-1].(*ssa.Return)
			if !ok || ri >= len(ret.Results) {
				continue
			}
			assign := e.lenScenario(fn, b, fn.Params[pi], n, 1)
			if !ForwardReach(fn.Blocks[0], assign, nil)[b] {
				continue
			}
			any = true
			if !isZero(ret.Results[ri]) {
				allZero = false
			}
		}
		if any && allZero {
			out[n] = true
		}
	}
	return out
}

// lenScenario builds the truth assignment of the atoms reaching site under "len(a) == n".
func (e *BoundsEngine) lenScenario(fn *ssa.Function, site *ssa.BasicBlock, a ssa.Value, n int, depth int) map[ssa.Value]bool {
	assign := map[ssa.Value]bool{}
	lenArg := func(v ssa.Value) (ssa.Value, bool) {
		call, ok := stripIntWiden(v).(*ssa.Call)
		if !ok {
			return nil, false
		}
		bi, ok := call.Call.Value.(*ssa.Builtin)
		if !ok || bi.Name() != "len" {
			return nil, false
		}
		return call.Call.Args[0], true
	}
	zeroCall := func(v ssa.Value) (zero bool, known bool) {
		// v is (an extract of) a call f(..x..) with x length-related to a, and f returns zero for that length
		ri := 0
		var call *ssa.Call
		switch x := v.(type) {
		case *ssa.Call:
			call = x
		case *ssa.Extract:
			c, ok := x.Tuple.(*ssa.Call)
			if !ok {
				return false, false
			}
			call, ri = c, x.Index
		default:
			return false, false
		}
		callee := call.Call.StaticCallee()
		if callee == nil || !IsModFunc(callee) || depth > 2 {
			return false, false
		}
		for pi, arg := range call.Call.Args {
			if off, ok := relatedLen(arg, a); ok {
				m := n + off
				if m >= 0 && m <= 4 && e.zeroResultWhen(callee, pi, ri)[m] {
					return true, true
				}
			}
		}
		return false, false
	}
	// evalInt evaluates an integer expression built from len() of values length-related to a, constants and + - * / %.
	var evalInt func(v ssa.Value, d int) (int64, bool)
	evalInt = func(v ssa.Value, d int) (int64, bool) {
		if d > 5 {
			return 0, false
		}
		v = stripIntWiden(v)
		if c, ok := ConstInt(v); ok {
			return c, true
		}
		if xa, ok := lenArg(v); ok {
			if off, rel := relatedLen(xa, a); rel {
				return int64(n + off), true
			}
			return 0, false
		}
		if b, ok := v.(*ssa.BinOp); ok {
			l, ok1 := evalInt(b.X, d+1)
			r, ok2 := evalInt(b.Y, d+1)
			if !ok1 || !ok2 {
				return 0, false
			}
			switch b.Op {
			case token.ADD:
				return l + r, true
			case token.SUB:
				return l - r, true
			case token.MUL:
				return l * r, true
			case token.REM:
				if r != 0 {
					return l % r, true
				}
			case token.QUO:
				if r != 0 {
					return l / r, true
				}
			}
		}
		return 0, false
	}
	mentionsLen := func(v ssa.Value) bool {
		found := false
		var walk func(v ssa.Value, d int)
		walk = func(v ssa.Value, d int) {
			if d > 5 || found {
				return
			}
			v = stripIntWiden(v)
			if xa, ok := lenArg(v); ok {
				if _, rel := relatedLen(xa, a); rel {
					found = true
				}
				return
			}
			if b, ok := v.(*ssa.BinOp); ok {
				walk(b.X, d+1)
				walk(b.Y, d+1)
			}
		}
		walk(v, 0)
		return found
	}
	for _, atom := range CondAtomsReaching(fn, site) {
		switch x := atom.(type) {
		case *ssa.BinOp:
			if isIntType(x.X.Type()) && (mentionsLen(x.X) || mentionsLen(x.Y)) {
				l, ok1 := evalInt(x.X, 0)
				r, ok2 := evalInt(x.Y, 0)
				if ok1 && ok2 {
					assign[atom] = cmpInts(x.Op, l, r)
					continue
				}
			}
			if xa, ok := lenArg(x.X); ok {
				if c, isC := ConstInt(x.Y); isC {
					if off, rel := relatedLen(xa, a); rel {
						assign[atom] = cmpInts(x.Op, int64(n+off), c)
						continue
					}
				}
			}
			if ya, ok := lenArg(x.Y); ok {
				if c, isC := ConstInt(x.X); isC {
					if off, rel := relatedLen(ya, a); rel {
						assign[atom] = cmpInts(x.Op, c, int64(n+off))
						continue
					}
				}
			}
			// string compared with "" : len == 0
			if isVarLen(x.X.Type()) && (x.Op == token.EQL || x.Op == token.NEQ) {
				if s, isS := ConstStr(x.Y); isS {
					if off, rel := relatedLen(x.X, a); rel {
						// len(x.X) = n+off ; equality with a constant of another length is false
						if len(s) != n+off {
							assign[atom] = x.Op == token.NEQ
						} else if s == "" {
							assign[atom] = x.Op == token.EQL
						}
						continue
					}
				}
				// slice compared with nil: nil has length 0
				if k, isK := x.Y.(*ssa.Const); isK && k.Value == nil {
					if off, rel := relatedLen(x.X, a); rel && n+off > 0 {
						assign[atom] = x.Op == token.NEQ
						continue
					}
					// a regexp result is nil or has its full length: length 0 means nil
					if off, rel := relatedLen(x.X, a); rel && n+off == 0 {
						if _, dom := e.lenDomain(ResolveLoad(a)); dom {
							assign[atom] = x.Op == token.EQL
							continue
						}
					}
				}
			}
			// result of a callee that is zero for this length, compared with "" / nil / 0
			if x.Op == token.EQL || x.Op == token.NEQ {
				if k, isK := x.Y.(*ssa.Const); isK {
					isZeroConst := k.Value == nil || (k.Value.Kind() == constant.String && constant.StringVal(k.Value) == "") || ((k.Value.Kind() == constant.Int || k.Value.Kind() == constant.Float) && constant.Sign(k.Value) == 0)
					if isZeroConst {
						if z, known := zeroCall(x.X); known && z {
							assign[atom] = x.Op == token.EQL
						}
					}
				}
			}
		case *ssa.Call, *ssa.Extract:
			if call, isCall := atom.(*ssa.Call); isCall {
				if callee := call.Call.StaticCallee(); callee != nil && callee.Pkg != nil && (callee.Pkg.Pkg.Path() == "strings" || callee.Pkg.Pkg.Path() == "bytes") && len(call.Call.Args) == 2 {
					switch callee.Name() {
					case "HasPrefix", "HasSuffix", "Contains":
						// HasPrefix(x, c) needs len(x) >= len(c)
						if off, rel := relatedLen(call.Call.Args[0], a); rel {
							cl := e.minLen(call.Call.Args[1], 0)
							if cl > 0 && n+off < cl {
								assign[atom] = false
								continue
							}
						}
						// a = strings.Split/SplitN(x, sep[, k]) : len(a) == 1 means sep does not occur in x
						if callee.Name() == "Contains" && n == 1 {
							if sp, ok := ResolveLoad(a).(*ssa.Call); ok {
								if sc := sp.Call.StaticCallee(); sc != nil && sc.Pkg != nil && sc.Pkg.Pkg.Path() == callee.Pkg.Pkg.Path() && (sc.Name() == "Split" || sc.Name() == "SplitN") {
									if sameValue(sp.Call.Args[0], call.Call.Args[0]) && sameConstOrValue(sp.Call.Args[1], call.Call.Args[1]) {
										assign[atom] = false
										continue
									}
								}
							}
						}
					}
				}
			}
			if b, ok := atom.Type().Underlying().(*types.Basic); ok && b.Info()&types.IsBoolean != 0 {
				if z, known := zeroCall(atom); known && z {
					assign[atom] = false
				}
			}
		}
	}
	return assign
}

// ProveLen decides len(a) >= need at instruction `at` inside fn.
func (e *BoundsEngine) ProveLen(fn *ssa.Function, at ssa.Instruction, a ssa.Value, need int) (bool, string) {
	return e.proveLen(fn, at, a, need, 0)
}

func (e *BoundsEngine) proveLen(fn *ssa.Function, at ssa.Instruction, a ssa.Value, need int, depth int) (bool, string) {
	if need <= 0 {
		return true, "no length needed"
	}
	if m := e.minLen(a, 0); m >= need {
		return true, fmt.Sprintf("length >= %d by construction", m)
	}
	site := at.Block()
	exact, hasDomain := e.lenDomain(ResolveLoad(a))
	decided := 0
	proven := true
	for n := e.minLen(a, 0); n < need; n++ {
		if hasDomain && n != 0 && n != exact {
			continue
		}
		assign := e.lenScenario(fn, site, a, n, 0)
		decided += len(assign)
		if len(assign) == 0 || ForwardReach(fn.Blocks[0], assign, nil)[site] {
			proven = false
			break
		}
	}
	if proven && (!hasDomain || exact >= need) {
		return true, fmt.Sprintf("unreachable with a shorter value (%d length tests decide it)", decided)
	}
	// a = b[k:] (constant k): needs len(b) >= need + k
	if sl, ok := a.(*ssa.Slice); ok && depth < 4 {
		if sl.High == nil && sl.Low != nil {
			if k, isK := ConstInt(sl.Low); isK {
				if ok2, why := e.proveLen(fn, at, sl.X, need+int(k), depth+1); ok2 {
					return true, why + " (through a constant reslice)"
				}
			}
		}
	}
	// phi: every incoming value long enough at the end of its predecessor
	if phi, ok := a.(*ssa.Phi); ok && depth < 3 {
		all := true
		for i, ed := range phi.Edges {
			if ed == ssa.Value(phi) {
				continue
			}
			pred := phi.Block().Preds[i]
			term := pred.Instrs[len(pred.Instrs)-1]
			if ok2, _ := e.proveLen(fn, term, ed, need, depth+1); !ok2 {
				// the edge itself may carry the fact (pred ends with the length test): the edge pred -> phi block
				// must be impossible for every shorter length
				edgeOK := true
				for n := 0; n < need; n++ {
					assign := e.lenScenario(fn, pred, ed, n, 0)
					if len(assign) == 0 {
						edgeOK = false
						break
					}
					if !ForwardReach(fn.Blocks[0], assign, nil)[pred] {
						continue
					}
					if c, pol, isIf := EdgeCond(pred, phi.Block()); isIf {
						atom, neg := normCond(c)
						if val, has := assign[atom]; has && val != (pol != neg) {
							continue
						}
					}
					edgeOK = false
					break
				}
				if !edgeOK {
					all = false
					break
				}
			}
		}
		if all {
			return true, "every value flowing into the phi is long enough"
		}
	}
	return false, fmt.Sprintf("a value shorter than %d can reach this read", need)
}

// paramRoot: is value a (a constant reslice of) parameter i of fn? returns the parameter index and the offset k with len(param) = len(a) + k.
func paramRoot(fn *ssa.Function, a ssa.Value) (int, int, bool) {
	off := 0
	for depth := 0; depth < 6; depth++ {
		a = ResolveLoad(a)
		if par, ok := a.(*ssa.Parameter); ok {
			for i, q := range fn.Params {
				if q == par {
					return i, off, true
				}
			}
			return 0, 0, false
		}
		sl, ok := a.(*ssa.Slice)
		if !ok || sl.High != nil {
			return 0, 0, false
		}
		if sl.Low != nil {
			k, isK := ConstInt(sl.Low)
			if !isK {
				return 0, 0, false
			}
			off += int(k)
		}
		a = sl.X
	}
	return 0, 0, false
}

// calleesOf resolves a call: the static callee, or for a call through a function value every module function
// of identical signature whose address is taken somewhere (functions stored in dispatch tables, passed as values).
func (e *BoundsEngine) calleesOf(c ssa.CallInstruction) []*ssa.Function {
	if callee := c.Common().StaticCallee(); callee != nil {
		return []*ssa.Function{callee}
	}
	if c.Common().IsInvoke() {
		return nil
	}
	if _, isBuiltin := c.Common().Value.(*ssa.Builtin); isBuiltin {
		return nil
	}
	sig, ok := c.Common().Value.Type().Underlying().(*types.Signature)
	if !ok {
		return nil
	}
	if e.addrTaken == nil {
		e.addrTaken = map[*ssa.Function]bool{}
		for _, fn := range e.P.ModFuncs {
			Instrs(fn, func(in ssa.Instruction) {
				for _, op := range in.Operands(nil) {
					if f, ok := (*op).(*ssa.Function); ok {
						if ci, isCall := in.(ssa.CallInstruction); isCall && ci.Common().Value == ssa.Value(f) {
							continue
						}
						e.addrTaken[f] = true
					}
				}
			})
		}
		for fn := range e.P.AllFuncs {
			if fn.Pkg != nil && InModule(fn.Pkg.Pkg.Path()) && (fn.Synthetic == "package initializer" || fn.Name() == "init") {
				Instrs(fn, func(in ssa.Instruction) {
					for _, op := range in.Operands(nil) {
						if f, ok := (*op).(*ssa.Function); ok {
							if ci, isCall := in.(ssa.CallInstruction); isCall && ci.Common().Value == ssa.Value(f) {
								continue
							}
							e.addrTaken[f] = true
						}
					}
				})
			}
		}
	}
	var out []*ssa.Function
	for f := range e.addrTaken {
		if f.Signature.Recv() == nil && types.Identical(f.Signature, sig) {
			out = append(out, f)
		}
	}
	sort.Slice(out, func(i, j int) bool { return FuncName(out[i]) < FuncName(out[j]) })
	return out
}

// reqOfCallees: the strongest requirement on argument pi among the possible callees.
func (e *BoundsEngine) reqOfCallees(callees []*ssa.Function) map[int]int {
	out := map[int]int{}
	for _, f := range callees {
		for pi, n := range e.Req[f] {
			if n > out[pi] {
				out[pi] = n
			}
		}
	}
	return out
}

// BoundResult is the verdict for one site.
type BoundResult struct {
	Site   BoundSite
	OK     bool
	Why    string
	ViaReq bool // discharged by a precondition on a parameter
}

// Analyse decides every site of the functions in scope, inferring parameter preconditions and checking
// them at static call sites (to a fixpoint). entry(fn) marks functions callable from outside with arbitrary
// arguments: a precondition on them is a violation. dynReq collects, per function, the preconditions that
// must be established at dynamic call sites (functions stored in dispatch tables).
func (e *BoundsEngine) Analyse(scope []*ssa.Function, entry func(*ssa.Function) bool) (results []BoundResult, uncovered int, callObligations []BoundResult) {
	inScope := map[*ssa.Function]bool{}
	for _, f := range scope {
		inScope[f] = true
	}
	// 1. local proofs and initial requirements
	pending := map[*ssa.Function][]BoundSite{}
	for _, fn := range scope {
		sites, unc := BoundSites(fn)
		uncovered += unc
		for _, s := range sites {
			ok, why := e.ProveLen(fn, s.Instr, s.Base, s.Need)
			if ok {
				results = append(results, BoundResult{s, true, why, false})
				continue
			}
			if pi, off, isPar := paramRoot(fn, s.Base); isPar {
				if e.Req[fn] == nil {
					e.Req[fn] = map[int]int{}
					e.ReqWhy[fn] = map[int]string{}
				}
				if s.Need+off > e.Req[fn][pi] {
					e.Req[fn][pi] = s.Need + off
					e.ReqWhy[fn][pi] = fmt.Sprintf("%s at %s", s.Kind, e.P.Pos(s.Instr.Pos()))
				}
				pending[fn] = append(pending[fn], s)
				continue
			}
			results = append(results, BoundResult{s, false, why, false})
		}
	}
	// 2. propagate requirements through static call sites
	for iter := 0; iter < 8; iter++ {
		changed := false
		for _, caller := range scope {
			Instrs(caller, func(in ssa.Instruction) {
				c, ok := in.(ssa.CallInstruction)
				if !ok {
					return
				}
				callees := e.calleesOf(c)
				reqs := e.reqOfCallees(callees)
				if len(reqs) == 0 {
					return
				}
				callee := callees[0]
				for pi, need := range reqs {
					if pi >= len(c.Common().Args) {
						continue
					}
					arg := c.Common().Args[pi]
					if ok2, _ := e.ProveLen(caller, in, arg, need); ok2 {
						continue
					}
					if qi, off, isPar := paramRoot(caller, arg); isPar {
						if e.Req[caller] == nil {
							e.Req[caller] = map[int]int{}
							e.ReqWhy[caller] = map[int]string{}
						}
						if need+off > e.Req[caller][qi] {
							e.Req[caller][qi] = need + off
							e.ReqWhy[caller][qi] = fmt.Sprintf("call to %s at %s", callee.Name(), e.P.Pos(in.Pos()))
							changed = true
						}
					}
				}
			})
		}
		if !changed {
			break
		}
	}
	// 3. verdicts for pending sites: the requirement must be established at every static call site,
	//    and the function must not be an entry point nor have unknown callers (handled by the caller of Analyse via DynamicReqs)
	for _, caller := range scope {
		Instrs(caller, func(in ssa.Instruction) {
			c, ok := in.(ssa.CallInstruction)
			if !ok {
				return
			}
			callees := e.calleesOf(c)
			reqs := e.reqOfCallees(callees)
			if len(reqs) == 0 {
				return
			}
			var pis []int
			for pi := range reqs {
				pis = append(pis, pi)
			}
			sort.Ints(pis)
			for _, pi := range pis {
				need := reqs[pi]
				if pi >= len(c.Common().Args) {
					continue
				}
				arg := c.Common().Args[pi]
				// name the callee that asks for the most
				callee := callees[0]
				for _, f := range callees {
					if e.Req[f][pi] == need {
						callee = f
						break
					}
				}
				what := "call " + callee.Name()
				if c.Common().StaticCallee() == nil {
					what = fmt.Sprintf("call through a function value (%d candidates, e.g. %s)", len(callees), callee.Name())
				}
				site := BoundSite{caller, in, arg, need, fmt.Sprintf("%s needs len(arg %d) >= %d (%s)", what, pi, need, e.ReqWhy[callee][pi])}
				if ok2, why := e.ProveLen(caller, in, arg, need); ok2 {
					callObligations = append(callObligations, BoundResult{site, true, why, false})
					continue
				}
				if _, _, isPar := paramRoot(caller, arg); isPar {
					callObligations = append(callObligations, BoundResult{site, true, "lifted to a precondition of " + caller.Name(), true})
					continue
				}
				callObligations = append(callObligations, BoundResult{site, false, fmt.Sprintf("the argument may be shorter than %d", need), false})
			}
		})
	}
	for fn, sites := range pending {
		for _, s := range sites {
			pi, _, _ := paramRoot(fn, s.Base)
			if entry(fn) {
				results = append(results, BoundResult{s, false, fmt.Sprintf("needs len(%s) >= %d but %s is an entry point that receives arbitrary input", fn.Params[pi].Name(), e.Req[fn][pi], fn.Name()), false})
				continue
			}
			results = append(results, BoundResult{s, true, fmt.Sprintf("precondition len(%s) >= %d, established at every call site", fn.Params[pi].Name(), e.Req[fn][pi]), true})
		}
	}
	return
}

// VarMinusSite is an index or slice bound of the form v - c (c > 0) where v is not len() of the indexed value:
// it must not be negative.
type VarMinusSite struct {
	Fn    *ssa.Function
	Instr ssa.Instruction
	Expr  *ssa.BinOp
}

// VarMinusSites lists such sites of fn.
func VarMinusSites(fn *ssa.Function) []VarMinusSite {
	var out []VarMinusSite
	check := func(in ssa.Instruction, idx, base ssa.Value) {
		if idx == nil {
			return
		}
		b, ok := stripIntWiden(idx).(*ssa.BinOp)
		if !ok || b.Op != token.SUB {
			return
		}
		c, ok := ConstInt(b.Y)
		if !ok || c <= 0 {
			return
		}
		if _, isLen := lenMinus(idx, base); isLen {
			return
		}
		out = append(out, VarMinusSite{fn, in, b})
	}
	Instrs(fn, func(in ssa.Instruction) {
		switch x := in.(type) {
		case *ssa.IndexAddr:
			if isVarLen(x.X.Type()) {
				check(in, x.Index, x.X)
			}
		case *ssa.Index:
			if isVarLen(x.X.Type()) {
				check(in, x.Index, x.X)
			}
		case *ssa.Lookup:
			if isVarLen(x.X.Type()) {
				check(in, x.Index, x.X)
			}
		case *ssa.Slice:
			if isVarLen(x.X.Type()) {
				check(in, x.Low, x.X)
				check(in, x.High, x.X)
			}
		}
	})
	return out
}
