package core

import (
	"fmt"
	"go/constant"
	"go/token"
	"go/types"
	"math/big"
	"os"
	"sort"
	"strings"

	"golang.org/x/tools/go/ssa"
)

// Scanner bounds: every read of a byte scanner's buffer at a position derived from its cursor is in range.
//
// A scanner is a struct with a buffer field B ([]byte or string) and an integer cursor field C; its methods read
// B[e], B[a:b] with e, a, b linear in the cursor, in len(B) and in locals, under tests such as `C < len(B)`.
// The analysis is per function and linear: each integer value is folded to a linear form over atoms (cursor memory
// versions C#k, LEN, opaque values), the conditions that dominate a site and a few contracts of library calls give
// linear facts, and a site is proved by showing that the facts together with the negation of the bound have no
// rational solution (Fourier–Motzkin elimination; exact arithmetic).  Assumed at every function entry and after every
// call, and proved at every store to the cursor: 0 <= C <= len(B).

type ScanSpec struct {
	Pkg, Type        string // e.g. "css/selector", "parser"
	BufField, Cursor string // field names
}

type ScanSite struct {
	Fn     *ssa.Function
	Pos    token.Pos
	Kind   string // "index", "slice", "cursor store"
	Goal   string // rendered inequality
	Proved bool
	Why    string
}

type lin = Lin

type scanFn struct {
	p        *Prog
	spec     ScanSpec
	fn       *ssa.Function
	recv     ssa.Value
	verAt    map[ssa.Instruction]int // cursor version in force *before* the instruction
	mods     map[*ssa.Function]bool
	atomName map[ssa.Value]string
	storeEq  map[int]lin // version -> the linear value stored (when linear)
	phiLE    map[*ssa.Phi]bool
	phiGE    map[*ssa.Phi]lin // phi >= this (value on the entry edge of a loop)
	// conditional frame summaries: callee -> result index -> "nil"/"false": the cursor is unchanged when that result
	// has that value
	frames  map[*ssa.Function]map[int]string
	callVer map[ssa.Instruction][2]int // call -> (version before, version after)
	outVer  map[*ssa.BasicBlock]int
	assume  []ineq // entry assumption being tried (precondition inference)
}

func ratInt(i int64) *big.Rat { return new(big.Rat).SetInt64(i) }

// constraint: sum coef*atom + K <= 0
type ineq struct {
	T map[string]*big.Rat
	K *big.Rat
}

func fromLin(l lin) ineq {
	q := ineq{T: map[string]*big.Rat{}, K: ratInt(l.K)}
	for k, v := range l.T {
		q.T[k] = ratInt(v)
	}
	return q
}

// infeasible decides by Fourier–Motzkin elimination whether the system {q <= 0} has no rational solution.
func infeasible(sys []ineq) bool {
	vars := map[string]bool{}
	for _, q := range sys {
		for k := range q.T {
			vars[k] = true
		}
	}
	var names []string
	for k := range vars {
		names = append(names, k)
	}
	sort.Strings(names)
	cur := sys
	for _, v := range names {
		var pos, neg, rest []ineq
		for _, q := range cur {
			c, ok := q.T[v]
			switch {
			case !ok || c.Sign() == 0:
				rest = append(rest, q)
			case c.Sign() > 0:
				pos = append(pos, q)
			default:
				neg = append(neg, q)
			}
		}
		if len(pos)*len(neg) > 4000 {
			return false // give up: not proved
		}
		for _, a := range pos {
			for _, b := range neg {
				// a/ca + b/(-cb)
				ca := new(big.Rat).Set(a.T[v])
				cb := new(big.Rat).Neg(b.T[v])
				n := ineq{T: map[string]*big.Rat{}, K: new(big.Rat)}
				add := func(q ineq, s *big.Rat) {
					for k, c := range q.T {
						if k == v {
							continue
						}
						t := new(big.Rat).Mul(c, s)
						if old, ok := n.T[k]; ok {
							t.Add(t, old)
						}
						if t.Sign() == 0 {
							delete(n.T, k)
						} else {
							n.T[k] = t
						}
					}
					n.K.Add(n.K, new(big.Rat).Mul(q.K, s))
				}
				add(a, new(big.Rat).Inv(ca))
				add(b, new(big.Rat).Inv(cb))
				rest = append(rest, n)
			}
		}
		cur = rest
		// constant contradictions can be detected early
		for _, q := range cur {
			if len(q.T) == 0 && q.K.Sign() > 0 {
				return true
			}
		}
		if len(cur) > 6000 {
			return false
		}
	}
	for _, q := range cur {
		if len(q.T) == 0 && q.K.Sign() > 0 {
			return true
		}
	}
	return false
}

// ScanBounds analyses the methods of the scanner type (and the closures inside them).
func (p *Prog) ScanBounds(spec ScanSpec) (sites []ScanSite, err error) {
	var fns []*ssa.Function
	for _, fn := range p.FuncsOfPkg(spec.Pkg) {
		if fn.Blocks == nil {
			continue
		}
		root := fn
		for root.Parent() != nil {
			root = root.Parent()
		}
		if root.Signature.Recv() == nil {
			continue
		}
		rt := root.Signature.Recv().Type()
		if pt, ok := rt.(*types.Pointer); ok {
			rt = pt.Elem()
		}
		if n, ok := rt.(*types.Named); !ok || n.Obj().Name() != spec.Type {
			continue
		}
		if fn.Parent() != nil {
			continue // closures: not handled, their sites are reported unproved below if any
		}
		fns = append(fns, fn)
	}
	if len(fns) == 0 {
		return nil, fmt.Errorf("no method of %s.%s", spec.Pkg, spec.Type)
	}
	// methods that may modify the cursor (store to the field, or call one that does)
	mods := map[*ssa.Function]bool{}
	isCursorAddr := func(v ssa.Value) bool {
		fa, ok := v.(*ssa.FieldAddr)
		return ok && FieldName(fa) == spec.Cursor
	}
	for changed := true; changed; {
		changed = false
		for _, fn := range fns {
			if mods[fn] {
				continue
			}
			Instrs(fn, func(in ssa.Instruction) {
				if st, ok := in.(*ssa.Store); ok && isCursorAddr(st.Addr) {
					if !mods[fn] {
						mods[fn], changed = true, true
					}
				}
				if c, ok := in.(ssa.CallInstruction); ok {
					if t := c.Common().StaticCallee(); t != nil && mods[t] && !mods[fn] {
						mods[fn], changed = true, true
					}
				}
			})
		}
	}
	frames := map[*ssa.Function]map[int]string{}
	for _, fn := range fns {
		if !mods[fn] {
			continue
		}
		// blocks reachable from a modification of the cursor
		dirty := map[*ssa.BasicBlock]bool{}
		var work []*ssa.BasicBlock
		dirtyAt := map[*ssa.BasicBlock]int{} // index of the first modifying instruction
		for _, b := range fn.Blocks {
			for i, in := range b.Instrs {
				m := false
				switch x := in.(type) {
				case *ssa.Store:
					m = isCursorAddr(x.Addr)
				case ssa.CallInstruction:
					if t := x.Common().StaticCallee(); t != nil && mods[t] {
						m = true
					}
				}
				if m {
					if _, ok := dirtyAt[b]; !ok {
						dirtyAt[b] = i
						work = append(work, b)
					}
				}
			}
		}
		for len(work) > 0 {
			b := work[len(work)-1]
			work = work[:len(work)-1]
			for _, sc := range b.Succs {
				if !dirty[sc] {
					dirty[sc] = true
					work = append(work, sc)
				}
			}
		}
		res := fn.Signature.Results()
		sum := map[int]string{}
		for i := 0; i < res.Len(); i++ {
			kind := ""
			switch t := res.At(i).Type().Underlying().(type) {
			case *types.Interface, *types.Pointer, *types.Slice, *types.Map:
				kind = "nil"
			case *types.Basic:
				if t.Kind() == types.Bool {
					kind = "false"
				}
			}
			if kind == "" {
				continue
			}
			ok := true
			for _, b := range fn.Blocks {
				ret, isRet := b.Instrs[len(b.Instrs)-1].(*ssa.Return)
				if !isRet {
					continue
				}
				_, modifiedHere := dirtyAt[b]
				if !dirty[b] && !modifiedHere {
					continue
				}
				// the value returned after a modification must be non-nil / true
				v := ret.Results[i]
				good := false
				switch x := v.(type) {
				case *ssa.MakeInterface:
					good = kind == "nil"
				case *ssa.Const:
					if kind == "false" && x.Value != nil && x.Value.Kind() == constant.Bool && constant.BoolVal(x.Value) {
						good = true
					}
				case *ssa.Alloc, *ssa.MakeSlice, *ssa.MakeMap:
					good = kind == "nil"
				}
				if !good {
					ok = false
				}
			}
			if ok {
				sum[i] = kind
			}
		}
		if len(sum) > 0 {
			frames[fn] = sum
		}
	}
	newScan := func(fn *ssa.Function) *scanFn {
		s := &scanFn{p: p, spec: spec, fn: fn, mods: mods, frames: frames, atomName: map[ssa.Value]string{}, storeEq: map[int]lin{}, phiLE: map[*ssa.Phi]bool{}, phiGE: map[*ssa.Phi]lin{}, callVer: map[ssa.Instruction][2]int{}}
		s.recv = fn.Params[0]
		s.versions()
		return s
	}
	// preconditions: a function whose sites are proved only with "cursor + k <= len at entry" (k = 1, 2) requires it
	// from its callers
	req := map[*ssa.Function]int64{}
	results := map[*ssa.Function][]ScanSite{}
	for _, fn := range fns {
		if len(fn.Params) == 0 {
			continue
		}
		best := newScan(fn).sites()
		for k := int64(1); k <= 2; k++ {
			un := 0
			for _, st := range best {
				if !st.Proved {
					un++
				}
			}
			if un == 0 {
				break
			}
			s := newScan(fn)
			s.assume = []ineq{le(lin{T: map[string]int64{"C#0": 1}, K: k}, lin{T: map[string]int64{lenAtom: 1}})}
			try := s.sites()
			un2 := 0
			for _, st := range try {
				if !st.Proved {
					un2++
				}
			}
			if un2 < un {
				best = try
				req[fn] = k
				un = un2
				_ = un
			}
		}
		results[fn] = best
	}
	// the preconditions are obligations at the call sites
	for _, fn := range fns {
		if len(fn.Params) == 0 {
			continue
		}
		sites = append(sites, results[fn]...)
		s := newScan(fn)
		if k, ok := req[fn]; ok {
			s.assume = []ineq{le(lin{T: map[string]int64{"C#0": 1}, K: k}, lin{T: map[string]int64{lenAtom: 1}})}
		}
		s.prepare()
		Instrs(fn, func(in ssa.Instruction) {
			c, ok := in.(ssa.CallInstruction)
			if !ok {
				return
			}
			t := c.Common().StaticCallee()
			k, has := req[t]
			if t == nil || !has {
				return
			}
			cur := lin{T: map[string]int64{fmt.Sprintf("C#%d", s.verAt[in]): 1}, K: k}
			goal := le(cur, lin{T: map[string]int64{lenAtom: 1}})
			okp := s.prove(in, goal)
			sites = append(sites, ScanSite{Fn: fn, Pos: in.Pos(), Kind: fmt.Sprintf("call of %s needs cursor+%d <= len", t.Name(), k), Goal: renderIneq(goal), Proved: okp})
		})
	}
	// the "never decreases" obligations matter only when some site relies on the monotone cursor
	usesMono := false
	for _, st := range sites {
		if st.Why == "monotone cursor" {
			usesMono = true
		}
	}
	if !usesMono {
		kept := sites[:0]
		for _, st := range sites {
			if st.Kind != "cursor store >= before" {
				kept = append(kept, st)
			}
		}
		sites = kept
	}
	return sites, nil
}

func (s *scanFn) isField(v ssa.Value, name string) bool {
	fa, ok := v.(*ssa.FieldAddr)
	return ok && fa.X == s.recv && FieldName(fa) == name
}

func (s *scanFn) isBuf(v ssa.Value) bool {
	ld, ok := v.(*ssa.UnOp)
	return ok && ld.Op == token.MUL && s.isField(ld.X, s.spec.BufField)
}

// versions numbers the memory versions of the cursor.
func (s *scanFn) versions() {
	s.verAt = map[ssa.Instruction]int{}
	out := map[*ssa.BasicBlock]int{}
	next := 1
	fresh := map[*ssa.BasicBlock]int{}
	event := map[ssa.Instruction]int{} // version created by an instruction
	blocks := s.fn.Blocks
	for iter := 0; iter < 10; iter++ {
		changed := false
		for _, b := range blocks {
			in := -1
			if b == blocks[0] {
				in = 0
			} else {
				same := true
				for _, pr := range b.Preds {
					o, ok := out[pr]
					if !ok {
						continue
					}
					if in == -1 {
						in = o
					} else if in != o {
						same = false
					}
				}
				if !same || in == -1 {
					if _, ok := fresh[b]; !ok {
						fresh[b] = 100000 + b.Index
					}
					if in != -1 || !same {
						in = fresh[b]
					}
				}
			}
			cur := in
			for _, ins := range b.Instrs {
				s.verAt[ins] = cur
				mod := false
				switch x := ins.(type) {
				case *ssa.Store:
					if s.isField(x.Addr, s.spec.Cursor) {
						mod = true
					}
				case ssa.CallInstruction:
					cc := x.Common()
					if t := cc.StaticCallee(); t != nil {
						if s.mods[t] {
							mod = true
						}
					} else if !cc.IsInvoke() {
						// dynamic call (closure, function value): may do anything with the receiver it captured
						if _, isB := cc.Value.(*ssa.Builtin); !isB {
							mod = true
						}
					}
				}
				if mod {
					s.callVer[ins] = [2]int{cur, 0}
					if _, ok := event[ins]; !ok {
						event[ins] = next
						if os.Getenv("SCANDEBUG") != "" {
							fmt.Println("EVENT", next, s.p.Pos(ins.Pos()), ins)
						}
						next++
					}
					cur = event[ins]
					cv := s.callVer[ins]
					cv[1] = cur
					s.callVer[ins] = cv
				}
			}
			if o, ok := out[b]; !ok || o != cur {
				out[b] = cur
				changed = true
			}
		}
		if !changed {
			break
		}
	}
	s.outVer = out
}

func (s *scanFn) atom(v ssa.Value) string {
	if n, ok := s.atomName[v]; ok {
		return n
	}
	n := fmt.Sprintf("%s@%p", v.Name(), v)
	s.atomName[v] = n
	return n
}

const lenAtom = "LEN"

// linOf folds an integer value.
func (s *scanFn) linOf(v ssa.Value, depth int) lin {
	one := func(a string) lin { return lin{T: map[string]int64{a: 1}} }
	if depth > 14 {
		return one(s.atom(v))
	}
	switch x := v.(type) {
	case *ssa.Const:
		if x.Value != nil && x.Value.Kind() == constant.Int {
			if i, ok := constant.Int64Val(x.Value); ok {
				return lin{T: map[string]int64{}, K: i}
			}
		}
	case *ssa.Convert:
		if b, ok := x.X.Type().Underlying().(*types.Basic); ok && b.Info()&types.IsInteger != 0 {
			if b2, ok := x.Type().Underlying().(*types.Basic); ok && b2.Info()&types.IsInteger != 0 {
				return s.linOf(x.X, depth+1)
			}
		}
	case *ssa.BinOp:
		switch x.Op {
		case token.ADD:
			return s.linOf(x.X, depth+1).Plus(s.linOf(x.Y, depth+1), 1)
		case token.SUB:
			return s.linOf(x.X, depth+1).Plus(s.linOf(x.Y, depth+1), -1)
		case token.MUL:
			a, b := s.linOf(x.X, depth+1), s.linOf(x.Y, depth+1)
			if len(a.T) == 0 {
				return b.Scale(a.K)
			}
			if len(b.T) == 0 {
				return a.Scale(b.K)
			}
		}
	case *ssa.UnOp:
		if x.Op == token.MUL && s.isField(x.X, s.spec.Cursor) {
			return one(fmt.Sprintf("C#%d", s.verAt[x]))
		}
	case *ssa.Call:
		if b, ok := x.Call.Value.(*ssa.Builtin); ok && b.Name() == "len" && len(x.Call.Args) == 1 {
			if l, ok := s.lenOf(x.Call.Args[0], depth+1); ok {
				return l
			}
		}
	}
	return one(s.atom(v))
}

// lenOf: the length of a buffer-derived value as a linear form.
func (s *scanFn) lenOf(v ssa.Value, depth int) (lin, bool) {
	if s.isBuf(v) {
		return lin{T: map[string]int64{lenAtom: 1}}, true
	}
	switch x := v.(type) {
	case *ssa.Const:
		if x.Value != nil && x.Value.Kind() == constant.String {
			return lin{T: map[string]int64{}, K: int64(len(constant.StringVal(x.Value)))}, true
		}
	case *ssa.Slice:
		if x.Low == nil && x.High == nil {
			if pt, ok := x.X.Type().Underlying().(*types.Pointer); ok {
				if arr, ok := pt.Elem().Underlying().(*types.Array); ok {
					return lin{T: map[string]int64{}, K: arr.Len()}, true // []byte{'='}
				}
			}
		}
		base, ok := s.lenOf(x.X, depth+1)
		if !ok {
			return lin{}, false
		}
		hi := base
		if x.High != nil {
			hi = s.linOf(x.High, depth+1)
		}
		lo := lin{T: map[string]int64{}}
		if x.Low != nil {
			lo = s.linOf(x.Low, depth+1)
		}
		return hi.Plus(lo, -1), true
	case *ssa.Convert: // []byte(s), string(b)
		return s.lenOf(x.X, depth+1)
	case *ssa.ChangeType:
		return s.lenOf(x.X, depth+1)
	}
	return lin{}, false
}

// constLenRange: the lengths a value can have when it merges values of constant length.
func (s *scanFn) constLenRange(v ssa.Value, depth int) (lo, hi int64, ok bool) {
	if depth > 4 {
		return 0, 0, false
	}
	if phi, isPhi := v.(*ssa.Phi); isPhi {
		first := true
		for _, e := range phi.Edges {
			l, h, ok := s.constLenRange(e, depth+1)
			if !ok {
				return 0, 0, false
			}
			if first || l < lo {
				lo = l
			}
			if first || h > hi {
				hi = h
			}
			first = false
		}
		return lo, hi, !first
	}
	if l, ok := s.lenOf(v, 0); ok && len(l.T) == 0 {
		return l.K, l.K, true
	}
	// a slice with constant difference of bounds: x[e : e+k]
	if sl, isSl := v.(*ssa.Slice); isSl && sl.Low != nil && sl.High != nil {
		d := s.linOf(sl.High, 0).Plus(s.linOf(sl.Low, 0), -1)
		if len(d.T) == 0 {
			return d.K, d.K, true
		}
	}
	return 0, 0, false
}

// isBufDerived: v is the buffer or a slice of it; returns the offset of v[0] in the buffer and the end.
func (s *scanFn) bufSlice(v ssa.Value) (lo, hi lin, ok bool) {
	if s.isBuf(v) {
		return lin{T: map[string]int64{}}, lin{T: map[string]int64{lenAtom: 1}}, true
	}
	switch x := v.(type) {
	case *ssa.Slice:
		blo, bhi, ok := s.bufSlice(x.X)
		if !ok {
			return lin{}, lin{}, false
		}
		lo, hi = blo, bhi
		if x.Low != nil {
			lo = blo.Plus(s.linOf(x.Low, 0), 1)
		}
		if x.High != nil {
			hi = blo.Plus(s.linOf(x.High, 0), 1)
		}
		return lo, hi, true
	case *ssa.Convert:
		return s.bufSlice(x.X)
	}
	return lin{}, lin{}, false
}

func le(a, b lin) ineq  { return fromLin(a.Plus(b, -1)) }                                           // a <= b
func lt(a, b lin) ineq  { return fromLin(a.Plus(b, -1).Plus(lin{T: map[string]int64{}, K: 1}, 1)) } // a <= b-1
func konst(k int64) lin { return lin{T: map[string]int64{}, K: k} }

// condFacts: the linear facts that hold when cond has the given truth value.
func (s *scanFn) condFacts(cond ssa.Value, truth bool, depth int) []ineq {
	if depth > 6 {
		return nil
	}
	// a result of a call with a conditional frame summary: nil / false means the cursor did not move
	unchanged := func(v ssa.Value, isNilOrFalse bool) []ineq {
		if !isNilOrFalse {
			return nil
		}
		idx := 0
		var call *ssa.Call
		switch y := v.(type) {
		case *ssa.Call:
			call = y
		case *ssa.Extract:
			if c, ok := y.Tuple.(*ssa.Call); ok {
				call, idx = c, y.Index
			}
		}
		if call == nil || call.Call.StaticCallee() == nil {
			return nil
		}
		if _, ok := s.frames[call.Call.StaticCallee()][idx]; !ok {
			return nil
		}
		cv, ok := s.callVer[call]
		if !ok {
			return nil
		}
		a := lin{T: map[string]int64{fmt.Sprintf("C#%d", cv[0]): 1}}
		b := lin{T: map[string]int64{fmt.Sprintf("C#%d", cv[1]): 1}}
		return []ineq{le(a, b), le(b, a)}
	}
	switch x := cond.(type) {
	case *ssa.Extract:
		return unchanged(x, !truth)
	case *ssa.Call:
		if x.Type().Underlying() == types.Typ[types.Bool] {
			if f := unchanged(x, !truth); f != nil {
				return f
			}
		}
	}
	switch x := cond.(type) {
	case *ssa.UnOp:
		if x.Op == token.NOT {
			return s.condFacts(x.X, !truth, depth+1)
		}
	case *ssa.BinOp:
		if k, isK := x.Y.(*ssa.Const); isK && k.Value == nil && (x.Op == token.EQL || x.Op == token.NEQ) {
			isNil := (x.Op == token.EQL) == truth
			return unchanged(x.X, isNil)
		}
		b, ok := x.X.Type().Underlying().(*types.Basic)
		if !ok || b.Info()&types.IsInteger == 0 {
			return nil
		}
		a, c := s.linOf(x.X, 0), s.linOf(x.Y, 0)
		op := x.Op
		if !truth {
			switch op {
			case token.LSS:
				op = token.GEQ
			case token.LEQ:
				op = token.GTR
			case token.GTR:
				op = token.LEQ
			case token.GEQ:
				op = token.LSS
			case token.EQL:
				op = token.NEQ
			case token.NEQ:
				op = token.EQL
			}
		}
		switch op {
		case token.LSS:
			return []ineq{lt(a, c)}
		case token.LEQ:
			return []ineq{le(a, c)}
		case token.GTR:
			return []ineq{lt(c, a)}
		case token.GEQ:
			return []ineq{le(c, a)}
		case token.EQL:
			return []ineq{le(a, c), le(c, a)}
		case token.NEQ:
			// usable only with an order known from the invariants: cursor != LEN means cursor < LEN; r != -1 means r >= 0
			d := a.Plus(c, -1)
			if len(d.T) == 2 && d.T[lenAtom] == -1 {
				for k, v := range d.T {
					if strings.HasPrefix(k, "C#") && v == 1 && d.K == 0 {
						return []ineq{lt(a, c)}
					}
				}
			}
			if len(c.T) == 0 && c.K == -1 { // x != -1 for an index result
				if s.isIndexResult(x.X) {
					return append([]ineq{le(konst(0), a)}, s.indexBound(x.X)...)
				}
			}
		}
		// x >= 0 / x > -1 on an index result brings the contract
		if s.isIndexResult(x.X) && len(c.T) == 0 {
			if (op == token.GEQ && c.K == 0) || (op == token.GTR && c.K == -1) {
				return append([]ineq{le(konst(0), a)}, s.indexBound(x.X)...)
			}
		}
	case *ssa.Call:
		if truth {
			if cal := x.Call.StaticCallee(); cal != nil {
				switch cal.String() {
				case "strings.HasPrefix", "bytes.HasPrefix":
					if lo, hi, ok := s.bufSlice(x.Call.Args[0]); ok {
						if l, ok := s.lenOf(x.Call.Args[1], 0); ok {
							return []ineq{le(lo.Plus(l, 1), hi)}
						}
					}
				}
			}
		}
	}
	return nil
}

func (s *scanFn) isIndexResult(v ssa.Value) bool {
	call, ok := v.(*ssa.Call)
	if !ok || call.Call.StaticCallee() == nil {
		return false
	}
	switch call.Call.StaticCallee().String() {
	case "strings.Index", "bytes.Index", "strings.IndexByte", "bytes.IndexByte", "strings.IndexRune", "bytes.IndexRune":
		return true
	}
	return false
}

// indexBound: r + len(sep) <= len(haystack) for a found index.
func (s *scanFn) indexBound(v ssa.Value) []ineq {
	call := v.(*ssa.Call)
	hl, ok := s.lenOf(call.Call.Args[0], 0)
	if !ok {
		return nil
	}
	sep := konst(1)
	if l, ok := s.lenOf(call.Call.Args[1], 0); ok {
		sep = l
	}
	r := s.linOf(v, 0)
	return []ineq{le(r.Plus(sep, 1), hl)}
}

// factsAt collects the facts in force at instruction `at`.
func (s *scanFn) factsAt(at ssa.Instruction, mentioned func() []string) []ineq {
	var facts []ineq
	facts = append(facts, s.assume...)
	b := at.Block()
	// dominating conditions
	for d := b.Idom(); d != nil; d = d.Idom() {
		ifi, ok := d.Instrs[len(d.Instrs)-1].(*ssa.If)
		if !ok || d.Succs[0] == d.Succs[1] {
			continue
		}
		for k := 0; k < 2; k++ {
			sc := d.Succs[k]
			if len(sc.Preds) == 1 && (sc == b || sc.Dominates(b)) {
				facts = append(facts, s.condFacts(ifi.Cond, k == 0, 0)...)
			}
		}
	}
	return facts
}

// atomFacts: invariants and contracts for the atoms of a system.
func (s *scanFn) atomFacts(sys []ineq) []ineq {
	var out []ineq
	seen := map[string]bool{}
	add := func(q ineq) { out = append(out, q) }
	byName := map[string]ssa.Value{}
	for v, n := range s.atomName {
		byName[n] = v
	}
	var visit func(name string)
	visit = func(name string) {
		if seen[name] {
			return
		}
		seen[name] = true
		L := lin{T: map[string]int64{lenAtom: 1}}
		me := lin{T: map[string]int64{name: 1}}
		switch {
		case name == lenAtom:
			add(le(konst(0), me))
		case strings.HasPrefix(name, "C#"):
			add(le(konst(0), me))
			add(le(me, L))
			var ver int
			fmt.Sscanf(name, "C#%d", &ver)
			if eq, ok := s.storeEq[ver]; ok {
				add(le(me, eq))
				add(le(eq, me))
				for k := range eq.T {
					visit(k)
				}
			}
		default:
			v := byName[name]
			switch x := v.(type) {
			case *ssa.Extract:
				// w of DecodeRune(B[e:]): 0 <= w <= len(B[e:])
				if call, ok := x.Tuple.(*ssa.Call); ok && call.Call.StaticCallee() != nil && x.Index == 1 {
					switch call.Call.StaticCallee().String() {
					case "unicode/utf8.DecodeRune", "unicode/utf8.DecodeRuneInString":
						add(le(konst(0), me))
						if l, ok := s.lenOf(call.Call.Args[0], 0); ok {
							add(le(me, l))
							for k := range l.T {
								visit(k)
							}
						}
					}
				}
			case *ssa.Call:
				if s.isIndexResult(x) {
					add(le(konst(-1), me))
				}
				if cal := x.Call.StaticCallee(); cal != nil && (cal.Name() == "MinInt" || cal.Name() == "min") && len(x.Call.Args) == 2 {
					for _, a := range x.Call.Args {
						l := s.linOf(a, 0)
						add(le(me, l))
						for k := range l.T {
							visit(k)
						}
					}
				}
				if cal := x.Call.StaticCallee(); cal != nil && cal.String() == "unicode/utf8.RuneLen" {
					add(le(me, konst(4)))
					if cv, ok := x.Call.Args[0].(*ssa.Convert); ok {
						if bt, ok := cv.X.Type().Underlying().(*types.Basic); ok && bt.Kind() == types.Uint8 {
							add(le(konst(1), me))
							add(le(me, konst(2)))
						}
					}
				}
				if b, ok := x.Call.Value.(*ssa.Builtin); ok && b.Name() == "len" {
					add(le(konst(0), me))
					if lo, hi, ok := s.constLenRange(x.Call.Args[0], 0); ok {
						add(le(konst(lo), me))
						add(le(me, konst(hi)))
					}
				}
			case *ssa.Phi:
				if s.phiLE[x] {
					add(le(me, L))
				}
				if lo, ok := s.phiGE[x]; ok {
					add(le(lo, me))
					for k := range lo.T {
						visit(k)
					}
				}
			}
		}
	}
	for _, q := range sys {
		for k := range q.T {
			visit(k)
		}
	}
	return out
}

func (s *scanFn) prove(at ssa.Instruction, goal ineq) bool {
	return s.proveWith(at, goal, nil, 0)
}

// mergeOf: the block at which a fresh cursor version was created by a merge of different versions.
func mergeBlock(fn *ssa.Function, ver int) *ssa.BasicBlock {
	if ver < 100000 {
		return nil
	}
	idx := ver - 100000
	if idx < 0 || idx >= len(fn.Blocks) {
		return nil
	}
	return fn.Blocks[idx]
}

func (s *scanFn) system(at ssa.Instruction, goal ineq, extra []ineq) []ineq {
	// negation of goal (expr <= 0) over the integers: expr >= 1, i.e. -expr + 1 <= 0
	neg := ineq{T: map[string]*big.Rat{}, K: new(big.Rat).Sub(ratInt(1), goal.K)}
	for k, c := range goal.T {
		neg.T[k] = new(big.Rat).Neg(c)
	}
	base := append([]ineq{neg}, s.factsAt(at, nil)...)
	base = append(base, extra...)
	sys := base
	for i := 0; i < 3; i++ {
		sys = append(append([]ineq{}, base...), s.atomFacts(sys)...)
	}
	return sys
}

// proveWith proves goal at `at`; when the direct proof fails it splits on the predecessors of a merge block at which a
// cursor version (or an integer phi) mentioned by the system was created: in an execution that reaches the site
// through predecessor p the merged value equals p's value, and the facts in force at the end of p hold as well
// (same iteration: the merge block is not a loop header).
func (s *scanFn) proveWith(at ssa.Instruction, goal ineq, extra []ineq, depth int) bool {
	sys := s.system(at, goal, extra)
	if infeasible(sys) {
		return true
	}
	if depth >= 3 {
		s.debug(at, sys)
		return false
	}
	// candidates: fresh versions / phis defined at a merge block that is not a loop header
	type cand struct {
		name string
		b    *ssa.BasicBlock
		phi  *ssa.Phi
	}
	var cands []cand
	seen := map[string]bool{}
	byName := map[string]ssa.Value{}
	for v, n := range s.atomName {
		byName[n] = v
	}
	for _, q := range sys {
		for k := range q.T {
			if seen[k] {
				continue
			}
			seen[k] = true
			if strings.HasPrefix(k, "C#") {
				var ver int
				fmt.Sscanf(k, "C#%d", &ver)
				if b := mergeBlock(s.fn, ver); b != nil {
					cands = append(cands, cand{k, b, nil})
				}
			} else if phi, ok := byName[k].(*ssa.Phi); ok {
				cands = append(cands, cand{k, phi.Block(), phi})
			}
		}
	}
	sort.Slice(cands, func(i, j int) bool { return cands[i].b.Index > cands[j].b.Index })
	for _, c := range cands {
		isHeader := false
		for _, pr := range c.b.Preds {
			if c.b.Dominates(pr) {
				isHeader = true
			}
		}
		if isHeader || len(c.b.Preds) < 2 || len(c.b.Preds) > 6 {
			continue
		}
		if !(c.b == at.Block() || c.b.Dominates(at.Block())) {
			continue
		}
		all := true
		for i, pr := range c.b.Preds {
			last := pr.Instrs[len(pr.Instrs)-1]
			more := append([]ineq{}, extra...)
			more = append(more, s.factsAt(last, nil)...)
			if ifi, ok := last.(*ssa.If); ok && pr.Succs[0] != pr.Succs[1] {
				more = append(more, s.condFacts(ifi.Cond, pr.Succs[0] == c.b, 0)...)
			}
			me := lin{T: map[string]int64{c.name: 1}}
			var val lin
			if c.phi != nil {
				val = s.linOf(c.phi.Edges[i], 0)
			} else {
				val = lin{T: map[string]int64{fmt.Sprintf("C#%d", s.outVer[pr]): 1}}
			}
			more = append(more, le(me, val), le(val, me))
			if !s.proveWith(at, goal, more, depth+1) {
				all = false
				break
			}
		}
		if all {
			return true
		}
	}
	s.debug(at, sys)
	return false
}

func (s *scanFn) debug(at ssa.Instruction, sys []ineq) {
	if dbg := os.Getenv("SCANDEBUG"); dbg != "" && strings.HasSuffix(s.p.Pos(at.Pos()), ":"+dbg) {
		fmt.Println("DEBUG", s.p.Pos(at.Pos()), "version before:", s.verAt[at])
		for _, q := range sys {
			fmt.Println("   ", renderIneq(q))
		}
	}
}

func renderIneq(q ineq) string {
	var names []string
	for k := range q.T {
		names = append(names, k)
	}
	sort.Strings(names)
	var sb strings.Builder
	for _, n := range names {
		short := n
		if i := strings.Index(short, "@0x"); i > 0 {
			short = short[:i]
		}
		fmt.Fprintf(&sb, "%+s·%s ", q.T[n].RatString(), short)
	}
	fmt.Fprintf(&sb, "%+s <= 0", q.K.RatString())
	return sb.String()
}

func (s *scanFn) sites() []ScanSite {
	s.prepare()
	return s.enumerate()
}

func (s *scanFn) prepare() {
	// record the values stored into the cursor (linear forms evaluated at the store)
	Instrs(s.fn, func(in ssa.Instruction) {
		if st, ok := in.(*ssa.Store); ok && s.isField(st.Addr, s.spec.Cursor) {
			// the version created by this store: the one in force at the next instruction; find it by scanning the block
			b := st.Block()
			for i, x := range b.Instrs {
				if x == ssa.Instruction(st) && i+1 < len(b.Instrs) {
					s.storeEq[s.verAt[b.Instrs[i+1]]] = s.linOf(st.Val, 0)
				}
			}
		}
	})
	// candidate invariants of integer phis: phi <= LEN when every incoming value is proved <= LEN at the end of its
	// predecessor, assuming the invariant itself (induction over the loop)
	var phis []*ssa.Phi
	Instrs(s.fn, func(in ssa.Instruction) {
		if phi, ok := in.(*ssa.Phi); ok {
			if b, ok := phi.Type().Underlying().(*types.Basic); ok && b.Info()&types.IsInteger != 0 {
				phis = append(phis, phi)
			}
		}
	})
	for _, phi := range phis {
		s.phiLE[phi] = true
	}
	L := lin{T: map[string]int64{lenAtom: 1}}
	for changed := true; changed; {
		changed = false
		for _, phi := range phis {
			if !s.phiLE[phi] {
				continue
			}
			for i, e := range phi.Edges {
				pred := phi.Block().Preds[i]
				last := pred.Instrs[len(pred.Instrs)-1]
				goal := le(s.linOf(e, 0), L)
				// the edge condition itself
				ok := s.proveOnEdge(last, pred, phi.Block(), goal)
				if !ok {
					s.phiLE[phi] = false
					changed = true
					break
				}
			}
		}
	}
	// lower bounds: a loop-header phi is at least its entry value when every back edge is at least the phi itself
	for _, phi := range phis {
		b := phi.Block()
		var entry *lin
		okLoop := false
		for i, e := range phi.Edges {
			pred := b.Preds[i]
			if b.Dominates(pred) {
				okLoop = true
				continue
			}
			if entry != nil {
				entry = nil
				okLoop = false
				break
			}
			l := s.linOf(e, 0)
			entry = &l
		}
		if !okLoop || entry == nil {
			continue
		}
		me := lin{T: map[string]int64{s.atom(phi): 1}}
		s.phiGE[phi] = *entry // assumed for the induction step, withdrawn if it fails
		good := true
		for i, e := range phi.Edges {
			pred := b.Preds[i]
			if !b.Dominates(pred) {
				continue
			}
			last := pred.Instrs[len(pred.Instrs)-1]
			if !s.proveOnEdge(last, pred, b, le(me, s.linOf(e, 0))) {
				good = false
			}
		}
		if !good {
			delete(s.phiGE, phi)
		}
	}
}

func (s *scanFn) enumerate() []ScanSite {
	L := lin{T: map[string]int64{lenAtom: 1}}
	var out []ScanSite
	add := func(in ssa.Instruction, kind string, goal ineq) {
		ok := s.prove(in, goal)
		out = append(out, ScanSite{Fn: s.fn, Pos: in.Pos(), Kind: kind, Goal: renderIneq(goal), Proved: ok})
	}
	Instrs(s.fn, func(in ssa.Instruction) {
		switch x := in.(type) {
		case *ssa.IndexAddr:
			if lo, hi, ok := s.bufSlice(x.X); ok {
				_ = lo
				idx := s.linOf(x.Index, 0)
				// index < len(x.X) where len = hi - lo
				add(in, "index", lt(lo.Plus(idx, 1), hi))
			}
		case *ssa.Index:
			if lo, hi, ok := s.bufSlice(x.X); ok {
				idx := s.linOf(x.Index, 0)
				add(in, "index", lt(lo.Plus(idx, 1), hi))
			}
		case *ssa.Slice:
			if lo, hi, ok := s.bufSlice(x.X); ok {
				var a lin = konst(0)
				if x.Low != nil {
					a = s.linOf(x.Low, 0)
				}
				if x.High != nil {
					b := s.linOf(x.High, 0)
					if x.Low != nil && s.isCursorLoad(x.High) && s.savedCursor(x.Low, 0) {
						// from a saved earlier value of the cursor to its current value: ordered because the cursor never
						// decreases, which is proved store by store ("cursor store >= before")
						out = append(out, ScanSite{Fn: s.fn, Pos: in.Pos(), Kind: "slice low<=high", Goal: "saved cursor <= current cursor", Proved: true, Why: "monotone cursor"})
					} else {
						add(in, "slice low<=high", le(a, b))
					}
					add(in, "slice high<=len", le(lo.Plus(b, 1), hi))
				} else {
					add(in, "slice low<=len", le(lo.Plus(a, 1), hi))
				}
			}
		case *ssa.Store:
			if s.isField(x.Addr, s.spec.Cursor) {
				add(in, "cursor store <= len", le(s.linOf(x.Val, 0), L))
				before := lin{T: map[string]int64{fmt.Sprintf("C#%d", s.verAt[in]): 1}}
				add(in, "cursor store >= before", le(before, s.linOf(x.Val, 0)))
			}
		}
	})
	return out
}

// proveOnEdge proves goal at the end of pred, on the edge to succ (adds the edge condition).
func (s *scanFn) proveOnEdge(last ssa.Instruction, pred, succ *ssa.BasicBlock, goal ineq) bool {
	neg := ineq{T: map[string]*big.Rat{}, K: new(big.Rat).Sub(ratInt(1), goal.K)}
	for k, c := range goal.T {
		neg.T[k] = new(big.Rat).Neg(c)
	}
	facts := s.factsAt(last, nil)
	if ifi, ok := last.(*ssa.If); ok && pred.Succs[0] != pred.Succs[1] {
		facts = append(facts, s.condFacts(ifi.Cond, pred.Succs[0] == succ, 0)...)
	}
	sys := append([]ineq{neg}, facts...)
	for i := 0; i < 3; i++ {
		extra := s.atomFacts(sys)
		sys = append(sys[:0:0], append([]ineq{neg}, append(append([]ineq{}, facts...), extra...)...)...)
	}
	return infeasible(sys)
}

func (s *scanFn) isCursorLoad(v ssa.Value) bool {
	ld, ok := v.(*ssa.UnOp)
	return ok && ld.Op == token.MUL && s.isField(ld.X, s.spec.Cursor)
}

// savedCursor: v is a value the cursor had earlier (a load of it, or a merge of such values).
func (s *scanFn) savedCursor(v ssa.Value, depth int) bool {
	if depth > 6 {
		return false
	}
	if s.isCursorLoad(v) {
		return true
	}
	if phi, ok := v.(*ssa.Phi); ok {
		for _, e := range phi.Edges {
			if e == ssa.Value(phi) {
				continue
			}
			if !s.savedCursor(e, depth+1) {
				return false
			}
		}
		return len(phi.Edges) > 0
	}
	return false
}
