package core

import (
	"fmt"
	"go/token"
	"go/types"

	"golang.org/x/tools/go/ssa"
)

// ArrayIndexSite is an access a[i] to a fixed-size array with a non-constant index.
type ArrayIndexSite struct {
	Fn    *ssa.Function
	Instr ssa.Instruction
	Index ssa.Value
	Len   int64
}

// ArrayIndexSites lists the variable-index accesses to fixed-size arrays in fn.
func ArrayIndexSites(fn *ssa.Function) []ArrayIndexSite {
	var out []ArrayIndexSite
	arrLen := func(t types.Type) (int64, bool) {
		if pt, ok := t.Underlying().(*types.Pointer); ok {
			t = pt.Elem()
		}
		if a, ok := t.Underlying().(*types.Array); ok {
			return a.Len(), true
		}
		return 0, false
	}
	Instrs(fn, func(in ssa.Instruction) {
		var x, idx ssa.Value
		switch v := in.(type) {
		case *ssa.IndexAddr:
			x, idx = v.X, v.Index
		case *ssa.Index:
			x, idx = v.X, v.Index
		default:
			return
		}
		n, ok := arrLen(x.Type())
		if !ok {
			return
		}
		if _, isConst := idx.(*ssa.Const); isConst {
			return
		}
		out = append(out, ArrayIndexSite{fn, in, idx, n})
	})
	return out
}

// ProveArrayIndex decides 0 <= index < Len for a site. enumMax gives, for a named integer type, the largest of its
// declared constants (values of such a type are assumed to be declared constants).
func ProveArrayIndex(s ArrayIndexSite, nonNeg map[*ssa.Function]bool, enumMax func(*types.Named) (int64, bool)) (bool, string) {
	inProgress = map[ssa.Value]bool{}
	return proveBelow(s.Fn, s.Index, s.Instr.Block(), s.Instr, s.Len, nonNeg, enumMax, 0)
}

// phis being proven: a loop-carried variable is below n when every value entering the cycle is (coinduction)
var inProgress map[ssa.Value]bool

// proveBelow: 0 <= v < n when control is in block at (use is the instruction for sign facts).
func proveBelow(fn *ssa.Function, v ssa.Value, at *ssa.BasicBlock, use ssa.Instruction, n int64, nonNeg map[*ssa.Function]bool, enumMax func(*types.Named) (int64, bool), depth int) (bool, string) {
	if depth > 8 {
		return false, "depth"
	}
	idx := stripIntWiden(v)
	if k, ok := ConstInt(idx); ok {
		if k >= 0 && k < n {
			return true, fmt.Sprintf("constant %d", k)
		}
		return false, fmt.Sprintf("constant %d outside [0,%d)", k, n)
	}
	if lo, hi, ok := intervalOf(fn, idx, at, 0); ok && lo >= 0 && hi < n {
		return true, fmt.Sprintf("value in [%d, %d]", lo, hi)
	}
	// type range
	if b, ok := idx.Type().Underlying().(*types.Basic); ok {
		if b.Kind() == types.Uint8 && n >= 256 {
			return true, "the index is a byte and the array has at least 256 entries"
		}
	}
	if named, ok := idx.Type().(*types.Named); ok && enumMax != nil {
		if m, ok := enumMax(named); ok && m < n {
			if b, ok := named.Underlying().(*types.Basic); ok && b.Info()&types.IsUnsigned != 0 {
				return true, fmt.Sprintf("the index has the enum type %s whose largest constant is %d (values of the type are assumed to be its declared constants)", named.Obj().Name(), m)
			}
		}
	}
	if bo, ok := idx.(*ssa.BinOp); ok {
		switch bo.Op {
		case token.REM:
			if k, ok := ConstInt(bo.Y); ok && k > 0 && k <= n {
				if nn, how := NonNegativeAt(fn, use, bo.X, nonNeg); nn {
					return true, fmt.Sprintf("remainder by %d of a non-negative value (%s)", k, how)
				}
			}
		case token.SHR:
			if k, ok := ConstInt(bo.Y); ok && k >= 0 && k < 64 {
				if b, ok := stripIntWiden(bo.X).Type().Underlying().(*types.Basic); ok {
					bits := map[types.BasicKind]int64{types.Uint8: 8, types.Uint16: 16, types.Uint32: 32}[b.Kind()]
					if bits > 0 && bits-k < 62 && (int64(1)<<(bits-k)) <= n {
						return true, fmt.Sprintf("a %d-bit unsigned value shifted right by %d", bits, k)
					}
				}
			}
		case token.AND:
			if k, ok := ConstInt(bo.Y); ok && k >= 0 && k < n {
				return true, fmt.Sprintf("masked with %d", k)
			}
		}
	}
	// phi of values each below n (constants excluded by a test on the way are skipped)
	if phi, ok := idx.(*ssa.Phi); ok && !isLoopCounter(fn, phi) {
		if inProgress[phi] {
			return true, "loop-carried"
		}
		inProgress[phi] = true
		defer delete(inProgress, phi)
		okAll := true
		for i, e := range phi.Edges {
			if e == ssa.Value(phi) {
				continue
			}
			if k, isC := ConstInt(e); isC && (k < 0 || k >= n) {
				// excluded when the site cannot be reached with idx == k
				excluded := false
				for _, a := range CondAtoms(fn) {
					cmp, ok := a.(*ssa.BinOp)
					if !ok || (cmp.Op != token.EQL && cmp.Op != token.NEQ) || !sameValue(cmp.X, idx) {
						continue
					}
					if kk, ok := ConstInt(cmp.Y); ok && kk == k {
						if !ForwardReach(fn.Blocks[0], map[ssa.Value]bool{a: cmp.Op == token.EQL}, nil)[at] {
							excluded = true
						}
					}
				}
				if excluded {
					continue
				}
			}
			pred := phi.Block().Preds[i]
			var u ssa.Instruction = pred.Instrs[len(pred.Instrs)-1]
			if ok, _ := proveBelow(fn, e, pred, u, n, nonNeg, enumMax, depth+1); !ok {
				okAll = false
				break
			}
		}
		if okAll {
			return true, "every value merged into the index is below the length"
		}
	}
	// loop counter: phi in a loop header whose condition bounds it by a constant (or by len(S) with len(S) == K known)
	var phi *ssa.Phi
	inc := int64(0)
	switch x := idx.(type) {
	case *ssa.Phi:
		phi = x
	case *ssa.BinOp:
		if p, ok := x.X.(*ssa.Phi); ok && x.Op == token.ADD {
			if k, ok := ConstInt(x.Y); ok {
				phi, inc = p, k
			}
		}
	}
	if phi != nil {
		for _, l := range Loops(fn) {
			if l.Header != phi.Block() || !l.Blocks[at] {
				continue
			}
			ifi, ok := l.Header.Instrs[len(l.Header.Instrs)-1].(*ssa.If)
			if !ok {
				continue
			}
			cmp, ok := ifi.Cond.(*ssa.BinOp)
			if !ok || cmp.Op != token.LSS || !l.Blocks[l.Header.Succs[0]] {
				continue
			}
			bound, ok := ConstInt(cmp.Y)
			if !ok {
				// len(S) with a test len(S) == K / != K that keeps control away from the loop otherwise
				for _, a := range CondAtoms(fn) {
					t, isB := a.(*ssa.BinOp)
					if !isB || (t.Op != token.EQL && t.Op != token.NEQ) || !sameValue(t.X, cmp.Y) {
						continue
					}
					k, isK := ConstInt(t.Y)
					if !isK {
						continue
					}
					if !ForwardReach(fn.Blocks[0], map[ssa.Value]bool{a: t.Op != token.EQL}, nil)[l.Header] {
						bound, ok = k, true
					}
				}
				if !ok {
					continue
				}
			}
			cv := stripIntWiden(cmp.X)
			off := int64(0)
			if cv != ssa.Value(phi) {
				b2, ok := cv.(*ssa.BinOp)
				if !ok || b2.Op != token.ADD || b2.X != ssa.Value(phi) {
					continue
				}
				k, ok := ConstInt(b2.Y)
				if !ok {
					continue
				}
				off = k
			}
			if bound-off+inc <= n {
				okLow := true
				for i, e := range phi.Edges {
					if l.Blocks[phi.Block().Preds[i]] {
						b3, ok := e.(*ssa.BinOp)
						if !ok || b3.Op != token.ADD || b3.X != ssa.Value(phi) {
							okLow = false
						} else if k, ok := ConstInt(b3.Y); !ok || k <= 0 {
							okLow = false
						}
						continue
					}
					if k, ok := ConstInt(e); !ok || k+inc < 0 {
						okLow = false
					}
				}
				if okLow {
					return true, fmt.Sprintf("loop counter bounded by %d", bound-off+inc)
				}
			}
		}
	}
	// dominating tests idx < K / idx >= K
	for _, a := range CondAtoms(fn) {
		cmp, ok := a.(*ssa.BinOp)
		if !ok {
			continue
		}
		var k int64
		var lessWhenTrue bool
		switch {
		case sameValue(cmp.X, idx) && (cmp.Op == token.LSS || cmp.Op == token.GEQ):
			kk, ok := ConstInt(cmp.Y)
			if !ok {
				continue
			}
			k, lessWhenTrue = kk, cmp.Op == token.LSS
		case sameValue(cmp.X, idx) && (cmp.Op == token.LEQ || cmp.Op == token.GTR):
			kk, ok := ConstInt(cmp.Y)
			if !ok {
				continue
			}
			k, lessWhenTrue = kk+1, cmp.Op == token.LEQ
		default:
			continue
		}
		if k > n {
			continue
		}
		if !ForwardReach(fn.Blocks[0], map[ssa.Value]bool{a: !lessWhenTrue}, nil)[at] {
			if nn, _ := NonNegativeAt(fn, use, idx, nonNeg); nn {
				return true, fmt.Sprintf("tested against %d on every path and non-negative", k)
			}
			if b, ok := idx.Type().Underlying().(*types.Basic); ok && b.Info()&types.IsUnsigned != 0 {
				return true, fmt.Sprintf("unsigned and tested against %d on every path", k)
			}
		}
	}
	return false, fmt.Sprintf("no fact bounds the index by the array length %d", n)
}

// isLoopCounter: the phi sits in a loop header and is incremented on a back edge.
func isLoopCounter(fn *ssa.Function, phi *ssa.Phi) bool {
	for _, l := range Loops(fn) {
		if l.Header != phi.Block() {
			continue
		}
		for i, e := range phi.Edges {
			if l.Blocks[phi.Block().Preds[i]] {
				if b, ok := e.(*ssa.BinOp); ok && b.Op == token.ADD && b.X == ssa.Value(phi) {
					return true
				}
			}
		}
	}
	return false
}

// ArgSetProvider, when set, gives the constants every call site passes for a parameter (see Prog.IntArgSet).
var ArgSetProvider func(fn *ssa.Function, par *ssa.Parameter) (map[int64]bool, bool)

// intervalOf bounds an integer value: constants, sums and differences, loop counters with constant bounds, elements of
// constant array literals, parameters that only receive constants.
func intervalOf(fn *ssa.Function, v ssa.Value, at *ssa.BasicBlock, depth int) (lo, hi int64, ok bool) {
	if depth > 5 {
		return 0, 0, false
	}
	v = stripIntWiden(v)
	if k, isC := ConstInt(v); isC {
		return k, k, true
	}
	switch x := v.(type) {
	case *ssa.BinOp:
		if x.Op == token.ADD || x.Op == token.SUB {
			// a loop counter written phi+1 is handled as a whole first
			if lo, hi, ok := counterInterval(fn, v, at); ok {
				return lo, hi, true
			}
			l1, h1, ok1 := intervalOf(fn, x.X, at, depth+1)
			l2, h2, ok2 := intervalOf(fn, x.Y, at, depth+1)
			if ok1 && ok2 {
				if x.Op == token.ADD {
					return l1 + l2, h1 + h2, true
				}
				return l1 - h2, h1 - l2, true
			}
		}
	case *ssa.Phi:
		return counterInterval(fn, v, at)
	case *ssa.Parameter:
		if ArgSetProvider != nil {
			if set, ok := ArgSetProvider(fn, x); ok && len(set) > 0 {
				first := true
				for k := range set {
					if first || k < lo {
						lo = k
					}
					if first || k > hi {
						hi = k
					}
					first = false
				}
				return lo, hi, true
			}
		}
	case *ssa.Index:
		return constArrayElems(x.X)
	case *ssa.UnOp:
		if x.Op == token.MUL {
			if ia, isIA := x.X.(*ssa.IndexAddr); isIA {
				return constArrayElems(ia.X)
			}
			// a parameter spilled to a cell
			if r := ResolveLoad(v); r != v {
				return intervalOf(fn, r, at, depth+1)
			}
		}
	case *ssa.Call:
		if bi, isB := x.Call.Value.(*ssa.Builtin); isB && bi.Name() == "len" {
			if a, isArr := x.Call.Args[0].Type().Underlying().(*types.Array); isArr {
				return a.Len(), a.Len(), true
			}
		}
	}
	return 0, 0, false
}

// constArrayElems: the array (a local literal, possibly loaded) only holds integer constants.
func constArrayElems(arr ssa.Value) (lo, hi int64, ok bool) {
	var al *ssa.Alloc
	switch x := arr.(type) {
	case *ssa.Alloc:
		al = x
	case *ssa.UnOp:
		al, _ = x.X.(*ssa.Alloc)
	}
	if al == nil || al.Referrers() == nil {
		return 0, 0, false
	}
	n := 0
	for _, r := range *al.Referrers() {
		switch y := r.(type) {
		case *ssa.IndexAddr:
			if y.Referrers() == nil {
				continue
			}
			for _, rr := range *y.Referrers() {
				st, isSt := rr.(*ssa.Store)
				if !isSt || st.Addr != ssa.Value(y) {
					continue
				}
				k, isC := ConstInt(st.Val)
				if !isC {
					return 0, 0, false
				}
				if n == 0 || k < lo {
					lo = k
				}
				if n == 0 || k > hi {
					hi = k
				}
				n++
			}
		case *ssa.Store:
			if y.Addr == ssa.Value(al) {
				return 0, 0, false
			}
		}
	}
	if arrT, isArr := al.Type().(*types.Pointer).Elem().Underlying().(*types.Array); isArr && int64(n) < arrT.Len() {
		// elements left at zero
		if 0 < lo {
			lo = 0
		}
		if 0 > hi {
			hi = 0
		}
	}
	return lo, hi, n > 0
}

// counterInterval: v is a loop counter (phi or phi+c) of a loop containing at, bounded by a constant.
func counterInterval(fn *ssa.Function, v ssa.Value, at *ssa.BasicBlock) (lo, hi int64, ok bool) {
	var phi *ssa.Phi
	inc := int64(0)
	switch x := v.(type) {
	case *ssa.Phi:
		phi = x
	case *ssa.BinOp:
		if p, isPhi := x.X.(*ssa.Phi); isPhi && x.Op == token.ADD {
			if k, isC := ConstInt(x.Y); isC {
				phi, inc = p, k
			}
		}
	}
	if phi == nil {
		return 0, 0, false
	}
	for _, l := range Loops(fn) {
		if l.Header != phi.Block() || !l.Blocks[at] {
			continue
		}
		ifi, isIf := l.Header.Instrs[len(l.Header.Instrs)-1].(*ssa.If)
		if !isIf {
			continue
		}
		cmp, isCmp := ifi.Cond.(*ssa.BinOp)
		if !isCmp || cmp.Op != token.LSS || !l.Blocks[l.Header.Succs[0]] {
			continue
		}
		bound, isC := ConstInt(cmp.Y)
		if !isC {
			if _, h, okB := intervalOf(fn, cmp.Y, l.Header, 3); okB {
				bound, isC = h, true
			}
		}
		if !isC {
			continue
		}
		cv := stripIntWiden(cmp.X)
		off := int64(0)
		if cv != ssa.Value(phi) {
			b2, isB := cv.(*ssa.BinOp)
			if !isB || b2.Op != token.ADD || b2.X != ssa.Value(phi) {
				continue
			}
			k, isK := ConstInt(b2.Y)
			if !isK {
				continue
			}
			off = k
		}
		start, okStart := int64(0), true
		first := true
		for i, e := range phi.Edges {
			if l.Blocks[phi.Block().Preds[i]] {
				b3, isB := e.(*ssa.BinOp)
				if !isB || b3.Op != token.ADD || b3.X != ssa.Value(phi) {
					okStart = false
				} else if k, isK := ConstInt(b3.Y); !isK || k <= 0 {
					okStart = false
				}
				continue
			}
			k, isK := ConstInt(e)
			if !isK {
				okStart = false
				continue
			}
			if first || k < start {
				start = k
			}
			first = false
		}
		if !okStart || first {
			continue
		}
		// in the loop body: phi+off < bound
		return start + inc, bound - off - 1 + inc, true
	}
	return 0, 0, false
}
