package core

import (
	"go/types"

	"golang.org/x/tools/go/ssa"
)

// Retains computes, for the module functions, which slice parameters a call keeps: the parameter (or a re-slice or phi
// of it) is stored into a struct field or a map/slice element, returned inside a composite, or handed to a function
// that keeps it. The result maps a function to the set of parameter indices it retains.
func (p *Prog) Retains() map[*ssa.Function]map[int]bool {
	out := map[*ssa.Function]map[int]bool{}
	derives := func(v ssa.Value, par *ssa.Parameter) bool {
		seen := map[ssa.Value]bool{}
		var walk func(v ssa.Value, d int) bool
		walk = func(v ssa.Value, d int) bool {
			if v == ssa.Value(par) {
				return true
			}
			if seen[v] || d > 8 {
				return false
			}
			seen[v] = true
			switch x := v.(type) {
			case *ssa.Slice:
				return walk(x.X, d+1)
			case *ssa.Phi:
				for _, e := range x.Edges {
					if walk(e, d+1) {
						return true
					}
				}
			case *ssa.ChangeType:
				return walk(x.X, d+1)
			case *ssa.MakeInterface:
				return walk(x.X, d+1)
			}
			return false
		}
		return walk(v, 0)
	}
	changed := true
	for round := 0; changed && round < 6; round++ {
		changed = false
		for _, fn := range p.ModFuncs {
			for i, par := range fn.Params {
				if _, isSlice := par.Type().Underlying().(*types.Slice); !isSlice {
					continue
				}
				if out[fn][i] {
					continue
				}
				keep := false
				Instrs(fn, func(in ssa.Instruction) {
					switch x := in.(type) {
					case *ssa.Store:
						if _, isField := x.Addr.(*ssa.FieldAddr); isField && derives(x.Val, par) {
							keep = true
						}
					case *ssa.Call:
						callee := x.Call.StaticCallee()
						if callee == nil {
							return
						}
						for j, a := range x.Call.Args {
							if out[callee][j] && derives(a, par) {
								keep = true
							}
						}
					}
				})
				if keep {
					if out[fn] == nil {
						out[fn] = map[int]bool{}
					}
					out[fn][i] = true
					changed = true
				}
			}
		}
	}
	return out
}
