package core

import (
	"go/ast"
	"go/constant"
	"go/printer"
	"go/token"
	"go/types"
	"strings"

	"golang.org/x/tools/go/ssa"
)

// InfoOf returns the types.Info of the package that declares fn.
func (p *Prog) InfoOf(fn *ssa.Function) *types.Info {
	if pk := p.PkgOf(fn); pk != nil {
		return pk.TypesInfo
	}
	return nil
}

// CompositeLitsIn lists, in source order, the composite literals of type t in node.
func CompositeLitsIn(info *types.Info, node ast.Node, t types.Type) []*ast.CompositeLit {
	var out []*ast.CompositeLit
	if node == nil {
		return nil
	}
	ast.Inspect(node, func(n ast.Node) bool {
		if cl, ok := n.(*ast.CompositeLit); ok {
			if tv, ok := info.Types[cl]; ok && types.Identical(tv.Type, t) {
				out = append(out, cl)
			}
		}
		return true
	})
	return out
}

// ConstOf returns the constant value the type checker computed for e.
func ConstOf(info *types.Info, e ast.Expr) constant.Value {
	if tv, ok := info.Types[e]; ok {
		return tv.Value
	}
	return nil
}

// IntElems evaluates the elements of an integer array/slice literal (unkeyed or keyed by constant index).
func IntElems(info *types.Info, cl *ast.CompositeLit) ([]int64, bool) {
	var out []int64
	for i, e := range cl.Elts {
		idx := i
		if kv, ok := e.(*ast.KeyValueExpr); ok {
			k := ConstOf(info, kv.Key)
			if k == nil {
				return nil, false
			}
			n, _ := constant.Int64Val(k)
			idx = int(n)
			e = kv.Value
		}
		v := ConstOf(info, e)
		if v == nil {
			return nil, false
		}
		n, ok := constant.Int64Val(constant.ToInt(v))
		if !ok {
			return nil, false
		}
		for len(out) <= idx {
			out = append(out, 0)
		}
		out[idx] = n
	}
	return out, true
}

// FieldExpr finds the expression given to a named field in a struct literal (keyed form).
func FieldExpr(cl *ast.CompositeLit, name string) ast.Expr {
	for _, e := range cl.Elts {
		if kv, ok := e.(*ast.KeyValueExpr); ok {
			if id, ok := kv.Key.(*ast.Ident); ok && id.Name == name {
				return kv.Value
			}
		}
	}
	return nil
}

// StrConst returns the string constant of e.
func StrConst(info *types.Info, e ast.Expr) (string, bool) {
	v := ConstOf(info, e)
	if v == nil || v.Kind() != constant.String {
		return "", false
	}
	return constant.StringVal(v), true
}

// MapLitEntries returns the key/value expressions of a map (or keyed array) composite literal.
func MapLitEntries(cl *ast.CompositeLit) (keys, vals []ast.Expr) {
	for _, e := range cl.Elts {
		if kv, ok := e.(*ast.KeyValueExpr); ok {
			keys = append(keys, kv.Key)
			vals = append(vals, kv.Value)
		}
	}
	return
}

// EnclosingFuncBody finds the body of a declared function by SSA function.
func (p *Prog) Body(fn *ssa.Function) *ast.BlockStmt {
	if d := p.Decl(fn); d != nil {
		return d.Body
	}
	if fl, ok := fn.Syntax().(*ast.FuncLit); ok {
		return fl.Body
	}
	return nil
}

// CaseClauses describes a switch statement found in a function body.
type SwitchInfo struct {
	Stmt    *ast.SwitchStmt
	Tag     ast.Expr
	Cases   [][]ast.Expr // per clause
	Bodies  [][]ast.Stmt
	Default []ast.Stmt
	HasDef  bool
	Pos     token.Pos
}

// Switches lists the expression switches in a node.
func Switches(node ast.Node) []*SwitchInfo {
	var out []*SwitchInfo
	if node == nil {
		return nil
	}
	ast.Inspect(node, func(n ast.Node) bool {
		sw, ok := n.(*ast.SwitchStmt)
		if !ok {
			return true
		}
		si := &SwitchInfo{Stmt: sw, Tag: sw.Tag, Pos: sw.Pos()}
		for _, s := range sw.Body.List {
			cc := s.(*ast.CaseClause)
			if cc.List == nil {
				si.HasDef = true
				si.Default = cc.Body
				continue
			}
			si.Cases = append(si.Cases, cc.List)
			si.Bodies = append(si.Bodies, cc.Body)
		}
		out = append(out, si)
		return true
	})
	return out
}

// BodyPanics reports whether a statement list unconditionally ends in panic(...) (first statement level).
func BodyPanics(stmts []ast.Stmt) bool {
	for _, s := range stmts {
		if es, ok := s.(*ast.ExprStmt); ok {
			if call, ok := es.X.(*ast.CallExpr); ok {
				if id, ok := call.Fun.(*ast.Ident); ok && id.Name == "panic" {
					return true
				}
			}
		}
	}
	return false
}

// BinaryExprAt finds the source text of the binary expression whose operator is at pos.
func (p *Prog) BinaryExprAt(fn *ssa.Function, pos token.Pos) string {
	root := fn
	for root.Parent() != nil {
		root = root.Parent()
	}
	var body ast.Node = p.Body(root)
	if body == nil {
		return ""
	}
	out := ""
	ast.Inspect(body, func(n ast.Node) bool {
		switch x := n.(type) {
		case *ast.BinaryExpr:
			if x.OpPos == pos {
				out = types.ExprString(x)
			}
		case *ast.AssignStmt:
			if x.TokPos == pos && len(x.Lhs) == 1 && len(x.Rhs) == 1 {
				out = types.ExprString(x.Lhs[0]) + " " + x.Tok.String() + " " + types.ExprString(x.Rhs[0])
			}
		}
		return out == ""
	})
	return out
}

// StmtTextAt returns the one-line source text of the innermost simple statement (assignment, inc/dec,
// expression statement, return, range/if header) that contains pos, for line-free obligation keys.
func (p *Prog) StmtTextAt(fn *ssa.Function, pos token.Pos) string {
	if !pos.IsValid() {
		return ""
	}
	root := fn
	for root.Parent() != nil {
		root = root.Parent()
	}
	body := p.Body(root)
	if body == nil {
		return ""
	}
	var best ast.Node
	ast.Inspect(body, func(n ast.Node) bool {
		if n == nil {
			return false
		}
		if n.Pos() > pos || n.End() < pos {
			return false
		}
		switch n.(type) {
		case *ast.AssignStmt, *ast.IncDecStmt, *ast.ExprStmt, *ast.ReturnStmt, *ast.GoStmt, *ast.DeferStmt, *ast.SendStmt:
			best = n
		}
		return true
	})
	if best == nil {
		return ""
	}
	var sb strings.Builder
	printer.Fprint(&sb, p.Fset, best)
	s := strings.Join(strings.Fields(sb.String()), " ")
	if len(s) > 90 {
		s = s[:90] + "…"
	}
	return s
}

// NodeText prints a syntax node on one line.
func (p *Prog) NodeText(n ast.Node) string {
	if n == nil {
		return ""
	}
	var sb strings.Builder
	printer.Fprint(&sb, p.Fset, n)
	return strings.Join(strings.Fields(sb.String()), " ")
}

// MapKeyExprAt returns the source text of the key of the composite-literal element (or indexed assignment) whose
// position is pos: go/ssa gives a MapUpdate the position of the ':' of a literal element or of the '[' of m[k] = v.
func (p *Prog) MapKeyExprAt(fn *ssa.Function, pos token.Pos) string {
	root := fn
	for root.Parent() != nil {
		root = root.Parent()
	}
	body := p.Body(root)
	if body == nil || !pos.IsValid() {
		return ""
	}
	out := ""
	ast.Inspect(body, func(n ast.Node) bool {
		switch x := n.(type) {
		case *ast.KeyValueExpr:
			if x.Colon == pos {
				out = types.ExprString(x.Key)
			}
		case *ast.IndexExpr:
			if x.Lbrack == pos {
				out = types.ExprString(x.Index)
			}
		}
		return out == ""
	})
	return out
}

// RecvTextAt returns the source text of the receiver expression of the method call whose left parenthesis (the
// position go/ssa gives a call) is at pos: `child` for child.PageValues().
func (p *Prog) RecvTextAt(fn *ssa.Function, pos token.Pos) string {
	root := fn
	for root.Parent() != nil {
		root = root.Parent()
	}
	body := p.Body(root)
	if body == nil || !pos.IsValid() {
		return ""
	}
	out := ""
	ast.Inspect(body, func(n ast.Node) bool {
		if call, ok := n.(*ast.CallExpr); ok && call.Lparen == pos {
			if sel, ok := call.Fun.(*ast.SelectorExpr); ok {
				out = types.ExprString(sel.X)
			}
		}
		return out == ""
	})
	return out
}
