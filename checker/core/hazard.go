package core

import (
	"fmt"
	"go/constant"
	"go/token"
	"go/types"
	"strings"

	"golang.org/x/tools/go/ssa"
)

// Engine H: hazard inventory (integer division / modulo, explicit panics, unchecked assertions).

// DivSite is an integer / or % with a non-constant divisor.
type DivSite struct {
	Fn *ssa.Function
	Op *ssa.BinOp
}

func isIntType(t types.Type) bool {
	b, ok := t.Underlying().(*types.Basic)
	return ok && b.Info()&types.IsInteger != 0
}

// DivSites lists the integer divisions and modulos of fn whose divisor is not a non-zero constant.
func DivSites(fn *ssa.Function) []DivSite {
	var out []DivSite
	Instrs(fn, func(in ssa.Instruction) {
		b, ok := in.(*ssa.BinOp)
		if !ok || (b.Op != token.QUO && b.Op != token.REM) || !isIntType(b.X.Type()) {
			return
		}
		if k, ok := b.Y.(*ssa.Const); ok && k.Value != nil && constant.Sign(k.Value) != 0 {
			return
		}
		out = append(out, DivSite{fn, b})
	})
	return out
}

// sameValue: two SSA values denote the same runtime value at their uses (conservative value numbering).
func sameValue(a, b ssa.Value) bool {
	if a == b {
		return true
	}
	a, b = stripIntWiden(a), stripIntWiden(b)
	if a == b {
		return true
	}
	ca, ok1 := a.(*ssa.Call)
	cb, ok2 := b.(*ssa.Call)
	if ok1 && ok2 {
		ba, ok3 := ca.Call.Value.(*ssa.Builtin)
		bb, ok4 := cb.Call.Value.(*ssa.Builtin)
		if ok3 && ok4 && ba.Name() == "len" && bb.Name() == "len" {
			return sameValue(ca.Call.Args[0], cb.Call.Args[0])
		}
	}
	fa, ok1 := a.(*ssa.Field)
	fb, ok2 := b.(*ssa.Field)
	if ok1 && ok2 && fa.Field == fb.Field {
		return sameValue(fa.X, fb.X)
	}
	// loads of the same field of the same (never re-stored) local / parameter struct
	ua, ok1 := a.(*ssa.UnOp)
	ub, ok2 := b.(*ssa.UnOp)
	if ok1 && ok2 && ua.Op == token.MUL && ub.Op == token.MUL {
		return sameAddr(ua.X, ub.X)
	}
	return false
}

func sameAddr(a, b ssa.Value) bool {
	if a == b {
		return singleStore(a)
	}
	fa, ok1 := a.(*ssa.FieldAddr)
	fb, ok2 := b.(*ssa.FieldAddr)
	if ok1 && ok2 && fa.Field == fb.Field {
		if fa.X == fb.X {
			return singleStore(fa.X)
		}
		return sameAddr(fa.X, fb.X)
	}
	return false
}

// singleStore: the address is a local whose content is stored at most once (so every load sees the same value),
// or a parameter pointer that the function never stores through at that field (approximated: parameters accepted).
func singleStore(addr ssa.Value) bool {
	switch x := addr.(type) {
	case *ssa.Alloc:
		n := 0
		if x.Referrers() != nil {
			for _, r := range *x.Referrers() {
				switch y := r.(type) {
				case *ssa.Store:
					if y.Addr == x {
						n++
					}
				case *ssa.FieldAddr, *ssa.IndexAddr:
					if rr := y.(ssa.Value).Referrers(); rr != nil {
						for _, r2 := range *rr {
							if st, ok := r2.(*ssa.Store); ok && st.Addr == y.(ssa.Value) {
								n += 2
							}
						}
					}
				}
			}
		}
		return n <= 1
	case *ssa.Parameter:
		return true
	case *ssa.FieldAddr:
		return singleStore(x.X)
	}
	return false
}

func stripIntWiden(v ssa.Value) ssa.Value {
	for {
		switch x := v.(type) {
		case *ssa.ChangeType:
			v = x.X
		case *ssa.Convert:
			// integer to integer of at least the same size keeps zero-ness and sign
			bs, ok1 := x.X.Type().Underlying().(*types.Basic)
			bd, ok2 := x.Type().Underlying().(*types.Basic)
			if ok1 && ok2 && bs.Info()&types.IsInteger != 0 && bd.Info()&types.IsInteger != 0 && sizeOf(bd) >= sizeOf(bs) {
				v = x.X
			} else {
				return v
			}
		default:
			return v
		}
	}
}

func sizeOf(b *types.Basic) int {
	switch b.Kind() {
	case types.Int8, types.Uint8:
		return 1
	case types.Int16, types.Uint16:
		return 2
	case types.Int32, types.Uint32:
		return 4
	default:
		return 8
	}
}

func cmpInts(op token.Token, a, b int64) bool {
	switch op {
	case token.EQL:
		return a == b
	case token.NEQ:
		return a != b
	case token.LSS:
		return a < b
	case token.LEQ:
		return a <= b
	case token.GTR:
		return a > b
	case token.GEQ:
		return a >= b
	}
	return false
}

// ScenarioAssign builds the truth assignment of the atoms reaching site under the scenario
// "value v equals n": every atom comparing (a value equal to) v with an integer constant is decided.
func ScenarioAssign(fn *ssa.Function, site *ssa.BasicBlock, v ssa.Value, n int64) map[ssa.Value]bool {
	assign := map[ssa.Value]bool{}
	// every atom on v is decided, wherever it stands: a test from which the site cannot be reached does not
	// change whether the site is reached
	for _, a := range CondAtoms(fn) {
		b, ok := a.(*ssa.BinOp)
		if !ok {
			continue
		}
		if c, ok := constIntegral(b.Y); ok && sameValue(b.X, v) {
			assign[a] = cmpInts(b.Op, n, c)
		} else if c, ok := constIntegral(b.X); ok && sameValue(b.Y, v) {
			assign[a] = cmpInts(b.Op, c, n)
		}
	}
	return assign
}

// constIntegral: an integer constant, or a floating point constant with an integral value.
func constIntegral(v ssa.Value) (int64, bool) {
	if c, ok := ConstInt(v); ok {
		return c, true
	}
	if f, ok := ConstFloat(v); ok && f == float64(int64(f)) {
		return int64(f), true
	}
	return 0, false
}

// SignScenario decides atoms under "v is negative" (sign=-1), or "v is positive" (+1): only comparisons
// whose truth is the same for every value of that sign are decided.
func SignScenario(fn *ssa.Function, site *ssa.BasicBlock, v ssa.Value, sign int) map[ssa.Value]bool {
	assign := map[ssa.Value]bool{}
	decide := func(op token.Token, c int64, flipped bool) (bool, bool) {
		// truth of (v op c) for all v<0 (sign -1) / all v>0 (sign +1); flipped: (c op v)
		if flipped {
			switch op {
			case token.LSS:
				op = token.GTR
			case token.LEQ:
				op = token.GEQ
			case token.GTR:
				op = token.LSS
			case token.GEQ:
				op = token.LEQ
			}
		}
		if sign < 0 {
			switch op {
			case token.LSS:
				if c >= 0 {
					return true, true
				}
			case token.LEQ:
				if c >= -1 {
					return true, true
				}
			case token.GTR:
				if c >= -1 {
					return false, true
				}
			case token.GEQ:
				if c >= 0 {
					return false, true
				}
			case token.EQL:
				if c >= 0 {
					return false, true
				}
			case token.NEQ:
				if c >= 0 {
					return true, true
				}
			}
		} else {
			switch op {
			case token.GTR:
				if c <= 0 {
					return true, true
				}
			case token.GEQ:
				if c <= 1 {
					return true, true
				}
			case token.LSS:
				if c <= 1 {
					return false, true
				}
			case token.LEQ:
				if c <= 0 {
					return false, true
				}
			case token.EQL:
				if c <= 0 {
					return false, true
				}
			case token.NEQ:
				if c <= 0 {
					return true, true
				}
			}
		}
		return false, false
	}
	for _, a := range CondAtomsReaching(fn, site) {
		b, ok := a.(*ssa.BinOp)
		if !ok {
			continue
		}
		if c, ok := ConstInt(b.Y); ok && sameValue(b.X, v) {
			if t, ok := decide(b.Op, c, false); ok {
				assign[a] = t
			}
		} else if c, ok := ConstInt(b.X); ok && sameValue(b.Y, v) {
			if t, ok := decide(b.Op, c, true); ok {
				assign[a] = t
			}
		}
	}
	return assign
}

// NonZeroAt decides whether value v cannot be zero when control reaches instruction `at`:
// a non-zero constant; len of something with a dominating length test; any value with a
// dominating comparison that excludes zero on every path (decided by path-condition reachability
// under the scenario v == 0); a phi all of whose inputs are non-zero.
func NonZeroAt(fn *ssa.Function, at ssa.Instruction, v ssa.Value) (bool, string) {
	if k, ok := v.(*ssa.Const); ok {
		if k.Value != nil && constant.Sign(k.Value) != 0 {
			return true, "non-zero constant"
		}
		return false, "constant zero"
	}
	if call, ok := stripIntWiden(v).(*ssa.Call); ok {
		if bi, ok := call.Call.Value.(*ssa.Builtin); ok && bi.Name() == "len" && LenAtLeastOne(call.Call.Args[0], 0) {
			return true, "len of a value that is non-empty by construction"
		}
	}
	site := at.Block()
	assign := ScenarioAssign(fn, site, v, 0)
	if len(assign) > 0 {
		if !ForwardReach(fn.Blocks[0], assign, nil)[site] {
			return true, fmt.Sprintf("unreachable when the divisor is 0 (%d dominating comparisons decide it)", len(assign))
		}
	}
	// loop-carried guard: `for v != 0 { … / v … }` has the test in a loop header that is not on the forward path from entry through a back edge; handled by ForwardReach ignoring back edges only.
	if phi, ok := stripIntWiden(v).(*ssa.Phi); ok {
		all := true
		for _, e := range phi.Edges {
			if k, ok := e.(*ssa.Const); ok && k.Value != nil && constant.Sign(k.Value) != 0 {
				continue
			}
			all = false
		}
		if all {
			return true, "phi of non-zero constants"
		}
	}
	return false, "no dominating test excludes a zero divisor"
}

// CallSitesOf lists the static call sites of fn in the module; dynamic=true when fn's address is taken
// (it may have callers the list does not show).
func (p *Prog) CallSitesOf(fn *ssa.Function) (sites []ssa.CallInstruction, dynamic bool) {
	for _, caller := range p.ModFuncs {
		Instrs(caller, func(in ssa.Instruction) {
			if c, ok := in.(ssa.CallInstruction); ok && c.Common().StaticCallee() == fn {
				sites = append(sites, c)
			}
			// address taken: fn used as an operand other than the callee
			for _, op := range in.Operands(nil) {
				if *op == ssa.Value(fn) {
					if c, ok := in.(ssa.CallInstruction); ok && c.Common().Value == ssa.Value(fn) {
						// callee position (may also appear in args)
						for _, a := range c.Common().Args {
							if a == ssa.Value(fn) {
								dynamic = true
							}
						}
						continue
					}
					dynamic = true
				}
			}
		})
	}
	return
}

// ProveDivisor decides a division site: intra-procedurally, or through a precondition on a parameter
// that every call site establishes (followed up to three callers deep).
func (p *Prog) ProveDivisor(site DivSite) (bool, string) {
	return p.proveNonZeroValue(site.Fn, site.Op, site.Op.Y, 0)
}

func (p *Prog) proveNonZeroValue(fn *ssa.Function, at ssa.Instruction, v ssa.Value, depth int) (bool, string) {
	ok, how := NonZeroAt(fn, at, v)
	if ok {
		return true, how
	}
	base := stripIntWiden(v)
	par, isPar := base.(*ssa.Parameter)
	if !isPar || fn.Parent() != nil || depth >= 3 {
		return false, how
	}
	idx := -1
	for i, q := range fn.Params {
		if q == par {
			idx = i
		}
	}
	sites, dyn := p.CallSitesOf(fn)
	if dyn || len(sites) == 0 || idx < 0 {
		return false, how + "; the divisor is a parameter of a function with unknown callers"
	}
	for _, cs := range sites {
		arg := cs.Common().Args[idx]
		ok2, how2 := p.proveNonZeroValue(cs.Parent(), cs, arg, depth+1)
		if !ok2 {
			return false, fmt.Sprintf("%s; call site %s passes a divisor that may be 0 (%s)", how, p.Pos(cs.Pos()), how2)
		}
	}
	return true, fmt.Sprintf("parameter: all %d call sites of %s pass a non-zero value", len(sites), fn.Name())
}

// RemUsedAsIndex reports whether the result of a % flows (through +/- constants and conversions) into an index.
func RemUsedAsIndex(b *ssa.BinOp) bool {
	if b.Op != token.REM {
		return false
	}
	seen := map[ssa.Value]bool{}
	var walk func(v ssa.Value) bool
	walk = func(v ssa.Value) bool {
		if seen[v] {
			return false
		}
		seen[v] = true
		refs := v.Referrers()
		if refs == nil {
			return false
		}
		for _, r := range *refs {
			switch x := r.(type) {
			case *ssa.IndexAddr:
				if x.Index == v {
					return true
				}
			case *ssa.Index:
				if x.Index == v {
					return true
				}
			case *ssa.Convert:
				if walk(x) {
					return true
				}
			case *ssa.ChangeType:
				if walk(x) {
					return true
				}
			case *ssa.Phi:
				// `r := a % n; if r < 0 { r += n }`: the merge of r (when it was found non-negative) and r + n (when
				// it was found negative, so r + n > 0) is a valid index whatever the sign of the dividend
				if v == ssa.Value(b) && signCorrected(x, b) {
					continue
				}
				if walk(x) {
					return true
				}
			}
		}
		return false
	}
	return walk(b)
}

// NonNegativeAt decides whether v cannot be negative at `at`: a non-negative constant, len(), an
// unsigned type, the result of a tabled abs-like function, v-1 with v>=1 proven, or a dominating
// comparison excluding negatives on every path.
func NonNegativeAt(fn *ssa.Function, at ssa.Instruction, v ssa.Value, absFuncs map[*ssa.Function]bool) (bool, string) {
	return nonNeg(fn, at, v, absFuncs, map[ssa.Value]bool{}, 0)
}

func nonNeg(fn *ssa.Function, at ssa.Instruction, v ssa.Value, absFuncs map[*ssa.Function]bool, assume map[ssa.Value]bool, depth int) (bool, string) {
	v = stripIntWiden(v)
	if assume[v] {
		return true, "loop-carried (coinductive hypothesis)"
	}
	if depth > 8 {
		return false, "too deep"
	}
	NonNegativeAt := func(fn *ssa.Function, at ssa.Instruction, w ssa.Value, absFuncs map[*ssa.Function]bool) (bool, string) {
		return nonNeg(fn, at, w, absFuncs, assume, depth+1)
	}
	if b, ok := v.Type().Underlying().(*types.Basic); ok && b.Info()&types.IsUnsigned != 0 {
		return true, "unsigned"
	}
	switch x := v.(type) {
	case *ssa.Const:
		if x.Value != nil && constant.Sign(x.Value) >= 0 {
			return true, "non-negative constant"
		}
	case *ssa.Call:
		if bi, ok := x.Call.Value.(*ssa.Builtin); ok && bi.Name() == "len" {
			return true, "len()"
		}
		if callee := x.Call.StaticCallee(); callee != nil && absFuncs[callee] {
			return true, "result of " + callee.Name()
		}
	case *ssa.Convert:
		// conversion from an unsigned byte/rune-like value
		if b, ok := x.X.Type().Underlying().(*types.Basic); ok && b.Info()&types.IsUnsigned != 0 {
			return true, "converted from unsigned"
		}
	case *ssa.BinOp:
		if x.Op == token.SUB {
			if c, ok := ConstInt(x.Y); ok && c >= 0 {
				// v = w - c >= 0  iff  w >= c : scenario per value below c is not enumerable; use sign scenario for c<=1
				if c == 0 {
					return NonNegativeAt(fn, at, x.X, absFuncs)
				}
				if c == 1 {
					// need w >= 1: w non-negative and non-zero at the place where w-1 is computed
					nn, _ := NonNegativeAt(fn, at, x.X, absFuncs)
					nz, _ := NonZeroAt(fn, x, x.X)
					if nn && nz {
						return true, "w-1 with w >= 1"
					}
				}
			}
		}
		if x.Op == token.ADD {
			// range index: phi(-1, self) + 1
			if phi, ok := x.X.(*ssa.Phi); ok {
				if c, isC := ConstInt(x.Y); isC && c == 1 {
					isRange := len(phi.Edges) >= 2
					for _, ed := range phi.Edges {
						if k, ok := ConstInt(ed); ok && k == -1 {
							continue
						}
						if ed == ssa.Value(x) {
							continue
						}
						isRange = false
					}
					if isRange {
						return true, "range index"
					}
				}
			}
			// (a % m) + m with m > 0 is positive
			for _, pair := range [][2]ssa.Value{{x.X, x.Y}, {x.Y, x.X}} {
				if rem, ok := stripIntWiden(pair[0]).(*ssa.BinOp); ok && rem.Op == token.REM && sameValue(rem.Y, pair[1]) {
					nn, _ := NonNegativeAt(fn, at, pair[1], absFuncs)
					if nn {
						return true, "(a % m) + m with m >= 0"
					}
				}
			}
			a, _ := NonNegativeAt(fn, at, x.X, absFuncs)
			b, _ := NonNegativeAt(fn, at, x.Y, absFuncs)
			if a && b {
				return true, "sum of non-negatives"
			}
		}
		if x.Op == token.QUO || x.Op == token.REM || x.Op == token.MUL {
			a, _ := NonNegativeAt(fn, at, x.X, absFuncs)
			b, _ := NonNegativeAt(fn, at, x.Y, absFuncs)
			if a && b {
				return true, "quotient/remainder/product of non-negatives"
			}
		}
	}
	if phi, ok := v.(*ssa.Phi); ok {
		assume[v] = true
		all := true
		for _, e := range phi.Edges {
			// the fact is needed where the edge value is produced: use the phi's own block as the site
			var site ssa.Instruction = phi
			if ok2, _ := nonNeg(fn, site, e, absFuncs, assume, depth+1); !ok2 {
				all = false
				break
			}
		}
		delete(assume, v)
		if all {
			return true, "phi of non-negative values"
		}
	}
	site := at.Block()
	assign := SignScenario(fn, site, v, -1)
	if len(assign) > 0 && !ForwardReach(fn.Blocks[0], assign, nil)[site] {
		return true, fmt.Sprintf("unreachable when the value is negative (%d dominating comparisons)", len(assign))
	}
	return false, "no fact excludes a negative value"
}

// PanicSites lists the explicit panics of fn.
func PanicSites(fn *ssa.Function) []*ssa.Panic {
	var out []*ssa.Panic
	Instrs(fn, func(in ssa.Instruction) {
		if pn, ok := in.(*ssa.Panic); ok {
			out = append(out, pn)
		}
	})
	return out
}

// UncheckedAsserts lists the single-result type assertions of fn.
func UncheckedAsserts(fn *ssa.Function) []*ssa.TypeAssert {
	var out []*ssa.TypeAssert
	Instrs(fn, func(in ssa.Instruction) {
		if ta, ok := in.(*ssa.TypeAssert); ok && !ta.CommaOk {
			out = append(out, ta)
		}
	})
	return out
}

// LenAtLeastOne: the slice/string/array value has at least one element by construction:
// a slice of a non-empty array literal, append with a non-empty operand, a non-empty constant, a phi of such.
func LenAtLeastOne(v ssa.Value, depth int) bool {
	if depth > 6 {
		return false
	}
	switch x := v.(type) {
	case *ssa.Const:
		if x.Value != nil && x.Value.Kind() == constant.String {
			return len(constant.StringVal(x.Value)) > 0
		}
	case *ssa.Slice:
		if x.Low == nil && x.High == nil {
			if pt, ok := x.X.Type().Underlying().(*types.Pointer); ok {
				if at, ok := pt.Elem().Underlying().(*types.Array); ok {
					return at.Len() >= 1
				}
			}
			return LenAtLeastOne(x.X, depth+1)
		}
	case *ssa.Call:
		if bi, ok := x.Call.Value.(*ssa.Builtin); ok && bi.Name() == "append" {
			for _, a := range x.Call.Args {
				if LenAtLeastOne(a, depth+1) {
					return true
				}
			}
		}
	case *ssa.Phi:
		for _, e := range x.Edges {
			if e == ssa.Value(x) {
				continue
			}
			if !LenAtLeastOne(e, depth+1) {
				return false
			}
		}
		return len(x.Edges) > 0
	case *ssa.ChangeType:
		return LenAtLeastOne(x.X, depth+1)
	case *ssa.Convert:
		return LenAtLeastOne(x.X, depth+1)
	}
	if at, ok := v.Type().Underlying().(*types.Array); ok {
		return at.Len() >= 1
	}
	return false
}

// DivLoop is a loop `for v != 0 { …; v = v / d }` whose only progress towards its exit is the integer division.
type DivLoop struct {
	Fn       *ssa.Function
	Header   *ssa.BasicBlock
	Div      *ssa.BinOp
	MinusOne bool // the dividend is v-1 (then d >= 1 already makes progress)
}

// DivLoops lists such loops of fn.
func DivLoops(fn *ssa.Function) []DivLoop {
	var out []DivLoop
	for _, l := range Loops(fn) {
		h := l.Header
		ifi, ok := h.Instrs[len(h.Instrs)-1].(*ssa.If)
		if !ok {
			continue
		}
		cmp, ok := ifi.Cond.(*ssa.BinOp)
		if !ok || (cmp.Op != token.NEQ && cmp.Op != token.GTR) {
			continue
		}
		phi, ok := cmp.X.(*ssa.Phi)
		if !ok || phi.Block() != h {
			continue
		}
		if z, ok := ConstInt(cmp.Y); !ok || z != 0 {
			continue
		}
		for i, e := range phi.Edges {
			if !l.Blocks[h.Preds[i]] {
				continue
			}
			div, ok := e.(*ssa.BinOp)
			if !ok || div.Op != token.QUO {
				continue
			}
			if _, isConst := div.Y.(*ssa.Const); isConst {
				continue
			}
			minusOne := false
			switch x := div.X.(type) {
			case *ssa.Phi:
				if x != phi {
					continue
				}
			case *ssa.BinOp:
				if x.Op == token.SUB && x.X == ssa.Value(phi) {
					if k, ok := ConstInt(x.Y); ok && k >= 1 {
						minusOne = true
					} else {
						continue
					}
				} else {
					continue
				}
			default:
				continue
			}
			out = append(out, DivLoop{fn, h, div, minusOne})
		}
	}
	return out
}

// ProveAtLeast decides v >= n at block at: a test on v against a constant keeps control away from at otherwise.
func ProveAtLeast(fn *ssa.Function, v ssa.Value, n int64, at *ssa.BasicBlock) (bool, string) {
	for _, a := range CondAtoms(fn) {
		cmp, ok := a.(*ssa.BinOp)
		if !ok || !sameValue(cmp.X, v) {
			continue
		}
		k, ok := ConstInt(cmp.Y)
		if !ok {
			continue
		}
		// when control stays away from `at` for the truth value `small` of the atom, v is at least `least` at `at`
		var small, decided bool
		switch cmp.Op {
		case token.LSS: // v < k excluded: v >= k
			small, decided = true, k >= n
		case token.LEQ: // v <= k excluded: v >= k+1
			small, decided = true, k+1 >= n
		case token.GEQ: // !(v >= k) excluded: v >= k
			small, decided = false, k >= n
		case token.GTR: // !(v > k) excluded: v >= k+1
			small, decided = false, k+1 >= n
		}
		if !decided {
			continue
		}
		if !ForwardReach(fn.Blocks[0], map[ssa.Value]bool{a: small}, nil)[at] {
			return true, fmt.Sprintf("the loop is not reached when the divisor is below %d", n)
		}
	}
	return false, fmt.Sprintf("no test keeps control away when the divisor is below %d", n)
}

// ProveNonZero decides that an integer value cannot be zero at `at`: the forms of ProveDivisor, or the result of a
// max-like call (MaxInt, Max, max) with a positive constant argument.
func (p *Prog) ProveNonZero(fn *ssa.Function, at ssa.Instruction, v ssa.Value) (bool, string) {
	return p.proveNonZeroDepth(fn, at, v, 0)
}

func (p *Prog) proveNonZeroDepth(fn *ssa.Function, at ssa.Instruction, v ssa.Value, depth int) (bool, string) {
	base := stripIntWiden(v)
	// a local spilled to a cell (captured by a closure): the value stored last in the same block, before the load
	if ld, ok := base.(*ssa.UnOp); ok && ld.Op == token.MUL && depth < 3 {
		if al, isAl := ld.X.(*ssa.Alloc); isAl {
			var last *ssa.Store
			for _, in := range ld.Block().Instrs {
				if in == ssa.Instruction(ld) {
					break
				}
				switch x := in.(type) {
				case *ssa.Store:
					if x.Addr == ssa.Value(al) {
						last = x
					}
				case *ssa.Call:
					if _, isB := x.Call.Value.(*ssa.Builtin); !isB && x.Call.StaticCallee() == nil {
						last = nil // a dynamic call may run a closure that writes the cell
					}
				}
			}
			if last != nil {
				if ok, how := p.proveNonZeroDepth(fn, last, last.Val, depth+1); ok {
					return true, "stored just before: " + how
				}
			}
		}
	}
	if cv, ok := base.(*ssa.Convert); ok { // int(max(1, x)): truncation keeps a value >= 1 at least 1
		base = cv.X
	}
	if phi, ok := base.(*ssa.Phi); ok && depth < 3 {
		all := len(phi.Edges) > 0
		for i, e := range phi.Edges {
			if ok, _ := p.proveNonZeroDepth(fn, at, e, depth+1); !ok && !edgeExcludesZero(phi, i) {
				all = false
			}
		}
		if all {
			return true, "every value merged here is non-zero"
		}
	}
	if call, ok := base.(*ssa.Call); ok {
		name := ""
		if bi, isB := call.Call.Value.(*ssa.Builtin); isB {
			name = bi.Name()
		} else if cal := call.Call.StaticCallee(); cal != nil {
			name = cal.Name()
		}
		switch strings.ToLower(name) {
		case "max", "maxint", "maxf":
			for _, a := range call.Call.Args {
				if k, ok := a.(*ssa.Const); ok && k.Value != nil && constant.Sign(k.Value) > 0 {
					return true, name + " with the positive constant " + k.Value.String()
				}
			}
		}
	}
	return p.proveNonZeroValue(fn, at, v, 0)
}

// CountNonZero decides that the divisor of a floating point division — an integer count converted to float — is
// not zero: ProveNonZero on the count; a dominating test on the converted value itself; a division in the body of a
// `range S` loop by len(S); a count of the form n + k with n non-negative and k a positive constant.
func (p *Prog) CountNonZero(fn *ssa.Function, div *ssa.BinOp, count ssa.Value) (bool, string) {
	if ok, how := p.ProveNonZero(fn, div, count); ok {
		return true, how
	}
	// a test on the float value
	for v := div.Y; v != nil; {
		if ok, how := NonZeroAt(fn, div, v); ok {
			return true, how + " (on the converted value)"
		}
		switch x := v.(type) {
		case *ssa.Convert:
			v = x.X
		case *ssa.ChangeType:
			v = x.X
		default:
			v = nil
		}
	}
	// len(S) in the body of a loop over S
	if call, ok := stripIntWiden(count).(*ssa.Call); ok {
		if bi, isB := call.Call.Value.(*ssa.Builtin); isB && bi.Name() == "len" {
			for _, l := range Loops(fn) {
				h := l.Header
				if !l.Blocks[div.Block()] || div.Block() == h || len(h.Instrs) == 0 {
					continue
				}
				ifi, ok := h.Instrs[len(h.Instrs)-1].(*ssa.If)
				if !ok {
					continue
				}
				cmp, ok := ifi.Cond.(*ssa.BinOp)
				if !ok || cmp.Op != token.LSS {
					continue
				}
				lc, ok := cmp.Y.(*ssa.Call)
				if !ok {
					continue
				}
				if b2, isB := lc.Call.Value.(*ssa.Builtin); !isB || b2.Name() != "len" {
					continue
				}
				if sameValue(lc.Call.Args[0], call.Call.Args[0]) && h.Succs[0].Dominates(div.Block()) {
					return true, "in the body of the loop over the slice whose length divides"
				}
			}
		}
	}
	// n + k
	if bo, ok := stripIntWiden(count).(*ssa.BinOp); ok && bo.Op == token.ADD {
		for _, pair := range [][2]ssa.Value{{bo.X, bo.Y}, {bo.Y, bo.X}} {
			if k, isK := ConstInt(pair[1]); isK && k > 0 {
				if nn, how := NonNegativeAt(fn, div, pair[0], nil); nn {
					return true, fmt.Sprintf("non-negative (%s) plus %d", how, k)
				}
			}
		}
	}
	return false, "no clamp, test or enclosing loop excludes a zero count"
}

// edgeExcludesZero: the i-th edge of the phi leaves a block that ends in a test of the merged value against a
// constant, and under the scenario "value == 0" that test sends control elsewhere (`if n < 1 { n = 1 }`).
func edgeExcludesZero(phi *ssa.Phi, i int) bool {
	pred := phi.Block().Preds[i]
	e := phi.Edges[i]
	if len(pred.Instrs) == 0 {
		return false
	}
	ifi, ok := pred.Instrs[len(pred.Instrs)-1].(*ssa.If)
	if !ok || pred.Succs[0] == pred.Succs[1] {
		return false
	}
	cond, neg := normCond(ifi.Cond)
	cmp, ok := cond.(*ssa.BinOp)
	if !ok {
		return false
	}
	var truth bool
	if k, ok := constIntegral(cmp.Y); ok && sameValue(cmp.X, e) {
		truth = cmpInts(cmp.Op, 0, k)
	} else if k, ok := constIntegral(cmp.X); ok && sameValue(cmp.Y, e) {
		truth = cmpInts(cmp.Op, k, 0)
	} else {
		return false
	}
	switch cmp.Op {
	case token.LSS, token.LEQ, token.GTR, token.GEQ, token.EQL, token.NEQ:
	default:
		return false
	}
	if neg {
		truth = !truth
	}
	taken := pred.Succs[1]
	if truth {
		taken = pred.Succs[0]
	}
	return taken != phi.Block()
}

// signCorrected: phi merges the remainder rem with rem + divisor, the latter coming from the true side and the former
// from the false side of `rem < 0`.
func signCorrected(phi *ssa.Phi, rem *ssa.BinOp) bool {
	if len(phi.Edges) != 2 {
		return false
	}
	for i, e := range phi.Edges {
		other := phi.Edges[1-i]
		add, ok := other.(*ssa.BinOp)
		if e != ssa.Value(rem) || !ok || add.Op != token.ADD {
			continue
		}
		if !((add.X == ssa.Value(rem) && add.Y == rem.Y) || (add.Y == ssa.Value(rem) && add.X == rem.Y)) {
			continue
		}
		// the block of the addition is entered by `rem < 0` true
		ab := add.Block()
		if len(ab.Preds) != 1 {
			continue
		}
		pred := ab.Preds[0]
		ifi, ok := pred.Instrs[len(pred.Instrs)-1].(*ssa.If)
		if !ok || pred.Succs[0] != ab {
			continue
		}
		cmp, ok := ifi.Cond.(*ssa.BinOp)
		if !ok || cmp.Op != token.LSS || cmp.X != ssa.Value(rem) {
			continue
		}
		if k, ok := ConstInt(cmp.Y); ok && k == 0 {
			return true
		}
	}
	return false
}
