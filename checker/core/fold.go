package core

import (
	"fmt"
	"go/constant"
	"go/token"
	"go/types"
	"math/big"
	"sort"
	"strings"

	"golang.org/x/tools/go/ssa"
)

// Abstract folding of small pure functions over constants, symbols and
// polynomials (engine A "finite-domain folding" / "ordering abstraction" and
// engine P "polynomial value numbering").  No machine arithmetic on program
// values is performed: numbers are exact rationals, unknown inputs are
// symbols, results are canonical polynomials in those symbols.

// AV is an abstract value.
type AV interface{}

type (
	// Poly is a polynomial with rational coefficients over named symbols.
	Poly struct{ T map[string]*big.Rat }
	// BoolV is a known boolean.
	BoolV bool
	// StrV is a known string.
	StrV string
	// Agg is a struct / array value.
	Agg struct{ E []AV }
	// Ptr points into a cell.
	Ptr struct {
		C    *Cell
		Path []int
	}
	// Cell is a memory cell.
	Cell struct{ V AV }
	// TopV is "unknown".
	TopV struct{ Why string }
	// NilV is nil.
	NilV struct{}
)

func Num(n int64) Poly { return PolyConst(new(big.Rat).SetInt64(n)) }
func PolyConst(r *big.Rat) Poly {
	p := Poly{T: map[string]*big.Rat{}}
	if r.Sign() != 0 {
		p.T[""] = new(big.Rat).Set(r)
	}
	return p
}
func SymP(name string) Poly { return Poly{T: map[string]*big.Rat{name: big.NewRat(1, 1)}} }

func (p Poly) IsConst() (*big.Rat, bool) {
	if len(p.T) == 0 {
		return new(big.Rat), true
	}
	if len(p.T) == 1 {
		if c, ok := p.T[""]; ok {
			return c, true
		}
	}
	return nil, false
}

func (p Poly) Add(q Poly) Poly {
	r := Poly{T: map[string]*big.Rat{}}
	for k, v := range p.T {
		r.T[k] = new(big.Rat).Set(v)
	}
	for k, v := range q.T {
		if x, ok := r.T[k]; ok {
			x.Add(x, v)
			if x.Sign() == 0 {
				delete(r.T, k)
			}
		} else {
			r.T[k] = new(big.Rat).Set(v)
		}
	}
	return r
}

func (p Poly) Neg() Poly {
	r := Poly{T: map[string]*big.Rat{}}
	for k, v := range p.T {
		r.T[k] = new(big.Rat).Neg(v)
	}
	return r
}

// monoSep separates the factors of a monomial internally (symbol names may contain any printable text).
const monoSep = "\x1f"

func mulMono(a, b string) string {
	if a == "" {
		return b
	}
	if b == "" {
		return a
	}
	parts := append(strings.Split(a, monoSep), strings.Split(b, monoSep)...)
	sort.Strings(parts)
	return strings.Join(parts, monoSep)
}

func (p Poly) Mul(q Poly) Poly {
	r := Poly{T: map[string]*big.Rat{}}
	for k1, v1 := range p.T {
		for k2, v2 := range q.T {
			k := mulMono(k1, k2)
			c := new(big.Rat).Mul(v1, v2)
			if x, ok := r.T[k]; ok {
				x.Add(x, c)
				if x.Sign() == 0 {
					delete(r.T, k)
				}
			} else if c.Sign() != 0 {
				r.T[k] = c
			}
		}
	}
	return r
}

func (p Poly) String() string {
	if len(p.T) == 0 {
		return "0"
	}
	keys := make([]string, 0, len(p.T))
	for k := range p.T {
		keys = append(keys, k)
	}
	sort.Strings(keys)
	var sb strings.Builder
	for i, k := range keys {
		c := p.T[k]
		if i > 0 {
			sb.WriteString(" + ")
		}
		cs := c.RatString()
		kd := strings.ReplaceAll(k, monoSep, "·")
		switch {
		case k == "":
			sb.WriteString(cs)
		case cs == "1":
			sb.WriteString(kd)
		default:
			sb.WriteString(cs + "·" + kd)
		}
	}
	return sb.String()
}

func (p Poly) Equal(q Poly) bool { return p.String() == q.String() }

// Near reports whether the two polynomials have the same monomials with coefficients that differ by at most eps
// (constants of the source are rounded to the floating point type they are declared with).
func (p Poly) Near(q Poly, eps *big.Rat) bool {
	d := p.Add(q.Neg())
	for _, c := range d.T {
		if new(big.Rat).Abs(c).Cmp(eps) > 0 {
			return false
		}
	}
	return true
}

// Div: division by a constant scales, otherwise multiplies by the symbol inv(<q>).
func (p Poly) Div(q Poly) (Poly, bool) {
	if c, ok := q.IsConst(); ok {
		if c.Sign() == 0 {
			return Poly{}, false
		}
		return p.Mul(PolyConst(new(big.Rat).Inv(c))), true
	}
	return p.Mul(SymP("inv(" + q.String() + ")")), true
}

// Folder interprets one function abstractly.
type Folder struct {
	// Call decides the abstract result of a call; return handled=false for the default
	// (inline module functions up to MaxDepth, uninterpreted math functions, Top otherwise).
	Call func(f *Folder, call *ssa.Call, args []AV) (AV, bool)
	// Cmp decides a comparison between non-constant values; ok=false means unknown.
	Cmp func(op token.Token, x, y AV) (res bool, ok bool)
	// Lookup decides the abstract result of a map lookup / string index; may be nil.
	Lookup func(x *ssa.Lookup, m, k AV) (AV, bool)
	// Global gives the abstract content of a global variable's address; may be nil.
	Global func(g *ssa.Global) (AV, bool)
	// Invoke decides the result of an interface method call from the abstract receiver; may be nil.
	Invoke func(f *Folder, call *ssa.Call, recv AV, args []AV) (AV, bool)
	// Assert decides a comma-ok type assertion: it returns the asserted value and whether the assertion holds.
	Assert func(x *ssa.TypeAssert, v AV) (val AV, holds bool, ok bool)
	// FuncArgs records the argument polynomial of every uninterpreted math call (symbol name -> argument).
	FuncArgs map[string]Poly
	MaxDepth int
	MaxSteps int
	steps    int
	depth    int
	Trace    []string
}

// FoldResult is the outcome of folding one function.
type FoldResult struct {
	Results []AV
}

// ZeroOf builds the zero abstract value of a type.
func ZeroOf(t types.Type) AV {
	switch u := t.Underlying().(type) {
	case *types.Basic:
		switch {
		case u.Info()&types.IsBoolean != 0:
			return BoolV(false)
		case u.Info()&types.IsString != 0:
			return StrV("")
		case u.Info()&types.IsNumeric != 0:
			return Num(0)
		}
	case *types.Struct:
		a := Agg{}
		for i := 0; i < u.NumFields(); i++ {
			a.E = append(a.E, ZeroOf(u.Field(i).Type()))
		}
		return a
	case *types.Array:
		a := Agg{}
		for i := int64(0); i < u.Len(); i++ {
			a.E = append(a.E, ZeroOf(u.Elem()))
		}
		return a
	case *types.Pointer, *types.Slice, *types.Map, *types.Interface, *types.Signature, *types.Chan:
		return NilV{}
	}
	return TopV{"zero of " + t.String()}
}

// SymOf builds a symbolic value of a type: scalars become symbols named prefix,
// aggregates are expanded field by field (prefix.Field / prefix[i]).
func SymOf(t types.Type, prefix string) AV {
	switch u := t.Underlying().(type) {
	case *types.Basic:
		if u.Info()&types.IsNumeric != 0 {
			return SymP(prefix)
		}
		return TopV{"symbolic " + t.String()}
	case *types.Struct:
		a := Agg{}
		for i := 0; i < u.NumFields(); i++ {
			a.E = append(a.E, SymOf(u.Field(i).Type(), prefix+"."+u.Field(i).Name()))
		}
		return a
	case *types.Array:
		a := Agg{}
		for i := int64(0); i < u.Len(); i++ {
			a.E = append(a.E, SymOf(u.Elem(), fmt.Sprintf("%s[%d]", prefix, i)))
		}
		return a
	case *types.Pointer:
		return Ptr{C: &Cell{V: SymOf(u.Elem(), prefix)}}
	}
	return TopV{"symbolic " + t.String()}
}

func constToAV(c *ssa.Const) AV {
	if c.Value == nil {
		return ZeroOf(c.Type())
	}
	switch c.Value.Kind() {
	case constant.Bool:
		return BoolV(constant.BoolVal(c.Value))
	case constant.String:
		return StrV(constant.StringVal(c.Value))
	case constant.Int, constant.Float:
		r, ok := new(big.Rat).SetString(c.Value.ExactString())
		if !ok {
			f, _ := constant.Float64Val(c.Value)
			r = new(big.Rat).SetFloat64(f)
			if r == nil {
				return TopV{"const"}
			}
		}
		return PolyConst(r)
	}
	return TopV{"const kind"}
}

func getPath(v AV, path []int) AV {
	for _, i := range path {
		a, ok := v.(Agg)
		if !ok || i >= len(a.E) {
			return TopV{"path"}
		}
		v = a.E[i]
	}
	return v
}

func setPath(v AV, path []int, nv AV) AV {
	if len(path) == 0 {
		return nv
	}
	a, ok := v.(Agg)
	if !ok || path[0] >= len(a.E) {
		return TopV{"setpath"}
	}
	ne := make([]AV, len(a.E))
	copy(ne, a.E)
	ne[path[0]] = setPath(a.E[path[0]], path[1:], nv)
	return Agg{E: ne}
}

type foldErr struct{ msg string }

func (e foldErr) Error() string { return e.msg }

// Fold interprets fn with the given abstract arguments (receiver first).
func (f *Folder) Fold(fn *ssa.Function, args []AV) (res []AV, err error) {
	if f.MaxSteps == 0 {
		f.MaxSteps = 20000
	}
	if f.MaxDepth == 0 {
		f.MaxDepth = 6
	}
	if len(fn.Blocks) == 0 {
		return nil, foldErr{"no body: " + fn.String()}
	}
	if len(args) != len(fn.Params) {
		return nil, foldErr{fmt.Sprintf("arity %d != %d for %s", len(args), len(fn.Params), fn)}
	}
	env := map[ssa.Value]AV{}
	for i, p := range fn.Params {
		env[p] = args[i]
	}
	get := func(v ssa.Value) AV {
		switch x := v.(type) {
		case *ssa.Const:
			return constToAV(x)
		case *ssa.Function:
			return x
		case *ssa.Global:
			if f.Global != nil {
				if r, ok := f.Global(x); ok {
					return r
				}
			}
			return TopV{"global " + x.Name()}
		}
		if a, ok := env[v]; ok {
			return a
		}
		return TopV{"undefined " + v.Name()}
	}
	var prev *ssa.BasicBlock
	b := fn.Blocks[0]
	for {
		var next *ssa.BasicBlock
		// phis are evaluated simultaneously
		phiVals := map[*ssa.Phi]AV{}
		for _, in := range b.Instrs {
			if phi, ok := in.(*ssa.Phi); ok {
				for i, p := range b.Preds {
					if p == prev {
						phiVals[phi] = get(phi.Edges[i])
					}
				}
			}
		}
		for k, v := range phiVals {
			env[k] = v
		}
		for _, in := range b.Instrs {
			f.steps++
			if f.steps > f.MaxSteps {
				return nil, foldErr{"step limit"}
			}
			switch x := in.(type) {
			case *ssa.Phi:
			case *ssa.DebugRef:
			case *ssa.Alloc:
				env[x] = Ptr{C: &Cell{V: ZeroOf(x.Type().(*types.Pointer).Elem())}}
			case *ssa.Store:
				p, ok := get(x.Addr).(Ptr)
				if !ok {
					return nil, foldErr{"store through unknown pointer at " + x.Addr.Name()}
				}
				p.C.V = setPath(p.C.V, p.Path, get(x.Val))
			case *ssa.UnOp:
				v := get(x.X)
				switch x.Op {
				case token.MUL:
					if p, ok := v.(Ptr); ok {
						env[x] = getPath(p.C.V, p.Path)
					} else {
						env[x] = TopV{"load"}
					}
				case token.NOT:
					if bv, ok := v.(BoolV); ok {
						env[x] = BoolV(!bool(bv))
					} else {
						env[x] = TopV{"not"}
					}
				case token.SUB:
					if p, ok := v.(Poly); ok {
						env[x] = p.Neg()
					} else if r, ok := v.(RatP); ok {
						env[x] = r.Neg()
					} else {
						env[x] = TopV{"neg"}
					}
				default:
					env[x] = TopV{"unop"}
				}
			case *ssa.FieldAddr:
				if p, ok := get(x.X).(Ptr); ok {
					env[x] = Ptr{C: p.C, Path: append(append([]int{}, p.Path...), x.Field)}
				} else {
					env[x] = TopV{"fieldaddr"}
				}
			case *ssa.IndexAddr:
				p, ok := get(x.X).(Ptr)
				idx, ok2 := get(x.Index).(Poly)
				if ok && ok2 {
					if c, isc := idx.IsConst(); isc && c.IsInt() {
						env[x] = Ptr{C: p.C, Path: append(append([]int{}, p.Path...), int(c.Num().Int64()))}
						break
					}
				}
				env[x] = TopV{"indexaddr"}
			case *ssa.Field:
				env[x] = getPath(get(x.X), []int{x.Field})
			case *ssa.Index:
				idx, ok := get(x.Index).(Poly)
				if ok {
					if c, isc := idx.IsConst(); isc && c.IsInt() {
						env[x] = getPath(get(x.X), []int{int(c.Num().Int64())})
						break
					}
				}
				env[x] = TopV{"index"}
			case *ssa.MakeInterface:
				env[x] = get(x.X)
			case *ssa.ChangeInterface:
				env[x] = get(x.X)
			case *ssa.TypeAssert:
				if x.CommaOk {
					env[x] = TopV{"comma-ok assert"}
					if f.Assert != nil {
						if val, holds, ok := f.Assert(x, get(x.X)); ok {
							env[x] = Agg{E: []AV{val, BoolV(holds)}}
						}
					}
				} else {
					env[x] = get(x.X)
				}
			case *ssa.Lookup:
				env[x] = TopV{"lookup"}
				if f.Lookup != nil {
					if r, ok := f.Lookup(x, get(x.X), get(x.Index)); ok {
						env[x] = r
					}
				}
			case *ssa.Convert:
				env[x] = get(x.X)
			case *ssa.ChangeType:
				env[x] = get(x.X)
			case *ssa.BinOp:
				env[x] = f.binop(x.Op, get(x.X), get(x.Y))
			case *ssa.Call:
				var cargs []AV
				for _, a := range x.Call.Args {
					cargs = append(cargs, get(a))
				}
				if x.Call.IsInvoke() && f.Invoke != nil {
					if r, ok := f.Invoke(f, x, get(x.Call.Value), cargs); ok {
						env[x] = r
						break
					}
				}
				env[x] = f.call(x, cargs)
			case *ssa.Extract:
				if a, ok := get(x.Tuple).(Agg); ok && x.Index < len(a.E) {
					env[x] = a.E[x.Index]
				} else {
					env[x] = TopV{"extract"}
				}
			case *ssa.If:
				c, ok := get(x.Cond).(BoolV)
				if !ok {
					return nil, foldErr{fmt.Sprintf("branch on unknown condition %s in %s", x.Cond.Name(), fn.Name())}
				}
				if c {
					next = b.Succs[0]
				} else {
					next = b.Succs[1]
				}
			case *ssa.Jump:
				next = b.Succs[0]
			case *ssa.Return:
				for _, r := range x.Results {
					res = append(res, get(r))
				}
				return res, nil
			case *ssa.Panic:
				return nil, foldErr{"panic reached"}
			case ssa.Value:
				env[x] = TopV{fmt.Sprintf("%T", x)}
			default:
				// instructions without value (Defer, Go, Send, MapUpdate, RunDefers...) are ignored
			}
		}
		if next == nil {
			return nil, foldErr{"fell off block"}
		}
		prev, b = b, next
	}
}

func (f *Folder) binop(op token.Token, x, y AV) AV {
	switch op {
	case token.EQL, token.NEQ, token.LSS, token.LEQ, token.GTR, token.GEQ:
		if r, ok := f.compare(op, x, y); ok {
			return BoolV(r)
		}
		return TopV{"compare"}
	}
	px, ok1 := x.(Poly)
	py, ok2 := y.(Poly)
	if ok1 && ok2 {
		switch op {
		case token.ADD:
			return px.Add(py)
		case token.SUB:
			return px.Add(py.Neg())
		case token.MUL:
			return px.Mul(py)
		case token.QUO:
			if c, isc := py.IsConst(); isc {
				if c.Sign() == 0 {
					return TopV{"division by constant zero"}
				}
				return px.Mul(PolyConst(new(big.Rat).Inv(c)))
			}
			return FromRat(RatP{px, py})
		}
	}
	if rx, okx := ToRat(x); okx {
		if ry, oky := ToRat(y); oky {
			switch op {
			case token.ADD:
				return FromRat(rx.Add(ry))
			case token.SUB:
				return FromRat(rx.Add(ry.Neg()))
			case token.MUL:
				return FromRat(rx.Mul(ry))
			case token.QUO:
				return FromRat(rx.Div(ry))
			}
		}
	}
	sx, ok1 := x.(StrV)
	sy, ok2 := y.(StrV)
	if ok1 && ok2 && op == token.ADD {
		return sx + sy
	}
	return TopV{"binop " + op.String()}
}

func (f *Folder) compare(op token.Token, x, y AV) (bool, bool) {
	switch a := x.(type) {
	case StrV:
		if b, ok := y.(StrV); ok {
			return constant.Compare(constant.MakeString(string(a)), op, constant.MakeString(string(b))), true
		}
	case BoolV:
		if b, ok := y.(BoolV); ok {
			switch op {
			case token.EQL:
				return a == b, true
			case token.NEQ:
				return a != b, true
			}
		}
	case Poly:
		if b, ok := y.(Poly); ok {
			ca, ok1 := a.IsConst()
			cb, ok2 := b.IsConst()
			if ok1 && ok2 {
				c := ca.Cmp(cb)
				switch op {
				case token.EQL:
					return c == 0, true
				case token.NEQ:
					return c != 0, true
				case token.LSS:
					return c < 0, true
				case token.LEQ:
					return c <= 0, true
				case token.GTR:
					return c > 0, true
				case token.GEQ:
					return c >= 0, true
				}
			}
		}
	}
	if f.Cmp != nil {
		return f.Cmp(op, x, y)
	}
	return false, false
}

func (f *Folder) call(c *ssa.Call, args []AV) AV {
	if f.Call != nil {
		if r, ok := f.Call(f, c, args); ok {
			return r
		}
	}
	callee := c.Common().StaticCallee()
	if callee == nil {
		return TopV{"dynamic call"}
	}
	if callee.Pkg != nil && callee.Pkg.Pkg.Path() == "math" && len(args) == 1 {
		if p, ok := args[0].(Poly); ok {
			name := strings.ToLower(callee.Name())
			if cst, isc := p.IsConst(); isc && cst.Sign() == 0 {
				switch name {
				case "sin", "tan":
					return Num(0)
				case "cos":
					return Num(1)
				}
			}
			sn := name + "(" + p.String() + ")"
			if f.FuncArgs == nil {
				f.FuncArgs = map[string]Poly{}
			}
			f.FuncArgs[sn] = p
			return SymP(sn)
		}
	}
	if IsModFunc(callee) && len(callee.Blocks) > 0 && f.depth < f.MaxDepth {
		f.depth++
		res, err := f.Fold(callee, args)
		f.depth--
		if err != nil {
			return TopV{"callee: " + err.Error()}
		}
		switch len(res) {
		case 0:
			return NilV{}
		case 1:
			return res[0]
		default:
			return Agg{E: res}
		}
	}
	return TopV{"call " + callee.Name()}
}

// AVString renders an abstract value canonically.
func AVString(v AV) string {
	switch x := v.(type) {
	case Poly:
		return x.String()
	case RatP:
		return x.String()
	case BoolV:
		return fmt.Sprint(bool(x))
	case StrV:
		return fmt.Sprintf("%q", string(x))
	case Agg:
		var parts []string
		for _, e := range x.E {
			parts = append(parts, AVString(e))
		}
		return "{" + strings.Join(parts, ", ") + "}"
	case Ptr:
		return "&" + AVString(getPath(x.C.V, x.Path))
	case TopV:
		return "⊤(" + x.Why + ")"
	case NilV:
		return "nil"
	case *ssa.Function:
		return "func " + x.Name()
	}
	return fmt.Sprintf("%v", v)
}

// Deref returns the content of an abstract pointer.
func Deref(v AV) AV {
	if p, ok := v.(Ptr); ok {
		return getPath(p.C.V, p.Path)
	}
	return TopV{"deref"}
}

// StructAV builds an abstract struct value of type t from named fields (others are zero).
func StructAV(t types.Type, fields map[string]AV) AV {
	st, ok := t.Underlying().(*types.Struct)
	if !ok {
		return TopV{"not a struct"}
	}
	a := Agg{}
	for i := 0; i < st.NumFields(); i++ {
		if v, ok := fields[st.Field(i).Name()]; ok {
			a.E = append(a.E, v)
		} else {
			a.E = append(a.E, ZeroOf(st.Field(i).Type()))
		}
	}
	return a
}

// FieldAV reads a named field (dotted path allowed) of an abstract struct value of type t.
func FieldAV(v AV, t types.Type, path ...string) AV {
	for _, name := range path {
		st, ok := t.Underlying().(*types.Struct)
		a, ok2 := v.(Agg)
		if !ok || !ok2 {
			return TopV{"field " + name}
		}
		found := false
		for i := 0; i < st.NumFields(); i++ {
			if st.Field(i).Name() == name && i < len(a.E) {
				v, t, found = a.E[i], st.Field(i).Type(), true
				break
			}
		}
		if !found {
			return TopV{"no field " + name}
		}
	}
	return v
}

// RatP is a rational function N/D of polynomials (no normalisation: equality is decided by cross multiplication).
type RatP struct{ N, D Poly }

func PolyR(p Poly) RatP        { return RatP{p, Num(1)} }
func SymR(n string) RatP       { return PolyR(SymP(n)) }
func NumR(n int64) RatP        { return PolyR(Num(n)) }
func (r RatP) Add(s RatP) RatP { return RatP{r.N.Mul(s.D).Add(s.N.Mul(r.D)), r.D.Mul(s.D)}.simp() }
func (r RatP) Mul(s RatP) RatP { return RatP{r.N.Mul(s.N), r.D.Mul(s.D)}.simp() }
func (r RatP) Neg() RatP       { return RatP{r.N.Neg(), r.D} }
func (r RatP) Div(s RatP) RatP { return RatP{r.N.Mul(s.D), r.D.Mul(s.N)}.simp() }
func (r RatP) Equal(s RatP) bool {
	return r.N.Mul(s.D).Equal(s.N.Mul(r.D))
}

// simp divides out a constant denominator.
func (r RatP) simp() RatP {
	if c, ok := r.D.IsConst(); ok && c.Sign() != 0 {
		return RatP{r.N.Mul(PolyConst(new(big.Rat).Inv(c))), Num(1)}
	}
	return r
}

func (r RatP) String() string {
	if c, ok := r.D.IsConst(); ok && c.Cmp(big.NewRat(1, 1)) == 0 {
		return r.N.String()
	}
	return "(" + r.N.String() + ")/(" + r.D.String() + ")"
}

// ToRat converts an abstract numeric value to a rational function.
func ToRat(v AV) (RatP, bool) {
	switch x := v.(type) {
	case Poly:
		return PolyR(x), true
	case RatP:
		return x, true
	}
	return RatP{}, false
}

// FromRat gives the simplest abstract value of a rational function (a Poly when the denominator is constant).
func FromRat(r RatP) AV {
	r = r.simp()
	if c, ok := r.D.IsConst(); ok && c.Cmp(big.NewRat(1, 1)) == 0 {
		return r.N
	}
	return r
}

// SubstSquare replaces every square of the symbol sym in the polynomial by the rational function repl
// (sym^(2k+1) becomes repl^k·sym): the reduction modulo an algebraic identity such as sin² = 1 − cos².
func (p Poly) SubstSquare(sym string, repl RatP) RatP {
	out := NumR(0)
	for mono, c := range p.T {
		n := 0
		var rest []string
		if mono != "" {
			for _, s := range strings.Split(mono, monoSep) {
				if s == sym {
					n++
				} else {
					rest = append(rest, s)
				}
			}
		}
		if n%2 == 1 {
			rest = append(rest, sym)
			sort.Strings(rest)
		}
		term := PolyR(Poly{T: map[string]*big.Rat{strings.Join(rest, monoSep): new(big.Rat).Set(c)}})
		for i := 0; i < n/2; i++ {
			term = term.Mul(repl)
		}
		out = out.Add(term)
	}
	return out
}

// SubstSquare applies Poly.SubstSquare to numerator and denominator.
func (r RatP) SubstSquare(sym string, repl RatP) RatP {
	return r.N.SubstSquare(sym, repl).Div(r.D.SubstSquare(sym, repl))
}

// IsZero reports whether the rational function is identically zero.
func (r RatP) IsZero() bool { return len(r.N.T) == 0 }

// SetFieldAV returns v (an abstract struct of type t) with the field at the dotted path replaced by nv.
func SetFieldAV(v AV, t types.Type, nv AV, path ...string) (AV, bool) {
	var idx []int
	cur := t
	for _, name := range path {
		st, ok := cur.Underlying().(*types.Struct)
		if !ok {
			return v, false
		}
		found := false
		for i := 0; i < st.NumFields(); i++ {
			if st.Field(i).Name() == name {
				idx = append(idx, i)
				cur = st.Field(i).Type()
				found = true
				break
			}
		}
		if !found {
			return v, false
		}
	}
	return setPath(v, idx, nv), true
}
