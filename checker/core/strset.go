package core

import (
	"go/constant"
	"go/token"
	"go/types"
	"sort"
	"strings"

	"golang.org/x/tools/go/ssa"
)

// Engine A2: string value sets.
//
// StrSet is the set of strings a value may hold at a program point; Top means unknown. Sets are
// computed from constants, phis, results of module functions (union over their returns), callers'
// arguments for parameters, and — for an opaque value (a keyword read from a token) — from the
// path condition: the constants it is compared with on the way to the point, when the point is not
// reachable with every comparison false.

type StrSet struct {
	Top bool
	S   map[string]bool
	Why string // why Top
}

func topSet(why string) StrSet { return StrSet{Top: true, Why: why} }

func (s StrSet) List() []string {
	var out []string
	for k := range s.S {
		out = append(out, k)
	}
	sort.Strings(out)
	return out
}

func (s StrSet) String() string {
	if s.Top {
		return "⊤ (" + s.Why + ")"
	}
	return "{" + strings.Join(s.List(), " ") + "}"
}

func (s StrSet) Union(t StrSet) StrSet {
	if s.Top {
		return s
	}
	if t.Top {
		return t
	}
	out := StrSet{S: map[string]bool{}}
	for k := range s.S {
		out.S[k] = true
	}
	for k := range t.S {
		out.S[k] = true
	}
	return out
}

func oneStr(c string) StrSet { return StrSet{S: map[string]bool{c: true}} }

// StrSets is the analysis context (memoises function returns; PropSet resolves style accessors).
type StrSets struct {
	P *Prog
	// Accessor, when set, gives the value set of a call the analysis cannot see through (a style accessor);
	// elem reports that the set describes the elements of the returned list.
	Accessor    func(call *ssa.Call) (set StrSet, elem bool, ok bool)
	retMemo     map[string]StrSet
	active      map[string]bool
	visiting    map[ssa.Value]bool
	fieldMemo   map[string]StrSet
	fieldStores map[string][]*ssa.Store // "pkg.T#field" -> stores into that field, module-wide
}

func NewStrSets(p *Prog) *StrSets {
	return &StrSets{P: p, retMemo: map[string]StrSet{}, active: map[string]bool{}, visiting: map[ssa.Value]bool{}}
}

func constString(v ssa.Value) (string, bool) {
	c, ok := v.(*ssa.Const)
	if !ok || c.Value == nil || c.Value.Kind() != constant.String {
		return "", false
	}
	return constant.StringVal(c.Value), true
}

func stripStr(v ssa.Value) ssa.Value {
	for {
		switch x := v.(type) {
		case *ssa.ChangeType:
			v = x.X
		case *ssa.MakeInterface:
			v = x.X
		case *ssa.Convert:
			if isStringType(x.X.Type()) && isStringType(x.Type()) {
				v = x.X
			} else {
				return v
			}
		default:
			return v
		}
	}
}

// sameStr: two SSA values hold the same string: identical, equal by sameValue, or loads of the same constant
// index of the same slice with no store into that slice reachable from either load.
func sameStr(a, b ssa.Value) bool {
	a, b = stripStr(a), stripStr(b)
	if a == b || sameValue(a, b) {
		return true
	}
	ua, ok1 := a.(*ssa.UnOp)
	ub, ok2 := b.(*ssa.UnOp)
	if !ok1 || !ok2 || ua.Op != token.MUL || ub.Op != token.MUL {
		return false
	}
	ia, ok1 := ua.X.(*ssa.IndexAddr)
	ib, ok2 := ub.X.(*ssa.IndexAddr)
	if !ok1 || !ok2 || ia.X != ib.X {
		return false
	}
	ca, ok1 := ConstInt(ia.Index)
	cb, ok2 := ConstInt(ib.Index)
	if !ok1 || !ok2 || ca != cb {
		return false
	}
	return !storeReachableFrom(ia.X, ua.Block()) && !storeReachableFrom(ia.X, ub.Block())
}

// storeReachableFrom: some store into an element of slice s is in a block reachable (any edges) from b, b included
// only through a cycle.
func storeReachableFrom(s ssa.Value, b *ssa.BasicBlock) bool {
	seen := map[*ssa.BasicBlock]bool{}
	work := append([]*ssa.BasicBlock{}, b.Succs...)
	for len(work) > 0 {
		x := work[len(work)-1]
		work = work[:len(work)-1]
		if seen[x] {
			continue
		}
		seen[x] = true
		work = append(work, x.Succs...)
	}
	found := false
	if s.Referrers() == nil {
		return false
	}
	for _, r := range *s.Referrers() {
		ia, ok := r.(*ssa.IndexAddr)
		if !ok || ia.Referrers() == nil {
			continue
		}
		for _, rr := range *ia.Referrers() {
			if st, ok := rr.(*ssa.Store); ok && st.Addr == ssa.Value(ia) && seen[st.Block()] {
				found = true
			}
		}
	}
	return found
}

type strAtom struct {
	atom ssa.Value
	c    string
}

// atomsOn lists the If-condition atoms of fn that compare (a value equal to) o with a string constant.
func atomsOn(fn *ssa.Function, o ssa.Value) []strAtom {
	var out []strAtom
	for _, a := range CondAtoms(fn) {
		bo, ok := a.(*ssa.BinOp)
		if !ok || (bo.Op != token.EQL && bo.Op != token.NEQ) {
			continue
		}
		if c, ok := constString(bo.Y); ok && sameStr(bo.X, o) {
			out = append(out, strAtom{a, c})
		} else if c, ok := constString(bo.X); ok && sameStr(bo.Y, o) {
			out = append(out, strAtom{a, c})
		}
	}
	return out
}

func atomTruth(a strAtom, eq bool) bool {
	// the atom is the BinOp itself: for `!=` its truth is the negation of equality
	if a.atom.(*ssa.BinOp).Op == token.NEQ {
		return !eq
	}
	return eq
}

// refine restricts base (the set o may hold regardless of the path) to what o may hold when control is in block at.
func refine(fn *ssa.Function, o ssa.Value, base StrSet, at *ssa.BasicBlock) StrSet {
	return refineEdge(fn, o, base, at, nil)
}

// edgeCond: the condition under which control leaves pred towards succ (nil when pred does not branch on a condition).
func edgeCond(pred, succ *ssa.BasicBlock) map[ssa.Value]bool {
	if len(pred.Instrs) == 0 {
		return nil
	}
	ifi, ok := pred.Instrs[len(pred.Instrs)-1].(*ssa.If)
	if !ok || len(pred.Succs) != 2 || pred.Succs[0] == pred.Succs[1] {
		return nil
	}
	atom, neg := normCond(ifi.Cond)
	if atom == nil {
		return nil
	}
	if pred.Succs[0] == succ {
		return map[ssa.Value]bool{atom: !neg}
	}
	return map[ssa.Value]bool{atom: neg}
}

// refineEdge is refine with an extra condition known to hold (the branch taken out of block at).
func refineEdge(fn *ssa.Function, o ssa.Value, base StrSet, at *ssa.BasicBlock, extra map[ssa.Value]bool) StrSet {
	with := func(assign map[ssa.Value]bool) bool {
		for k, v := range extra {
			if w, has := assign[k]; has && w != v {
				return false
			}
			assign[k] = v
		}
		return true
	}
	atoms := atomsOn(fn, o)
	if len(atoms) == 0 {
		if base.Top {
			if ls, ok := forallLoopSet(fn, o, at); ok {
				return ls
			}
		}
		return base
	}
	consts := map[string]bool{}
	for _, a := range atoms {
		consts[a.c] = true
	}
	out := StrSet{S: map[string]bool{}}
	for c := range consts {
		if !base.Top && !base.S[c] {
			continue
		}
		assign := map[ssa.Value]bool{}
		for _, a := range atoms {
			assign[a.atom] = atomTruth(a, a.c == c)
		}
		if with(assign) && ForwardReach(fn.Blocks[0], assign, nil)[at] {
			out.S[c] = true
		}
	}
	assign := map[ssa.Value]bool{}
	for _, a := range atoms {
		assign[a.atom] = atomTruth(a, false)
	}
	if with(assign) && ForwardReach(fn.Blocks[0], assign, nil)[at] {
		if base.Top {
			if ls, ok := forallLoopSet(fn, o, at); ok {
				return ls
			}
			return topSet("reached with every comparison of the value false: " + base.Why)
		}
		for c := range base.S {
			if !consts[c] {
				out.S[c] = true
			}
		}
	}
	return out
}

// forallLoopSet recognises `for _, k := range S { if !(k == c1 || …) { return … } }`: after the loop every element of S
// is one of the ci. o must be a load of a constant index of S in a block dominated by the loop's exit.
func forallLoopSet(fn *ssa.Function, o ssa.Value, at *ssa.BasicBlock) (StrSet, bool) {
	u, ok := stripStr(o).(*ssa.UnOp)
	if !ok || u.Op != token.MUL {
		return StrSet{}, false
	}
	ia, ok := u.X.(*ssa.IndexAddr)
	if !ok {
		return StrSet{}, false
	}
	for _, l := range Loops(fn) {
		// the loop's element load
		var k *ssa.UnOp
		for b := range l.Blocks {
			for _, in := range b.Instrs {
				ld, ok := in.(*ssa.UnOp)
				if !ok || ld.Op != token.MUL {
					continue
				}
				if la, ok := ld.X.(*ssa.IndexAddr); ok && la.X == ia.X {
					if phi, isPhi := la.Index.(*ssa.Phi); isPhi && phi.Block() == l.Header {
						k = ld
					} else if bo, isBin := la.Index.(*ssa.BinOp); isBin && bo.Op == token.ADD {
						if phi, isPhi := bo.X.(*ssa.Phi); isPhi && phi.Block() == l.Header {
							k = ld
						}
					}
				}
			}
		}
		if k == nil {
			continue
		}
		// exit dominates both o and at
		var exit *ssa.BasicBlock
		for _, s := range l.Header.Succs {
			if !l.Blocks[s] {
				exit = s
			}
		}
		if exit == nil || !exit.Dominates(u.Block()) || !(exit == at || exit.Dominates(at)) {
			continue
		}
		if storeReachableFrom(ia.X, l.Header) {
			continue
		}
		atoms := atomsOn(fn, k)
		if len(atoms) == 0 {
			continue
		}
		assign := map[ssa.Value]bool{}
		for _, a := range atoms {
			assign[a.atom] = atomTruth(a, false)
		}
		// with every comparison false no back edge is taken
		bad := false
		for _, s := range l.Header.Succs {
			if !l.Blocks[s] {
				continue
			}
			reach := ForwardReach(s, assign, func(b *ssa.BasicBlock) bool { return !l.Blocks[b] })
			for b := range reach {
				if !l.Blocks[b] {
					continue
				}
				succs := b.Succs
				if ifi, ok := b.Instrs[len(b.Instrs)-1].(*ssa.If); ok {
					if atom, neg := normCond(ifi.Cond); atom != nil {
						if truth, has := assign[atom]; has {
							if truth != neg {
								succs = b.Succs[:1]
							} else {
								succs = b.Succs[1:]
							}
						}
					}
				}
				for _, t := range succs {
					if t == l.Header {
						bad = true
					}
				}
			}
		}
		if bad {
			continue
		}
		out := StrSet{S: map[string]bool{}}
		for _, a := range atoms {
			out.S[a.c] = true
		}
		return out, true
	}
	return StrSet{}, false
}

// Of computes the string set of v when control is in block at of fn.
func (s *StrSets) Of(fn *ssa.Function, v ssa.Value, at *ssa.BasicBlock, depth int) StrSet {
	v = stripStr(v)
	base := s.Base(fn, v, depth)
	if _, isConst := v.(*ssa.Const); isConst {
		return base
	}
	return refine(fn, v, base, at)
}

// ofEdge computes the set of v when control goes from pred to succ.
func (s *StrSets) ofEdge(fn *ssa.Function, v ssa.Value, pred, succ *ssa.BasicBlock, depth int) StrSet {
	v = stripStr(v)
	base := s.Base(fn, v, depth)
	if _, isConst := v.(*ssa.Const); isConst {
		return base
	}
	return refineEdge(fn, v, base, pred, edgeCond(pred, succ))
}

// Base computes the string set of v irrespective of the comparisons made on v itself in fn.
func (s *StrSets) Base(fn *ssa.Function, v ssa.Value, depth int) StrSet {
	v = stripStr(v)
	if c, ok := constString(v); ok {
		return oneStr(c)
	}
	if depth > 6 {
		return topSet("depth")
	}
	switch x := v.(type) {
	case *ssa.Const:
		if x.Value == nil {
			return StrSet{S: map[string]bool{}} // nil interface: no string
		}
	case *ssa.Phi:
		out := StrSet{S: map[string]bool{}}
		if s.visiting[x] {
			return out
		}
		s.visiting[x] = true
		defer delete(s.visiting, x)
		for i, e := range x.Edges {
			if e == ssa.Value(x) {
				continue
			}
			out = out.Union(s.ofEdge(fn, e, x.Block().Preds[i], x.Block(), depth+1))
		}
		return out
	case *ssa.Call:
		return s.callSet(x, 0, depth)
	case *ssa.Extract:
		if call, ok := x.Tuple.(*ssa.Call); ok {
			return s.callSet(call, x.Index, depth)
		}
	case *ssa.Parameter:
		return s.paramSet(fn, x, depth)
	case *ssa.UnOp:
		if x.Op == token.MUL {
			switch a := x.X.(type) {
			case *ssa.IndexAddr:
				// an element of a list
				return s.ElemsOf(fn, a.X, x.Block(), depth+1)
			case *ssa.FieldAddr:
				return s.FieldSet(a.X.Type(), a.Field, depth+1)
			}
		}
	case *ssa.Field:
		return s.FieldSet(x.X.Type(), x.Field, depth+1)
	case *ssa.Index:
		if es := s.ElemsOf(fn, x.X, x.Block(), depth+1); !es.Top {
			return es
		}
	}
	return topSet("opaque value " + v.Name() + " in " + FuncName(fn))
}

func (s *StrSets) callSet(call *ssa.Call, idx int, depth int) StrSet {
	if s.Accessor != nil {
		if set, elem, ok := s.Accessor(call); ok && !elem {
			return set
		}
	}
	callee := call.Call.StaticCallee()
	if callee == nil || !IsModFunc(callee) || len(callee.Blocks) == 0 {
		return topSet("result of " + CalleeName(call))
	}
	return s.ReturnSet(callee, idx, depth+1)
}

// ReturnSet is the union over fn's returns of the set of result idx (strings; for interface results, the strings boxed).
func (s *StrSets) ReturnSet(fn *ssa.Function, idx int, depth int) StrSet {
	key := FuncName(fn) + "#" + string(rune('0'+idx))
	if m, ok := s.retMemo[key]; ok {
		return m
	}
	if s.active[key] {
		return StrSet{S: map[string]bool{}} // recursion: the other returns decide
	}
	s.active[key] = true
	defer delete(s.active, key)
	out := StrSet{S: map[string]bool{}}
	Instrs(fn, func(in ssa.Instruction) {
		r, ok := in.(*ssa.Return)
		if !ok || idx >= len(r.Results) {
			return
		}
		out = out.Union(s.Of(fn, r.Results[idx], r.Block(), depth))
	})
	s.retMemo[key] = out
	return out
}

// paramSet: union over the static call sites of fn (⊤ when fn's address is taken or it has no caller).
func (s *StrSets) paramSet(fn *ssa.Function, par *ssa.Parameter, depth int) StrSet {
	return s.paramSetWith(fn, par, depth, s.Of)
}

func (s *StrSets) paramSetWith(fn *ssa.Function, par *ssa.Parameter, depth int, of func(*ssa.Function, ssa.Value, *ssa.BasicBlock, int) StrSet) StrSet {
	idx := -1
	for i, q := range fn.Params {
		if q == par {
			idx = i
		}
	}
	if idx < 0 {
		return topSet("parameter")
	}
	node := s.P.CHA().Nodes[fn]
	if node == nil || len(node.In) == 0 {
		return topSet("parameter " + par.Name() + " of " + FuncName(fn) + " (no caller)")
	}
	out := StrSet{S: map[string]bool{}}
	for _, e := range node.In {
		if e.Site == nil {
			return topSet("parameter " + par.Name() + " of " + FuncName(fn) + " (synthetic caller)")
		}
		cc := e.Site.Common()
		if cc.StaticCallee() != fn {
			return topSet("parameter " + par.Name() + " of " + FuncName(fn) + " (dynamic call)")
		}
		if !IsModFunc(e.Caller.Func) {
			continue
		}
		if idx >= len(cc.Args) {
			return topSet("parameter")
		}
		out = out.Union(of(e.Caller.Func, cc.Args[idx], e.Site.Block(), depth+1))
		if out.Top {
			return out
		}
	}
	return out
}

// ElemsOf computes the set of the string elements of a list value (a []string-like slice, an array, or a slice of
// string arrays): appended operands, array literals, results of module functions.
func (s *StrSets) ElemsOf(fn *ssa.Function, v ssa.Value, at *ssa.BasicBlock, depth int) StrSet {
	v = stripStr(v)
	if depth > 6 {
		return topSet("depth")
	}
	if isStringType(v.Type()) {
		return s.Of(fn, v, at, depth)
	}
	switch x := v.(type) {
	case *ssa.Const:
		if x.Value == nil {
			if _, isArr := x.Type().Underlying().(*types.Array); isArr {
				return oneStr("")
			}
			return StrSet{S: map[string]bool{}}
		}
	case *ssa.Phi:
		out := StrSet{S: map[string]bool{}}
		if s.visiting[x] {
			return out // loop-carried list: the other edges decide
		}
		s.visiting[x] = true
		defer delete(s.visiting, x)
		for i, e := range x.Edges {
			if e == ssa.Value(x) {
				continue
			}
			out = out.Union(s.ElemsOf(fn, e, x.Block().Preds[i], depth))
		}
		return out
	case *ssa.UnOp:
		if x.Op == token.MUL {
			if al, ok := x.X.(*ssa.Alloc); ok && al.Referrers() != nil {
				// array / struct literal in a local
				out := StrSet{S: map[string]bool{}}
				n, nStores := int64(-1), 0
				if arr, ok := al.Type().(*types.Pointer).Elem().Underlying().(*types.Array); ok {
					n = arr.Len()
				}
				for _, r := range *al.Referrers() {
					switch y := r.(type) {
					case *ssa.IndexAddr:
						if y.Referrers() == nil {
							continue
						}
						for _, rr := range *y.Referrers() {
							if st, ok := rr.(*ssa.Store); ok && st.Addr == ssa.Value(y) {
								nStores++
								out = out.Union(s.ElemsOf(fn, st.Val, st.Block(), depth+1))
							}
						}
					case *ssa.Store:
						if y.Addr == ssa.Value(al) {
							nStores += 1 << 20
							out = out.Union(s.ElemsOf(fn, y.Val, y.Block(), depth+1))
						}
					}
				}
				if n >= 0 && int64(nStores) < n {
					out = out.Union(oneStr("")) // elements left at their zero value
				}
				return out
			}
		}
	case *ssa.Slice:
		return s.ElemsOf(fn, x.X, at, depth+1)
	case *ssa.Parameter:
		return s.paramSetWith(fn, x, depth, s.ElemsOf)
	case *ssa.Call:
		if bi, ok := x.Call.Value.(*ssa.Builtin); ok && bi.Name() == "append" {
			out := s.ElemsOf(fn, x.Call.Args[0], at, depth)
			for _, op := range AppendOperands(x) {
				out = out.Union(s.ElemsOf(fn, op, x.Block(), depth+1))
			}
			return out
		}
		if s.Accessor != nil {
			if set, _, ok := s.Accessor(x); ok {
				return set
			}
		}
		callee := x.Call.StaticCallee()
		if callee != nil && IsModFunc(callee) && len(callee.Blocks) > 0 {
			return s.returnElems(fn, x, callee, at, depth+1)
		}
		return topSet("result of " + CalleeName(x))
	case *ssa.Index:
		return s.ElemsOf(fn, x.X, at, depth+1)
	case *ssa.Lookup:
		return s.ElemsOf(fn, x.X, at, depth+1)
	case *ssa.Field:
		return s.FieldSet(x.X.Type(), x.Field, depth+1)
	case *ssa.FieldAddr:
		return s.FieldSet(x.X.Type(), x.Field, depth+1)
	}
	if u, ok := v.(*ssa.UnOp); ok && u.Op == token.MUL {
		switch a := u.X.(type) {
		case *ssa.IndexAddr:
			return s.ElemsOf(fn, a.X, at, depth+1)
		case *ssa.FieldAddr:
			return s.FieldSet(a.X.Type(), a.Field, depth+1)
		}
	}
	return topSet("opaque list " + v.Name() + " in " + FuncName(fn))
}

// returnElems: union over the callee's returns; returns of the zero value are dropped when the caller tests the
// result against the zero value and the point is not reachable when the test holds.
func (s *StrSets) returnElems(fn *ssa.Function, call *ssa.Call, callee *ssa.Function, at *ssa.BasicBlock, depth int) StrSet {
	zeroExcluded := false
	for _, a := range CondAtoms(fn) {
		bo, ok := a.(*ssa.BinOp)
		if !ok || (bo.Op != token.EQL && bo.Op != token.NEQ) {
			continue
		}
		var other ssa.Value
		if bo.X == ssa.Value(call) {
			other = bo.Y
		} else if bo.Y == ssa.Value(call) {
			other = bo.X
		} else {
			continue
		}
		if !isZeroValue(other) {
			continue
		}
		assign := map[ssa.Value]bool{a: bo.Op == token.EQL}
		if !ForwardReach(fn.Blocks[0], assign, nil)[at] {
			zeroExcluded = true
		}
	}
	out := StrSet{S: map[string]bool{}}
	Instrs(callee, func(in ssa.Instruction) {
		r, ok := in.(*ssa.Return)
		if !ok || len(r.Results) == 0 {
			return
		}
		if zeroExcluded && isZeroValue(r.Results[0]) {
			return
		}
		out = out.Union(s.ElemsOf(callee, r.Results[0], r.Block(), depth))
	})
	return out
}

func isZeroValue(v ssa.Value) bool {
	switch x := v.(type) {
	case *ssa.Const:
		if x.Value == nil {
			return true
		}
		if x.Value.Kind() == constant.String {
			return constant.StringVal(x.Value) == ""
		}
	case *ssa.UnOp:
		if al, ok := x.X.(*ssa.Alloc); ok && x.Op == token.MUL && al.Referrers() != nil {
			for _, r := range *al.Referrers() {
				switch r.(type) {
				case *ssa.IndexAddr, *ssa.FieldAddr, *ssa.Store:
					return false
				}
			}
			return true
		}
	}
	return false
}

// KeywordGuard describes an explicit panic guarded by comparisons of one string value with constants.
type KeywordGuard struct {
	Fn     *ssa.Function
	Panic  *ssa.Panic
	Value  ssa.Value       // the compared value (one representative)
	Accept map[string]bool // constants under which the panic is not reached
}

// KeywordGuards lists the panics of fn that are excluded when some string comparison holds: the "default: panic" of a
// switch (or if-chain) over a keyword.
func KeywordGuards(fn *ssa.Function) []KeywordGuard {
	var out []KeywordGuard
	type cand struct {
		v ssa.Value
		a strAtom
	}
	var cands []cand
	for _, a := range CondAtoms(fn) {
		bo, ok := a.(*ssa.BinOp)
		if !ok || (bo.Op != token.EQL && bo.Op != token.NEQ) {
			continue
		}
		if c, ok := constString(bo.Y); ok {
			cands = append(cands, cand{bo.X, strAtom{a, c}})
		} else if c, ok := constString(bo.X); ok {
			cands = append(cands, cand{bo.Y, strAtom{a, c}})
		}
	}
	if len(cands) == 0 {
		return nil
	}
	Instrs(fn, func(in ssa.Instruction) {
		pn, ok := in.(*ssa.Panic)
		if !ok {
			return
		}
		// group by compared value
		used := make([]bool, len(cands))
		for i, c := range cands {
			if used[i] {
				continue
			}
			var group []strAtom
			for j := i; j < len(cands); j++ {
				if !used[j] && sameStr(cands[j].v, c.v) {
					used[j] = true
					// an atom that excludes the panic when it holds sits on every path to the panic
					if atomBlock(fn, cands[j].a.atom).Dominates(pn.Block()) {
						group = append(group, cands[j].a)
					}
				}
			}
			if len(group) == 0 {
				continue
			}
			accept := map[string]bool{}
			for _, g := range group {
				assign := map[ssa.Value]bool{}
				for _, h := range group {
					assign[h.atom] = atomTruth(h, h.c == g.c)
				}
				if !ForwardReach(fn.Blocks[0], assign, nil)[pn.Block()] {
					accept[g.c] = true
				}
			}
			if len(accept) == 0 {
				continue
			}
			// the panic must be reachable when every comparison fails (otherwise it is guarded by something else)
			assign := map[ssa.Value]bool{}
			for _, h := range group {
				assign[h.atom] = atomTruth(h, false)
			}
			if !ForwardReach(fn.Blocks[0], assign, nil)[pn.Block()] {
				continue
			}
			out = append(out, KeywordGuard{fn, pn, c.v, accept})
		}
	})
	return out
}

// FieldSet is the field-based, flow-insensitive set of field idx of struct type t (or pointer to it): the union of what
// every store into that field anywhere in the module stores (composite literals are lowered to such stores). The zero
// value of a field never assigned is not included.
func (s *StrSets) FieldSet(t types.Type, idx int, depth int) StrSet {
	if pt, ok := t.Underlying().(*types.Pointer); ok {
		t = pt.Elem()
	}
	named, ok := t.(*types.Named)
	if !ok {
		return topSet("field of an unnamed struct")
	}
	key := types.TypeString(named, nil) + "#" + string(rune('0'+idx))
	if s.fieldStores == nil {
		s.fieldStores = map[string][]*ssa.Store{}
		s.fieldMemo = map[string]StrSet{}
		for _, fn := range s.P.ModFuncs {
			Instrs(fn, func(in ssa.Instruction) {
				st, ok := in.(*ssa.Store)
				if !ok {
					return
				}
				fa, ok := st.Addr.(*ssa.FieldAddr)
				if !ok {
					return
				}
				pt, ok := fa.X.Type().Underlying().(*types.Pointer)
				if !ok {
					return
				}
				if n, ok := pt.Elem().(*types.Named); ok {
					k := types.TypeString(n, nil) + "#" + string(rune('0'+fa.Field))
					s.fieldStores[k] = append(s.fieldStores[k], st)
				}
			})
		}
	}
	if m, ok := s.fieldMemo[key]; ok {
		return m
	}
	if s.active[key] {
		return StrSet{S: map[string]bool{}}
	}
	s.active[key] = true
	defer delete(s.active, key)
	if depth > 8 {
		return topSet("depth")
	}
	stores := s.fieldStores[key]
	if len(stores) == 0 {
		return topSet("no store into field " + key + " found in the module")
	}
	out := StrSet{S: map[string]bool{}}
	for _, st := range stores {
		out = out.Union(s.ElemsOf(st.Parent(), st.Val, st.Block(), depth+1))
		if out.Top {
			out.Why = "store into " + key + " in " + FuncName(st.Parent()) + ": " + out.Why
			break
		}
	}
	s.fieldMemo[key] = out
	return out
}

// EnumGuard describes an explicit panic excluded when a value of a named integer type equals one of its constants.
type EnumGuard struct {
	Fn     *ssa.Function
	Panic  *ssa.Panic
	Value  ssa.Value
	Type   *types.Named
	Accept map[int64]bool
}

// EnumGuards lists the panics of fn guarded by comparisons of one enum-typed value with constants.
func EnumGuards(fn *ssa.Function) []EnumGuard {
	type cand struct {
		v    ssa.Value
		atom ssa.Value
		c    int64
	}
	var cands []cand
	for _, a := range CondAtoms(fn) {
		bo, ok := a.(*ssa.BinOp)
		if !ok || (bo.Op != token.EQL && bo.Op != token.NEQ) {
			continue
		}
		x, y := bo.X, bo.Y
		if _, isC := x.(*ssa.Const); isC {
			x, y = y, x
		}
		n, isNamed := x.Type().(*types.Named)
		if !isNamed {
			continue
		}
		if b, ok := n.Underlying().(*types.Basic); !ok || b.Info()&types.IsInteger == 0 {
			continue
		}
		if k, ok := ConstInt(y); ok {
			cands = append(cands, cand{x, a, k})
		}
	}
	if len(cands) == 0 {
		return nil
	}
	var out []EnumGuard
	truth := func(atom ssa.Value, eq bool) bool {
		if atom.(*ssa.BinOp).Op == token.NEQ {
			return !eq
		}
		return eq
	}
	Instrs(fn, func(in ssa.Instruction) {
		pn, ok := in.(*ssa.Panic)
		if !ok {
			return
		}
		used := make([]bool, len(cands))
		for i, c := range cands {
			if used[i] {
				continue
			}
			var group []cand
			for j := i; j < len(cands); j++ {
				if !used[j] && (cands[j].v == c.v || sameValue(cands[j].v, c.v)) {
					used[j] = true
					if atomBlock(fn, cands[j].atom).Dominates(pn.Block()) {
						group = append(group, cands[j])
					}
				}
			}
			if len(group) == 0 {
				continue
			}
			accept := map[int64]bool{}
			for _, g := range group {
				assign := map[ssa.Value]bool{}
				for _, h := range group {
					assign[h.atom] = truth(h.atom, h.c == g.c)
				}
				if !ForwardReach(fn.Blocks[0], assign, nil)[pn.Block()] {
					accept[g.c] = true
				}
			}
			if len(accept) == 0 {
				continue
			}
			assign := map[ssa.Value]bool{}
			for _, h := range group {
				assign[h.atom] = truth(h.atom, false)
			}
			if !ForwardReach(fn.Blocks[0], assign, nil)[pn.Block()] {
				continue
			}
			out = append(out, EnumGuard{fn, pn, c.v, c.v.Type().(*types.Named), accept})
		}
	})
	return out
}

// TypeGuard describes an explicit panic excluded when an interface value has one of the tested dynamic types.
type TypeGuard struct {
	Fn     *ssa.Function
	Panic  *ssa.Panic
	Value  ssa.Value
	Accept []types.Type
}

// TypeGuards lists the panics of fn guarded by comma-ok type assertions (type switches) on one value.
func TypeGuards(fn *ssa.Function) []TypeGuard {
	type cand struct {
		v    ssa.Value
		atom ssa.Value
		t    types.Type
	}
	var cands []cand
	for _, a := range CondAtoms(fn) {
		ex, ok := a.(*ssa.Extract)
		if !ok || ex.Index != 1 {
			continue
		}
		ta, ok := ex.Tuple.(*ssa.TypeAssert)
		if !ok || !ta.CommaOk {
			continue
		}
		cands = append(cands, cand{ta.X, a, ta.AssertedType})
	}
	// x == nil tests count as the nil case
	var out []TypeGuard
	Instrs(fn, func(in ssa.Instruction) {
		pn, ok := in.(*ssa.Panic)
		if !ok {
			return
		}
		used := make([]bool, len(cands))
		for i, c := range cands {
			if used[i] {
				continue
			}
			var group []cand
			for j := i; j < len(cands); j++ {
				if !used[j] && (cands[j].v == c.v || sameValue(cands[j].v, c.v)) {
					used[j] = true
					if atomBlock(fn, cands[j].atom).Dominates(pn.Block()) {
						group = append(group, cands[j])
					}
				}
			}
			if len(group) == 0 {
				continue
			}
			var accept []types.Type
			for _, g := range group {
				assign := map[ssa.Value]bool{}
				for _, h := range group {
					assign[h.atom] = h.atom == g.atom
				}
				if !ForwardReach(fn.Blocks[0], assign, nil)[pn.Block()] {
					accept = append(accept, g.t)
				}
			}
			if len(accept) == 0 {
				continue
			}
			assign := map[ssa.Value]bool{}
			for _, h := range group {
				assign[h.atom] = false
			}
			if !ForwardReach(fn.Blocks[0], assign, nil)[pn.Block()] {
				continue
			}
			out = append(out, TypeGuard{fn, pn, c.v, accept})
		}
	})
	return out
}

// atomBlock finds the block whose If tests the atom (directly or negated; through a boolean phi the phi's block).
func atomBlock(fn *ssa.Function, atom ssa.Value) *ssa.BasicBlock {
	for _, b := range fn.Blocks {
		if len(b.Instrs) == 0 {
			continue
		}
		if ifi, ok := b.Instrs[len(b.Instrs)-1].(*ssa.If); ok {
			for _, a := range expandBoolPhi(ifi.Cond, 0) {
				if a == atom {
					return b
				}
			}
		}
	}
	return fn.Blocks[0]
}
