package core

import (
	"fmt"
	"go/types"

	"golang.org/x/tools/go/ssa"
)

// Engine G: reference-following recursion guards.
//
// A recursion follows references when a value obtained from a string-keyed lookup (a custom property
// by name, a <use> target by id, a counter style by name) flows into the next level of the recursion.
// Such a recursion terminates on cyclic references only if it is guarded; two idioms are recognised.

// SCCOf returns the functions of the module that can call fn and be called from it (its recursive component), fn included.
func (p *Prog) SCCOf(fn *ssa.Function) map[*ssa.Function]bool {
	g := p.CHA()
	reachFrom := func(start *ssa.Function, forward bool) map[*ssa.Function]bool {
		seen := map[*ssa.Function]bool{}
		work := []*ssa.Function{start}
		for len(work) > 0 {
			f := work[len(work)-1]
			work = work[:len(work)-1]
			n := g.Nodes[f]
			if n == nil {
				continue
			}
			edges := n.Out
			if !forward {
				edges = n.In
			}
			for _, e := range edges {
				var t *ssa.Function
				if forward {
					t = e.Callee.Func
				} else {
					t = e.Caller.Func
				}
				// only static calls and closures define the module's own recursion
				if e.Site != nil && e.Site.Common().IsInvoke() {
					continue
				}
				if t != nil && IsModFunc(t) && !seen[t] {
					seen[t] = true
					work = append(work, t)
				}
			}
		}
		return seen
	}
	fwd, bwd := reachFrom(fn, true), reachFrom(fn, false)
	out := map[*ssa.Function]bool{fn: true}
	for f := range fwd {
		if bwd[f] {
			out[f] = true
		}
	}
	return out
}

// VisitedSetGuard checks idiom (i) in fn for the reference lookups selected by isRef:
//   - some test `S.Has(k)` (utils.Set) or `_, ok := S[k]` with k the same value as the reference key
//     excludes, when it holds, every reference lookup (forward reachability with the test true);
//   - every reference lookup whose result is used (not merely compared with nil) is preceded on every
//     path by an insertion of the same key into S (S.Add(k) or S[k] = …).
func VisitedSetGuard(fn *ssa.Function, isRef func(*ssa.Lookup) bool) (bool, string) {
	var refs []*ssa.Lookup
	Instrs(fn, func(in ssa.Instruction) {
		if l, ok := in.(*ssa.Lookup); ok && isRef(l) {
			refs = append(refs, l)
		}
	})
	if len(refs) == 0 {
		return false, "no reference lookup found"
	}
	sameKey := func(k ssa.Value) bool {
		for _, l := range refs {
			if sameValue(k, l.Index) || ResolveLoad(k) == ResolveLoad(l.Index) {
				return true
			}
		}
		return false
	}
	// membership atoms
	type member struct {
		atom ssa.Value
		set  ssa.Value
	}
	var tests []member
	for _, a := range CondAtoms(fn) {
		switch x := a.(type) {
		case *ssa.Call:
			if callee := x.Call.StaticCallee(); callee != nil && callee.Name() == "Has" && len(x.Call.Args) == 2 && sameKey(x.Call.Args[1]) {
				tests = append(tests, member{a, x.Call.Args[0]})
			}
		case *ssa.Extract:
			if l, ok := x.Tuple.(*ssa.Lookup); ok && l.CommaOk && x.Index == 1 && !isRef(l) && sameKey(l.Index) {
				tests = append(tests, member{a, l.X})
			}
		}
	}
	if len(tests) == 0 {
		return false, "no membership test on a visited set keyed by the reference key"
	}
	for _, t := range tests {
		reach := ForwardReach(fn.Blocks[0], map[ssa.Value]bool{t.atom: true}, nil)
		excluded := true
		for _, l := range refs {
			if reach[l.Block()] {
				excluded = false
			}
		}
		if !excluded {
			continue
		}
		// insertion into the same set before every used reference lookup
		isInsert := func(in ssa.Instruction) bool {
			switch x := in.(type) {
			case *ssa.Call:
				if callee := x.Call.StaticCallee(); callee != nil && callee.Name() == "Add" && len(x.Call.Args) == 2 && sameKey(x.Call.Args[1]) && sameSet(x.Call.Args[0], t.set) {
					return true
				}
			case *ssa.MapUpdate:
				return sameKey(x.Key) && sameSet(x.Map, t.set)
			}
			return false
		}
		okAll := true
		for _, l := range refs {
			used := false
			if l.Referrers() != nil {
				for _, r := range *l.Referrers() {
					if b, ok := r.(*ssa.BinOp); ok {
						if k, ok := b.Y.(*ssa.Const); ok && k.Value == nil {
							continue
						}
					}
					if _, ok := r.(*ssa.DebugRef); ok {
						continue
					}
					used = true
				}
			}
			if !used {
				continue
			}
			// the insertion may come after the lookup itself as long as it precedes the recursion: accept insertion
			// anywhere on every path from entry to the end of the block that follows the lookup's uses; approximated by
			// "every path to a return that passes the lookup passes the insertion": checked as must-pass-through to the
			// first call that receives a value derived from the lookup.
			var firstUse ssa.Instruction
			Instrs(fn, func(in ssa.Instruction) {
				call, ok := in.(ssa.CallInstruction)
				if !ok || firstUse != nil {
					return
				}
				if _, isBuiltin := call.Common().Value.(*ssa.Builtin); isBuiltin {
					return // len(), append() … do not follow the reference
				}
				for _, a := range call.Common().Args {
					if DerivesFrom(a, func(v ssa.Value) bool { return v == ssa.Value(l) }) {
						firstUse = in
					}
				}
				if call.Common().IsInvoke() && DerivesFrom(call.Common().Value, func(v ssa.Value) bool { return v == ssa.Value(l) }) {
					firstUse = in
				}
			})
			if firstUse == nil {
				firstUse = l
			}
			// on every path from the lookup to the use of the looked-up value the key is inserted
			if !passBetween(l, isInsert, func(in ssa.Instruction) bool { return in == firstUse }) {
				okAll = false
			}
		}
		// the key is only removed by the activation that inserted it: a removal (direct or deferred) reached when
		// the key was already present would unmark an outer activation
		if okAll {
			var badDel ssa.Instruction
			Instrs(fn, func(in ssa.Instruction) {
				var cc *ssa.CallCommon
				switch x := in.(type) {
				case *ssa.Call:
					cc = &x.Call
				case *ssa.Defer:
					cc = &x.Call
				default:
					return
				}
				bi, ok := cc.Value.(*ssa.Builtin)
				if !ok || bi.Name() != "delete" || len(cc.Args) != 2 || !sameSet(cc.Args[0], t.set) || !sameKey(cc.Args[1]) {
					return
				}
				if reach[in.Block()] {
					badDel = in
				}
			})
			if badDel != nil {
				return false, "the key is removed from the visited set on a path where it was already present at entry (the removal is not scoped to the activation that inserted it): a nested cyclic occurrence unmarks the outer one"
			}
		}
		if okAll {
			return true, fmt.Sprintf("membership test excludes the %d reference lookup(s), the key is inserted before the referenced value is used and only removed by the activation that inserted it", len(refs))
		}
	}
	return false, "a membership test exists but it does not exclude the reference lookup when it holds, or the key is not inserted before the referenced value is followed"
}

func sameSet(a, b ssa.Value) bool {
	if a == b || sameValue(a, b) {
		return true
	}
	return ResolveLoad(a) == ResolveLoad(b)
}

// DeleteBeforeRecursion checks idiom (ii): every call from fn into its own recursive component is preceded on every
// path by delete(m, key) where key is the constant under which the reference was read from the same map.
func DeleteBeforeRecursion(p *Prog, fn *ssa.Function, key string) (bool, string) {
	scc := p.SCCOf(fn)
	var recCalls []ssa.Instruction
	Instrs(fn, func(in ssa.Instruction) {
		if c, ok := in.(ssa.CallInstruction); ok {
			if callee := c.Common().StaticCallee(); callee != nil && scc[callee] {
				recCalls = append(recCalls, in)
			}
		}
	})
	if len(recCalls) == 0 {
		return false, "no recursive call found"
	}
	isDelete := func(in ssa.Instruction) bool {
		call, ok := in.(*ssa.Call)
		if !ok {
			return false
		}
		bi, ok := call.Call.Value.(*ssa.Builtin)
		if !ok || bi.Name() != "delete" || len(call.Call.Args) != 2 {
			return false
		}
		s, ok := ConstStr(call.Call.Args[1])
		return ok && s == key
	}
	for _, rc := range recCalls {
		if ok, _ := MustPassThrough(fn, isDelete, func(in ssa.Instruction) bool { return in == rc }); !ok {
			return false, fmt.Sprintf("a recursive call at %s is reachable without delete(…, %q)", p.Pos(rc.Pos()), key)
		}
	}
	return true, fmt.Sprintf("delete(…, %q) precedes all %d recursive call(s)", key, len(recCalls))
}

// setCall recognises S.Has(k) / S.Add(k) on utils.Set (a map type with methods): returns the set and key operands.
func setCall(in ssa.Instruction, method string) (set, key ssa.Value, ok bool) {
	call, isCall := in.(*ssa.Call)
	if !isCall {
		return nil, nil, false
	}
	callee := call.Call.StaticCallee()
	if callee == nil || callee.Name() != method || len(call.Call.Args) != 2 || callee.Signature.Recv() == nil {
		return nil, nil, false
	}
	if !isSetType(call.Call.Args[0].Type()) {
		return nil, nil, false
	}
	return call.Call.Args[0], call.Call.Args[1], true
}

func isSetType(t types.Type) bool {
	n, ok := t.(*types.Named)
	return ok && n.Obj().Name() == "Set" && n.Obj().Pkg() != nil && Rel(n.Obj().Pkg().Path()) == "utils"
}

// GuardedRecursion checks the in-use-set idiom of fn: every call from fn into its own recursive component is preceded
// on every path by S.Add(k) on a set selected by isSet, and every such Add is excluded by a test S.Has(k) on the same
// set and key (when the test holds, the Add is not reached).
func GuardedRecursion(p *Prog, fn *ssa.Function, isSet func(ssa.Value) bool) (bool, string) {
	scc := p.SCCOf(fn)
	var recCalls []ssa.Instruction
	var adds []*ssa.Call
	Instrs(fn, func(in ssa.Instruction) {
		if c, ok := in.(ssa.CallInstruction); ok {
			if callee := c.Common().StaticCallee(); callee != nil && scc[callee] {
				recCalls = append(recCalls, in)
			}
		}
		if s, _, ok := setCall(in, "Add"); ok && isSet(s) {
			adds = append(adds, in.(*ssa.Call))
		}
	})
	if len(recCalls) == 0 {
		return false, "no recursive call found"
	}
	if len(adds) == 0 {
		return false, "no insertion into the in-use set found"
	}
	isAdd := func(in ssa.Instruction) bool {
		for _, a := range adds {
			if in == ssa.Instruction(a) {
				return true
			}
		}
		return false
	}
	for _, rc := range recCalls {
		if ok, _ := MustPassThrough(fn, isAdd, func(in ssa.Instruction) bool { return in == rc }); !ok {
			return false, fmt.Sprintf("the recursive call at %s is reachable on a path that records nothing in the in-use set", p.Pos(rc.Pos()))
		}
	}
	for _, a := range adds {
		_, key, _ := setCall(a, "Add")
		guarded := false
		for _, atom := range CondAtoms(fn) {
			in, ok := atom.(ssa.Instruction)
			if !ok {
				continue
			}
			s, k, ok := setCall(in, "Has")
			if !ok || !isSet(s) || !(sameValue(k, key) || ResolveLoad(k) == ResolveLoad(key) || stableLoads(k, key)) {
				continue
			}
			if !ForwardReach(fn.Blocks[0], map[ssa.Value]bool{atom: true}, nil)[a.Block()] {
				guarded = true
			}
		}
		if !guarded {
			return false, fmt.Sprintf("the insertion at %s is not excluded by a membership test on the same key", p.Pos(a.Pos()))
		}
	}
	// removals are scoped to the activation that inserted the key
	for _, atom := range CondAtoms(fn) {
		in, ok := atom.(ssa.Instruction)
		if !ok {
			continue
		}
		s, k, ok := setCall(in, "Has")
		if !ok || !isSet(s) {
			continue
		}
		reach := ForwardReach(fn.Blocks[0], map[ssa.Value]bool{atom: true}, nil)
		bad := false
		visit := func(f *ssa.Function, live func(*ssa.BasicBlock) bool) {
			Instrs(f, func(x ssa.Instruction) {
				var cc *ssa.CallCommon
				switch y := x.(type) {
				case *ssa.Call:
					cc = &y.Call
				case *ssa.Defer:
					cc = &y.Call
				default:
					return
				}
				bi, isB := cc.Value.(*ssa.Builtin)
				if !isB || bi.Name() != "delete" || len(cc.Args) != 2 || !isSet(cc.Args[0]) {
					return
				}
				if !(sameValue(cc.Args[1], k) || ResolveLoad(cc.Args[1]) == ResolveLoad(k) || stableLoads(cc.Args[1], k)) {
					return
				}
				if live(x.Block()) {
					bad = true
				}
			})
		}
		visit(fn, func(b *ssa.BasicBlock) bool { return reach[b] })
		// deferred closures created in fn: the defer statement itself must not be reached
		Instrs(fn, func(x ssa.Instruction) {
			d, isD := x.(*ssa.Defer)
			if !isD || !reach[d.Block()] {
				return
			}
			if g := closureOfValue(d.Call.Value); g != nil {
				visit(g, func(*ssa.BasicBlock) bool { return true })
			}
		})
		if bad {
			return false, "a key is removed from the in-use set on a path where it was already present at entry: a nested cyclic reference would unmark the outer one"
		}
	}
	return true, fmt.Sprintf("%d recursive call(s) each preceded by an insertion into the in-use set; %d insertion(s) each excluded when the key is already in the set; removals scoped to the inserting activation", len(recCalls), len(adds))
}

// SetGuardedResolver checks fn(name, S): when S.Has(name) holds no non-nil result is returned, and every non-nil
// result is returned after S.Add(name).
func SetGuardedResolver(p *Prog, fn *ssa.Function) (bool, string) {
	var has ssa.Value
	var key ssa.Value
	for _, atom := range CondAtoms(fn) {
		if in, ok := atom.(ssa.Instruction); ok {
			if _, k, ok := setCall(in, "Has"); ok {
				if _, isPar := k.(*ssa.Parameter); isPar && has == nil {
					has, key = atom, k
				}
			}
		}
	}
	if has == nil {
		return false, "no membership test of a parameter in a set found"
	}
	var nonNil []ssa.Instruction
	Instrs(fn, func(in ssa.Instruction) {
		if r, ok := in.(*ssa.Return); ok && len(r.Results) > 0 {
			if c, isC := r.Results[0].(*ssa.Const); isC && c.Value == nil {
				return
			}
			nonNil = append(nonNil, in)
		}
	})
	if len(nonNil) == 0 {
		return false, "no non-nil return found"
	}
	// what follows the test when it holds (paths that never evaluate the test have a fresh set)
	hb := atomBlock(fn, has)
	ifi, isIf := hb.Instrs[len(hb.Instrs)-1].(*ssa.If)
	if !isIf {
		return false, "the membership test does not decide a branch"
	}
	_, neg := normCond(ifi.Cond)
	from := hb.Succs[0]
	if neg {
		from = hb.Succs[1]
	}
	reach := ForwardReach(from, map[ssa.Value]bool{has: true}, nil)
	for _, r := range nonNil {
		if reach[r.Block()] {
			return false, fmt.Sprintf("a non-nil result is returned at %s although the name is already in the set", p.Pos(r.Pos()))
		}
	}
	isAdd := func(in ssa.Instruction) bool {
		_, k, ok := setCall(in, "Add")
		return ok && k == key
	}
	for _, r := range nonNil {
		if ok, _ := MustPassThrough(fn, isAdd, func(in ssa.Instruction) bool { return in == r }); !ok {
			return false, fmt.Sprintf("the non-nil return at %s is reachable without recording the name in the set", p.Pos(r.Pos()))
		}
	}
	return true, fmt.Sprintf("Has(name) excludes the %d non-nil return(s); Add(name) precedes each of them", len(nonNil))
}

// stableLoads: a and b load the same local variable and no store into it can execute after the first of the two loads.
func stableLoads(a, b ssa.Value) bool {
	ua, ok1 := a.(*ssa.UnOp)
	ub, ok2 := b.(*ssa.UnOp)
	if !ok1 || !ok2 || ua.X != ub.X {
		return false
	}
	al, ok := ua.X.(*ssa.Alloc)
	if !ok || al.Referrers() == nil {
		return false
	}
	for _, first := range []*ssa.UnOp{ua, ub} {
		other := ub
		if first == ub {
			other = ua
		}
		if !(first.Block() == other.Block() || first.Block().Dominates(other.Block())) {
			continue
		}
		// blocks reachable from first's block
		seen := map[*ssa.BasicBlock]bool{}
		work := append([]*ssa.BasicBlock{}, first.Block().Succs...)
		for len(work) > 0 {
			x := work[len(work)-1]
			work = work[:len(work)-1]
			if seen[x] {
				continue
			}
			seen[x] = true
			work = append(work, x.Succs...)
		}
		ok := true
		for _, r := range *al.Referrers() {
			st, isStore := r.(*ssa.Store)
			if !isStore || st.Addr != ssa.Value(al) {
				continue
			}
			if seen[st.Block()] {
				ok = false
			}
			if st.Block() == first.Block() {
				after := false
				for _, in := range first.Block().Instrs {
					if in == ssa.Instruction(first) {
						after = true
					}
					if after && in == ssa.Instruction(st) {
						ok = false
					}
				}
			}
		}
		if ok {
			return true
		}
	}
	return false
}

// DescendingRecursion checks that every direct self-call of fn passes, for parameter idx, an element of a container
// (a range variable, an indexed element, a map entry): the recursion descends into a structure instead of calling
// itself on a value it just built, which need not be smaller. It returns the offending call otherwise.
func DescendingRecursion(p *Prog, fn *ssa.Function, idx int) (bool, string) {
	n := 0
	bad := ""
	Instrs(fn, func(in ssa.Instruction) {
		c, ok := in.(ssa.CallInstruction)
		if !ok || c.Common().StaticCallee() != fn || idx >= len(c.Common().Args) {
			return
		}
		n++
		v := c.Common().Args[idx]
		for {
			switch x := v.(type) {
			case *ssa.MakeInterface:
				v = x.X
				continue
			case *ssa.ChangeType:
				v = x.X
				continue
			case *ssa.ChangeInterface:
				v = x.X
				continue
			}
			break
		}
		elem := false
		switch x := v.(type) {
		case *ssa.UnOp:
			_, elem = x.X.(*ssa.IndexAddr)
		case *ssa.Index, *ssa.Lookup:
			elem = true
		case *ssa.Extract:
			_, elem = x.Tuple.(*ssa.Next)
		}
		if !elem && bad == "" {
			bad = fmt.Sprintf("the recursive call at %s passes %s, which is not an element of a container being traversed", p.Pos(in.Pos()), describeValue(v))
		}
	})
	if n == 0 {
		return false, "no direct recursive call found"
	}
	if bad != "" {
		return false, bad
	}
	return true, fmt.Sprintf("all %d recursive calls descend into an element of a traversed container", n)
}

// passBetween: every forward path from instruction from (exclusive) to an instruction satisfying isB executes an
// instruction satisfying isA first. Back edges are followed too (a loop between the two does not help).
func passBetween(from ssa.Instruction, isA, isB func(ssa.Instruction) bool) bool {
	type pos struct {
		b *ssa.BasicBlock
		i int
	}
	start := from.Block()
	idx := 0
	for i, in := range start.Instrs {
		if in == from {
			idx = i + 1
		}
	}
	seen := map[*ssa.BasicBlock]bool{}
	work := []pos{{start, idx}}
	for len(work) > 0 {
		w := work[len(work)-1]
		work = work[:len(work)-1]
		stopped := false
		for i := w.i; i < len(w.b.Instrs); i++ {
			in := w.b.Instrs[i]
			if isA(in) {
				stopped = true
				break
			}
			if isB(in) {
				return false
			}
		}
		if stopped {
			continue
		}
		for _, s := range w.b.Succs {
			if !seen[s] {
				seen[s] = true
				work = append(work, pos{s, 0})
			}
		}
	}
	return true
}

func closureOfValue(v ssa.Value) *ssa.Function {
	switch x := v.(type) {
	case *ssa.MakeClosure:
		g, _ := x.Fn.(*ssa.Function)
		return g
	case *ssa.Function:
		return x
	}
	return nil
}

// LoopVisitedGuard checks the visited-set idiom of a loop that follows references: in every loop of fn containing a
// reference lookup (selected by isRef), each path from the lookup to a back edge of that loop records a key in a
// utils.Set, and that key changes from one iteration to the next (it is defined inside the loop or is a header phi):
// recording a loop-invariant key adds nothing new and an `a extends b, b extends a` chain is followed forever.
func LoopVisitedGuard(p *Prog, fn *ssa.Function, isRef func(*ssa.Lookup) bool) (bool, string) {
	n := 0
	for _, l := range Loops(fn) {
		var refs []*ssa.Lookup
		for b := range l.Blocks {
			for _, in := range b.Instrs {
				if lk, ok := in.(*ssa.Lookup); ok && isRef(lk) {
					refs = append(refs, lk)
				}
			}
		}
		if len(refs) == 0 {
			continue
		}
		varying := func(v ssa.Value) bool {
			v = ResolveLoad(v)
			in, ok := v.(ssa.Instruction)
			return ok && l.Blocks[in.Block()]
		}
		isAdd := func(in ssa.Instruction) bool {
			_, k, ok := setCall(in, "Add")
			return ok && varying(k)
		}
		for _, lk := range refs {
			n++
			// walk forward from the lookup inside the loop; reaching the header again without an Add is a failure
			type pos struct {
				b *ssa.BasicBlock
				i int
			}
			idx := 0
			for i, in := range lk.Block().Instrs {
				if in == ssa.Instruction(lk) {
					idx = i + 1
				}
			}
			seen := map[*ssa.BasicBlock]bool{}
			work := []pos{{lk.Block(), idx}}
			for len(work) > 0 {
				w := work[len(work)-1]
				work = work[:len(work)-1]
				stopped := false
				for i := w.i; i < len(w.b.Instrs); i++ {
					if isAdd(w.b.Instrs[i]) {
						stopped = true
						break
					}
				}
				if stopped {
					continue
				}
				for _, s := range w.b.Succs {
					if s == l.Header {
						return false, fmt.Sprintf("the loop at %s can start another iteration after the lookup at %s without recording a key that changes between iterations in the visited set", p.Pos(l.Header.Instrs[0].Pos()), p.Pos(lk.Pos()))
					}
					if l.Blocks[s] && !seen[s] {
						seen[s] = true
						work = append(work, pos{s, 0})
					}
				}
			}
		}
	}
	if n == 0 {
		return false, "no loop containing a reference lookup found"
	}
	return true, fmt.Sprintf("%d reference lookup(s) in loops: every way back to the loop header records a per-iteration key in the visited set", n)
}

// PassFrom: every forward path from the start of block b to an instruction satisfying isB executes an instruction
// satisfying isA first.
func PassFrom(b *ssa.BasicBlock, isA, isB func(ssa.Instruction) bool) bool {
	if len(b.Instrs) == 0 {
		return true
	}
	first := b.Instrs[0]
	if isA(first) {
		return true
	}
	if isB(first) {
		return false
	}
	return passBetween(first, isA, isB)
}

// PassBetween is passBetween for rule code outside the package.
func PassBetween(from ssa.Instruction, isA, isB func(ssa.Instruction) bool) bool {
	return passBetween(from, isA, isB)
}

// ScopedInsertions checks that a visited set is used as the stack of the resolutions in progress: every insertion
// S.Add(k) / S[k] = … into a set that fn received as a parameter is undone before fn returns (a deferred delete of the
// same key registered on every path from the insertion to a return, or a direct delete on each of these paths).
// Otherwise the set remembers every name ever resolved, and a second, non-cyclic use of a name is taken for a cycle.
func ScopedInsertions(fn *ssa.Function) (ok bool, why string, n int) {
	isParamSet := func(v ssa.Value) bool {
		v = ResolveLoad(v)
		if ct, isCT := v.(*ssa.ChangeType); isCT {
			v = ResolveLoad(ct.X)
		}
		_, isPar := v.(*ssa.Parameter)
		return isPar
	}
	type ins struct {
		at  ssa.Instruction
		set ssa.Value
		key ssa.Value
	}
	var inserts []ins
	Instrs(fn, func(in ssa.Instruction) {
		switch x := in.(type) {
		case *ssa.Call:
			if callee := x.Call.StaticCallee(); callee != nil && callee.Name() == "Add" && len(x.Call.Args) == 2 && isParamSet(x.Call.Args[0]) {
				if _, isMap := x.Call.Args[0].Type().Underlying().(*types.Map); isMap {
					inserts = append(inserts, ins{in, x.Call.Args[0], x.Call.Args[1]})
				}
			}
		case *ssa.MapUpdate:
			if isParamSet(x.Map) {
				inserts = append(inserts, ins{in, x.Map, x.Key})
			}
		}
	})
	if len(inserts) == 0 {
		return false, "no insertion into a visited set received as a parameter", 0
	}
	for _, i := range inserts {
		isDel := func(in ssa.Instruction) bool {
			var cc *ssa.CallCommon
			switch x := in.(type) {
			case *ssa.Call:
				cc = &x.Call
			case *ssa.Defer:
				cc = &x.Call
			default:
				return false
			}
			bi, isB := cc.Value.(*ssa.Builtin)
			if !isB || bi.Name() != "delete" || len(cc.Args) != 2 {
				return false
			}
			return sameSet(cc.Args[0], i.set) && (cc.Args[1] == i.key || sameValue(cc.Args[1], i.key) || ResolveLoad(cc.Args[1]) == ResolveLoad(i.key))
		}
		isRet := func(in ssa.Instruction) bool {
			_, r := in.(*ssa.Return)
			return r
		}
		if !passBetween(i.at, isDel, isRet) {
			return false, "a name inserted into the set of resolutions in progress is still in it when the function returns on some path (no deferred or direct delete of the same key)", len(inserts)
		}
	}
	return true, fmt.Sprintf("%d insertion(s), each undone before the function returns", len(inserts)), len(inserts)
}

// GuardedCall checks the in-use-set idiom for one call: every path to a call of `callee` in fn passes S.Add(k), and
// a test S.Has(k) on a set of the same type keeps control away from the call when it holds.
func GuardedCall(p *Prog, fn *ssa.Function, calleeName string) (bool, string) {
	var calls []ssa.Instruction
	var adds, has []*ssa.Call
	Instrs(fn, func(in ssa.Instruction) {
		if c, ok := in.(*ssa.Call); ok {
			if callee := c.Call.StaticCallee(); callee != nil && callee.Name() == calleeName {
				calls = append(calls, in)
			}
			if _, _, ok := setCall(in, "Add"); ok {
				adds = append(adds, c)
			}
			if _, _, ok := setCall(in, "Has"); ok {
				has = append(has, c)
			}
		}
	})
	if len(calls) == 0 {
		return false, "no call of " + calleeName
	}
	isAdd := func(in ssa.Instruction) bool {
		for _, a := range adds {
			if in == ssa.Instruction(a) {
				return true
			}
		}
		return false
	}
	for _, c := range calls {
		c := c
		if ok, _ := MustPassThrough(fn, isAdd, func(in ssa.Instruction) bool { return in == c }); !ok {
			return false, fmt.Sprintf("the call of %s at %s is reachable on a path that records nothing in an in-use set", calleeName, p.Pos(c.Pos()))
		}
		excluded := false
		for _, h := range has {
			if !ForwardReach(fn.Blocks[0], map[ssa.Value]bool{h: true}, nil)[c.Block()] {
				excluded = true
			}
		}
		if !excluded {
			return false, fmt.Sprintf("no membership test keeps control away from the call of %s at %s when the key is already in use", calleeName, p.Pos(c.Pos()))
		}
	}
	return true, fmt.Sprintf("%d call(s) of %s, each preceded by an insertion into the in-use set and excluded when the key is already in it", len(calls), calleeName)
}
