package core

import (
	"fmt"
	"go/constant"
	"go/token"
	"go/types"
	"sort"
	"strings"
	"sync"

	"golang.org/x/tools/go/ssa"
)

// ConstStr returns the string value of a constant SSA value.
func ConstStr(v ssa.Value) (string, bool) {
	c, ok := v.(*ssa.Const)
	if !ok || c.Value == nil || c.Value.Kind() != constant.String {
		return "", false
	}
	return constant.StringVal(c.Value), true
}

// ConstInt returns the integer value of a constant SSA value.
func ConstInt(v ssa.Value) (int64, bool) {
	c, ok := v.(*ssa.Const)
	if !ok || c.Value == nil {
		return 0, false
	}
	if c.Value.Kind() != constant.Int {
		return 0, false
	}
	i, exact := constant.Int64Val(c.Value)
	return i, exact
}

// StaticCallee of a call instruction (nil for dynamic / interface calls).
func StaticCallee(instr ssa.Instruction) *ssa.Function {
	if c, ok := instr.(ssa.CallInstruction); ok {
		return c.Common().StaticCallee()
	}
	return nil
}

// CallTo reports whether v is a call whose static callee is fn.
func CallTo(v ssa.Value, fn *ssa.Function) (*ssa.Call, bool) {
	c, ok := v.(*ssa.Call)
	if !ok || fn == nil {
		return nil, false
	}
	if c.Common().StaticCallee() == fn {
		return c, true
	}
	return nil, false
}

// InvokeName returns the method name for an interface-mode call, "" otherwise.
func InvokeName(instr ssa.Instruction) string {
	if c, ok := instr.(ssa.CallInstruction); ok && c.Common().IsInvoke() {
		return c.Common().Method.Name()
	}
	return ""
}

// CalleeName gives a readable callee name for a call instruction (static or invoke).
func CalleeName(instr ssa.Instruction) string {
	c, ok := instr.(ssa.CallInstruction)
	if !ok {
		return ""
	}
	if c.Common().IsInvoke() {
		return c.Common().Method.FullName()
	}
	if f := c.Common().StaticCallee(); f != nil {
		return FuncName(f)
	}
	if b, ok := c.Common().Value.(*ssa.Builtin); ok {
		return b.Name()
	}
	return ""
}

// Instrs iterates over all instructions of fn.
func Instrs(fn *ssa.Function, f func(ssa.Instruction)) {
	for _, b := range fn.Blocks {
		for _, i := range b.Instrs {
			f(i)
		}
	}
}

// InstrsDeep iterates over fn and its closures.
func InstrsDeep(fn *ssa.Function, f func(*ssa.Function, ssa.Instruction)) {
	for _, b := range fn.Blocks {
		for _, i := range b.Instrs {
			f(fn, i)
		}
	}
	for _, a := range fn.AnonFuncs {
		InstrsDeep(a, f)
	}
}

// Unwrap peels value-preserving wrappers (ChangeType, Convert between same underlying kinds, MakeInterface, ChangeInterface).
func Unwrap(v ssa.Value) ssa.Value {
	for {
		switch x := v.(type) {
		case *ssa.ChangeType:
			v = x.X
		case *ssa.MakeInterface:
			v = x.X
		case *ssa.ChangeInterface:
			v = x.X
		case *ssa.Convert:
			// keep string<->named string and int<->named int conversions transparent
			if sameBasicKind(x.X.Type(), x.Type()) {
				v = x.X
			} else {
				return v
			}
		default:
			return v
		}
	}
}

func sameBasicKind(a, b types.Type) bool {
	ba, ok1 := a.Underlying().(*types.Basic)
	bb, ok2 := b.Underlying().(*types.Basic)
	if !ok1 || !ok2 {
		return false
	}
	if ba.Info()&types.IsString != 0 && bb.Info()&types.IsString != 0 {
		return true
	}
	return ba.Kind() == bb.Kind()
}

// DerivesFrom reports whether v is computed from a value satisfying src through
// value-preserving / projecting steps (phi, conversions, field, index, extract, slicing, unary deref).
func DerivesFrom(v ssa.Value, src func(ssa.Value) bool) bool {
	seen := map[ssa.Value]bool{}
	var walk func(ssa.Value) bool
	walk = func(v ssa.Value) bool {
		if v == nil || seen[v] {
			return false
		}
		seen[v] = true
		if src(v) {
			return true
		}
		switch x := v.(type) {
		case *ssa.Phi:
			for _, e := range x.Edges {
				if walk(e) {
					return true
				}
			}
		case *ssa.ChangeType:
			return walk(x.X)
		case *ssa.Convert:
			return walk(x.X)
		case *ssa.MakeInterface:
			return walk(x.X)
		case *ssa.ChangeInterface:
			return walk(x.X)
		case *ssa.TypeAssert:
			return walk(x.X)
		case *ssa.Extract:
			return walk(x.Tuple)
		case *ssa.Field:
			return walk(x.X)
		case *ssa.FieldAddr:
			return walk(x.X)
		case *ssa.Index:
			return walk(x.X)
		case *ssa.IndexAddr:
			return walk(x.X)
		case *ssa.Slice:
			return walk(x.X)
		case *ssa.Lookup:
			return walk(x.X)
		case *ssa.UnOp:
			if x.Op == token.MUL || x.Op == token.SUB || x.Op == token.NOT {
				if walk(x.X) {
					return true
				}
				// load from a local alloc: follow the stores
				if x.Op == token.MUL {
					for _, st := range storesTo(x.X) {
						if walk(st) {
							return true
						}
					}
				}
			}
		case *ssa.BinOp:
			if x.Op == token.ADD {
				if b, ok := x.Type().Underlying().(*types.Basic); ok && b.Info()&types.IsString != 0 {
					return walk(x.X) || walk(x.Y)
				}
			}
		case *ssa.Call:
			if b, ok := x.Call.Value.(*ssa.Builtin); ok && (b.Name() == "len" || b.Name() == "cap") && len(x.Call.Args) == 1 {
				return walk(x.Call.Args[0])
			}
		case *ssa.Alloc:
			for _, st := range storesTo(x) {
				if walk(st) {
					return true
				}
			}
		case *ssa.Next:
			return walk(x.Iter)
		case *ssa.Range:
			return walk(x.X)
		}
		return false
	}
	return walk(v)
}

// storesTo lists the values stored directly to an address that is a local Alloc
// (or a field / element address of one).
func storesTo(addr ssa.Value) []ssa.Value {
	var out []ssa.Value
	refs := addr.Referrers()
	if refs == nil {
		return nil
	}
	for _, r := range *refs {
		if st, ok := r.(*ssa.Store); ok && st.Addr == addr {
			out = append(out, st.Val)
		}
	}
	// same FieldAddr computed elsewhere on the same alloc
	if fa, ok := addr.(*ssa.FieldAddr); ok {
		if al, ok := fa.X.(*ssa.Alloc); ok && al.Referrers() != nil {
			for _, r := range *al.Referrers() {
				if fa2, ok := r.(*ssa.FieldAddr); ok && fa2 != fa && fa2.Field == fa.Field && fa2.Referrers() != nil {
					for _, rr := range *fa2.Referrers() {
						if st, ok := rr.(*ssa.Store); ok && st.Addr == fa2 {
							out = append(out, st.Val)
						}
					}
				}
			}
		}
	}
	return out
}

// StoresTo is the exported form.
func StoresTo(addr ssa.Value) []ssa.Value { return storesTo(addr) }

// backEdge reports whether u->v is a back edge (v dominates u).
func backEdge(u, v *ssa.BasicBlock) bool { return v.Dominates(u) }

// EdgeCond returns the condition value and polarity under which control goes from p to s
// (nil when p does not end in an If).
func EdgeCond(p, s *ssa.BasicBlock) (ssa.Value, bool, bool) {
	if len(p.Instrs) == 0 {
		return nil, false, false
	}
	ifi, ok := p.Instrs[len(p.Instrs)-1].(*ssa.If)
	if !ok {
		return nil, false, false
	}
	if p.Succs[0] == s && p.Succs[1] == s {
		return nil, false, false
	}
	if p.Succs[0] == s {
		return ifi.Cond, true, true
	}
	return ifi.Cond, false, true
}

// normCond strips negations: returns the atom and whether it is negated.
func normCond(v ssa.Value) (ssa.Value, bool) {
	neg := false
	for {
		u, ok := v.(*ssa.UnOp)
		if !ok || u.Op != token.NOT {
			return v, neg
		}
		v = u.X
		neg = !neg
	}
}

// knownConst resolves a value to a comparable constant identity: a Const, or an
// interface made from a Const ("T:value"). ok=false when the value is not a known constant.
func knownConst(v ssa.Value) (string, bool) {
	switch x := v.(type) {
	case *ssa.Const:
		if x.Value == nil {
			return "nil", true
		}
		return x.Type().String() + ":" + x.Value.ExactString(), true
	case *ssa.MakeInterface:
		if k, ok := x.X.(*ssa.Const); ok && k.Value != nil {
			return k.Type().String() + ":" + k.Value.ExactString(), true
		}
	case *ssa.ChangeType:
		return knownConst(x.X)
	}
	return "", false
}

// constCompare decomposes an If-condition atom of the form V ==/!= const.
func constCompare(atom ssa.Value) (v ssa.Value, c string, isEq bool, ok bool) {
	bo, isB := atom.(*ssa.BinOp)
	if !isB || (bo.Op != token.EQL && bo.Op != token.NEQ) {
		return nil, "", false, false
	}
	if k, isK := knownConst(bo.Y); isK {
		if _, both := knownConst(bo.X); both {
			return nil, "", false, false
		}
		return bo.X, k, bo.Op == token.EQL, true
	}
	if k, isK := knownConst(bo.X); isK {
		return bo.Y, k, bo.Op == token.EQL, true
	}
	return nil, "", false, false
}

type reachCtx struct {
	tracked     map[*ssa.Phi]bool  // phis compared with constants somewhere
	interesting map[ssa.Value]bool // non-constant values flowing into tracked phis
}

func newReachCtx(fn *ssa.Function) *reachCtx {
	ctx := &reachCtx{tracked: map[*ssa.Phi]bool{}, interesting: map[ssa.Value]bool{}}
	for _, a := range CondAtoms(fn) {
		if v, _, _, ok := constCompare(a); ok {
			if phi, isPhi := v.(*ssa.Phi); isPhi {
				ctx.tracked[phi] = true
			}
		}
	}
	for _, b := range fn.Blocks {
		if len(b.Instrs) == 0 {
			continue
		}
		if ifi, ok := b.Instrs[len(b.Instrs)-1].(*ssa.If); ok {
			a, _ := normCond(ifi.Cond)
			if phi, isPhi := a.(*ssa.Phi); isPhi {
				ctx.tracked[phi] = true
			}
		}
	}
	// close under phi-of-phi
	changed := true
	for changed {
		changed = false
		for phi := range ctx.tracked {
			for _, e := range phi.Edges {
				if p2, ok := e.(*ssa.Phi); ok && !ctx.tracked[p2] {
					ctx.tracked[p2] = true
					changed = true
				}
			}
		}
	}
	for phi := range ctx.tracked {
		for _, e := range phi.Edges {
			if _, isK := knownConst(e); isK {
				continue
			}
			if _, isPhi := e.(*ssa.Phi); isPhi {
				continue
			}
			ctx.interesting[e] = true
		}
	}
	return ctx
}

type pathEnv struct {
	phi   map[*ssa.Phi]ssa.Value // resolution of tracked phis on this path
	facts map[string]bool        // "<value>|<const>" -> V == const
}

func (e pathEnv) clone() pathEnv {
	n := pathEnv{phi: map[*ssa.Phi]ssa.Value{}, facts: map[string]bool{}}
	for k, v := range e.phi {
		n.phi[k] = v
	}
	for k, v := range e.facts {
		n.facts[k] = v
	}
	return n
}

func (e pathEnv) key() string {
	var parts []string
	for k, v := range e.phi {
		parts = append(parts, k.Name()+"="+v.Name()+"@"+fmt.Sprintf("%p", v))
	}
	for k, v := range e.facts {
		parts = append(parts, fmt.Sprintf("%s:%v", k, v))
	}
	sort.Strings(parts)
	return strings.Join(parts, ";")
}

func (e pathEnv) resolve(v ssa.Value) ssa.Value {
	for i := 0; i < 8; i++ {
		phi, ok := v.(*ssa.Phi)
		if !ok {
			return v
		}
		r, has := e.phi[phi]
		if !has {
			return v
		}
		v = r
	}
	return v
}

func factKey(v ssa.Value, c string) string { return fmt.Sprintf("%p|%s", v, c) }

// decide evaluates an atom V ==/!= c on this path: known phi constants and recorded facts.
func (e pathEnv) decide(ctx *reachCtx, atom ssa.Value) (val bool, ok bool) {
	v, c, isEq, isCC := constCompare(atom)
	if !isCC {
		return false, false
	}
	rv := e.resolve(v)
	if k, isK := knownConst(rv); isK {
		return (k == c) == isEq, true
	}
	if f, has := e.facts[factKey(rv, c)]; has {
		return f == isEq, true
	}
	// V == c' known true with c' != c  =>  V != c
	prefix := fmt.Sprintf("%p|", rv)
	for k, f := range e.facts {
		if f && strings.HasPrefix(k, prefix) && k != factKey(rv, c) {
			return !isEq, true
		}
	}
	return false, false
}

func (e pathEnv) record(ctx *reachCtx, atom ssa.Value, truth bool) {
	v, c, isEq, isCC := constCompare(atom)
	if !isCC {
		return
	}
	rv := e.resolve(v)
	if ctx.interesting[rv] {
		e.facts[factKey(rv, c)] = truth == isEq
	}
}

// ForwardReach computes the blocks reachable from `from` following forward
// (non-back) edges that do not contradict the assignment of atoms. Atoms not
// in assign are free. The walk is path-sensitive for one family of facts:
// comparisons of a value with constants, threaded through phis
// (x := A; if c {x = B}; if x == A {...} and v2 := phi(v1, K); v1 == K1 earlier
// decides v2 == K1 later). If stop != nil, blocks for which stop returns true
// are not expanded.
func ForwardReach(from *ssa.BasicBlock, assign map[ssa.Value]bool, stop func(*ssa.BasicBlock) bool) map[*ssa.BasicBlock]bool {
	return forwardReach(from, assign, stop, nil)
}

// ForwardReachEdges is ForwardReach that also reports the control-flow edges taken, as pairs of block indices.
func ForwardReachEdges(from *ssa.BasicBlock, assign map[ssa.Value]bool) (map[*ssa.BasicBlock]bool, map[[2]int]bool) {
	edges := map[[2]int]bool{}
	return forwardReach(from, assign, nil, edges), edges
}

func forwardReach(from *ssa.BasicBlock, assign map[ssa.Value]bool, stop func(*ssa.BasicBlock) bool, edges map[[2]int]bool) map[*ssa.BasicBlock]bool {
	fn := from.Parent()
	ctx := newReachCtx(fn)
	type state struct {
		b   *ssa.BasicBlock
		env pathEnv
	}
	seen := map[*ssa.BasicBlock]bool{from: true}
	seenState := map[string]bool{}
	start := state{from, pathEnv{phi: map[*ssa.Phi]ssa.Value{}, facts: map[string]bool{}}}
	work := []state{start}
	budget := 200000
	for len(work) > 0 && budget > 0 {
		budget--
		st := work[len(work)-1]
		work = work[:len(work)-1]
		b := st.b
		if stop != nil && stop(b) && b != from {
			continue
		}
		var atom ssa.Value
		var neg bool
		if len(b.Instrs) > 0 {
			if ifi, ok := b.Instrs[len(b.Instrs)-1].(*ssa.If); ok && len(b.Succs) == 2 && b.Succs[0] != b.Succs[1] {
				atom, neg = normCond(ifi.Cond)
				// a boolean phi is resolved to the value that flowed into it on this path
				for i := 0; i < 4; i++ {
					phi, isPhi := atom.(*ssa.Phi)
					if !isPhi {
						break
					}
					r := st.env.resolve(phi)
					if r == ssa.Value(phi) {
						break
					}
					a2, n2 := normCond(r)
					atom, neg = a2, neg != n2
				}
			}
		}
		if k, isK := atom.(*ssa.Const); isK && k.Value != nil && k.Value.Kind() == constant.Bool {
			// decided by a constant that flowed into the phi
			take := constant.BoolVal(k.Value) != neg
			forced := 1
			if take {
				forced = 0
			}
			s := b.Succs[forced]
			atom = nil
			if !backEdge(b, s) {
				env := st.env
				cloned := false
				for _, in := range s.Instrs {
					phi, ok := in.(*ssa.Phi)
					if !ok {
						break
					}
					if !ctx.tracked[phi] {
						continue
					}
					for i, p := range s.Preds {
						if p == b {
							if !cloned {
								env = st.env.clone()
								cloned = true
							}
							env.phi[phi] = loopCarried(s, phi, env.resolve(phi.Edges[i]))
						}
					}
				}
				if edges != nil {
					edges[[2]int{b.Index, s.Index}] = true
				}
				k := fmt.Sprintf("%d|%s", s.Index, env.key())
				if !seenState[k] {
					seenState[k] = true
					seen[s] = true
					work = append(work, state{s, env})
				}
			}
			continue
		}
		for si, s := range b.Succs {
			if backEdge(b, s) {
				continue
			}
			env := st.env
			if atom != nil {
				// truth the atom must have to take this successor
				want := (si == 0) != neg
				if v, ok := assign[atom]; ok && v != want {
					continue
				}
				if d, ok := st.env.decide(ctx, atom); ok && d != want {
					continue
				}
				env = st.env.clone()
				env.record(ctx, atom, want)
			}
			// entering s from b: resolve its tracked phis
			cloned := atom != nil
			for _, in := range s.Instrs {
				phi, ok := in.(*ssa.Phi)
				if !ok {
					break
				}
				if !ctx.tracked[phi] {
					continue
				}
				for i, p := range s.Preds {
					if p == b {
						if !cloned {
							env = st.env.clone()
							cloned = true
						}
						env.phi[phi] = loopCarried(s, phi, env.resolve(phi.Edges[i]))
					}
				}
			}
			if edges != nil {
				edges[[2]int{b.Index, s.Index}] = true
			}
			k := fmt.Sprintf("%d|%s", s.Index, env.key())
			if seenState[k] {
				continue
			}
			seenState[k] = true
			seen[s] = true
			work = append(work, state{s, env})
		}
	}
	if budget == 0 {
		// give up precision, never soundness: everything forward-reachable is reachable
		var all func(*ssa.BasicBlock)
		all = func(b *ssa.BasicBlock) {
			for _, s := range b.Succs {
				if !backEdge(b, s) && !seen[s] {
					seen[s] = true
					all(s)
				}
			}
		}
		for b := range seen {
			all(b)
		}
		if edges != nil {
			for _, b := range fn.Blocks {
				for _, s := range b.Succs {
					if seen[b] && !backEdge(b, s) {
						edges[[2]int{b.Index, s.Index}] = true
					}
				}
			}
		}
	}
	return seen
}

// GuardedBy decides whether every forward path from fn's entry to block `site`
// arrives with req(assignment) true, where the assignment ranges over all
// truth values of the given atoms (conditions of If instructions, negations
// stripped) and all other conditions are free. It returns the first
// counter-example assignment when not guarded.
func GuardedBy(fn *ssa.Function, site *ssa.BasicBlock, atoms []ssa.Value, req func(map[ssa.Value]bool) bool) (bool, map[ssa.Value]bool) {
	n := len(atoms)
	if n > 16 {
		return false, nil
	}
	for mask := 0; mask < 1<<n; mask++ {
		assign := map[ssa.Value]bool{}
		for i, a := range atoms {
			assign[a] = mask&(1<<i) != 0
		}
		if req(assign) {
			continue
		}
		reach := ForwardReach(fn.Blocks[0], assign, nil)
		if reach[site] {
			return false, assign
		}
	}
	return true, nil
}

// CondAtoms lists the distinct If-condition atoms of fn (negations stripped), in block order.
func CondAtoms(fn *ssa.Function) []ssa.Value {
	var out []ssa.Value
	seen := map[ssa.Value]bool{}
	for _, b := range fn.Blocks {
		if len(b.Instrs) == 0 {
			continue
		}
		if ifi, ok := b.Instrs[len(b.Instrs)-1].(*ssa.If); ok {
			for _, a := range expandBoolPhi(ifi.Cond, 0) {
				if !seen[a] {
					seen[a] = true
					out = append(out, a)
				}
			}
		}
	}
	return out
}

// expandBoolPhi: an If on a boolean phi (x := a && b materialised as a value) is decided by the
// non-constant values flowing into the phi: those are the atoms.
func expandBoolPhi(c ssa.Value, depth int) []ssa.Value {
	a, _ := normCond(c)
	if phi, ok := a.(*ssa.Phi); ok && depth < 4 {
		var out []ssa.Value
		for _, e := range phi.Edges {
			if _, isK := e.(*ssa.Const); isK {
				continue
			}
			out = append(out, expandBoolPhi(e, depth+1)...)
		}
		return out
	}
	return []ssa.Value{a}
}

// MustPassThrough decides whether every forward path from the entry of fn to an
// instruction satisfying isB passes an instruction satisfying isA first.
// It returns the offending B instruction when not.
func MustPassThrough(fn *ssa.Function, isA, isB func(ssa.Instruction) bool) (bool, ssa.Instruction) {
	if len(fn.Blocks) == 0 {
		return true, nil
	}
	seen := map[*ssa.BasicBlock]bool{fn.Blocks[0]: true}
	work := []*ssa.BasicBlock{fn.Blocks[0]}
	for len(work) > 0 {
		b := work[len(work)-1]
		work = work[:len(work)-1]
		killed := false
		for _, in := range b.Instrs {
			if isB(in) {
				return false, in
			}
			if isA(in) {
				killed = true
				break
			}
		}
		if killed {
			continue
		}
		for _, s := range b.Succs {
			if !seen[s] {
				seen[s] = true
				work = append(work, s)
			}
		}
	}
	return true, nil
}

// Reaches reports whether an instruction satisfying isB can execute after `from`
// (same block later, or any block reachable through any edges, including back edges).
func Reaches(from ssa.Instruction, isB func(ssa.Instruction) bool) bool {
	b := from.Block()
	after := false
	for _, in := range b.Instrs {
		if after && isB(in) {
			return true
		}
		if in == from {
			after = true
		}
	}
	seen := map[*ssa.BasicBlock]bool{}
	work := append([]*ssa.BasicBlock{}, b.Succs...)
	for len(work) > 0 {
		x := work[len(work)-1]
		work = work[:len(work)-1]
		if seen[x] {
			continue
		}
		seen[x] = true
		for _, in := range x.Instrs {
			if isB(in) {
				return true
			}
			if x == b && in == from {
				break
			}
		}
		work = append(work, x.Succs...)
	}
	return false
}

// ComparedConsts collects the constants c such that `x == c` / `x != c` occurs in fn
// with x derived from a source value. Works for strings, ints, bytes, runes.
func ComparedConsts(fn *ssa.Function, src func(ssa.Value) bool) []constant.Value {
	var out []constant.Value
	seen := map[string]bool{}
	Instrs(fn, func(in ssa.Instruction) {
		b, ok := in.(*ssa.BinOp)
		if !ok || (b.Op != token.EQL && b.Op != token.NEQ) {
			return
		}
		var c *ssa.Const
		var other ssa.Value
		if k, ok := b.X.(*ssa.Const); ok {
			c, other = k, b.Y
		} else if k, ok := b.Y.(*ssa.Const); ok {
			c, other = k, b.X
		} else {
			return
		}
		if c.Value == nil {
			return
		}
		if DerivesFrom(other, src) {
			if !seen[c.Value.ExactString()] {
				seen[c.Value.ExactString()] = true
				out = append(out, c.Value)
			}
		}
	})
	return out
}

// ComparedStrings is ComparedConsts restricted to string constants, sorted.
func ComparedStrings(fn *ssa.Function, src func(ssa.Value) bool) []string {
	var out []string
	for _, c := range ComparedConsts(fn, src) {
		if c.Kind() == constant.String {
			out = append(out, constant.StringVal(c))
		}
	}
	sort.Strings(out)
	return out
}

// IsCallNamed builds a source predicate: v is a call (static or invoke) to a function / method with this name.
func IsCallNamed(names ...string) func(ssa.Value) bool {
	return func(v ssa.Value) bool {
		c, ok := v.(*ssa.Call)
		if !ok {
			return false
		}
		var n string
		if c.Common().IsInvoke() {
			n = c.Common().Method.Name()
		} else if f := c.Common().StaticCallee(); f != nil {
			n = f.Name()
		}
		for _, x := range names {
			if n == x {
				return true
			}
		}
		return false
	}
}

// IsParam builds a source predicate: v is parameter number i of its function.
func IsParam(fn *ssa.Function, i int) func(ssa.Value) bool {
	return func(v ssa.Value) bool {
		p, ok := v.(*ssa.Parameter)
		return ok && i < len(fn.Params) && fn.Params[i] == p
	}
}

// StringSetAt computes the set of string constants c such that every forward path to
// block b passes a true edge of `v == c` (or false edge of v != c) for the given value
// (matched through Unwrap / phi-free equality of the compared operand with any value
// satisfying same). Returns ok=false when some path reaches b with no such test.
func StringSetAt(fn *ssa.Function, b *ssa.BasicBlock, same func(ssa.Value) bool) (set []string, ok bool) {
	type atomInfo struct {
		atom ssa.Value
		c    string
		eq   bool
	}
	var atoms []atomInfo
	seen := map[ssa.Value]bool{}
	for _, a := range CondAtoms(fn) {
		bo, isb := a.(*ssa.BinOp)
		if !isb || (bo.Op != token.EQL && bo.Op != token.NEQ) {
			continue
		}
		var other ssa.Value
		var cs string
		if s, ok := ConstStr(bo.X); ok {
			cs, other = s, bo.Y
		} else if s, ok := ConstStr(bo.Y); ok {
			cs, other = s, bo.X
		} else {
			continue
		}
		if !same(Unwrap(other)) && !same(other) {
			continue
		}
		if !seen[a] {
			seen[a] = true
			atoms = append(atoms, atomInfo{a, cs, bo.Op == token.EQL})
		}
	}
	if len(atoms) == 0 {
		return nil, false
	}
	// exactly-one-true assignments (the value equals one constant) plus the all-false assignment
	res := map[string]bool{}
	mk := func(which int) map[ssa.Value]bool {
		m := map[ssa.Value]bool{}
		for i, a := range atoms {
			isEq := i == which || (which >= 0 && atoms[which].c == a.c)
			if a.eq {
				m[a.atom] = isEq
			} else {
				m[a.atom] = !isEq
			}
		}
		return m
	}
	if ForwardReach(fn.Blocks[0], mk(-1), nil)[b] {
		return nil, false // reachable with the value equal to none of the constants
	}
	for i, a := range atoms {
		if ForwardReach(fn.Blocks[0], mk(i), nil)[b] {
			res[a.c] = true
		}
	}
	for s := range res {
		set = append(set, s)
	}
	sort.Strings(set)
	return set, true
}

// CondAtomsReaching lists the If-condition atoms whose branch can be executed before
// control arrives at site on a forward path (atoms tested only later are irrelevant to a guard).
func CondAtomsReaching(fn *ssa.Function, site *ssa.BasicBlock) []ssa.Value {
	condAtomsMu.Lock()
	if r, ok := condAtomsCache[site]; ok {
		condAtomsMu.Unlock()
		return r
	}
	condAtomsMu.Unlock()
	out := condAtomsReaching(fn, site)
	condAtomsMu.Lock()
	condAtomsCache[site] = out
	condAtomsMu.Unlock()
	return out
}

var (
	condAtomsMu    sync.Mutex
	condAtomsCache = map[*ssa.BasicBlock][]ssa.Value{}
)

func condAtomsReaching(fn *ssa.Function, site *ssa.BasicBlock) []ssa.Value {
	var out []ssa.Value
	seen := map[ssa.Value]bool{}
	for _, b := range fn.Blocks {
		if len(b.Instrs) == 0 {
			continue
		}
		ifi, ok := b.Instrs[len(b.Instrs)-1].(*ssa.If)
		if !ok {
			continue
		}
		if !(b == site || ForwardReach(b, nil, nil)[site]) {
			continue
		}
		for _, a := range expandBoolPhi(ifi.Cond, 0) {
			if !seen[a] {
				seen[a] = true
				out = append(out, a)
			}
		}
	}
	return out
}

// IsFieldNamed reports whether v is a Field / FieldAddr (or a load of one) selecting a field with this name.
func IsFieldNamed(v ssa.Value, name string) bool {
	switch x := v.(type) {
	case *ssa.Field:
		if st, ok := x.X.Type().Underlying().(*types.Struct); ok {
			return st.Field(x.Field).Name() == name
		}
	case *ssa.FieldAddr:
		if pt, ok := x.X.Type().Underlying().(*types.Pointer); ok {
			if st, ok := pt.Elem().Underlying().(*types.Struct); ok {
				return st.Field(x.Field).Name() == name
			}
		}
	case *ssa.UnOp:
		if x.Op == token.MUL {
			return IsFieldNamed(x.X, name)
		}
	}
	return false
}

// ResolveLoad looks through a load of a local cell that is stored exactly once (go/ssa spills captured
// variables to such cells): it returns the stored value; otherwise v itself.
func ResolveLoad(v ssa.Value) ssa.Value {
	for i := 0; i < 4; i++ {
		u, ok := v.(*ssa.UnOp)
		if !ok || u.Op != token.MUL {
			return v
		}
		al, ok := u.X.(*ssa.Alloc)
		if !ok {
			return v
		}
		sts := storesTo(al)
		if len(sts) != 1 {
			return v
		}
		v = sts[0]
	}
	return v
}

// Loop is a natural loop of a function's CFG.
type Loop struct {
	Header *ssa.BasicBlock
	Blocks map[*ssa.BasicBlock]bool
}

// Loops computes the natural loops of fn (one per header; bodies of back edges to the same header are merged).
func Loops(fn *ssa.Function) []*Loop {
	byHeader := map[*ssa.BasicBlock]*Loop{}
	var order []*ssa.BasicBlock
	for _, t := range fn.Blocks {
		for _, h := range t.Succs {
			if !h.Dominates(t) {
				continue
			}
			l := byHeader[h]
			if l == nil {
				l = &Loop{Header: h, Blocks: map[*ssa.BasicBlock]bool{h: true}}
				byHeader[h] = l
				order = append(order, h)
			}
			// nodes that reach t without passing h
			work := []*ssa.BasicBlock{t}
			for len(work) > 0 {
				b := work[len(work)-1]
				work = work[:len(work)-1]
				if l.Blocks[b] {
					continue
				}
				l.Blocks[b] = true
				work = append(work, b.Preds...)
			}
		}
	}
	var out []*Loop
	for _, h := range order {
		out = append(out, byHeader[h])
	}
	return out
}

// InnermostLoop returns the smallest loop containing b (nil if none).
func InnermostLoop(fn *ssa.Function, b *ssa.BasicBlock) *Loop {
	var best *Loop
	for _, l := range Loops(fn) {
		if l.Blocks[b] && (best == nil || len(l.Blocks) < len(best.Blocks)) {
			best = l
		}
	}
	return best
}

// EveryIterationPasses decides whether every complete iteration of loop l (a path from the header back to
// the header inside the loop) executes an instruction satisfying pred, and reports early exits: edges that
// leave the loop from a block other than the header.
func EveryIterationPasses(l *Loop, pred func(ssa.Instruction) bool) (always bool, earlyExits []*ssa.BasicBlock) {
	always = true
	// walk from the header's in-loop successors, stopping at blocks that execute pred
	seen := map[*ssa.BasicBlock]bool{}
	var work []*ssa.BasicBlock
	for _, s := range l.Header.Succs {
		if l.Blocks[s] && s != l.Header {
			work = append(work, s)
		}
	}
	for len(work) > 0 {
		b := work[len(work)-1]
		work = work[:len(work)-1]
		if seen[b] {
			continue
		}
		seen[b] = true
		killed := false
		for _, in := range b.Instrs {
			if pred(in) {
				killed = true
				break
			}
		}
		if killed {
			continue
		}
		for _, s := range b.Succs {
			if s == l.Header {
				always = false
			}
			if l.Blocks[s] {
				work = append(work, s)
			}
		}
	}
	for b := range l.Blocks {
		if b == l.Header {
			continue
		}
		for _, s := range b.Succs {
			if !l.Blocks[s] {
				earlyExits = append(earlyExits, b)
			}
		}
	}
	return
}

// FieldName returns the name of the struct field a FieldAddr selects.
func FieldName(fa *ssa.FieldAddr) string {
	t := fa.X.Type()
	if pt, ok := t.Underlying().(*types.Pointer); ok {
		t = pt.Elem()
	}
	if st, ok := t.Underlying().(*types.Struct); ok && fa.Field < st.NumFields() {
		return st.Field(fa.Field).Name()
	}
	return ""
}

// CountedLoop decides whether the natural loop l is a counted loop: its header branches on `i < bound` (or <=) where i
// is a header phi that starts anywhere and is incremented by a positive constant on every back edge, and bound is
// defined outside the loop; the false branch leaves the loop. Such a loop runs a bounded number of iterations.
func CountedLoop(l *Loop) (bool, string) {
	h := l.Header
	if len(h.Instrs) == 0 {
		return false, "empty header"
	}
	ifi, ok := h.Instrs[len(h.Instrs)-1].(*ssa.If)
	if !ok {
		return false, "the loop header does not test a condition (for { … } without a bound)"
	}
	cond, neg := normCond(ifi.Cond)
	bo, ok := cond.(*ssa.BinOp)
	neqForm := false
	if ok && bo.Op == token.NEQ && !neg {
		// `i != bound` ends when the counter starts at a constant not above a constant bound and moves by one
		neqForm = true
	} else if !ok || (bo.Op != token.LSS && bo.Op != token.LEQ) || neg {
		return false, "the loop condition is not `counter < bound`"
	}
	phi, ok := bo.X.(*ssa.Phi)
	if !ok || phi.Block() != h {
		return false, "the left operand of the loop condition is not the loop counter"
	}
	if in, isInstr := bo.Y.(ssa.Instruction); isInstr && l.Blocks[in.Block()] {
		return false, "the bound is recomputed inside the loop"
	}
	if !l.Blocks[h.Succs[0]] || l.Blocks[h.Succs[1]] {
		return false, "the false branch of the loop condition stays in the loop"
	}
	back := 0
	for i, e := range phi.Edges {
		if !l.Blocks[h.Preds[i]] {
			continue
		}
		back++
		inc, ok := e.(*ssa.BinOp)
		if !ok || inc.Op != token.ADD || inc.X != ssa.Value(phi) {
			return false, "a back edge does not increment the counter"
		}
		if k, ok := ConstInt(inc.Y); !ok || k <= 0 {
			return false, "a back edge does not increment the counter by a positive constant"
		} else if neqForm && k != 1 {
			return false, "`counter != bound` with a step other than one may step over the bound"
		}
	}
	if back == 0 {
		return false, "no back edge found"
	}
	if neqForm {
		bound, okb := ConstInt(bo.Y)
		started := false
		for i, e := range phi.Edges {
			if l.Blocks[h.Preds[i]] {
				continue
			}
			if k, ok := ConstInt(e); ok && okb && k <= bound {
				started = true
			} else {
				return false, "`counter != bound`: the start or the bound is not a constant, or the start is above the bound"
			}
		}
		if !started {
			return false, "`counter != bound`: no entry value"
		}
	}
	return true, fmt.Sprintf("counter %s incremented on all %d back edge(s), bound defined outside the loop", phi.Comment, back)
}

// DiscardedOkSite is a comma-ok type assertion whose ok result is not used although the asserted value (a pointer or an
// interface, nil when the assertion fails) is dereferenced without a nil test.
type DiscardedOkSite struct {
	Assert *ssa.TypeAssert
	Use    ssa.Instruction
}

// DiscardedOks lists such sites in fn.
func DiscardedOks(fn *ssa.Function) []DiscardedOkSite {
	var out []DiscardedOkSite
	Instrs(fn, func(in ssa.Instruction) {
		ta, ok := in.(*ssa.TypeAssert)
		if !ok || !ta.CommaOk || ta.Referrers() == nil {
			return
		}
		switch ta.AssertedType.Underlying().(type) {
		case *types.Pointer, *types.Interface:
		default:
			return
		}
		var val *ssa.Extract
		okUsed := false
		for _, r := range *ta.Referrers() {
			ex, isEx := r.(*ssa.Extract)
			if !isEx {
				continue
			}
			if ex.Index == 0 {
				val = ex
			} else if ex.Referrers() != nil {
				for _, rr := range *ex.Referrers() {
					if _, dbg := rr.(*ssa.DebugRef); !dbg {
						okUsed = true
					}
				}
			}
		}
		if okUsed || val == nil || val.Referrers() == nil {
			return
		}
		// nil tests on the value
		var nilAtoms []ssa.Value
		for _, a := range CondAtoms(fn) {
			if b, ok := a.(*ssa.BinOp); ok && (b.Op == token.EQL || b.Op == token.NEQ) {
				if (b.X == ssa.Value(val) && isNilConst(b.Y)) || (b.Y == ssa.Value(val) && isNilConst(b.X)) {
					nilAtoms = append(nilAtoms, a)
				}
			}
		}
		for _, r := range *val.Referrers() {
			deref := false
			switch u := r.(type) {
			case *ssa.FieldAddr:
				deref = u.X == ssa.Value(val)
			case *ssa.UnOp:
				deref = u.Op == token.MUL && u.X == ssa.Value(val)
			case *ssa.Call:
				deref = u.Call.IsInvoke() && u.Call.Value == ssa.Value(val)
			case *ssa.IndexAddr:
				deref = u.X == ssa.Value(val)
			}
			if !deref {
				continue
			}
			guarded := false
			for _, a := range nilAtoms {
				b := a.(*ssa.BinOp)
				// under "value is nil" the use is not reached
				if !ForwardReach(fn.Blocks[0], map[ssa.Value]bool{a: b.Op == token.EQL}, nil)[r.Block()] {
					guarded = true
				}
			}
			if !guarded {
				out = append(out, DiscardedOkSite{ta, r})
			}
		}
	})
	return out
}

func isNilConst(v ssa.Value) bool {
	c, ok := v.(*ssa.Const)
	return ok && c.Value == nil
}

// ConstFloat returns the numeric value of a constant operand.
func ConstFloat(v ssa.Value) (float64, bool) {
	c, ok := v.(*ssa.Const)
	if !ok || c.Value == nil {
		return 0, false
	}
	switch c.Value.Kind() {
	case constant.Int, constant.Float:
		f, _ := constant.Float64Val(constant.ToFloat(c.Value))
		return f, true
	}
	return 0, false
}

// ExpandBoolPhi lists the atoms deciding an If condition (negations stripped, boolean phis expanded).
func ExpandBoolPhi(c ssa.Value) []ssa.Value { return expandBoolPhi(c, 0) }

// loopCarried: a phi of a loop header also receives values over the back edges this walk does not follow; on entry
// it is therefore unknown (the phi itself), not the value of the entry edge — unless every back edge carries that
// same value.
func loopCarried(s *ssa.BasicBlock, phi *ssa.Phi, entry ssa.Value) ssa.Value {
	for i, p := range s.Preds {
		if backEdge(p, s) && phi.Edges[i] != entry && phi.Edges[i] != ssa.Value(phi) {
			return phi
		}
	}
	return entry
}

// IfCondAtoms returns the atoms deciding one If condition (a boolean phi is expanded into the values merged in it).
func IfCondAtoms(cond ssa.Value) []ssa.Value { return expandBoolPhi(cond, 0) }
