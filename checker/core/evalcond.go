package core

import (
	"go/token"

	"golang.org/x/tools/go/ssa"
)

// CondEval evaluates boolean SSA values and selects phi edges under an assignment of leaf conditions, without
// executing anything: the control flow between the immediate dominator of a phi and the phi is replayed with the
// branch conditions evaluated recursively. Leaf decides the atoms (comparisons of document values); ok=false
// anywhere makes the whole evaluation undecided.
type CondEval struct {
	Leaf func(v ssa.Value) (val bool, ok bool)
	fuel int
}

// Bool evaluates a boolean value.
func (e *CondEval) Bool(v ssa.Value) (bool, bool) {
	e.fuel++
	if e.fuel > 2000 {
		return false, false
	}
	if val, ok := e.Leaf(v); ok {
		return val, true
	}
	switch x := v.(type) {
	case *ssa.Const:
		if x.Value != nil {
			return x.Value.String() == "true", true
		}
	case *ssa.UnOp:
		if x.Op == token.NOT {
			b, ok := e.Bool(x.X)
			return !b, ok
		}
	case *ssa.BinOp:
		if bt := x.X.Type().Underlying().String(); bt == "bool" {
			a, ok1 := e.Bool(x.X)
			b, ok2 := e.Bool(x.Y)
			if !ok1 || !ok2 {
				return false, false
			}
			switch x.Op {
			case token.EQL:
				return a == b, true
			case token.NEQ, token.XOR:
				return a != b, true
			case token.AND:
				return a && b, true
			case token.OR:
				return a || b, true
			}
		}
	case *ssa.Phi:
		edge, ok := e.Select(x)
		if !ok {
			return false, false
		}
		return e.Bool(edge)
	}
	return false, false
}

// Select returns the edge value the phi takes, replaying the branches from the phi block's immediate dominator.
func (e *CondEval) Select(phi *ssa.Phi) (ssa.Value, bool) {
	b := phi.Block()
	cur := b.Idom()
	if cur == nil {
		return nil, false
	}
	for steps := 0; steps < 64; steps++ {
		var next *ssa.BasicBlock
		switch t := cur.Instrs[len(cur.Instrs)-1].(type) {
		case *ssa.If:
			c, ok := e.Bool(t.Cond)
			if !ok {
				return nil, false
			}
			if c {
				next = cur.Succs[0]
			} else {
				next = cur.Succs[1]
			}
		case *ssa.Jump:
			next = cur.Succs[0]
		default:
			return nil, false
		}
		if next == b {
			for i, p := range b.Preds {
				if p == cur {
					return phi.Edges[i], true
				}
			}
			return nil, false
		}
		if !b.Idom().Dominates(next) {
			return nil, false // left the region (early return): the phi is not reached
		}
		cur = next
	}
	return nil, false
}
