package core

import (
	"go/types"

	"golang.org/x/tools/go/ssa"
)

// TypeSet is a set of concrete types reaching an interface value; Unknown lists
// the reasons why the set may be incomplete.
type TypeSet struct {
	Types   map[string]types.Type
	Nil     bool
	Unknown []string
}

func newTypeSet() *TypeSet { return &TypeSet{Types: map[string]types.Type{}} }

func (ts *TypeSet) add(t types.Type) { ts.Types[types.TypeString(t, nil)] = t }

// ConcreteTypes computes the concrete types that can reach the interface value v
// (engine B): MakeInterface gives its operand type, phi unions, static calls are
// followed into the callee's returns, comma-ok assertions and extracts are looked
// through. Anything else (dynamic call, load from memory, parameter) is recorded
// as unknown.
func ConcreteTypes(v ssa.Value) *TypeSet {
	ts := newTypeSet()
	seen := map[ssa.Value]bool{}
	seenFn := map[*ssa.Function]map[int]bool{}
	var walk func(v ssa.Value)
	var walkRet func(fn *ssa.Function, idx int)
	walkRet = func(fn *ssa.Function, idx int) {
		if seenFn[fn] == nil {
			seenFn[fn] = map[int]bool{}
		}
		if seenFn[fn][idx] {
			return
		}
		seenFn[fn][idx] = true
		if len(fn.Blocks) == 0 {
			ts.Unknown = append(ts.Unknown, "external "+fn.String())
			return
		}
		Instrs(fn, func(in ssa.Instruction) {
			if r, ok := in.(*ssa.Return); ok && idx < len(r.Results) {
				walk(r.Results[idx])
			}
		})
	}
	walk = func(v ssa.Value) {
		if v == nil || seen[v] {
			return
		}
		seen[v] = true
		if _, isIface := v.Type().Underlying().(*types.Interface); !isIface {
			ts.add(v.Type())
			return
		}
		switch x := v.(type) {
		case *ssa.MakeInterface:
			if _, ok := x.X.Type().Underlying().(*types.Interface); ok {
				walk(x.X)
			} else {
				ts.add(x.X.Type())
			}
		case *ssa.ChangeInterface:
			walk(x.X)
		case *ssa.ChangeType:
			walk(x.X)
		case *ssa.Phi:
			for _, e := range x.Edges {
				walk(e)
			}
		case *ssa.Const:
			if x.Value == nil {
				ts.Nil = true
			}
		case *ssa.Call:
			if callee := x.Common().StaticCallee(); callee != nil {
				walkRet(callee, 0)
			} else {
				ts.Unknown = append(ts.Unknown, "dynamic call "+x.String())
			}
		case *ssa.Extract:
			if call, ok := x.Tuple.(*ssa.Call); ok {
				if callee := call.Common().StaticCallee(); callee != nil {
					walkRet(callee, x.Index)
					return
				}
				ts.Unknown = append(ts.Unknown, "dynamic call "+call.String())
				return
			}
			if ta, ok := x.Tuple.(*ssa.TypeAssert); ok && x.Index == 0 {
				if _, isIface := ta.AssertedType.Underlying().(*types.Interface); isIface {
					walk(ta.X)
				} else {
					ts.add(ta.AssertedType)
				}
				return
			}
			ts.Unknown = append(ts.Unknown, "extract "+x.String())
		case *ssa.TypeAssert:
			if _, isIface := x.AssertedType.Underlying().(*types.Interface); isIface {
				walk(x.X)
			} else {
				ts.add(x.AssertedType)
			}
		case *ssa.UnOp:
			// load from a local variable: follow its stores
			sts := StoresTo(x.X)
			if _, ok := x.X.(*ssa.Alloc); ok && len(sts) > 0 {
				for _, s := range sts {
					walk(s)
				}
				return
			}
			ts.Unknown = append(ts.Unknown, "load "+x.String())
		default:
			ts.Unknown = append(ts.Unknown, "value "+v.String())
		}
	}
	walk(v)
	return ts
}

// ReturnTypes computes the concrete types reaching result idx of fn.
func ReturnTypes(fn *ssa.Function, idx int) *TypeSet {
	ts := newTypeSet()
	Instrs(fn, func(in ssa.Instruction) {
		if r, ok := in.(*ssa.Return); ok && idx < len(r.Results) {
			sub := ConcreteTypes(r.Results[idx])
			for k, t := range sub.Types {
				ts.Types[k] = t
			}
			ts.Nil = ts.Nil || sub.Nil
			ts.Unknown = append(ts.Unknown, sub.Unknown...)
		}
	})
	return ts
}

// AssertedTypes lists the types a function asserts the given value to (single-result
// assertions, comma-ok assertions and type-switch arms), looking through phis.
func AssertedTypes(fn *ssa.Function, src ssa.Value) []types.Type {
	var out []types.Type
	seen := map[string]bool{}
	Instrs(fn, func(in ssa.Instruction) {
		ta, ok := in.(*ssa.TypeAssert)
		if !ok {
			return
		}
		if Unwrap(ta.X) == src || ta.X == src {
			k := types.TypeString(ta.AssertedType, nil)
			if !seen[k] {
				seen[k] = true
				out = append(out, ta.AssertedType)
			}
		}
	})
	return out
}
