package core

import (
	"go/ast"
	"go/token"
	"regexp"
	"strings"
)

// Engine S: sibling side symmetry.
//
// Layout code treats the four sides of a box with pairs of statements that are mirror images of each other
// (`b.MarginTop = h - b.BorderTopWidth - b.PaddingTop` / `b.MarginBottom = h - b.BorderBottomWidth - b.PaddingBottom`).
// Two assignments of the same block whose left-hand sides differ only by a side (Top/Bottom or Left/Right) and whose
// right-hand sides have the same shape once side names are masked are siblings; in a sibling pair every side name
// on the axis of the assigned side must be mirrored and every side name of the other axis must be unchanged. A pair
// that mirrors some names and not others is a copy-paste slip (cross-checking siblings, Engler et al. 2001).

var sideRe = regexp.MustCompile(`(Top|Bottom|Left|Right)`)
var sideOpp = map[string]string{"Top": "Bottom", "Bottom": "Top", "Left": "Right", "Right": "Left"}

type SidePair struct {
	Func       string
	A, B       *ast.AssignStmt
	TextA      string
	TextB      string
	Consistent bool
}

// SidePairs lists the sibling pairs of the package files accepted by keep (relative file name).
func (p *Prog) SidePairs(pkg string, keep func(file string) bool) []SidePair {
	pk := p.ByPath[pkg]
	if pk == nil {
		return nil
	}
	var out []SidePair
	for _, f := range pk.Syntax {
		name := p.Fset.Position(f.Pos()).Filename
		if i := strings.LastIndex(name, "/"); i >= 0 {
			name = name[i+1:]
		}
		if strings.HasSuffix(name, "_test.go") || (keep != nil && !keep(name)) {
			continue
		}
		for _, d := range f.Decls {
			fd, ok := d.(*ast.FuncDecl)
			if !ok || fd.Body == nil {
				continue
			}
			fname := fd.Name.Name
			ast.Inspect(fd.Body, func(n ast.Node) bool {
				blk, ok := n.(*ast.BlockStmt)
				if !ok {
					return true
				}
				var assigns []*ast.AssignStmt
				for _, s := range blk.List {
					if a, ok := s.(*ast.AssignStmt); ok && len(a.Lhs) == 1 && len(a.Rhs) == 1 {
						assigns = append(assigns, a)
					}
				}
				for i := 0; i < len(assigns); i++ {
					la := p.NodeText(assigns[i].Lhs[0])
					sa := sideRe.FindAllString(la, -1)
					if len(sa) != 1 {
						continue
					}
					want := strings.Replace(la, sa[0], sideOpp[sa[0]], 1)
					for j := i + 1; j < len(assigns); j++ {
						if p.NodeText(assigns[j].Lhs[0]) != want {
							continue
						}
						ra, rb := p.NodeText(assigns[i].Rhs[0]), p.NodeText(assigns[j].Rhs[0])
						if sideRe.ReplaceAllString(ra, "#") != sideRe.ReplaceAllString(rb, "#") {
							continue
						}
						xa, xb := sideRe.FindAllString(ra, -1), sideRe.FindAllString(rb, -1)
						if len(xa) == 0 {
							continue
						}
						ok := true
						for k := range xa {
							sameAxis := xa[k] == sa[0] || xa[k] == sideOpp[sa[0]]
							if sameAxis && xb[k] != sideOpp[xa[k]] {
								ok = false
							}
							if !sameAxis && xb[k] != xa[k] {
								ok = false
							}
						}
						out = append(out, SidePair{fname, assigns[i], assigns[j], p.NodeText(assigns[i]), p.NodeText(assigns[j]), ok})
						break
					}
				}
				return true
			})
		}
	}
	return out
}

// SideSum is an additive expression (a maximal chain of + and -) with at least two box-edge terms
// (Margin/Padding/Border × Top/Bottom/Left/Right, possibly followed by .V()).
type SideSum struct {
	Func       string
	Expr       ast.Expr
	Text       string
	Consistent bool
	Kinds      string
}

var sideFieldRe = regexp.MustCompile(`^(Margin|Padding|Border)(Top|Bottom|Left|Right)(Width)?$`)

// SideSums lists such sums. A sum is consistent when every kind of edge it mentions (margin, padding, border) appears
// with the same set of sides: `PaddingTop + PaddingBottom + BorderTopWidth + BorderBottomWidth` and
// `MarginLeft + PaddingLeft + BorderLeftWidth` are; `PaddingBottom + BorderTopWidth` and `… - BorderTopWidth - BorderTopWidth`
// (where the padding has both sides) are not.
func (p *Prog) SideSums(pkg string, keep func(file string) bool) []SideSum {
	pk := p.ByPath[pkg]
	if pk == nil {
		return nil
	}
	var out []SideSum
	var terms func(e ast.Expr, acc *[]ast.Expr)
	terms = func(e ast.Expr, acc *[]ast.Expr) {
		switch x := e.(type) {
		case *ast.BinaryExpr:
			if x.Op.String() == "+" || x.Op.String() == "-" {
				terms(x.X, acc)
				terms(x.Y, acc)
				return
			}
		case *ast.ParenExpr:
			terms(x.X, acc)
			return
		}
		*acc = append(*acc, e)
	}
	sideField := func(e ast.Expr) (kind, side string, ok bool) {
		if c, isCall := e.(*ast.CallExpr); isCall {
			if sel, isSel := c.Fun.(*ast.SelectorExpr); isSel && sel.Sel.Name == "V" && len(c.Args) == 0 {
				e = sel.X
			}
		}
		sel, isSel := e.(*ast.SelectorExpr)
		if !isSel {
			return "", "", false
		}
		m := sideFieldRe.FindStringSubmatch(sel.Sel.Name)
		if m == nil {
			return "", "", false
		}
		return m[1], m[2], true
	}
	for _, f := range pk.Syntax {
		name := p.Fset.Position(f.Pos()).Filename
		if i := strings.LastIndex(name, "/"); i >= 0 {
			name = name[i+1:]
		}
		if strings.HasSuffix(name, "_test.go") || (keep != nil && !keep(name)) {
			continue
		}
		for _, d := range f.Decls {
			fd, ok := d.(*ast.FuncDecl)
			if !ok || fd.Body == nil {
				continue
			}
			inner := map[ast.Expr]bool{}
			ast.Inspect(fd.Body, func(n ast.Node) bool {
				b, ok := n.(*ast.BinaryExpr)
				if !ok || (b.Op.String() != "+" && b.Op.String() != "-") || inner[b] {
					return true
				}
				var mark func(e ast.Expr)
				mark = func(e ast.Expr) {
					switch x := e.(type) {
					case *ast.BinaryExpr:
						if x.Op.String() == "+" || x.Op.String() == "-" {
							inner[x] = true
							mark(x.X)
							mark(x.Y)
						}
					case *ast.ParenExpr:
						mark(x.X)
					}
				}
				mark(b)
				var ts []ast.Expr
				terms(b, &ts)
				sides := map[string]map[string]int{}
				cnt := 0
				for _, t := range ts {
					if k, s, ok := sideField(t); ok {
						if sides[k] == nil {
							sides[k] = map[string]int{}
						}
						sides[k][s]++
						cnt++
					}
				}
				if cnt < 2 {
					return true
				}
				var sets []string
				for k, m := range sides {
					var ss []string
					for s, c := range m {
						if c > 1 {
							s += "×2"
						}
						ss = append(ss, s)
					}
					sortStrings(ss)
					sets = append(sets, k+":"+strings.Join(ss, ","))
				}
				sortStrings(sets)
				ok2 := true
				first := ""
				for i, s := range sets {
					v := s[strings.Index(s, ":")+1:]
					if i == 0 {
						first = v
					} else if v != first {
						ok2 = false
					}
				}
				out = append(out, SideSum{fd.Name.Name, b, p.NodeText(b), ok2, strings.Join(sets, " ")})
				return true
			})
		}
	}
	return out
}

func sortStrings(s []string) {
	for i := 1; i < len(s); i++ {
		for j := i; j > 0 && s[j] < s[j-1]; j-- {
			s[j], s[j-1] = s[j-1], s[j]
		}
	}
}

// SideConds lists the maximal && / || chains that mention at least two box-edge fields
// (Margin/Padding/Border × side, anywhere inside the operands). A chain is consistent when every kind of edge it
// mentions appears with the same set of sides: `BorderBottomWidth != 0 || PaddingBottom != 0` and the four-term
// collapse-through test (both sides of both kinds) are; `BorderBottomWidth … || PaddingTop …` is not.
func (p *Prog) SideConds(pkg string, keep func(file string) bool) []SideSum {
	pk := p.ByPath[pkg]
	if pk == nil {
		return nil
	}
	var out []SideSum
	isBool := func(op string) bool { return op == "&&" || op == "||" }
	for _, f := range pk.Syntax {
		name := p.Fset.Position(f.Pos()).Filename
		if i := strings.LastIndex(name, "/"); i >= 0 {
			name = name[i+1:]
		}
		if strings.HasSuffix(name, "_test.go") || (keep != nil && !keep(name)) {
			continue
		}
		for _, d := range f.Decls {
			fd, ok := d.(*ast.FuncDecl)
			if !ok || fd.Body == nil {
				continue
			}
			inner := map[ast.Expr]bool{}
			ast.Inspect(fd.Body, func(n ast.Node) bool {
				b, ok := n.(*ast.BinaryExpr)
				if !ok || !isBool(b.Op.String()) || inner[b] {
					return true
				}
				var mark func(e ast.Expr)
				mark = func(e ast.Expr) {
					switch x := e.(type) {
					case *ast.BinaryExpr:
						if isBool(x.Op.String()) {
							inner[x] = true
							mark(x.X)
							mark(x.Y)
						}
					case *ast.ParenExpr:
						mark(x.X)
					case *ast.UnaryExpr:
						mark(x.X)
					}
				}
				mark(b)
				sides := map[string]map[string]int{}
				cnt := 0
				ast.Inspect(b, func(m ast.Node) bool {
					if _, isLit := m.(*ast.FuncLit); isLit {
						return false
					}
					sel, isSel := m.(*ast.SelectorExpr)
					if !isSel {
						return true
					}
					mm := sideFieldRe.FindStringSubmatch(sel.Sel.Name)
					if mm == nil {
						return true
					}
					if sides[mm[1]] == nil {
						sides[mm[1]] = map[string]int{}
					}
					sides[mm[1]][mm[2]]++
					cnt++
					return true
				})
				if cnt < 2 || len(sides) < 2 {
					return true
				}
				var sets []string
				for k, m := range sides {
					var ss []string
					for s := range m {
						ss = append(ss, s)
					}
					sortStrings(ss)
					sets = append(sets, k+":"+strings.Join(ss, ","))
				}
				sortStrings(sets)
				ok2 := true
				first := ""
				for i, s := range sets {
					v := s[strings.Index(s, ":")+1:]
					if i == 0 {
						first = v
					} else if v != first {
						ok2 = false
					}
				}
				out = append(out, SideSum{fd.Name.Name, b, p.NodeText(b), ok2, strings.Join(sets, " ")})
				return true
			})
		}
	}
	return out
}

// ExtremumUpdate is a guarded update `if … a < b … { c = a }` (single assignment, no else): the running minimum or
// maximum idiom. It is consistent when the variable compared with (b) is the variable updated (c).
type ExtremumUpdate struct {
	Func       string
	Stmt       *ast.IfStmt
	Text       string
	Consistent bool
	Compared   string
	Updated    string
}

// ExtremumUpdates lists the guarded updates of pkg.
func (p *Prog) ExtremumUpdates(pkg string, keep func(file string) bool) []ExtremumUpdate {
	pk := p.ByPath[pkg]
	if pk == nil {
		return nil
	}
	base := func(e ast.Expr) string {
		for {
			switch x := e.(type) {
			case *ast.ParenExpr:
				e = x.X
				continue
			case *ast.CallExpr:
				// x.V(), pr.Float(x), float64(x): value-preserving views
				if sel, ok := x.Fun.(*ast.SelectorExpr); ok && len(x.Args) == 0 && sel.Sel.Name == "V" {
					e = sel.X
					continue
				}
				if len(x.Args) == 1 {
					if _, isIdent := x.Fun.(*ast.Ident); isIdent {
						e = x.Args[0]
						continue
					}
					if sel, ok := x.Fun.(*ast.SelectorExpr); ok {
						if id, ok := sel.X.(*ast.Ident); ok && (id.Name == "pr" || id.Name == "utils") && (sel.Sel.Name == "Float" || sel.Sel.Name == "Fl") {
							e = x.Args[0]
							continue
						}
					}
				}
			}
			return p.NodeText(e)
		}
	}
	var out []ExtremumUpdate
	for _, f := range pk.Syntax {
		name := p.Fset.Position(f.Pos()).Filename
		if i := strings.LastIndex(name, "/"); i >= 0 {
			name = name[i+1:]
		}
		if strings.HasSuffix(name, "_test.go") || (keep != nil && !keep(name)) {
			continue
		}
		for _, d := range f.Decls {
			fd, ok := d.(*ast.FuncDecl)
			if !ok || fd.Body == nil {
				continue
			}
			ast.Inspect(fd.Body, func(n ast.Node) bool {
				ifs, ok := n.(*ast.IfStmt)
				if !ok || ifs.Else != nil || len(ifs.Body.List) != 1 {
					return true
				}
				as, ok := ifs.Body.List[0].(*ast.AssignStmt)
				if !ok || as.Tok.String() != "=" || len(as.Lhs) != 1 || len(as.Rhs) != 1 {
					return true
				}
				lhs, rhs := base(as.Lhs[0]), base(as.Rhs[0])
				if lhs == rhs {
					return true
				}
				// the comparisons of the condition (through && chains)
				var cmps []*ast.BinaryExpr
				var walk func(e ast.Expr)
				walk = func(e ast.Expr) {
					switch x := e.(type) {
					case *ast.ParenExpr:
						walk(x.X)
					case *ast.BinaryExpr:
						switch x.Op.String() {
						case "&&":
							walk(x.X)
							walk(x.Y)
						case "<", ">", "<=", ">=":
							cmps = append(cmps, x)
						}
					}
				}
				walk(ifs.Cond)
				for _, cmp := range cmps {
					a, b := base(cmp.X), base(cmp.Y)
					other := ""
					var otherExpr ast.Expr
					switch rhs {
					case a:
						other, otherExpr = b, cmp.Y
					case b:
						other, otherExpr = a, cmp.X
					default:
						continue
					}
					// a comparison with a constant is a range check before a conversion, not a running extremum
					if tv, ok := pk.TypesInfo.Types[otherExpr]; ok && tv.Value != nil {
						continue
					}
					out = append(out, ExtremumUpdate{fd.Name.Name, ifs, p.NodeText(ifs.Cond) + " { " + p.NodeText(as) + " }", other == lhs, other, lhs})
				}
				return true
			})
		}
	}
	return out
}

// SideAssign is one `lhs = rhs` pair (also inside a tuple assignment) where both sides carry a side of a box in their
// name: consistent when it is the same side.
type SideAssign struct {
	Func       string
	Pos        token.Pos
	Text       string
	Consistent bool
}

var sideWordRe = regexp.MustCompile(`(Left|Right|Top|Bottom)`)
var sideLetterRe = regexp.MustCompile(`[a-z](L|R|T|B)$`)

func sideOfName(n string) string {
	if m := sideWordRe.FindAllString(n, -1); len(m) == 1 {
		return m[0][:1]
	} else if len(m) > 1 {
		return ""
	}
	if m := sideLetterRe.FindStringSubmatch(n); m != nil {
		return m[1]
	}
	return ""
}

// SideAssigns lists them for a package.
func (p *Prog) SideAssigns(pkg string, keep func(file string) bool) []SideAssign {
	pk := p.ByPath[pkg]
	if pk == nil {
		return nil
	}
	nameOf := func(e ast.Expr) string {
		for {
			switch x := e.(type) {
			case *ast.ParenExpr:
				e = x.X
				continue
			case *ast.CallExpr:
				if sel, ok := x.Fun.(*ast.SelectorExpr); ok && len(x.Args) == 0 && sel.Sel.Name == "V" {
					e = sel.X
					continue
				}
			case *ast.SelectorExpr:
				return x.Sel.Name
			case *ast.Ident:
				return x.Name
			}
			return ""
		}
	}
	var out []SideAssign
	for _, f := range pk.Syntax {
		name := p.Fset.Position(f.Pos()).Filename
		if i := strings.LastIndex(name, "/"); i >= 0 {
			name = name[i+1:]
		}
		if strings.HasSuffix(name, "_test.go") || (keep != nil && !keep(name)) {
			continue
		}
		for _, d := range f.Decls {
			fd, ok := d.(*ast.FuncDecl)
			if !ok || fd.Body == nil {
				continue
			}
			ast.Inspect(fd.Body, func(n ast.Node) bool {
				as, ok := n.(*ast.AssignStmt)
				if !ok || len(as.Lhs) != len(as.Rhs) {
					return true
				}
				// only tuple assignments: `l1, l2 = r1, r2` is crossed when the sides of l1/r2 and l2/r1 agree and
				// those of l1/r1 do not (a single `MarginRight = MarginLeft` is how a box is centred)
				if len(as.Lhs) != 2 {
					return true
				}
				l1, l2 := sideOfName(nameOf(as.Lhs[0])), sideOfName(nameOf(as.Lhs[1]))
				r1, r2 := sideOfName(nameOf(as.Rhs[0])), sideOfName(nameOf(as.Rhs[1]))
				if l1 == "" || l2 == "" || r1 == "" || r2 == "" || l1 == l2 {
					return true
				}
				txt := nameOf(as.Lhs[0]) + ", " + nameOf(as.Lhs[1]) + " = " + nameOf(as.Rhs[0]) + ", " + nameOf(as.Rhs[1])
				out = append(out, SideAssign{fd.Name.Name, as.Pos(), txt, !(l1 == r2 && l2 == r1 && l1 != r1)})
				return true
			})
		}
	}
	return out
}
