package core

import (
	"fmt"
	"go/ast"
	"go/token"
	"go/types"
	"sort"

	"golang.org/x/tools/go/ssa"
)

// Engine F1: typestate of "the current path" of the drawing backend.
//
// States: E (no path under construction) and N (a path under construction). MoveTo/LineTo/CubicTo/Rectangle
// lead to N, Paint and Clip need N and lead to E (the backend clears the path), ClosePath keeps the state.
// The analysis is a forward may-analysis over each function's control-flow graph, run once per entry
// state; calls to module functions that (transitively) touch the path are followed through exit
// summaries, with the entry states of a function being the union of the states at its call sites
// (closures passed to OnNewStack are entered with the state at the OnNewStack call). One path is
// tracked: operations on different canvases are not distinguished.

type PathState uint8

const (
	PathE PathState = 1 << iota
	PathN
)

func (s PathState) String() string {
	switch s {
	case 0:
		return "{}"
	case PathE:
		return "{Empty}"
	case PathN:
		return "{NonEmpty}"
	}
	return "{Empty, NonEmpty}"
}

type PathAnalysis struct {
	P        *Prog
	Relevant map[*ssa.Function]bool
	Entry    map[*ssa.Function]PathState
	exit     map[*ssa.Function]*[2]PathState // exits when entered with E / with N
	SiteIn   map[ssa.Instruction]PathState   // incoming states of Paint / Clip sites
	Sites    []ssa.Instruction               // Paint / Clip sites, in function order
	Unknown  map[*ssa.Function]string        // why a function is entered with an unknown state
	// CaseSplit names the functions analysed once per value of an enum parameter
	CaseSplit map[*ssa.Function]string
	cases     map[*ssa.Function][]map[ssa.Value]bool
	nonEmpty  map[*ssa.Function]map[*ssa.BasicBlock]*Loop
}

var pathBuild = map[string]bool{"MoveTo": true, "LineTo": true, "CubicTo": true, "Rectangle": true}
var pathConsume = map[string]bool{"Paint": true, "Clip": true}

// canvasOp classifies an instruction: "build", "consume", "stack" (OnNewStack) or "".
func canvasOp(in ssa.Instruction) string {
	c, ok := in.(ssa.CallInstruction)
	if !ok || !c.Common().IsInvoke() {
		return ""
	}
	name := c.Common().Method.Name()
	recv := c.Common().Value.Type()
	n, isNamed := recv.(*types.Named)
	if !isNamed || n.Obj().Pkg() == nil || Rel(n.Obj().Pkg().Path()) != "backend" {
		return ""
	}
	switch {
	case pathBuild[name]:
		return "build"
	case pathConsume[name]:
		return "consume"
	case name == "OnNewStack":
		return "stack"
	}
	return ""
}

// NewPathAnalysis runs the analysis over the module.
func NewPathAnalysis(p *Prog) *PathAnalysis {
	a := &PathAnalysis{P: p, Relevant: map[*ssa.Function]bool{}, Entry: map[*ssa.Function]PathState{}, exit: map[*ssa.Function]*[2]PathState{},
		SiteIn: map[ssa.Instruction]PathState{}, Unknown: map[*ssa.Function]string{}}
	// directly relevant functions
	for _, fn := range p.ModFuncs {
		Instrs(fn, func(in ssa.Instruction) {
			switch canvasOp(in) {
			case "build":
				a.Relevant[fn] = true
			case "consume":
				a.Relevant[fn] = true
				a.Sites = append(a.Sites, in)
			}
		})
	}
	// callers, transitively (static calls, closures created in the function, interface calls through CHA)
	cha := p.CHA()
	for changed := true; changed; {
		changed = false
		for _, fn := range p.ModFuncs {
			if a.Relevant[fn] {
				continue
			}
			for _, g := range a.callees(fn, cha) {
				if a.Relevant[g] {
					a.Relevant[fn] = true
					changed = true
					break
				}
			}
		}
	}
	// entry states: functions with no analysed call site are entered with an unknown state
	called := map[*ssa.Function]bool{}
	for _, fn := range p.ModFuncs {
		if !a.Relevant[fn] {
			continue
		}
		Instrs(fn, func(in ssa.Instruction) {
			for _, g := range a.siteCallees(in, cha) {
				called[g] = true
			}
		})
	}
	for fn := range a.Relevant {
		if !called[fn] {
			a.Entry[fn] = PathE | PathN
			a.Unknown[fn] = "no call site in the module (entry point, or only called through a function value)"
		}
		a.exit[fn] = &[2]PathState{}
	}
	for _, fn := range p.ModFuncs {
		if !a.Relevant[fn] {
			continue
		}
		// a function whose address is taken outside OnNewStack may be entered with any state
		Instrs(fn, func(in ssa.Instruction) {
			for _, op := range in.Operands(nil) {
				var g *ssa.Function
				switch x := (*op).(type) {
				case *ssa.Function:
					g = x
				case *ssa.MakeClosure:
					g, _ = x.Fn.(*ssa.Function)
				}
				if g == nil || !a.Relevant[g] {
					continue
				}
				if c, ok := in.(ssa.CallInstruction); ok {
					if c.Common().Value == *op && !c.Common().IsInvoke() {
						continue // direct call
					}
					if canvasOp(in) == "stack" {
						continue
					}
				}
				if _, isMC := in.(*ssa.MakeClosure); isMC {
					continue // the closure value itself; its uses are examined where it flows
				}
				a.Entry[g] = PathE | PathN
				a.Unknown[g] = "its value is passed to " + CalleeName(in) + " in " + FuncName(fn)
			}
		})
	}
	for iter := 0; iter < 50; iter++ {
		changed := false
		for _, fn := range p.ModFuncs {
			if !a.Relevant[fn] {
				continue
			}
			for bit := 0; bit < 2; bit++ {
				s := PathState(1 << bit)
				if a.Entry[fn]&s == 0 {
					continue
				}
				if a.flow(fn, s, bit, cha) {
					changed = true
				}
			}
		}
		if !changed {
			break
		}
	}
	return a
}

func (a *PathAnalysis) callees(fn *ssa.Function, cha interface{}) []*ssa.Function {
	var out []*ssa.Function
	Instrs(fn, func(in ssa.Instruction) {
		out = append(out, a.siteCallees(in, cha)...)
		if mc, ok := in.(*ssa.MakeClosure); ok {
			if g, ok := mc.Fn.(*ssa.Function); ok {
				out = append(out, g)
			}
		}
	})
	return out
}

// siteCallees: the module functions an instruction may enter (static callee, closure passed to OnNewStack, CHA targets
// of an interface call that is not a canvas operation).
func (a *PathAnalysis) siteCallees(in ssa.Instruction, _ interface{}) []*ssa.Function {
	c, ok := in.(ssa.CallInstruction)
	if !ok {
		return nil
	}
	if canvasOp(in) == "stack" {
		if g := closureOf(c.Common().Args[0]); g != nil {
			return []*ssa.Function{g}
		}
		return nil
	}
	if canvasOp(in) != "" {
		return nil
	}
	if g := c.Common().StaticCallee(); g != nil {
		if IsModFunc(g) {
			return []*ssa.Function{g}
		}
		return nil
	}
	if c.Common().IsInvoke() {
		var out []*ssa.Function
		if node := a.P.CHA().Nodes[in.Parent()]; node != nil {
			for _, e := range node.Out {
				if e.Site == c && e.Callee.Func != nil && IsModFunc(e.Callee.Func) {
					out = append(out, e.Callee.Func)
				}
			}
		}
		return out
	}
	// call of a function value: a local closure
	if g := closureOf(c.Common().Value); g != nil {
		return []*ssa.Function{g}
	}
	return nil
}

func closureOf(v ssa.Value) *ssa.Function {
	switch x := v.(type) {
	case *ssa.MakeClosure:
		g, _ := x.Fn.(*ssa.Function)
		return g
	case *ssa.Function:
		return x
	}
	return nil
}

// nonEmptyRangeHeaders: headers of `for … range S` loops that run at least once because a test len(S) == 0 (or != 0)
// keeps control away from the loop when S is empty.
func nonEmptyRangeHeaders(fn *ssa.Function) map[*ssa.BasicBlock]*Loop {
	out := map[*ssa.BasicBlock]*Loop{}
	for _, l := range Loops(fn) {
		h := l.Header
		ifi, ok := h.Instrs[len(h.Instrs)-1].(*ssa.If)
		if !ok {
			continue
		}
		cmp, ok := ifi.Cond.(*ssa.BinOp)
		if !ok || cmp.Op != token.LSS {
			continue
		}
		lenCall, ok := cmp.Y.(*ssa.Call)
		if !ok {
			continue
		}
		if bi, ok := lenCall.Call.Value.(*ssa.Builtin); !ok || bi.Name() != "len" {
			continue
		}
		// the counter starts at -1 and the test is on counter+1 (go/ssa's range loop), or starts at 0
		for _, a := range CondAtoms(fn) {
			bo, ok := a.(*ssa.BinOp)
			if !ok || (bo.Op != token.EQL && bo.Op != token.NEQ) {
				continue
			}
			if z, ok := ConstInt(bo.Y); !ok || z != 0 || !sameValue(bo.X, lenCall) {
				continue
			}
			if !ForwardReach(fn.Blocks[0], map[ssa.Value]bool{a: bo.Op == token.EQL}, nil)[h] {
				out[h] = l
			}
		}
	}
	return out
}

// flow runs the intraprocedural analysis of fn entered with state s; returns whether anything changed globally.
func (a *PathAnalysis) flow(fn *ssa.Function, s PathState, bit int, cha interface{}) bool {
	changed := false
	cases := a.paramCases(fn)
	nonEmpty := a.nonEmptyOf(fn)
	var exit PathState
	for _, assign := range cases {
		type edge struct{ from, to *ssa.BasicBlock }
		edgeIn := map[edge]PathState{}
		in := map[*ssa.BasicBlock]PathState{fn.Blocks[0]: s}
		work := []*ssa.BasicBlock{fn.Blocks[0]}
		for len(work) > 0 {
			b := work[len(work)-1]
			work = work[:len(work)-1]
			st := in[b]
			for _, ins := range b.Instrs {
				switch canvasOp(ins) {
				case "build":
					st = PathN
					continue
				case "consume":
					if a.SiteIn[ins]|st != a.SiteIn[ins] {
						a.SiteIn[ins] |= st
						changed = true
					}
					st = PathE
					continue
				}
				c, isCall := ins.(ssa.CallInstruction)
				if !isCall {
					if _, isRet := ins.(*ssa.Return); isRet {
						exit |= st
					}
					continue
				}
				if _, isDefer := ins.(*ssa.Defer); isDefer {
					continue
				}
				callees := a.siteCallees(ins, cha)
				var rel []*ssa.Function
				for _, g := range callees {
					if a.Relevant[g] {
						rel = append(rel, g)
					}
				}
				if canvasOp(ins) == "stack" && len(callees) == 0 {
					st = PathE | PathN // an unknown function runs on the canvas
					continue
				}
				if len(rel) == 0 {
					// a call of an unknown function value that receives a canvas may do anything with the path
					if c.Common().StaticCallee() == nil && !c.Common().IsInvoke() && closureOf(c.Common().Value) == nil && passesCanvas(c.Common()) {
						st = PathE | PathN
					}
					continue
				}
				var out PathState
				for _, g := range rel {
					if a.Entry[g]|st != a.Entry[g] {
						a.Entry[g] |= st
						changed = true
					}
					for bb := 0; bb < 2; bb++ {
						if st&(1<<bb) != 0 {
							out |= a.exit[g][bb]
						}
					}
				}
				// interface calls may also reach implementations that leave the path alone
				if len(rel) < len(callees) {
					out |= st
				}
				st = out
				if st == 0 {
					break // callee summary not available yet: bottom
				}
			}
			if st == 0 {
				continue
			}
			for i, succ := range b.Succs {
				if !edgeFeasible(b, i, assign) {
					continue
				}
				out := st
				if l, ok := nonEmpty[b]; ok && !l.Blocks[succ] {
					// the loop runs at least once: the exit is only taken after an iteration
					out = 0
					for j, pred := range b.Preds {
						_ = j
						if l.Blocks[pred] {
							out |= edgeIn[edge{pred, b}]
						}
					}
					if out == 0 {
						continue
					}
				}
				edgeIn[edge{b, succ}] |= out
				if in[succ]|out != in[succ] {
					in[succ] |= out
					work = append(work, succ)
				} else if _, isHeader := nonEmpty[succ]; isHeader {
					work = append(work, succ)
				}
			}
		}
	}
	if a.exit[fn][bit]|exit != a.exit[fn][bit] {
		a.exit[fn][bit] |= exit
		changed = true
	}
	return changed
}

// edgeFeasible: the i-th successor edge of b is consistent with the assignment of If-condition atoms.
func edgeFeasible(b *ssa.BasicBlock, i int, assign map[ssa.Value]bool) bool {
	if len(assign) == 0 || len(b.Succs) != 2 {
		return true
	}
	ifi, ok := b.Instrs[len(b.Instrs)-1].(*ssa.If)
	if !ok {
		return true
	}
	atom, neg := normCond(ifi.Cond)
	truth, has := assign[atom]
	if !has {
		return true
	}
	taken := 0
	if truth == neg {
		taken = 1
	}
	return i == taken
}

func (a *PathAnalysis) nonEmptyOf(fn *ssa.Function) map[*ssa.BasicBlock]*Loop {
	if a.nonEmpty == nil {
		a.nonEmpty = map[*ssa.Function]map[*ssa.BasicBlock]*Loop{}
	}
	if m, ok := a.nonEmpty[fn]; ok {
		return m
	}
	m := nonEmptyRangeHeaders(fn)
	a.nonEmpty[fn] = m
	return m
}

// paramCases splits the analysis of fn on the value of an enum-typed parameter that fn compares with constants, when
// every call site passes one of a small set of constants: one assignment of the comparison atoms per value. Functions
// without such a parameter have the single empty assignment.
func (a *PathAnalysis) paramCases(fn *ssa.Function) []map[ssa.Value]bool {
	if a.cases == nil {
		a.cases = map[*ssa.Function][]map[ssa.Value]bool{}
		a.CaseSplit = map[*ssa.Function]string{}
	}
	if c, ok := a.cases[fn]; ok {
		return c
	}
	out := []map[ssa.Value]bool{{}}
	for _, par := range fn.Params {
		n, ok := par.Type().(*types.Named)
		if !ok {
			continue
		}
		if b, ok := n.Underlying().(*types.Basic); !ok || b.Info()&types.IsInteger == 0 {
			continue
		}
		type cmp struct {
			atom ssa.Value
			c    int64
			eq   bool
		}
		var cmps []cmp
		for _, at := range CondAtoms(fn) {
			bo, ok := at.(*ssa.BinOp)
			if !ok || (bo.Op != token.EQL && bo.Op != token.NEQ) || (bo.X != ssa.Value(par) && ResolveLoad(bo.X) != ssa.Value(par)) {
				continue
			}
			if k, ok := ConstInt(bo.Y); ok {
				cmps = append(cmps, cmp{at, k, bo.Op == token.EQL})
			}
		}
		if len(cmps) == 0 {
			continue
		}
		set, ok := a.P.IntArgSet(fn, par)
		if !ok || len(set) == 0 || len(set) > 8 {
			continue
		}
		out = nil
		var vals []int64
		for v := range set {
			vals = append(vals, v)
		}
		sort.Slice(vals, func(i, j int) bool { return vals[i] < vals[j] })
		for _, v := range vals {
			assign := map[ssa.Value]bool{}
			for _, c := range cmps {
				assign[c.atom] = (c.c == v) == c.eq
			}
			out = append(out, assign)
		}
		a.CaseSplit[fn] = fmt.Sprintf("parameter %s ∈ %v at every call site", par.Name(), vals)
		break
	}
	a.cases[fn] = out
	return out
}

// IntArgSet computes the set of integer constants every static call site of fn passes for parameter par: constants,
// elements of a package-level array literal of constants, and variables captured by a closure whose every store is one of
// those. ok=false when some call site passes anything else (or fn's address is taken).
func (p *Prog) IntArgSet(fn *ssa.Function, par *ssa.Parameter) (map[int64]bool, bool) {
	idx := -1
	for i, q := range fn.Params {
		if q == par {
			idx = i
		}
	}
	node := p.CHA().Nodes[fn]
	if idx < 0 || node == nil || len(node.In) == 0 {
		return nil, false
	}
	out := map[int64]bool{}
	var valueSet func(v ssa.Value, depth int) bool
	valueSet = func(v ssa.Value, depth int) bool {
		if depth > 6 {
			return false
		}
		if k, ok := ConstInt(v); ok {
			out[k] = true
			return true
		}
		switch x := v.(type) {
		case *ssa.UnOp:
			if x.Op != token.MUL {
				return false
			}
			switch ad := x.X.(type) {
			case *ssa.IndexAddr:
				if g, ok := ad.X.(*ssa.Global); ok {
					return p.globalIntElems(g, out)
				}
				// element of a local copy of a global array / range over a global array
				return valueSet(ad.X, depth+1)
			case *ssa.Alloc:
				return allocStores(ad, func(val ssa.Value) bool { return valueSet(val, depth+1) })
			case *ssa.FreeVar:
				return freeVarBindings(ad, func(val ssa.Value) bool { return valueSet(val, depth+1) })
			case *ssa.Global:
				return p.globalIntElems(ad, out)
			}
		case *ssa.Alloc:
			return allocStores(x, func(val ssa.Value) bool { return valueSet(val, depth+1) })
		case *ssa.FreeVar:
			return freeVarBindings(x, func(val ssa.Value) bool { return valueSet(val, depth+1) })
		case *ssa.Index:
			return valueSet(x.X, depth+1)
		case *ssa.Phi:
			for _, e := range x.Edges {
				if !valueSet(e, depth+1) {
					return false
				}
			}
			return true
		case *ssa.Extract:
			// range over an array: next(iter) — not used for arrays by go/ssa
			return false
		}
		return false
	}
	for _, e := range node.In {
		if e.Site == nil || e.Site.Common().StaticCallee() != fn {
			return nil, false
		}
		if !IsModFunc(e.Caller.Func) {
			continue
		}
		if idx >= len(e.Site.Common().Args) || !valueSet(e.Site.Common().Args[idx], 0) {
			return nil, false
		}
	}
	return out, true
}

// allocStores applies f to every value stored into the local variable (whole-variable stores only).
func allocStores(al *ssa.Alloc, f func(ssa.Value) bool) bool {
	if al.Referrers() == nil {
		return false
	}
	n := 0
	for _, r := range *al.Referrers() {
		switch x := r.(type) {
		case *ssa.Store:
			if x.Addr == ssa.Value(al) {
				n++
				if !f(x.Val) {
					return false
				}
			}
		case *ssa.UnOp, *ssa.DebugRef, *ssa.MakeClosure, *ssa.IndexAddr:
		default:
			return false
		}
	}
	return n > 0
}

// freeVarBindings applies f to the variable each closure creation binds to the free variable.
func freeVarBindings(fv *ssa.FreeVar, f func(ssa.Value) bool) bool {
	fn := fv.Parent()
	idx := -1
	for i, x := range fn.FreeVars {
		if x == fv {
			idx = i
		}
	}
	if idx < 0 || fn.Parent() == nil {
		return false
	}
	n := 0
	ok := true
	Instrs(fn.Parent(), func(in ssa.Instruction) {
		mc, isMC := in.(*ssa.MakeClosure)
		if !isMC || mc.Fn != ssa.Value(fn) || idx >= len(mc.Bindings) {
			return
		}
		n++
		if !f(mc.Bindings[idx]) {
			ok = false
		}
	})
	return ok && n > 0
}

// globalIntElems adds the constants of the array/slice literal initialising a package-level variable.
func (p *Prog) globalIntElems(g *ssa.Global, out map[int64]bool) bool {
	if g.Pkg == nil {
		return false
	}
	rel := Rel(g.Pkg.Pkg.Path())
	init := p.VarInit(rel, g.Name())
	info := p.Info(rel)
	cl, ok := init.(*ast.CompositeLit)
	if !ok || info == nil {
		return false
	}
	vals, ok := IntElems(info, cl)
	if !ok {
		return false
	}
	// the variable must never be written outside its initialisation
	for _, fn := range p.ModFuncs {
		bad := false
		Instrs(fn, func(in ssa.Instruction) {
			if st, ok := in.(*ssa.Store); ok && !IsInitFunc(fn) {
				addr := st.Addr
				for {
					switch x := addr.(type) {
					case *ssa.IndexAddr:
						addr = x.X
						continue
					case *ssa.FieldAddr:
						addr = x.X
						continue
					}
					break
				}
				if addr == ssa.Value(g) {
					bad = true
				}
			}
		})
		if bad {
			return false
		}
	}
	for _, v := range vals {
		out[v] = true
	}
	return true
}

func passesCanvas(c *ssa.CallCommon) bool {
	for _, arg := range c.Args {
		if n, ok := arg.Type().(*types.Named); ok && n.Obj().Pkg() != nil && Rel(n.Obj().Pkg().Path()) == "backend" && n.Obj().Name() == "Canvas" {
			return true
		}
	}
	return false
}
