package core

import (
	"go/ast"
	"go/types"
	"strings"
)

// Engine S2: argument / parameter name agreement.
//
// A call passes two arguments of the same type; each argument is an identifier (or a field selection) whose name is
// the name of a parameter of the callee. When both names sit at their own parameter's position the pair is *aligned*;
// when each sits at the other's position the pair is *crossed*: `place(height, width)` for `func place(width, height)`.
// On the tree this rule was written for there are several hundred aligned pairs and no crossed one, so a crossed pair
// is reported as swapped arguments.

type ArgPair struct {
	Func    string // enclosing function
	Call    *ast.CallExpr
	Text    string
	I, J    int
	Crossed bool
}

func normName(s string) string { return strings.ToLower(strings.TrimRight(s, "_")) }

// ArgPairs lists the aligned and crossed pairs of the package files accepted by keep.
func (p *Prog) ArgPairs(pkg string, keep func(file string) bool) []ArgPair {
	pk := p.ByPath[pkg]
	if pk == nil {
		return nil
	}
	var out []ArgPair
	for _, f := range pk.Syntax {
		name := p.Fset.Position(f.Pos()).Filename
		if i := strings.LastIndex(name, "/"); i >= 0 {
			name = name[i+1:]
		}
		if strings.HasSuffix(name, "_test.go") || (keep != nil && !keep(name)) {
			continue
		}
		for _, d := range f.Decls {
			fd, ok := d.(*ast.FuncDecl)
			if !ok || fd.Body == nil {
				continue
			}
			ast.Inspect(fd.Body, func(n ast.Node) bool {
				call, ok := n.(*ast.CallExpr)
				if !ok {
					return true
				}
				var sig *types.Signature
				switch fun := call.Fun.(type) {
				case *ast.Ident:
					if o, ok := pk.TypesInfo.Uses[fun].(*types.Func); ok {
						sig, _ = o.Type().(*types.Signature)
					}
				case *ast.SelectorExpr:
					if o, ok := pk.TypesInfo.Uses[fun.Sel].(*types.Func); ok {
						sig, _ = o.Type().(*types.Signature)
					}
				}
				if sig == nil || sig.Variadic() || sig.Params().Len() != len(call.Args) {
					return true
				}
				pn := make([]string, len(call.Args))
				an := make([]string, len(call.Args))
				for i, a := range call.Args {
					pn[i] = normName(sig.Params().At(i).Name())
					switch x := a.(type) {
					case *ast.Ident:
						an[i] = normName(x.Name)
					case *ast.SelectorExpr:
						an[i] = normName(x.Sel.Name)
					}
				}
				for i := range an {
					for j := i + 1; j < len(an); j++ {
						if an[i] == "" || an[j] == "" || pn[i] == "" || pn[j] == "" || pn[i] == "_" || pn[j] == "_" || pn[i] == pn[j] || an[i] == an[j] {
							continue
						}
						if !types.Identical(sig.Params().At(i).Type(), sig.Params().At(j).Type()) {
							continue
						}
						aligned := an[i] == pn[i] && an[j] == pn[j]
						crossed := an[i] == pn[j] && an[j] == pn[i]
						if aligned || crossed {
							out = append(out, ArgPair{fd.Name.Name, call, p.NodeText(call), i, j, crossed})
						}
					}
				}
				return true
			})
		}
	}
	return out
}
