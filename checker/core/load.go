// Package core holds what every rule needs: loading the type-checked program
// of /repo's working tree, SSA, call graphs, symbol lookup by role or name, and
// the obligation / evidence / known-finding plumbing.
package core

import (
	"fmt"
	"go/ast"
	"go/token"
	"go/types"
	"os"
	"sort"
	"strings"
	"sync"

	"golang.org/x/tools/go/callgraph"
	"golang.org/x/tools/go/callgraph/cha"
	"golang.org/x/tools/go/callgraph/vta"
	"golang.org/x/tools/go/packages"
	"golang.org/x/tools/go/ssa"
	"golang.org/x/tools/go/ssa/ssautil"
)

const ModPath = "github.com/benoitkugler/webrender"

// Prog is the loaded program.
type Prog struct {
	Dir      string
	Fset     *token.FileSet
	Pkgs     []*packages.Package          // module packages only
	ByPath   map[string]*packages.Package // keyed by path relative to the module ("css/parser")
	AllPkgs  map[string]*packages.Package // every loaded package, by full path
	SSA      *ssa.Program
	SSAPkg   map[string]*ssa.Package // by relative path
	AllFuncs map[*ssa.Function]bool
	ModFuncs []*ssa.Function // functions (incl. anonymous) whose package is in the module, sorted

	declOnce sync.Once
	decls    map[types.Object]*ast.FuncDecl

	globalFuncsOnce sync.Once
	globalFuncs     map[*ssa.Global][]*ssa.Function

	cgOnce  sync.Once
	chaG    *callgraph.Graph
	vtaOnce sync.Once
	vtaG    *callgraph.Graph
}

// Rel gives the module-relative path of a package path ("" for the root).
func Rel(path string) string {
	if path == ModPath {
		return ""
	}
	return strings.TrimPrefix(path, ModPath+"/")
}

// InModule reports whether the package path belongs to the analysed module.
func InModule(path string) bool {
	return path == ModPath || strings.HasPrefix(path, ModPath+"/")
}

// Load type-checks the module at dir (working tree, not a snapshot) and
// builds SSA for it and its dependencies.
func Load(dir string) (*Prog, error) { return LoadEnv(dir) }

// LoadEnv is Load with extra environment settings for the go command (GOARCH=…, GOOS=…), so that the rules can be
// run on the program another platform builds.
func LoadEnv(dir string, extra ...string) (*Prog, error) {
	os.Unsetenv("GOWORK")
	env := append(os.Environ(), "GOFLAGS=-mod=mod", "GOPROXY=off", "GOSUMDB=off", "GOTOOLCHAIN=local", "GOWORK=off")
	env = append(env, extra...)
	cfg := &packages.Config{
		Mode:  packages.LoadAllSyntax,
		Dir:   dir,
		Env:   env,
		Tests: false,
	}
	pkgs, err := packages.Load(cfg, "./...")
	if err != nil {
		return nil, err
	}
	p := &Prog{Dir: dir, ByPath: map[string]*packages.Package{}, AllPkgs: map[string]*packages.Package{}, SSAPkg: map[string]*ssa.Package{}}
	var errs []string
	packages.Visit(pkgs, nil, func(pk *packages.Package) {
		p.AllPkgs[pk.PkgPath] = pk
		if InModule(pk.PkgPath) {
			for _, e := range pk.Errors {
				errs = append(errs, e.Error())
			}
		}
	})
	if len(errs) > 0 {
		sort.Strings(errs)
		return nil, fmt.Errorf("type errors in /repo: %s", strings.Join(errs, "; "))
	}
	for _, pk := range pkgs {
		if InModule(pk.PkgPath) {
			p.Pkgs = append(p.Pkgs, pk)
			p.ByPath[Rel(pk.PkgPath)] = pk
			p.Fset = pk.Fset
		}
	}
	sort.Slice(p.Pkgs, func(i, j int) bool { return p.Pkgs[i].PkgPath < p.Pkgs[j].PkgPath })
	if len(p.Pkgs) < 20 {
		return nil, fmt.Errorf("only %d module packages loaded (expected >= 20)", len(p.Pkgs))
	}
	prog, ssapkgs := ssautil.AllPackages(pkgs, ssa.InstantiateGenerics)
	prog.Build()
	p.SSA = prog
	for i, sp := range ssapkgs {
		if sp != nil && InModule(pkgs[i].PkgPath) {
			p.SSAPkg[Rel(pkgs[i].PkgPath)] = sp
		}
	}
	p.AllFuncs = ssautil.AllFunctions(prog)
	for fn := range p.AllFuncs {
		if fn.Pkg != nil && InModule(fn.Pkg.Pkg.Path()) && fn.Synthetic == "" {
			p.ModFuncs = append(p.ModFuncs, fn)
		} else if fn.Pkg == nil && fn.Parent() != nil {
			// anonymous functions always have Pkg set; nothing to do
		}
	}
	sort.Slice(p.ModFuncs, func(i, j int) bool {
		a, b := p.ModFuncs[i], p.ModFuncs[j]
		if a.Pkg.Pkg.Path() != b.Pkg.Pkg.Path() {
			return a.Pkg.Pkg.Path() < b.Pkg.Pkg.Path()
		}
		if a.Pos() != b.Pos() {
			return a.Pos() < b.Pos()
		}
		return a.String() < b.String()
	})
	return p, nil
}

// Pos renders a position relative to the repo root.
func (p *Prog) Pos(pos token.Pos) string {
	if !pos.IsValid() {
		return "-"
	}
	ps := p.Fset.Position(pos)
	f := strings.TrimPrefix(ps.Filename, p.Dir+"/")
	return fmt.Sprintf("%s:%d", f, ps.Line)
}

// FuncName is a stable, line-free name: "css/parser.(*tokenizer).isIdentStart".
func FuncName(fn *ssa.Function) string {
	if fn == nil {
		return "<nil>"
	}
	if fn.Parent() != nil {
		return FuncName(fn.Parent()) + "$" + strings.TrimPrefix(fn.Name(), fn.Parent().Name()+"$")
	}
	pkg := ""
	if fn.Pkg != nil {
		pkg = Rel(fn.Pkg.Pkg.Path())
	}
	if recv := fn.Signature.Recv(); recv != nil {
		t := recv.Type()
		ptr := ""
		if pt, ok := t.(*types.Pointer); ok {
			t = pt.Elem()
			ptr = "*"
		}
		name := t.String()
		if n, ok := t.(*types.Named); ok {
			name = n.Obj().Name()
			if n.Obj().Pkg() != nil {
				pkg = Rel(n.Obj().Pkg().Path())
			}
		}
		if ptr != "" {
			return fmt.Sprintf("%s.(*%s).%s", pkg, name, fn.Name())
		}
		return fmt.Sprintf("%s.%s.%s", pkg, name, fn.Name())
	}
	return pkg + "." + fn.Name()
}

// Fn finds a package-level function. nil if absent.
func (p *Prog) Fn(pkg, name string) *ssa.Function {
	sp := p.SSAPkg[pkg]
	if sp == nil {
		return nil
	}
	return sp.Func(name)
}

// Method finds the method `name` on named type `typ` (value or pointer receiver).
func (p *Prog) Method(pkg, typ, name string) *ssa.Function {
	pk := p.ByPath[pkg]
	if pk == nil {
		return nil
	}
	obj := pk.Types.Scope().Lookup(typ)
	if obj == nil {
		return nil
	}
	for _, t := range []types.Type{obj.Type(), types.NewPointer(obj.Type())} {
		ms := p.SSA.MethodSets.MethodSet(t)
		for i := 0; i < ms.Len(); i++ {
			sel := ms.At(i)
			if sel.Obj().Name() == name {
				fn := p.SSA.MethodValue(sel)
				if fn != nil && fn.Synthetic != "" {
					// wrapper: find the declared one
					if f := p.SSA.FuncValue(sel.Obj().(*types.Func)); f != nil {
						return f
					}
				}
				return fn
			}
		}
	}
	return nil
}

// Lookup resolves "pkg.Name", "pkg.Type.Method" or "pkg.(*Type).Method".
func (p *Prog) Lookup(full string) *ssa.Function {
	// anonymous functions: name$1
	anon := ""
	if i := strings.Index(full, "$"); i >= 0 {
		anon = full[i+1:]
		full = full[:i]
	}
	var fn *ssa.Function
	if i := strings.Index(full, ".("); i >= 0 {
		pkg := full[:i]
		rest := full[i+2:]
		j := strings.Index(rest, ").")
		typ := strings.TrimPrefix(rest[:j], "*")
		fn = p.Method(pkg, typ, rest[j+2:])
	} else {
		i := strings.LastIndex(full, ".")
		if i < 0 {
			return nil
		}
		pkg, name := full[:i], full[i+1:]
		if p.SSAPkg[pkg] != nil {
			fn = p.Fn(pkg, name)
		} else if k := strings.LastIndex(pkg, "."); k >= 0 {
			fn = p.Method(pkg[:k], pkg[k+1:], name)
		}
	}
	if fn == nil || anon == "" {
		return fn
	}
	for _, part := range strings.Split(anon, "$") {
		var next *ssa.Function
		for _, a := range fn.AnonFuncs {
			if strings.TrimPrefix(a.Name(), fn.Name()+"$") == part {
				next = a
			}
		}
		if next == nil {
			return nil
		}
		fn = next
	}
	return fn
}

// Obj finds a package-level object.
func (p *Prog) Obj(pkg, name string) types.Object {
	pk := p.ByPath[pkg]
	if pk == nil {
		return nil
	}
	return pk.Types.Scope().Lookup(name)
}

// Global finds an SSA global.
func (p *Prog) Global(pkg, name string) *ssa.Global {
	sp := p.SSAPkg[pkg]
	if sp == nil {
		return nil
	}
	g, _ := sp.Members[name].(*ssa.Global)
	return g
}

// PkgOf returns the packages.Package holding fn.
func (p *Prog) PkgOf(fn *ssa.Function) *packages.Package {
	if fn == nil || fn.Pkg == nil {
		return nil
	}
	return p.AllPkgs[fn.Pkg.Pkg.Path()]
}

// Decl returns the FuncDecl of a declared function / method.
func (p *Prog) Decl(fn *ssa.Function) *ast.FuncDecl {
	p.declOnce.Do(func() {
		p.decls = map[types.Object]*ast.FuncDecl{}
		for _, pk := range p.Pkgs {
			for _, f := range pk.Syntax {
				for _, d := range f.Decls {
					if fd, ok := d.(*ast.FuncDecl); ok {
						if o := pk.TypesInfo.Defs[fd.Name]; o != nil {
							p.decls[o] = fd
						}
					}
				}
			}
		}
	})
	if fn == nil || fn.Object() == nil {
		return nil
	}
	return p.decls[fn.Object()]
}

// Info returns the types.Info of the module package.
func (p *Prog) Info(pkg string) *types.Info {
	if pk := p.ByPath[pkg]; pk != nil {
		return pk.TypesInfo
	}
	return nil
}

// VarDecl finds the initializer expression of a package-level variable.
func (p *Prog) VarInit(pkg, name string) ast.Expr {
	pk := p.ByPath[pkg]
	if pk == nil {
		return nil
	}
	for _, f := range pk.Syntax {
		for _, d := range f.Decls {
			gd, ok := d.(*ast.GenDecl)
			if !ok || gd.Tok != token.VAR {
				continue
			}
			for _, s := range gd.Specs {
				vs := s.(*ast.ValueSpec)
				for i, n := range vs.Names {
					if n.Name == name && i < len(vs.Values) {
						return vs.Values[i]
					}
				}
			}
		}
	}
	return nil
}

// CHA returns the class-hierarchy call graph (sound over-approximation).
func (p *Prog) CHA() *callgraph.Graph {
	p.cgOnce.Do(func() { p.chaG = cha.CallGraph(p.SSA) })
	return p.chaG
}

// VTA returns the variable-type-analysis call graph seeded by CHA.
func (p *Prog) VTA() *callgraph.Graph {
	p.vtaOnce.Do(func() { p.vtaG = vta.CallGraph(p.AllFuncs, p.CHA()) })
	return p.vtaG
}

// Reachable returns the module functions reachable from roots in g.
func (p *Prog) Reachable(g *callgraph.Graph, roots []*ssa.Function) map[*ssa.Function]bool {
	seen := map[*ssa.Function]bool{}
	var stack []*ssa.Function
	push := func(f *ssa.Function) {
		if f != nil && !seen[f] {
			seen[f] = true
			stack = append(stack, f)
		}
	}
	for _, r := range roots {
		push(r)
	}
	for len(stack) > 0 {
		f := stack[len(stack)-1]
		stack = stack[:len(stack)-1]
		// anonymous functions defined inside are considered reachable with their parent
		for _, a := range f.AnonFuncs {
			push(a)
		}
		if n := g.Nodes[f]; n != nil {
			for _, e := range n.Out {
				push(e.Callee.Func)
			}
		}
	}
	return seen
}

// IsModFunc reports whether fn is declared in the analysed module.
func IsModFunc(fn *ssa.Function) bool {
	for fn != nil && fn.Parent() != nil {
		fn = fn.Parent()
	}
	return fn != nil && fn.Pkg != nil && InModule(fn.Pkg.Pkg.Path())
}

// FuncsOfPkg lists the module functions of one package (incl. closures).
func (p *Prog) FuncsOfPkg(pkg string) []*ssa.Function {
	var out []*ssa.Function
	full := ModPath
	if pkg != "" {
		full += "/" + pkg
	}
	for _, f := range p.ModFuncs {
		if f.Pkg.Pkg.Path() == full {
			out = append(out, f)
		}
	}
	return out
}

// StaticReach returns the module functions reachable from roots through static calls, closures created
// (MakeClosure) and function values mentioned as operands (functions stored in tables or passed as arguments).
func (p *Prog) StaticReach(roots []*ssa.Function) map[*ssa.Function]bool {
	seen := map[*ssa.Function]bool{}
	var work []*ssa.Function
	push := func(f *ssa.Function) {
		if f != nil && !seen[f] && IsModFunc(f) && len(f.Blocks) > 0 {
			seen[f] = true
			work = append(work, f)
		}
	}
	for _, r := range roots {
		push(r)
	}
	for len(work) > 0 {
		f := work[len(work)-1]
		work = work[:len(work)-1]
		for _, a := range f.AnonFuncs {
			push(a)
		}
		Instrs(f, func(in ssa.Instruction) {
			for _, op := range in.Operands(nil) {
				if fn, ok := (*op).(*ssa.Function); ok {
					push(fn)
				}
				if mc, ok := (*op).(*ssa.MakeClosure); ok {
					push(mc.Fn.(*ssa.Function))
				}
			}
			if c, ok := in.(ssa.CallInstruction); ok {
				if callee := c.Common().StaticCallee(); callee != nil {
					push(callee)
				} else if c.Common().IsInvoke() {
					// interface call: the module's implementations of the method (class-hierarchy resolution)
					if n := p.CHA().Nodes[f]; n != nil {
						for _, e := range n.Out {
							if e.Site == c && IsModFunc(e.Callee.Func) {
								push(e.Callee.Func)
							}
						}
					}
				}
			}
			// uses of package-level tables of functions: every function stored in the table's initialiser
			for _, op := range in.Operands(nil) {
				if g, ok := (*op).(*ssa.Global); ok && g.Pkg != nil && InModule(g.Pkg.Pkg.Path()) {
					for _, tf := range p.funcsInGlobalInit(g) {
						push(tf)
					}
				}
			}
		})
	}
	return seen
}

// funcsInGlobalInit lists the functions stored into global g (and its elements) by the package initialiser.
func (p *Prog) funcsInGlobalInit(g *ssa.Global) []*ssa.Function {
	p.globalFuncsOnce.Do(func() {
		p.globalFuncs = map[*ssa.Global][]*ssa.Function{}
		for fn := range p.AllFuncs {
			if fn.Pkg == nil || !InModule(fn.Pkg.Pkg.Path()) || (fn.Synthetic != "package initializer" && fn.Name() != "init") {
				continue
			}
			Instrs(fn, func(in ssa.Instruction) {
				st, ok := in.(*ssa.Store)
				if !ok {
					return
				}
				// root global of the address
				addr := st.Addr
				for {
					switch x := addr.(type) {
					case *ssa.FieldAddr:
						addr = x.X
						continue
					case *ssa.IndexAddr:
						addr = x.X
						continue
					}
					break
				}
				gl, ok := addr.(*ssa.Global)
				if !ok {
					return
				}
				var collect func(v ssa.Value, d int)
				collect = func(v ssa.Value, d int) {
					if d > 4 {
						return
					}
					switch x := v.(type) {
					case *ssa.Function:
						p.globalFuncs[gl] = append(p.globalFuncs[gl], x)
					case *ssa.MakeClosure:
						p.globalFuncs[gl] = append(p.globalFuncs[gl], x.Fn.(*ssa.Function))
					case *ssa.Call:
						// genericExpander(names...)(f): the closure returned wraps f
						for _, a := range x.Call.Args {
							collect(a, d+1)
						}
						collect(x.Call.Value, d+1)
					case *ssa.ChangeType:
						collect(x.X, d+1)
					case *ssa.MakeInterface:
						collect(x.X, d+1)
					case *ssa.MakeMap:
						if x.Referrers() != nil {
							for _, r := range *x.Referrers() {
								if mu, ok := r.(*ssa.MapUpdate); ok {
									collect(mu.Value, d+1)
								}
							}
						}
					}
				}
				collect(st.Val, 0)
			})
		}
	})
	return p.globalFuncs[g]
}
