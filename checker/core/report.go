package core

import (
	"encoding/json"
	"fmt"
	"os"
	"path/filepath"
	"sort"
	"strings"
	"time"
)

// Status of one obligation.
type Status int

const (
	Discharged Status = iota
	Violated
	Undecided  // counts as violated (fail closed)
	NotDecided // named, counted, never reported (explicitly out of scope)
)

// Obligation is one (rule, construct) pair.
type Obligation struct {
	Rule      string `json:"rule"`
	Key       string `json:"key"` // line-free identity: func | construct | ordinal
	Pos       string `json:"pos"`
	Status    Status `json:"-"`
	StatusS   string `json:"status"`
	Fact      string `json:"fact"` // discharging fact, or what is missing
	Trivial   bool   `json:"-"`    // discharged vacuously (no fact needed)
	KnownWhat string `json:"known_finding,omitempty"`
}

// Rule groups obligations.
type Rule struct {
	ID    string
	Text  string
	Floor int // minimal number of instances confirmed by hand on the pinned tree
	check *Check
	obs   []*Obligation
	seen  map[string]int
}

// KnownFinding is an entry of /verif/known_findings.json.
type KnownFinding struct {
	Property  string `json:"property"`
	Rule      string `json:"rule"`
	Key       string `json:"key"`
	Status    string `json:"status"` // known | fixed
	Commit    string `json:"commit,omitempty"`
	WhatFails string `json:"what_fails"`
	Repro     string `json:"repro,omitempty"`
}

// Check is one run of one property's rules.
type Check struct {
	Property string
	Tier     string
	Seed     int
	Prog     *Prog
	Rules    []*Rule
	Known    []KnownFinding
	Extra    map[string]interface{}
	Assume   []string
	Explain  string
	start    time.Time
	LoadSecs float64
}

func NewCheck(prop, tier string, p *Prog, known []KnownFinding) *Check {
	return &Check{Property: prop, Tier: tier, Prog: p, Known: known, Extra: map[string]interface{}{}, start: time.Now()}
}

// Rule registers a rule.
func (c *Check) Rule(id, text string, floor int) *Rule {
	r := &Rule{ID: c.Property + "." + id, Text: text, Floor: floor, check: c, seen: map[string]int{}}
	c.Rules = append(c.Rules, r)
	return r
}

func (r *Rule) add(key, pos string, st Status, fact string, trivial bool) *Obligation {
	// keys are unique per rule: add an ordinal when a construct repeats
	r.seen[key]++
	if n := r.seen[key]; n > 1 {
		key = fmt.Sprintf("%s #%d", key, n)
	}
	o := &Obligation{Rule: r.ID, Key: key, Pos: pos, Status: st, Fact: fact, Trivial: trivial}
	r.obs = append(r.obs, o)
	return o
}

// OK records a discharged obligation with the fact that discharges it.
func (r *Rule) OK(key, pos, fact string) { r.add(key, pos, Discharged, fact, false) }

// Trivially records an obligation discharged without needing a fact.
func (r *Rule) Trivially(key, pos, fact string) { r.add(key, pos, Discharged, fact, true) }

// Fail records a violated obligation.
func (r *Rule) Fail(key, pos, missing string) { r.add(key, pos, Violated, missing, false) }

// Unknown records an obligation the rule could not decide (fails closed).
func (r *Rule) Unknown(key, pos, why string) { r.add(key, pos, Undecided, "undecided: "+why, false) }

// Skip names a site that is explicitly not decided (never reported).
func (r *Rule) Skip(key, pos, why string) { r.add(key, pos, NotDecided, why, true) }

// Cond is OK or Fail depending on ok.
func (r *Rule) Cond(ok bool, key, pos, fact, missing string) {
	if ok {
		r.OK(key, pos, fact)
	} else {
		r.Fail(key, pos, missing)
	}
}

// Anchor reports an unresolved anchor (a rule instance names something that is gone).
func (r *Rule) Anchor(what string) {
	r.add("anchor "+what, "-", Violated, "anchor unresolved: "+what+" (the rule can no longer find the construct it decides)", false)
}

// Count gives the number of obligations registered so far (excluding NotDecided).
func (r *Rule) Count() int {
	n := 0
	for _, o := range r.obs {
		if o.Status != NotDecided {
			n++
		}
	}
	return n
}

// LoadKnown reads the committed known-findings file.
func LoadKnown(path string) ([]KnownFinding, error) {
	b, err := os.ReadFile(path)
	if err != nil {
		if os.IsNotExist(err) {
			return nil, nil
		}
		return nil, err
	}
	var out struct {
		Findings []KnownFinding `json:"findings"`
	}
	if err := json.Unmarshal(b, &out); err != nil {
		return nil, err
	}
	return out.Findings, nil
}

type violation struct {
	Rule     string `json:"rule"`
	RuleText string `json:"rule_text"`
	Key      string `json:"key"`
	Pos      string `json:"pos"`
	Missing  string `json:"missing"`
}

// Finish writes evidence, prints findings, returns the exit code.
func (c *Check) Finish(verifDir string) int {
	var viols []violation
	var knownLines []string
	obligations, discharged, nontrivial, notDecided := 0, 0, 0, 0
	distinct := map[string]bool{}
	var samples []map[string]string
	ruleSummaries := []map[string]interface{}{}
	for _, r := range c.Rules {
		if r.Floor > 0 && r.Count() < r.Floor {
			r.add("instance-floor", "-", Violated,
				fmt.Sprintf("rule matched %d instances, fewer than the %d confirmed by hand on the pinned tree: the rule no longer sees the code it decides", r.Count(), r.Floor), false)
		}
		nOK, nBad, nSkip := 0, 0, 0
		perRuleSamples := 0
		for _, o := range r.obs {
			switch o.Status {
			case NotDecided:
				o.StatusS = "not-decided"
				notDecided++
				nSkip++
				continue
			case Discharged:
				o.StatusS = "discharged"
			case Violated:
				o.StatusS = "violated"
			case Undecided:
				o.StatusS = "undecided"
			}
			obligations++
			if o.Status == Discharged {
				discharged++
				nOK++
				if !o.Trivial && !distinct[o.Rule+"|"+o.Key] {
					distinct[o.Rule+"|"+o.Key] = true
					nontrivial++
				}
				if perRuleSamples < 3 && !o.Trivial {
					perRuleSamples++
					samples = append(samples, map[string]string{"rule": o.Rule, "construct": o.Key, "pos": o.Pos, "status": o.StatusS, "fact": o.Fact})
				}
				continue
			}
			nBad++
			// known finding?
			matched := false
			for _, k := range c.Known {
				if k.Status == "known" && k.Property == c.Property && k.Rule == o.Rule && k.Key == o.Key {
					matched = true
					o.KnownWhat = k.WhatFails
					knownLines = append(knownLines, fmt.Sprintf("KNOWN-FINDING: property=%s %s %s at %s: %s", c.Property, o.Rule, o.Key, o.Pos, k.WhatFails))
					samples = append(samples, map[string]string{"rule": o.Rule, "construct": o.Key, "pos": o.Pos, "status": "known-finding", "fact": o.Fact})
					break
				}
			}
			if !matched {
				viols = append(viols, violation{Rule: o.Rule, RuleText: r.Text, Key: o.Key, Pos: o.Pos, Missing: o.Fact})
			}
		}
		ruleSummaries = append(ruleSummaries, map[string]interface{}{
			"id": r.ID, "text": r.Text, "instance_floor": r.Floor, "instances": r.Count(),
			"discharged": nOK, "violated_or_undecided": nBad, "named_not_decided": nSkip,
		})
	}
	sort.Strings(knownLines)
	for _, l := range knownLines {
		fmt.Println(l)
	}
	wall := time.Since(c.start).Seconds() + c.LoadSecs
	cov := map[string]interface{}{
		"explanation":         c.Explain,
		"rule":                "one obligation per (rule, construct) pair found in /repo's type-checked working tree; an obligation is non-trivial when its discharge needed a fact (a dominating test, a table row, a computed set); distinct = distinct (rule, construct) keys",
		"obligations":         obligations,
		"discharged":          discharged,
		"evaluations":         obligations,
		"distinct_nontrivial": nontrivial,
		"named_not_decided":   notDecided,
		"samples":             samples,
		"rules":               ruleSummaries,
		"known_findings":      knownLines,
		"packages":            len(c.Prog.Pkgs),
		"functions_analysed":  len(c.Prog.ModFuncs),
		"checker_cmd":         fmt.Sprintf("bin/wrverif -property %s -tier %s", c.Property, c.Tier),
		"trusted_base":        []string{"go/packages, go/types, go/ssa (x/tools v0.29.0)", "the specification tables typed into checker/props", "the reasoned exception tables in checker/props (one named site + reason each)"},
		"exhaustive":          false,
	}
	for k, v := range c.Extra {
		cov[k] = v
	}
	if c.Assume == nil {
		c.Assume = []string{}
	}
	ev := map[string]interface{}{
		"property_id": c.Property,
		"tier":        c.Tier,
		"seed":        c.Seed,
		"level":       "other",
		"coverage":    cov,
		"assumptions": c.Assume,
		"wall_s":      wall,
		"violations":  len(viols),
	}
	evDir := filepath.Join(verifDir, "evidence")
	os.MkdirAll(evDir, 0o755)
	b, _ := json.MarshalIndent(ev, "", " ")
	evPath := filepath.Join(evDir, c.Property+".json")
	if err := os.WriteFile(evPath, append(b, '\n'), 0o644); err != nil {
		fmt.Fprintln(os.Stderr, "cannot write evidence:", err)
		return 2
	}
	fmt.Printf("%s tier=%s: %d obligations, %d discharged, %d known findings, %d violations, %d named not-decided (%.1fs)\n",
		c.Property, c.Tier, obligations, discharged, len(knownLines), len(viols), notDecided, wall)
	replay := filepath.Join(evDir, c.Property+".violations.json")
	if len(viols) == 0 {
		os.Remove(replay)
		return 0
	}
	lastRule := ""
	for _, v := range viols {
		if v.Rule != lastRule {
			fmt.Printf("%s rule: %s\n", v.Rule, strings.ReplaceAll(v.RuleText, "\n", " "))
			lastRule = v.Rule
		}
		fmt.Printf("  %s  %s\n    construct: %s\n    missing:   %s\n", v.Rule, v.Pos, v.Key, v.Missing)
	}
	vb, _ := json.MarshalIndent(map[string]interface{}{"property": c.Property, "tier": c.Tier, "violations": viols}, "", " ")
	os.WriteFile(replay, append(vb, '\n'), 0o644)
	fmt.Printf("VIOLATION property=%s replay=%s\n", c.Property, replay)
	return 1
}

// WriteLoadFailure records that nothing could be decided because /repo does not load.
func WriteLoadFailure(verifDir, id, tier string, seed int, loadErr error) {
	evDir := filepath.Join(verifDir, "evidence")
	os.MkdirAll(evDir, 0o755)
	replay := filepath.Join(evDir, id+".violations.json")
	vb, _ := json.MarshalIndent(map[string]interface{}{"property": id, "load_error": loadErr.Error()}, "", " ")
	os.WriteFile(replay, append(vb, '\n'), 0o644)
	ev := map[string]interface{}{
		"property_id": id, "tier": tier, "seed": seed, "level": "other",
		"coverage": map[string]interface{}{
			"explanation": "/repo could not be loaded and type-checked, so nothing was decided: " + loadErr.Error(),
			"obligations": 0, "discharged": 0,
		},
		"wall_s": 0.0, "violations": 1,
	}
	b, _ := json.MarshalIndent(ev, "", " ")
	os.WriteFile(filepath.Join(evDir, id+".json"), append(b, '\n'), 0o644)
	fmt.Printf("cannot load /repo: %v\n", loadErr)
	fmt.Printf("VIOLATION property=%s replay=%s\n", id, replay)
}

// CrossCheck compares the obligations of this check with those of the same rules run on another build configuration
// (thorough tier): an obligation that exists in one configuration only, or whose status differs, is recorded as
// undecided on this check — the verdict must not depend on the platform the analysis happened to load.
func (c *Check) CrossCheck(other *Check, config string) {
	type st struct {
		status Status
		fact   string
	}
	collect := func(x *Check) map[string]st {
		out := map[string]st{}
		for _, r := range x.Rules {
			for _, o := range r.obs {
				out[o.Rule+" | "+o.Key] = st{o.Status, o.Fact}
			}
		}
		return out
	}
	a, b := collect(c), collect(other)
	r := c.Rule("X", "thorough tier: the same rules decided on the program built for "+config+" give the same obligations with the same status (the verdict does not depend on the platform loaded)", 0)
	n, diff := 0, 0
	var keys []string
	for k := range a {
		keys = append(keys, k)
	}
	for k := range b {
		if _, ok := a[k]; !ok {
			keys = append(keys, k)
		}
	}
	sort.Strings(keys)
	for _, k := range keys {
		x, okA := a[k]
		y, okB := b[k]
		n++
		switch {
		case !okA:
			diff++
			r.Unknown("only on "+config+": "+k, "-", "this obligation exists only in the "+config+" build: "+y.fact)
		case !okB:
			diff++
			r.Unknown("missing on "+config+": "+k, "-", "this obligation does not exist in the "+config+" build")
		case x.status != y.status:
			diff++
			r.Unknown("differs on "+config+": "+k, "-", "status differs between the two builds; on "+config+": "+y.fact)
		}
	}
	if diff == 0 {
		r.OK(fmt.Sprintf("%d obligations compared with the %s build", n, config), "-", "same obligations, same status")
	}
	c.Extra["cross_config"] = config
	c.Extra["cross_config_obligations"] = n
}
