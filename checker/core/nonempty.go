package core

import (
	"fmt"
	"go/constant"
	"go/token"
	"go/types"

	"golang.org/x/tools/go/ssa"
)

// Engine D2: non-empty preconditions.
//
// A function that panics when a string or slice parameter is empty (`if len(p) == 0 { panic }`, `if p == "" { panic }`)
// requires its callers to pass a non-empty value. The requirement is discharged at a call site by a non-empty constant,
// by a test on the argument that keeps control away from the call when it is empty, or it is transferred to the caller's
// own parameter when the argument is that parameter (possibly converted between string, []rune and []byte).

type NonEmptyReq struct {
	Fn    *ssa.Function
	Param int
	Why   string
}

type NonEmptySite struct {
	Call   ssa.CallInstruction
	Callee *ssa.Function
	Param  int
	OK     bool
	How    string
}

// stripConv looks through conversions that preserve emptiness.
func stripConv(v ssa.Value) ssa.Value {
	for {
		switch x := v.(type) {
		case *ssa.Convert:
			v = x.X
		case *ssa.ChangeType:
			v = x.X
		default:
			return v
		}
	}
}

// emptyAtoms lists the If-condition atoms of fn testing whether v (or a conversion of it) is empty, with the truth
// value the atom takes when v is empty.
func emptyAtoms(fn *ssa.Function, v ssa.Value) map[ssa.Value]bool {
	out := map[ssa.Value]bool{}
	same := func(a ssa.Value) bool {
		a, b := stripConv(a), stripConv(v)
		// a trimmed copy is empty whenever the value is
		if call, ok := a.(*ssa.Call); ok {
			if callee := call.Call.StaticCallee(); callee != nil && callee.Pkg != nil && callee.Pkg.Pkg.Path() == "strings" && len(call.Call.Args) >= 1 {
				switch callee.Name() {
				case "TrimSpace", "TrimLeft", "TrimRight", "Trim", "TrimPrefix", "TrimSuffix", "TrimFunc":
					a = stripConv(call.Call.Args[0])
				}
			}
		}
		return a == b || sameValue(a, b) || ResolveLoad(a) == ResolveLoad(b) || sameStr(a, b)
	}
	for _, a := range CondAtoms(fn) {
		bo, ok := a.(*ssa.BinOp)
		if !ok {
			continue
		}
		// x == "" / x != ""
		if c, isC := bo.Y.(*ssa.Const); isC && c.Value != nil && c.Value.Kind() == constant.String && constant.StringVal(c.Value) == "" && same(bo.X) {
			switch bo.Op {
			case token.EQL:
				out[a] = true
			case token.NEQ:
				out[a] = false
			}
			continue
		}
		// len(x) == 0, != 0, > 0, < 1, >= 1
		call, isCall := bo.X.(*ssa.Call)
		if !isCall {
			continue
		}
		bi, isB := call.Call.Value.(*ssa.Builtin)
		if !isB || bi.Name() != "len" || !same(call.Call.Args[0]) {
			continue
		}
		k, isK := ConstInt(bo.Y)
		if !isK {
			continue
		}
		switch {
		case bo.Op == token.EQL && k == 0, bo.Op == token.LSS && k == 1, bo.Op == token.LEQ && k == 0:
			out[a] = true
		case bo.Op == token.NEQ && k == 0, bo.Op == token.GTR && k == 0, bo.Op == token.GEQ && k == 1:
			out[a] = false
		}
	}
	return out
}

// NonEmptyRequirements computes the parameters that must be non-empty (seeded by guarded panics, closed under
// transfer to callers) and the verdict of every call site.
func (p *Prog) NonEmptyRequirements() ([]NonEmptyReq, []NonEmptySite) {
	type key struct {
		fn  *ssa.Function
		par int
	}
	reqs := map[key]string{}
	var order []key
	add := func(fn *ssa.Function, i int, why string) bool {
		k := key{fn, i}
		if _, has := reqs[k]; has {
			return false
		}
		reqs[k] = why
		order = append(order, k)
		return true
	}
	// seeds
	for _, fn := range p.ModFuncs {
		for i, par := range fn.Params {
			switch par.Type().Underlying().(type) {
			case *types.Slice:
			case *types.Basic:
				if !isStringType(par.Type()) {
					continue
				}
			default:
				continue
			}
			atoms := emptyAtoms(fn, par)
			if len(atoms) == 0 {
				continue
			}
			Instrs(fn, func(in ssa.Instruction) {
				pn, ok := in.(*ssa.Panic)
				if !ok {
					return
				}
				for a, whenEmpty := range atoms {
					// the panic is reached only when the parameter is empty
					// the panic is the branch taken when the parameter is empty, and nothing else decides it
					ab := atomBlock(fn, a)
					ifi, isIf := ab.Instrs[len(ab.Instrs)-1].(*ssa.If)
					if !isIf || len(ab.Succs) != 2 {
						continue
					}
					_, neg := normCond(ifi.Cond)
					side := 0
					if whenEmpty == neg {
						side = 1
					}
					if ab.Succs[side] != pn.Block() || len(pn.Block().Preds) != 1 {
						continue
					}
					if !ForwardReach(fn.Blocks[0], map[ssa.Value]bool{a: !whenEmpty}, nil)[pn.Block()] {
						add(fn, i, fmt.Sprintf("%s panics at %s when %s is empty", FuncName(fn), p.Pos(pn.Pos()), par.Name()))
					}
				}
			})
		}
	}
	var sites []NonEmptySite
	cha := p.CHA()
	for qi := 0; qi < len(order); qi++ {
		k := order[qi]
		node := cha.Nodes[k.fn]
		if node == nil {
			continue
		}
		for _, e := range node.In {
			if e.Site == nil || e.Site.Common().StaticCallee() != k.fn || !IsModFunc(e.Caller.Func) {
				continue
			}
			caller := e.Caller.Func
			args := e.Site.Common().Args
			if k.par >= len(args) {
				continue
			}
			arg := args[k.par]
			site := NonEmptySite{Call: e.Site, Callee: k.fn, Param: k.par}
			base := stripConv(arg)
			switch {
			case isNonEmptyConst(base):
				site.OK, site.How = true, "non-empty constant"
			default:
				atoms := emptyAtoms(caller, base)
				for a, whenEmpty := range atoms {
					if !ForwardReach(caller.Blocks[0], map[ssa.Value]bool{a: whenEmpty}, nil)[e.Site.Block()] {
						site.OK, site.How = true, "the call is not reached when the argument is empty"
					}
				}
				if !site.OK {
					if par, isPar := ResolveLoad(base).(*ssa.Parameter); isPar {
						for i, q := range caller.Params {
							if q == par {
								add(caller, i, fmt.Sprintf("%s passes its parameter %s to %s, which needs it non-empty", FuncName(caller), par.Name(), FuncName(k.fn)))
								site.OK, site.How = true, "requirement transferred to the caller's own parameter "+par.Name()
							}
						}
					}
				}
				if !site.OK {
					site.How = "no non-empty constant, no emptiness test on the argument before the call, and the argument is not a parameter of the caller"
				}
			}
			sites = append(sites, site)
		}
	}
	var out []NonEmptyReq
	for _, k := range order {
		out = append(out, NonEmptyReq{k.fn, k.par, reqs[k]})
	}
	return out, sites
}

func isNonEmptyConst(v ssa.Value) bool {
	c, ok := v.(*ssa.Const)
	return ok && c.Value != nil && c.Value.Kind() == constant.String && constant.StringVal(c.Value) != ""
}
