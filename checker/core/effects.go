package core

import (
	"fmt"
	"go/token"
	"go/types"
	"os"
	"sort"
	"strings"

	"golang.org/x/tools/go/ssa"
)

// Engine E1: writes into memory that outlives one computation ("shared" memory).
//
// A value is *shared-derived* when it is, or carries references into, memory designated
// as shared by the seeds (a parameter, a load of a package-level variable). Derivation
// follows projections and copies (a struct copied out of a shared slice still shares
// its nested slices), local variables, and module calls through summaries. Taint is
// field-sensitive at the first level of structs (a local struct that received one shared
// field is not shared as a whole).

// SharedWrite is one write into shared memory.
type SharedWrite struct {
	Fn    *ssa.Function
	Instr ssa.Instruction
	What  string
	Via   string // how the written location derives from the seed
}

func hasRefs(t types.Type, depth int) bool {
	if depth > 6 {
		return true
	}
	switch u := t.Underlying().(type) {
	case *types.Slice, *types.Map, *types.Pointer, *types.Interface, *types.Chan:
		return true
	case *types.Struct:
		for i := 0; i < u.NumFields(); i++ {
			if hasRefs(u.Field(i).Type(), depth+1) {
				return true
			}
		}
	case *types.Array:
		return hasRefs(u.Elem(), depth+1)
	}
	return false
}

// fset is a set of first-level struct fields (all=true: the whole value).
type fset struct {
	all    bool
	fields map[int]bool
}

func (f fset) empty() bool { return !f.all && len(f.fields) == 0 }

func (f fset) has(i int) bool { return f.all || f.fields[i] }

func (f fset) union(g fset) (fset, bool) {
	if f.all {
		return f, false
	}
	if g.all {
		return fset{all: true}, true
	}
	changed := false
	out := fset{fields: map[int]bool{}}
	for k := range f.fields {
		out.fields[k] = true
	}
	for k := range g.fields {
		if !out.fields[k] {
			out.fields[k] = true
			changed = true
		}
	}
	return out, changed
}

func (f fset) intersects(g fset) bool {
	if f.empty() || g.empty() {
		return false
	}
	if f.all || g.all {
		return true
	}
	for k := range f.fields {
		if g.fields[k] {
			return true
		}
	}
	return false
}

var allFields = fset{all: true}

func oneField(i int) fset { return fset{fields: map[int]bool{i: true}} }

// ParamSummary describes what a function does with memory reachable from one parameter.
type ParamSummary struct {
	Mutates      fset // first-level fields (of the struct / pointee) through which it writes; all for non-struct parameters
	ReturnsAlias fset // fields of the parameter a result may alias
	ReturnsFull  fset // … and the result may share its own backing array (not only element references in a fresh slice)
}

// EffectsEngine computes shared-derived values and writes.
type EffectsEngine struct {
	P         *Prog
	summaries map[*ssa.Function][]ParamSummary
	// Exempt drops a write from summaries and reports (reasoned, named exceptions only).
	Exempt func(fn *ssa.Function, in ssa.Instruction) bool
	// Exempted records the writes that were dropped.
	Exempted map[string]bool
}

func structOf(t types.Type) *types.Struct {
	if p, ok := t.Underlying().(*types.Pointer); ok {
		t = p.Elem()
	}
	s, _ := t.Underlying().(*types.Struct)
	return s
}

// NewEffectsEngine computes parameter summaries for every module function to a fixpoint.
func NewEffectsEngine(p *Prog, exempt func(fn *ssa.Function, in ssa.Instruction) bool) *EffectsEngine {
	e := &EffectsEngine{P: p, summaries: map[*ssa.Function][]ParamSummary{}, Exempt: exempt, Exempted: map[string]bool{}}
	for _, fn := range p.ModFuncs {
		e.summaries[fn] = make([]ParamSummary, len(fn.Params))
	}
	for iter := 0; iter < 10; iter++ {
		changed := false
		for _, fn := range p.ModFuncs {
			for i, par := range fn.Params {
				if !hasRefs(par.Type(), 0) {
					continue
				}
				var seeds []fset
				if st := structOf(par.Type()); st != nil {
					for f := 0; f < st.NumFields(); f++ {
						if hasRefs(st.Field(f).Type(), 0) {
							seeds = append(seeds, oneField(f))
						}
					}
				} else {
					seeds = []fset{allFields}
				}
				for _, sd := range seeds {
					st := e.run(fn, map[ssa.Value]fset{par: sd}, nil)
					s := &e.summaries[fn][i]
					if len(st.writes) > 0 {
						var ch bool
						s.Mutates, ch = s.Mutates.union(sd)
						changed = changed || ch
					}
					ret, full := false, false
					Instrs(fn, func(in ssa.Instruction) {
						if r, ok := in.(*ssa.Return); ok {
							for _, res := range r.Results {
								if !st.taint[res].empty() && hasRefs(res.Type(), 0) {
									ret = true
									if !st.elemOnly[res] || len(r.Results) != 1 {
										full = true
									}
								}
							}
						}
					})
					if ret {
						var ch bool
						s.ReturnsAlias, ch = s.ReturnsAlias.union(sd)
						changed = changed || ch
					}
					if full {
						var ch bool
						s.ReturnsFull, ch = s.ReturnsFull.union(sd)
						changed = changed || ch
					}
				}
			}
		}
		if !changed {
			break
		}
	}
	return e
}

type runState struct {
	elemOnly map[ssa.Value]bool // tainted slice whose backing array is fresh: only its elements carry shared references
	taint    map[ssa.Value]fset
	why      map[ssa.Value]ssa.Value // provenance: value -> the value it was derived from
	writes   []SharedWrite
}

// allocRoot returns the local variable an address lies in, and the first-level field (or -1).
func allocRoot(addr ssa.Value) (*ssa.Alloc, int) {
	field := -1
	for {
		switch x := addr.(type) {
		case *ssa.Alloc:
			return x, field
		case *ssa.FieldAddr:
			field = x.Field
			addr = x.X
		case *ssa.IndexAddr:
			if _, isPtr := x.X.Type().Underlying().(*types.Pointer); isPtr {
				addr = x.X // array inside the variable
			} else {
				return nil, -1
			}
		default:
			return nil, -1
		}
	}
}

// run computes taint and writes of fn from initial taints (seed is an additional predicate for instruction values).
func (e *EffectsEngine) run(fn *ssa.Function, initial map[ssa.Value]fset, seed func(ssa.Value) bool) *runState {
	if seed == nil {
		return e.runF(fn, initial, nil)
	}
	return e.runF(fn, initial, func(v ssa.Value) fset {
		if seed(v) {
			return allFields
		}
		return fset{}
	})
}

// runF is run with a field-precise seed (the first-level fields of the seeded value that are shared).
func (e *EffectsEngine) runF(fn *ssa.Function, initial map[ssa.Value]fset, seed func(ssa.Value) fset) *runState {
	st := &runState{taint: map[ssa.Value]fset{}, why: map[ssa.Value]ssa.Value{}, elemOnly: map[ssa.Value]bool{}}
	allocTaint := map[*ssa.Alloc]fset{}
	allocFull := map[*ssa.Alloc]bool{} // some value stored in the variable shares its own backing array
	// seededOnly: the value's taint is exactly what the field-precise seed says of it
	seededOnly := map[ssa.Value]bool{}
	add := func(v ssa.Value, f fset, from ssa.Value) bool {
		if v == nil || f.empty() {
			return false
		}
		n, ch := st.taint[v].union(f)
		if ch || (st.taint[v].empty() && !n.empty()) {
			delete(seededOnly, v)
			if _, has := st.why[v]; !has && from != nil {
				st.why[v] = from
			}
			st.taint[v] = n
			return true
		}
		return false
	}
	for v, f := range initial {
		st.taint[v] = f
	}
	if seed != nil {
		for _, par := range fn.Params {
			if f := seed(par); !f.empty() {
				st.taint[par] = f
				seededOnly[par] = true
			}
		}
		for _, fv := range fn.FreeVars {
			if f := seed(fv); !f.empty() {
				st.taint[fv] = f
			}
		}
	}
	any := func(v ssa.Value) bool { return !st.taint[v].empty() }
	// stores per local variable, for strong updates of a field (x.f = fresh copy)
	type storeRec struct {
		st    *ssa.Store
		field int
	}
	storesOf := map[*ssa.Alloc][]storeRec{}
	Instrs(fn, func(in ssa.Instruction) {
		if s, ok := in.(*ssa.Store); ok {
			if al, f := allocRoot(s.Addr); al != nil {
				storesOf[al] = append(storesOf[al], storeRec{s, f})
			}
		}
	})
	before := func(a, b ssa.Instruction) bool { // same block, a strictly before b
		for _, in := range a.Block().Instrs {
			if in == a {
				return true
			}
			if in == b {
				return false
			}
		}
		return false
	}
	dominatesInstr := func(a, b ssa.Instruction) bool {
		if a.Block() == b.Block() {
			return before(a, b)
		}
		return a.Block().Dominates(b.Block())
	}
	reachesWithout := func(o, l, s ssa.Instruction) bool { // can l execute after o without s in between?
		if o.Block() == s.Block() && before(o, s) {
			return o.Block() == l.Block() && before(o, l) && before(l, s)
		}
		if o.Block() == l.Block() && before(o, l) {
			return true
		}
		seen := map[*ssa.BasicBlock]bool{}
		work := append([]*ssa.BasicBlock{}, o.Block().Succs...)
		for len(work) > 0 {
			b := work[len(work)-1]
			work = work[:len(work)-1]
			if seen[b] {
				continue
			}
			seen[b] = true
			if b == s.Block() {
				if b == l.Block() && before(l, s) {
					return true
				}
				continue
			}
			if b == l.Block() {
				return true
			}
			work = append(work, b.Succs...)
		}
		return false
	}
	// killed: the load of field f of local al at `load` only sees a clean value
	killed := func(al *ssa.Alloc, f int, load ssa.Instruction) bool {
		if f < 0 {
			return false
		}
		for _, rec := range storesOf[al] {
			if rec.field != f || !dominatesInstr(rec.st, load) {
				continue
			}
			if any(rec.st.Val) && !st.elemOnly[rec.st.Val] {
				continue
			}
			ok := true
			for _, o := range storesOf[al] {
				if o.st == rec.st || (o.field != f && o.field != -1) {
					continue
				}
				if reachesWithout(o.st, load, rec.st) {
					ok = false
					break
				}
			}
			if ok {
				return true
			}
		}
		return false
	}
	changed := true
	for changed {
		changed = false
		for _, b := range fn.Blocks {
			for _, in := range b.Instrs {
				if v, isVal := in.(ssa.Value); isVal && seed != nil && st.taint[v].empty() {
					if f := seed(v); !f.empty() {
						st.taint[v] = f
						seededOnly[v] = true
						changed = true
					}
				}
				switch x := in.(type) {
				case *ssa.Store:
					// a shared reference stored into an element of a fresh slice: the slice's elements carry it
					if any(x.Val) && hasRefs(x.Val.Type(), 0) {
						addr := x.Addr
						for {
							if fa, ok := addr.(*ssa.FieldAddr); ok {
								addr = fa.X
								continue
							}
							break
						}
						if ia, ok := addr.(*ssa.IndexAddr); ok {
							if _, isSlice := ia.X.Type().Underlying().(*types.Slice); isSlice {
								root := ia.X
								for {
									if sl, ok := root.(*ssa.Slice); ok {
										root = sl.X
										continue
									}
									break
								}
								if st.taint[root].empty() {
									st.elemOnly[root] = true
									changed = add(root, allFields, x.Val) || changed
								}
							}
						}
					}
					if any(x.Val) && hasRefs(x.Val.Type(), 0) {
						if al, _ := allocRoot(x.Addr); al != nil && !st.elemOnly[x.Val] && !allocFull[al] {
							allocFull[al] = true
							changed = true
						}
						if al, f := allocRoot(x.Addr); al != nil {
							var nf fset
							if f >= 0 {
								nf = oneField(f)
							} else {
								nf = st.taint[x.Val] // whole-variable store keeps the value's field taints
								if structOf(x.Val.Type()) == nil {
									nf = allFields
								}
							}
							n, ch := allocTaint[al].union(nf)
							if ch || (allocTaint[al].empty() && !n.empty()) {
								allocTaint[al] = n
								changed = true
							}
						}
					}
				case *ssa.UnOp:
					if x.Op != token.MUL {
						break
					}
					if any(x.X) {
						// load through a shared pointer (its pointee fields are described by the pointer's set)
						if structOf(x.Type()) != nil && !st.taint[x.X].all {
							changed = add(x, st.taint[x.X], x.X) || changed
						} else {
							changed = add(x, allFields, x.X) || changed
						}
					} else if al, f := allocRoot(x.X); al != nil && !allocTaint[al].empty() && hasRefs(x.Type(), 0) {
						if _, isSlice := x.Type().Underlying().(*types.Slice); isSlice && !allocFull[al] && st.taint[x].empty() {
							st.elemOnly[x] = true
						} else if allocFull[al] && st.elemOnly[x] {
							delete(st.elemOnly, x)
							changed = true
						}
						if f >= 0 {
							if allocTaint[al].has(f) && !killed(al, f, x) {
								changed = add(x, allFields, al) || changed
							}
						} else if structOf(x.Type()) != nil {
							changed = add(x, allocTaint[al], al) || changed
						} else {
							changed = add(x, allFields, al) || changed
						}
					}
				case *ssa.Phi:
					allEO, anyT := true, false
					for _, ed := range x.Edges {
						if ed == ssa.Value(x) {
							continue // a loop-carried variable left unchanged on some path
						}
						if any(ed) {
							anyT = true
							if !st.elemOnly[ed] {
								allEO = false
							}
							changed = add(x, st.taint[ed], ed) || changed
						}
					}
					if anyT && allEO != st.elemOnly[x] {
						if allEO && st.why[x] != nil {
							st.elemOnly[x] = true
						} else if !allEO {
							delete(st.elemOnly, x)
							changed = true
						}
					}
				case *ssa.TypeAssert:
					if any(x.X) {
						if x.CommaOk {
							changed = add(x, allFields, x.X) || changed
						} else {
							changed = add(x, st.taint[x.X], x.X) || changed
						}
					}
				case *ssa.Extract:
					if any(x.Tuple) && hasRefs(x.Type(), 0) {
						changed = add(x, allFields, x.Tuple) || changed
					}
				case *ssa.Field:
					if seededOnly[x.X] && seededOnly[x] {
						break // a struct projected out of a seeded struct: the seed describes it precisely
					}
					if st.taint[x.X].has(x.Field) && hasRefs(x.Type(), 0) {
						changed = add(x, allFields, x.X) || changed
					}
				case *ssa.FieldAddr:
					if st.taint[x.X].has(x.Field) {
						changed = add(x, allFields, x.X) || changed
					}
				case *ssa.Index:
					if any(x.X) && hasRefs(x.Type(), 0) {
						changed = add(x, allFields, x.X) || changed
					}
				case *ssa.IndexAddr:
					if any(x.X) {
						changed = add(x, allFields, x.X) || changed
					}
				case *ssa.Lookup:
					if any(x.X) && (x.CommaOk || hasRefs(x.Type(), 0)) {
						changed = add(x, allFields, x.X) || changed
					}
				case *ssa.Slice:
					// slice of a local array (variadic arguments, array literals) holding shared references
					if al, ok := x.X.(*ssa.Alloc); ok && !allocTaint[al].empty() && st.taint[x].empty() {
						st.elemOnly[x] = true
						changed = add(x, allFields, al) || changed
					}
					if any(x.X) {
						if st.elemOnly[x.X] && st.taint[x].empty() {
							st.elemOnly[x] = true
						} else if !st.elemOnly[x.X] && st.elemOnly[x] {
							delete(st.elemOnly, x)
							changed = true
						}
						changed = add(x, allFields, x.X) || changed
					}
				case *ssa.ChangeType:
					if any(x.X) {
						changed = add(x, st.taint[x.X], x.X) || changed
					}
				case *ssa.ChangeInterface:
					if any(x.X) {
						changed = add(x, st.taint[x.X], x.X) || changed
					}
				case *ssa.MakeInterface:
					if any(x.X) && hasRefs(x.X.Type(), 0) {
						changed = add(x, st.taint[x.X], x.X) || changed
					}
				case *ssa.Convert:
					if any(x.X) && hasRefs(x.Type(), 0) {
						changed = add(x, allFields, x.X) || changed
					}
				case *ssa.Range:
					if any(x.X) {
						changed = add(x, allFields, x.X) || changed
					}
				case *ssa.Next:
					if any(x.Iter) {
						changed = add(x, allFields, x.Iter) || changed
					}
				case *ssa.Call:
					if callee := x.Call.StaticCallee(); callee != nil {
						if sums, ok := e.summaries[callee]; ok {
							for i, a := range x.Call.Args {
								if i < len(sums) && st.taint[a].intersects(sums[i].ReturnsAlias) && hasRefs(x.Type(), 0) {
									// only element references are shared when every aliasing result is a fresh slice
									_, isSlice := x.Type().Underlying().(*types.Slice)
									if isSlice && !st.taint[a].intersects(sums[i].ReturnsFull) {
										if st.taint[x].empty() {
											st.elemOnly[x] = true
										}
									} else if st.elemOnly[x] {
										delete(st.elemOnly, x)
										changed = true
									}
									changed = add(x, allFields, a) || changed
								}
							}
						}
					}
					if bi, ok := x.Call.Value.(*ssa.Builtin); ok && bi.Name() == "append" && len(x.Call.Args) > 0 {
						// the result shares the backing array of the first operand only; the other operands' elements are copied
						first := x.Call.Args[0]
						if any(first) && !st.elemOnly[first] {
							if st.elemOnly[x] {
								delete(st.elemOnly, x)
								changed = true
							}
							changed = add(x, allFields, first) || changed
						} else {
							elemRefs := false
							if sl, ok := x.Type().Underlying().(*types.Slice); ok {
								elemRefs = hasRefs(sl.Elem(), 0)
							}
							for _, a := range x.Call.Args {
								if any(a) && elemRefs {
									if st.taint[x].empty() {
										st.elemOnly[x] = true
									}
									changed = add(x, allFields, a) || changed
								}
							}
						}
					}
				}
			}
		}
	}
	// writes
	chain := func(v ssa.Value) string {
		var parts []string
		seen := map[ssa.Value]bool{}
		for v != nil && !seen[v] && len(parts) < 8 {
			seen[v] = true
			parts = append(parts, describeValue(v))
			v = st.why[v]
		}
		return strings.Join(parts, " ← ")
	}
	var sharedAddr func(addr ssa.Value, depth int) (bool, string)
	sharedAddr = func(addr ssa.Value, depth int) (bool, string) {
		if depth > 8 {
			return false, ""
		}
		switch x := addr.(type) {
		case *ssa.IndexAddr:
			if _, isPtr := x.X.Type().Underlying().(*types.Pointer); isPtr {
				if any(x.X) {
					return true, "element of a shared array: " + chain(x.X)
				}
				return sharedAddr(x.X, depth+1)
			}
			if any(x.X) && !st.elemOnly[x.X] {
				return true, "element of a shared slice: " + chain(x.X)
			}
			return false, ""
		case *ssa.FieldAddr:
			if _, isAlloc := x.X.(*ssa.Alloc); isAlloc {
				return false, ""
			}
			if st.taint[x.X].has(x.Field) {
				return true, "field through a shared pointer: " + chain(x.X)
			}
			return sharedAddr(x.X, depth+1)
		case *ssa.Alloc:
			return false, ""
		default:
			if any(addr) {
				if _, isPtr := addr.Type().Underlying().(*types.Pointer); isPtr {
					return true, "through a shared pointer: " + chain(addr)
				}
			}
		}
		return false, ""
	}
	Instrs(fn, func(in ssa.Instruction) {
		n0 := len(st.writes)
		defer func() {
			if len(st.writes) > n0 && e.Exempt != nil && e.Exempt(fn, in) {
				st.writes = st.writes[:n0]
				e.Exempted[FuncName(fn)+" | "+e.P.StmtTextAt(fn, in.Pos())] = true
			}
		}()
		switch x := in.(type) {
		case *ssa.Store:
			if ok, via := sharedAddr(x.Addr, 0); ok {
				st.writes = append(st.writes, SharedWrite{fn, in, "store", via})
			}
		case *ssa.MapUpdate:
			if any(x.Map) {
				st.writes = append(st.writes, SharedWrite{fn, in, "map update", "entry of a shared map: " + chain(x.Map)})
			}
		case *ssa.Call:
			if bi, ok := x.Call.Value.(*ssa.Builtin); ok {
				switch bi.Name() {
				case "copy":
					if len(x.Call.Args) > 0 && any(x.Call.Args[0]) && !st.elemOnly[x.Call.Args[0]] {
						st.writes = append(st.writes, SharedWrite{fn, in, "copy into", "a shared slice: " + chain(x.Call.Args[0])})
					}
				case "delete":
					if len(x.Call.Args) > 0 && any(x.Call.Args[0]) {
						st.writes = append(st.writes, SharedWrite{fn, in, "delete from", "a shared map: " + chain(x.Call.Args[0])})
					}
				case "append":
					// append(s, ...) writes into s's backing array whenever cap(s) > len(s)
					if len(x.Call.Args) > 0 && any(x.Call.Args[0]) && !st.elemOnly[x.Call.Args[0]] {
						if _, isSlice := x.Call.Args[0].Type().Underlying().(*types.Slice); isSlice {
							st.writes = append(st.writes, SharedWrite{fn, in, "append to", "a shared slice (writes in place when it has spare capacity): " + chain(x.Call.Args[0])})
						}
					}
				}
			}
			if callee := x.Call.StaticCallee(); callee != nil {
				if sums, ok := e.summaries[callee]; ok {
					for i, a := range x.Call.Args {
						if seededOnly[a] {
							// shared by its type alone: the callee's parameter is seeded the same way when the callee
							// itself is scanned, with the precision of the seed (summaries stop at first-level fields)
							continue
						}
						if i < len(sums) && st.taint[a].intersects(sums[i].Mutates) {
							st.writes = append(st.writes, SharedWrite{fn, in, "call " + callee.Name() + " (writes through its argument)", fmt.Sprintf("argument %d is shared: %s", i, chain(a))})
						}
					}
				}
			}
		}
	})
	return st
}

func describeValue(v ssa.Value) string {
	switch x := v.(type) {
	case *ssa.Parameter:
		return "parameter " + x.Name()
	case *ssa.Alloc:
		return "local " + x.Comment
	case *ssa.UnOp:
		if g, ok := x.X.(*ssa.Global); ok {
			return "global " + g.Name()
		}
		return "load"
	case *ssa.Call:
		return "result of " + CalleeName(x)
	case *ssa.Field, *ssa.FieldAddr:
		return "field"
	case *ssa.IndexAddr, *ssa.Index:
		return "element"
	case *ssa.TypeAssert:
		return "assertion to " + types.TypeString(x.AssertedType, func(p *types.Package) string { return p.Name() })
	case *ssa.Phi:
		return "phi"
	case *ssa.Lookup:
		return "map entry"
	case *ssa.FreeVar:
		return "captured " + x.Name()
	}
	return fmt.Sprintf("%T", v)
}

// WritesFrom lists the shared writes of fn under a seed predicate (seeded values are shared as a whole).
func (e *EffectsEngine) WritesFrom(fn *ssa.Function, seed func(ssa.Value) bool) []SharedWrite {
	return e.run(fn, nil, seed).writes
}

// WritesFromFields is WritesFrom with a field-precise seed: the seed returns all=true for a value shared as a whole,
// or the first-level struct fields of the value that are shared (none: not a seed).
func (e *EffectsEngine) WritesFromFields(fn *ssa.Function, seed func(ssa.Value) (all bool, fields []int)) []SharedWrite {
	return e.runF(fn, nil, func(v ssa.Value) fset {
		all, fields := seed(v)
		if all {
			return allFields
		}
		out := fset{}
		for _, f := range fields {
			out, _ = out.union(oneField(f))
		}
		return out
	}).writes
}

// Summary returns the parameter summaries of fn.
func (e *EffectsEngine) Summary(fn *ssa.Function) []ParamSummary { return e.summaries[fn] }

// GlobalLoadSeed: loads of module package-level variables of reference type.
func GlobalLoadSeed(v ssa.Value) bool {
	u, ok := v.(*ssa.UnOp)
	if !ok || u.Op != token.MUL {
		return false
	}
	g, ok := u.X.(*ssa.Global)
	if !ok || g.Pkg == nil || !InModule(g.Pkg.Pkg.Path()) {
		return false
	}
	return hasRefs(u.Type(), 0)
}

// IsInitFunc: package initialisers (and closures inside them).
func IsInitFunc(fn *ssa.Function) bool {
	for fn.Parent() != nil {
		fn = fn.Parent()
	}
	return fn.Name() == "init" || (len(fn.Name()) > 5 && fn.Name()[:5] == "init#") || fn.Synthetic == "package initializer"
}

// SortWrites orders writes deterministically.
func SortWrites(p *Prog, ws []SharedWrite) {
	sort.Slice(ws, func(i, j int) bool {
		a, b := FuncName(ws[i].Fn), FuncName(ws[j].Fn)
		if a != b {
			return a < b
		}
		return ws[i].Instr.Pos() < ws[j].Instr.Pos()
	})
}

// ParamWrites lists the writes of fn reachable from parameter i (for diagnosis of a summary).
func (e *EffectsEngine) ParamWrites(fn *ssa.Function, i int) []SharedWrite {
	st := e.run(fn, map[ssa.Value]fset{fn.Params[i]: allFields}, nil)
	if os.Getenv("WRV_DEBUG_TAINT") != "" {
		Instrs(fn, func(in ssa.Instruction) {
			if v, ok := in.(ssa.Value); ok && !st.taint[v].empty() {
				fmt.Fprintf(os.Stderr, "  TAINT p%d %s = %s  eo=%v\n", i, v.Name(), in.String(), st.elemOnly[v])
			}
		})
	}
	return st.writes
}

// ParamTaint returns the shared-derived predicate of fn when parameter i is shared as a whole.
func (e *EffectsEngine) ParamTaint(fn *ssa.Function, i int) func(ssa.Value) bool {
	st := e.run(fn, map[ssa.Value]fset{fn.Params[i]: allFields}, nil)
	return func(v ssa.Value) bool { return !st.taint[v].empty() }
}

// AppendOperands lists the values appended by an append call (through the variadic array, or the spread slice itself).
func AppendOperands(call *ssa.Call) []ssa.Value {
	if len(call.Call.Args) < 2 {
		return nil
	}
	sl, ok := call.Call.Args[1].(*ssa.Slice)
	if !ok {
		return []ssa.Value{call.Call.Args[1]}
	}
	al, ok := sl.X.(*ssa.Alloc)
	if !ok || al.Referrers() == nil {
		return []ssa.Value{call.Call.Args[1]}
	}
	var out []ssa.Value
	for _, r := range *al.Referrers() {
		ia, ok := r.(*ssa.IndexAddr)
		if !ok || ia.Referrers() == nil {
			continue
		}
		for _, rr := range *ia.Referrers() {
			if s, ok := rr.(*ssa.Store); ok && s.Addr == ssa.Value(ia) {
				out = append(out, s.Val)
			}
		}
	}
	return out
}
