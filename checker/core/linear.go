package core

import (
	"fmt"
	"go/constant"
	"go/token"
	"sort"
	"strings"

	"golang.org/x/tools/go/ssa"
)

// Lin is an integer linear form over named leaves: Σ coef·leaf + K.
type Lin struct {
	T map[string]int64
	K int64
}

// LinearOf folds an integer SSA value into a linear form. Leaves are named by leaf (return "" for a value that
// cannot be named: the form is then not linear in known leaves and ok is false). Phis are leaves named φ<variable>.
func LinearOf(v ssa.Value, leaf func(ssa.Value) string, depth int) (Lin, bool) {
	if depth > 12 {
		return Lin{}, false
	}
	if n := leaf(v); n != "" {
		return Lin{T: map[string]int64{n: 1}}, true
	}
	switch x := v.(type) {
	case *ssa.Const:
		if x.Value != nil && x.Value.Kind() == constant.Int {
			if i, ok := constant.Int64Val(x.Value); ok {
				return Lin{T: map[string]int64{}, K: i}, true
			}
		}
		if x.Value != nil && x.Value.Kind() == constant.Float {
			if f, ok := constant.Float64Val(x.Value); ok && f == float64(int64(f)) {
				return Lin{T: map[string]int64{}, K: int64(f)}, true
			}
		}
	case *ssa.Convert:
		return LinearOf(x.X, leaf, depth+1)
	case *ssa.ChangeType:
		return LinearOf(x.X, leaf, depth+1)
	case *ssa.Phi:
		if x.Comment != "" {
			return Lin{T: map[string]int64{"φ" + x.Comment: 1}}, true
		}
	case *ssa.BinOp:
		a, ok1 := LinearOf(x.X, leaf, depth+1)
		b, ok2 := LinearOf(x.Y, leaf, depth+1)
		if !ok1 || !ok2 {
			return Lin{}, false
		}
		switch x.Op {
		case token.ADD:
			return a.Plus(b, 1), true
		case token.SUB:
			return a.Plus(b, -1), true
		case token.MUL:
			if len(a.T) == 0 {
				return b.Scale(a.K), true
			}
			if len(b.T) == 0 {
				return a.Scale(b.K), true
			}
		}
	}
	return Lin{}, false
}

func (a Lin) Plus(b Lin, s int64) Lin {
	r := Lin{T: map[string]int64{}, K: a.K + s*b.K}
	for k, v := range a.T {
		r.T[k] = v
	}
	for k, v := range b.T {
		r.T[k] += s * v
		if r.T[k] == 0 {
			delete(r.T, k)
		}
	}
	return r
}

func (a Lin) Scale(s int64) Lin {
	r := Lin{T: map[string]int64{}, K: a.K * s}
	if s == 0 {
		return r
	}
	for k, v := range a.T {
		r.T[k] = v * s
	}
	return r
}

// Mentions reports whether one of the leaves has a name containing sub.
func (a Lin) Mentions(sub string) bool {
	for k := range a.T {
		if strings.Contains(k, sub) {
			return true
		}
	}
	return false
}

// LinearAtom renders "x op y" as the canonical "form op 0": terms sorted by name, the first coefficient positive.
func LinearAtom(op token.Token, x, y Lin) string {
	d := x.Plus(y, -1)
	var names []string
	for k := range d.T {
		names = append(names, k)
	}
	sort.Strings(names)
	if len(names) > 0 && d.T[names[0]] < 0 {
		d = d.Scale(-1)
		switch op {
		case token.LSS:
			op = token.GTR
		case token.LEQ:
			op = token.GEQ
		case token.GTR:
			op = token.LSS
		case token.GEQ:
			op = token.LEQ
		}
	}
	var sb strings.Builder
	for i, n := range names {
		c := d.T[n]
		switch {
		case i == 0 && c == 1:
		case c == 1:
			sb.WriteString(" + ")
		case c == -1:
			sb.WriteString(" - ")
		case c < 0:
			fmt.Fprintf(&sb, " - %d·", -c)
		case i == 0:
			fmt.Fprintf(&sb, "%d·", c)
		default:
			fmt.Fprintf(&sb, " + %d·", c)
		}
		sb.WriteString(n)
	}
	if d.K > 0 {
		fmt.Fprintf(&sb, " + %d", d.K)
	} else if d.K < 0 {
		fmt.Fprintf(&sb, " - %d", -d.K)
	}
	return sb.String() + " " + op.String() + " 0"
}

func (a Lin) String() string {
	var ks []string
	for k := range a.T {
		ks = append(ks, k)
	}
	sort.Strings(ks)
	var sb strings.Builder
	for _, k := range ks {
		fmt.Fprintf(&sb, "%+d·%s ", a.T[k], k)
	}
	fmt.Fprintf(&sb, "%+d", a.K)
	return sb.String()
}
