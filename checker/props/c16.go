package props

import (
	"fmt"
	"go/token"
	"go/types"
	"strings"

	"golang.org/x/tools/go/ssa"

	"wrverif/core"
)

func init() { register("C16", c16) }

// allClosures lists fn and every function literal nested in it.
func allClosures(fn *ssa.Function) []*ssa.Function {
	out := []*ssa.Function{fn}
	for _, a := range fn.AnonFuncs {
		out = append(out, allClosures(a)...)
	}
	return out
}

// fieldClass returns the name of the struct field an instruction takes the address of / reads, when the
// struct type has the given name.
func fieldClass(in ssa.Instruction, typeName string) string {
	switch x := in.(type) {
	case *ssa.FieldAddr:
		pt, ok := x.X.Type().Underlying().(*types.Pointer)
		if !ok {
			return ""
		}
		if n, ok := pt.Elem().(*types.Named); ok && n.Obj().Name() == typeName {
			return n.Underlying().(*types.Struct).Field(x.Field).Name()
		}
	case *ssa.Field:
		if n, ok := x.X.Type().(*types.Named); ok && n.Obj().Name() == typeName {
			return n.Underlying().(*types.Struct).Field(x.Field).Name()
		}
	}
	return ""
}

func callsNamed(in ssa.Instruction, name string) bool {
	c, ok := in.(ssa.CallInstruction)
	if !ok {
		return false
	}
	if f := c.Common().StaticCallee(); f != nil && f.Name() == name {
		return true
	}
	return c.Common().IsInvoke() && c.Common().Method.Name() == name
}

func c16(c *core.Check) {
	p := c.Prog
	c.Explain = "Structural necessary conditions of CSS 2.1 Appendix E painting order, decided on SSA: the steps of drawStackingContext occur in the Appendix E order on every path (must-precede on the reads of the context's lists and on the drawing calls), background precedes border wherever both are drawn, outlines come after the content; child contexts are partitioned by the sign of z-index and the negative/positive lists are sorted by a stable sort with a strict comparison on z-index; a box starts a stacking context exactly when positioned with non-auto z-index, opacity<1, transformed or overflow!=visible. Of the dispatch of boxes into the painting lists, two clauses are decided: a positioned box is never put on the float layer, and the place of a box in its list is fixed before its descendants are dispatched (tree order); which list a non-positioned, non-floated box goes to is not decided."
	rArgs := c.Rule("R4", "no call passes two same-typed arguments under each other's parameter names (swapped arguments): every pair of arguments named after the callee's parameters is aligned with them", 17)
	argNameRule(c, rArgs, "html/document", map[string]bool{"stacking.go": true, "draw.go": true}, 19)

	c16Dispatch(c)
	c16Page(c)
	c16FixedBoxes(c)
	c16WrapperProperties(c)
	c16ZIndexPositioned(c)
	c16InsertPositions(c)
	c16ContainerClasses(c)
	c16ClearedIsTested(c)
	c16StableSorts(c)
	c16ViewportOverflow(c)

	dsc := p.Method("html/document", "drawContext", "drawStackingContext")
	if dsc == nil {
		c.Rule("R1", "anchor", 0).Anchor("html/document.drawContext.drawStackingContext")
		return
	}
	r1 := c.Rule("R1", "drawStackingContext paints in Appendix E order: own background then border; then negative z-index contexts, in-flow blocks, floats, inline content, blocks-and-cells content, z-index 0/auto contexts, positive z-index contexts; outlines after the content stack", 8)
	// find the closure that reads negativeZContexts (the content stack) and the one that calls drawOutlines
	var inner, outer *ssa.Function
	for _, f := range allClosures(dsc) {
		reads, outl := false, false
		core.Instrs(f, func(in ssa.Instruction) {
			if fieldClass(in, "StackingContext") == "negativeZContexts" {
				reads = true
			}
			if callsNamed(in, "drawOutlines") {
				outl = true
			}
		})
		if reads {
			inner = f
		}
		if outl {
			outer = f
		}
	}
	if inner == nil || outer == nil {
		r1.Anchor("closures of drawStackingContext reading negativeZContexts / calling drawOutlines")
	} else {
		steps := []struct {
			name string
			is   func(ssa.Instruction) bool
		}{
			{"3 negative z-index contexts", func(in ssa.Instruction) bool { return fieldClass(in, "StackingContext") == "negativeZContexts" }},
			{"4 in-flow block-level boxes", func(in ssa.Instruction) bool { return fieldClass(in, "StackingContext") == "blockLevelBoxes" }},
			{"5 floats", func(in ssa.Instruction) bool { return fieldClass(in, "StackingContext") == "floatContexts" }},
			{"7 blocks and cells content", func(in ssa.Instruction) bool { return fieldClass(in, "StackingContext") == "blocksAndCells" }},
			{"8 z-index 0 / auto contexts", func(in ssa.Instruction) bool { return fieldClass(in, "StackingContext") == "zeroZContexts" }},
			{"9 positive z-index contexts", func(in ssa.Instruction) bool { return fieldClass(in, "StackingContext") == "positiveZContexts" }},
		}
		for i := 0; i+1 < len(steps); i++ {
			a, b := steps[i], steps[i+1]
			key := fmt.Sprintf("step %s before step %s", a.name, b.name)
			hasA, hasB := false, false
			var bInstrs []ssa.Instruction
			core.Instrs(inner, func(in ssa.Instruction) {
				if a.is(in) {
					hasA = true
				}
				if b.is(in) {
					hasB = true
					bInstrs = append(bInstrs, in)
				}
			})
			if !hasA || !hasB {
				r1.Fail(key, p.Pos(inner.Pos()), "one of the two steps no longer reads its list in the content stack")
				continue
			}
			okFwd, _ := core.MustPassThrough(inner, a.is, b.is)
			back := false
			for _, bi := range bInstrs {
				if core.Reaches(bi, a.is) {
					back = true
				}
			}
			r1.Cond(okFwd && !back, key, p.Pos(bInstrs[0].Pos()), "every path to the later step passes the earlier one and none leads back", "the later step can be reached without the earlier one, or the earlier one can run after it")
		}
		// inline content (step 6) sits between floats and blocks-and-cells: the drawInlineLevel call guarded by InlineT
		isFloat := steps[2].is
		isCells := steps[3].is
		var inl []ssa.Instruction
		core.Instrs(inner, func(in ssa.Instruction) {
			if callsNamed(in, "drawInlineLevel") {
				inl = append(inl, in)
			}
		})
		first := false
		for _, in := range inl {
			// the step-6 call is the one that does not follow a read of blocksAndCells
			okA, _ := core.MustPassThrough(inner, isCells, func(x ssa.Instruction) bool { return x == in })
			if okA {
				continue // belongs to step 7
			}
			first = true
			okF, _ := core.MustPassThrough(inner, isFloat, func(x ssa.Instruction) bool { return x == in })
			r1.Cond(okF && core.Reaches(in, isCells) && !core.Reaches(in, isFloat), "step 6 inline content between floats and blocks-and-cells", p.Pos(in.Pos()), "drawInlineLevel for an inline root is after the floats and before the cells' content", "inline content of the context's own box is not painted between floats and block content")
		}
		if !first {
			r1.Fail("step 6 inline content", p.Pos(inner.Pos()), "no drawInlineLevel call before the blocks-and-cells step")
		}
		// outer closure: background, border, content stack, outlines
		isBg := func(in ssa.Instruction) bool { return callsNamed(in, "drawBackgroundDefaut") }
		isBorder := func(in ssa.Instruction) bool { return callsNamed(in, "drawBorder") }
		isStack := func(in ssa.Instruction) bool {
			mc, ok := in.(*ssa.MakeClosure)
			return ok && mc.Fn == inner
		}
		isOutl := func(in ssa.Instruction) bool { return callsNamed(in, "drawOutlines") }
		okBB, _ := core.MustPassThrough(outer, isBg, isBorder)
		r1.Cond(okBB, "step 2 own background before own border", p.Pos(outer.Pos()), "drawBorder only after drawBackgroundDefaut", "the border of the context's box can be painted without / before its background")
		stackAfterBorder := true
		core.Instrs(outer, func(in ssa.Instruction) {
			if isStack(in) && (core.Reaches(in, isBorder) || core.Reaches(in, isBg)) {
				stackAfterBorder = false
			}
		})
		r1.Cond(stackAfterBorder, "content stack after own background and border", p.Pos(outer.Pos()), "no background/border call is reachable after the content stack is entered", "own background or border can be painted after (over) the content")
		// outlines belong to the box's opacity group: they are drawn before the group is composited
		var composite ssa.Instruction
		core.Instrs(outer, func(in ssa.Instruction) {
			if mc, ok := in.(*ssa.MakeClosure); ok {
				fnc := mc.Fn.(*ssa.Function)
				core.Instrs(fnc, func(i2 ssa.Instruction) {
					if callsNamed(i2, "DrawWithOpacity") {
						composite = in
					}
				})
			}
			if callsNamed(in, "DrawWithOpacity") {
				composite = in
			}
		})
		if composite == nil {
			r1.Fail("opacity group compositing", p.Pos(outer.Pos()), "no DrawWithOpacity call found")
		} else {
			r1.Cond(!core.Reaches(composite, isOutl) && !core.Reaches(composite, isStack), "outlines and content are drawn before the opacity group is composited", p.Pos(composite.Pos()), "no drawOutlines / content stack is reachable after DrawWithOpacity", "part of the box (outline or content) is drawn after its opacity group was composited: it escapes the box's opacity")
		}
		okOut, _ := core.MustPassThrough(outer, isStack, isOutl)
		r1.Cond(okOut, "step 10 outlines after the content stack", p.Pos(outer.Pos()), "drawOutlines only after the content closure", "outlines can be painted before the content")
	}

	// background before border wherever both are drawn in a function of the package
	r1b := c.Rule("R1b", "in every function of html/document that draws both, a box's background is drawn before its border on every path", 2)
	for _, root := range p.FuncsOfPkg("html/document") {
		hasBg, hasBo := false, false
		core.Instrs(root, func(in ssa.Instruction) {
			if callsNamed(in, "drawBackgroundDefaut") {
				hasBg = true
			}
			if callsNamed(in, "drawBorder") {
				hasBo = true
			}
		})
		if !hasBg || !hasBo {
			continue
		}
		ok, off := core.MustPassThrough(root, func(in ssa.Instruction) bool { return callsNamed(in, "drawBackgroundDefaut") }, func(in ssa.Instruction) bool { return callsNamed(in, "drawBorder") })
		pos := p.Pos(root.Pos())
		if off != nil {
			pos = p.Pos(off.Pos())
		}
		r1b.Cond(ok, core.FuncName(root)+" | background before border", pos, "every drawBorder is preceded by drawBackgroundDefaut", "a drawBorder call is reachable without a preceding drawBackgroundDefaut")
	}

	// ---- R2 partition and sorting
	r2 := c.Rule("R2", "NewStackingContext puts a child context in the negative list iff zIndex<0, the zero list iff zIndex==0, the positive list iff zIndex>0; the negative and positive lists are sorted with a stable sort whose comparison is strict < on zIndex", 5)
	nsc := p.Fn("html/document", "NewStackingContext")
	if nsc == nil {
		r2.Anchor("html/document.NewStackingContext")
	} else {
		// atoms comparing a zIndex field with 0
		isZ := func(v ssa.Value) bool {
			return core.DerivesFrom(v, func(x ssa.Value) bool { return core.IsFieldNamed(x, "zIndex") }) && !isConst(v)
		}
		type zatom struct {
			a  ssa.Value
			op token.Token
		}
		var zatoms []zatom
		for _, a := range core.CondAtoms(nsc) {
			b, ok := a.(*ssa.BinOp)
			if !ok {
				continue
			}
			if n, ok := core.ConstInt(b.Y); ok && n == 0 && isZ(b.X) {
				zatoms = append(zatoms, zatom{a, b.Op})
			}
		}
		for _, want := range []struct {
			field string
			ord   int
		}{{"negativeZContexts", -1}, {"zeroZContexts", 0}, {"positiveZContexts", 1}} {
			// the append whose result is stored into the field
			var site *ssa.BasicBlock
			var sitePos token.Pos
			core.Instrs(nsc, func(in ssa.Instruction) {
				st, ok := in.(*ssa.Store)
				if !ok || fieldClass(st.Addr.(ssa.Instruction), "StackingContext") != want.field {
					return
				}
				if call, ok := st.Val.(*ssa.Call); ok {
					if b, ok := call.Common().Value.(*ssa.Builtin); ok && b.Name() == "append" {
						site, sitePos = st.Block(), st.Pos()
					}
				}
			})
			key := "append to " + want.field
			if site == nil {
				r2.Fail(key, p.Pos(nsc.Pos()), "no append into this list")
				continue
			}
			okAll := len(zatoms) > 0
			detail := ""
			for ord := -1; ord <= 1; ord++ {
				assign := map[ssa.Value]bool{}
				for _, z := range zatoms {
					assign[z.a] = ordOK(z.op, ord)
				}
				reach := core.ForwardReach(nsc.Blocks[0], assign, nil)[site]
				if reach != (ord == want.ord) {
					okAll = false
					detail = fmt.Sprintf("with zIndex %s 0 the append is reachable=%v", map[int]string{-1: "<", 0: "==", 1: ">"}[ord], reach)
				}
			}
			r2.Cond(okAll, key+fmt.Sprintf(" iff zIndex sign = %d", want.ord), p.Pos(sitePos), fmt.Sprintf("decided on the 3 orderings of zIndex and 0 (%d comparison atoms)", len(zatoms)), detail)
		}
		// sorts
		for _, field := range []string{"negativeZContexts", "positiveZContexts"} {
			found := false
			core.Instrs(nsc, func(in ssa.Instruction) {
				call, ok := in.(*ssa.Call)
				if !ok {
					return
				}
				callee := call.Common().StaticCallee()
				if callee == nil || callee.Pkg == nil {
					return
				}
				pkg := callee.Pkg.Pkg.Path()
				if pkg != "sort" && pkg != "slices" {
					return
				}
				if len(call.Call.Args) == 0 {
					return
				}
				if !core.DerivesFrom(call.Call.Args[0], func(x ssa.Value) bool {
					i, ok := x.(ssa.Instruction)
					return ok && fieldClass(i, "StackingContext") == field
				}) {
					return
				}
				found = true
				stable := strings.Contains(callee.Name(), "Stable")
				r2.Cond(stable, field+" sorted with a stable sort", p.Pos(call.Pos()), pkg+"."+callee.Name(), pkg+"."+callee.Name()+" is not stable: contexts with equal z-index may leave tree order")
				// comparator
				if len(call.Call.Args) >= 2 {
					if mc, ok := call.Call.Args[1].(*ssa.MakeClosure); ok {
						cmp := mc.Fn.(*ssa.Function)
						okCmp := false
						core.Instrs(cmp, func(i2 ssa.Instruction) {
							ret, ok := i2.(*ssa.Return)
							if !ok || len(ret.Results) != 1 {
								return
							}
							b, ok := ret.Results[0].(*ssa.BinOp)
							if !ok || (b.Op != token.LSS && b.Op != token.GTR) {
								return
							}
							fromParam := func(v ssa.Value, pi int) bool {
								return core.DerivesFrom(v, func(x ssa.Value) bool {
									ia, ok := x.(*ssa.IndexAddr)
									return ok && ia.Index == cmp.Params[pi]
								}) && core.DerivesFrom(v, func(x ssa.Value) bool { return core.IsFieldNamed(x, "zIndex") })
							}
							// list[i].z < list[j].z, or the same written list[j].z > list[i].z
							if b.Op == token.LSS && fromParam(b.X, 0) && fromParam(b.Y, 1) {
								okCmp = true
							}
							if b.Op == token.GTR && fromParam(b.X, 1) && fromParam(b.Y, 0) {
								okCmp = true
							}
						})
						r2.Cond(okCmp, field+" comparator is list[i].zIndex < list[j].zIndex", p.Pos(cmp.Pos()), "strict < on zIndex of elements i and j", "comparator is not a strict ascending comparison of zIndex (<= breaks stability; > reverses the order)")
					} else {
						r2.Unknown(field+" comparator", p.Pos(call.Pos()), "comparator is not a function literal")
					}
				}
			})
			if !found {
				r2.Fail(field+" is sorted", p.Pos(nsc.Pos()), "no sort call on this list: contexts would be painted in tree order regardless of z-index")
			}
		}
	}

	// ---- R3 who starts a stacking context
	r3 := c.Rule("R3", "in NewStackingContextFromBox's dispatch, a box is made a real child stacking context exactly when (position != static and z-index != auto) or opacity < 1 or it has a transform or overflow != visible (32 truth assignments)", 32)
	nfb := p.Fn("html/document", "NewStackingContextFromBox")
	if nfb == nil {
		r3.Anchor("html/document.NewStackingContextFromBox")
		return
	}
	var disp *ssa.Function
	var site *ssa.Call
	for _, f := range allClosures(nfb) {
		core.Instrs(f, func(in ssa.Instruction) {
			call, ok := in.(*ssa.Call)
			if !ok || call.Common().StaticCallee() != nfb || len(call.Call.Args) != 3 {
				return
			}
			if k, ok := call.Call.Args[2].(*ssa.Const); ok && k.Value == nil && f != nfb {
				disp, site = f, call
			}
		})
	}
	if disp == nil {
		r3.Anchor("call NewStackingContextFromBox(box, page, nil) inside the dispatch closure")
		return
	}
	classify := func(a ssa.Value) string {
		b, ok := a.(*ssa.BinOp)
		if !ok {
			return ""
		}
		from := func(v ssa.Value, getter string) bool {
			return core.DerivesFrom(v, func(x ssa.Value) bool {
				call, ok := x.(*ssa.Call)
				return ok && call.Common().IsInvoke() && call.Common().Method.Name() == getter
			})
		}
		if s, ok := core.ConstStr(b.Y); ok {
			switch {
			case s == "static" && from(b.X, "GetPosition") && b.Op == token.NEQ:
				return "@positioned"
			case s == "static" && from(b.X, "GetPosition") && b.Op == token.EQL:
				return "!@positioned"
			case s == "auto" && from(b.X, "GetZIndex") && b.Op == token.NEQ:
				return "@zindex"
			case s == "auto" && from(b.X, "GetZIndex") && b.Op == token.EQL:
				return "!@zindex"
			case s == "visible" && from(b.X, "GetOverflow") && b.Op == token.NEQ:
				return "@overflow"
			case s == "visible" && from(b.X, "GetOverflow") && b.Op == token.EQL:
				return "!@overflow"
			}
		}
		if from(b.X, "GetOpacity") && b.Op == token.LSS {
			if k, ok := b.Y.(*ssa.Const); ok && k.Value != nil && k.Value.String() == "1" {
				return "@opacity"
			}
		}
		if from(b.X, "GetTransform") && b.Op == token.NEQ {
			if n, ok := core.ConstInt(b.Y); ok && n == 0 {
				return "@transform"
			}
		}
		return ""
	}
	names := []string{"positioned", "zindex", "opacity", "transform", "overflow"}
	// group atoms
	groups := map[string][]struct {
		a   ssa.Value
		neg bool
	}{}
	for _, a := range core.CondAtomsReaching(disp, site.Block()) {
		n := classify(a)
		if n == "" {
			continue
		}
		neg := strings.HasPrefix(n, "!")
		n = strings.TrimPrefix(strings.TrimPrefix(n, "!"), "@")
		groups[n] = append(groups[n], struct {
			a   ssa.Value
			neg bool
		}{a, neg})
	}
	for _, n := range names {
		if len(groups[n]) == 0 {
			r3.Fail("dispatch tests "+n, p.Pos(disp.Pos()), "no test of this condition before the child-context creation")
		}
	}
	for mask := 0; mask < 32; mask++ {
		env := map[string]bool{}
		assign := map[ssa.Value]bool{}
		for i, n := range names {
			v := mask&(1<<i) != 0
			env[n] = v
			for _, m := range groups[n] {
				assign[m.a] = v != m.neg
			}
		}
		want := (env["positioned"] && env["zindex"]) || env["opacity"] || env["transform"] || env["overflow"]
		got := core.ForwardReach(disp.Blocks[0], assign, nil)[site.Block()]
		r3.Cond(got == want, fmt.Sprintf("dispatch positioned=%v zindex=%v opacity<1=%v transform=%v overflow=%v", env["positioned"], env["zindex"], env["opacity"], env["transform"], env["overflow"]),
			p.Pos(site.Pos()), fmt.Sprintf("creates a stacking context = %v", got), fmt.Sprintf("creates a stacking context = %v, CSS requires %v", got, want))
	}
}

func isConst(v ssa.Value) bool { _, ok := v.(*ssa.Const); return ok }

// c16Dispatch: the dispatch closure of NewStackingContextFromBox.
func c16Dispatch(c *core.Check) {
	p := c.Prog
	r := c.Rule("R5", "dispatch of boxes into the painting lists: a box is put on the float layer only when it is not positioned (a positioned float is painted with the positioned boxes, Appendix E step 8), and every insertion index (into the child contexts, the blocks and the blocks-and-cells lists) is read before the descendants of the box are dispatched, so that a box precedes its descendants (tree order)", 2)
	fn := p.Lookup("html/document.NewStackingContextFromBox$1")
	if fn == nil {
		r.Anchor("html/document.NewStackingContextFromBox$1 (dispatch)")
		return
	}
	// (a) floats
	var posAtoms []ssa.Value
	for _, a := range core.CondAtoms(fn) {
		if bo, ok := a.(*ssa.BinOp); ok && bo.Op == token.NEQ {
			if s, ok := core.ConstStr(bo.Y); ok && s == "static" {
				posAtoms = append(posAtoms, a)
			}
		}
	}
	nF := 0
	core.Instrs(fn, func(in ssa.Instruction) {
		call, ok := in.(*ssa.Call)
		if !ok {
			return
		}
		bi, ok := call.Call.Value.(*ssa.Builtin)
		if !ok || bi.Name() != "append" {
			return
		}
		// append to the captured `floats`
		first := call.Call.Args[0]
		isFloats := false
		if u, ok := first.(*ssa.UnOp); ok {
			if fv, ok := u.X.(*ssa.FreeVar); ok && fv.Name() == "floats" {
				isFloats = true
			}
		}
		if !isFloats {
			return
		}
		nF++
		assign := map[ssa.Value]bool{}
		for _, a := range posAtoms {
			assign[a] = true
		}
		reach := core.ForwardReach(fn.Blocks[0], assign, nil)
		r.Cond(len(posAtoms) > 0 && !reach[call.Block()], "dispatch | "+p.StmtTextAt(fn, call.Pos()), p.Pos(call.Pos()), "not reached when position != static", "a positioned box can be put on the float layer: it is painted at step 5 instead of step 8, under earlier positioned boxes")
	})
	if nF == 0 {
		r.Unknown("dispatch | floats", p.Pos(fn.Pos()), "no append to the float list found")
	}
	// (b) insertion indices are read before the descendants are dispatched
	// before(a, b): b can never execute before a in one activation: a is not reachable from b
	before := func(a, b ssa.Instruction) bool {
		if a.Block() == b.Block() {
			for _, in := range a.Block().Instrs {
				if in == a {
					return true
				}
				if in == b {
					return false
				}
			}
		}
		seen := map[*ssa.BasicBlock]bool{}
		work := append([]*ssa.BasicBlock{}, b.Block().Succs...)
		for len(work) > 0 {
			x := work[len(work)-1]
			work = work[:len(work)-1]
			if seen[x] {
				continue
			}
			seen[x] = true
			work = append(work, x.Succs...)
		}
		return !seen[a.Block()]
	}
	nI := 0
	core.Instrs(fn, func(in ssa.Instruction) {
		call, ok := in.(*ssa.Call)
		if !ok {
			return
		}
		callee := call.Call.StaticCallee()
		if callee == nil || (callee.Name() != "insertStackingContext" && callee.Name() != "insertBox") || len(call.Call.Args) != 3 {
			return
		}
		nI++
		key := "dispatch | " + p.StmtTextAt(fn, call.Pos())
		// the len calls the index derives from
		var lens []ssa.Instruction
		core.DerivesFrom(call.Call.Args[1], func(v ssa.Value) bool {
			if lc, ok := v.(*ssa.Call); ok {
				if bi, ok := lc.Call.Value.(*ssa.Builtin); ok && bi.Name() == "len" {
					lens = append(lens, lc)
				}
			}
			return false
		})
		// the call that dispatches the descendants: the inserted value is its result
		var producer ssa.Instruction
		arg := call.Call.Args[2]
		for i := 0; i < 4 && producer == nil; i++ {
			switch x := arg.(type) {
			case *ssa.Call:
				producer = x
			case *ssa.MakeInterface:
				arg = x.X
			case *ssa.ChangeInterface:
				arg = x.X
			case *ssa.UnOp:
				arg = core.ResolveLoad(x)
				if arg == ssa.Value(x) {
					i = 4
				}
			default:
				i = 4
			}
		}
		if len(lens) == 0 || producer == nil {
			r.Unknown(key, p.Pos(call.Pos()), fmt.Sprintf("index from %d len() calls, producer found: %v", len(lens), producer != nil))
			return
		}
		ok2 := true
		for _, l := range lens {
			if !before(l, producer) {
				ok2 = false
			}
		}
		r.Cond(ok2, key, p.Pos(call.Pos()), "the index is read before the descendants are dispatched", "the insertion index is read after the descendants were dispatched: the box is queued after its own descendants and painted over them")
	})
	if nI < 3 {
		r.Unknown("dispatch | insertions", p.Pos(fn.Pos()), fmt.Sprintf("%d insertions found, 3 expected", nI))
	}
}

// c16Page: the layers of a page, bottom to top.
func c16Page(c *core.Check) {
	p := c.Prog
	r := c.Rule("R6", "drawPage paints, bottom to top: the page box's own background (@page), the canvas background propagated from the root element, the page border, then the root stacking context (CSS Paged Media 3 §4: the canvas is painted over the page background)", 1)
	fn := p.Method("html/document", "drawContext", "drawPage")
	if fn == nil {
		r.Anchor("html/document.drawContext.drawPage")
		return
	}
	var pageBg, canvasBg, border, content ssa.Instruction
	core.Instrs(fn, func(in ssa.Instruction) {
		call, ok := in.(*ssa.Call)
		if !ok || call.Call.StaticCallee() == nil {
			return
		}
		switch call.Call.StaticCallee().Name() {
		case "drawBackground":
			if len(call.Call.Args) < 2 {
				return
			}
			arg := call.Call.Args[1]
			switch {
			case core.DerivesFrom(arg, func(v ssa.Value) bool { return core.IsFieldNamed(v, "CanvasBackground") }):
				canvasBg = in
			case core.DerivesFrom(arg, func(v ssa.Value) bool { return core.IsFieldNamed(v, "Background") }):
				pageBg = in
			}
		case "drawBorder":
			border = in
		case "drawStackingContext":
			content = in
		}
	})
	if pageBg == nil || canvasBg == nil || border == nil || content == nil {
		r.Anchor("drawPage: drawBackground(page background), drawBackground(canvas background), drawBorder, drawStackingContext")
		return
	}
	r.Cond(instrDominates(pageBg, canvasBg), "html/document.drawPage | page background below the canvas background", p.Pos(canvasBg.Pos()), "the @page background is painted first", "the canvas background is painted before the page box's own background, which then covers it")
	r.Cond(instrDominates(canvasBg, border), "html/document.drawPage | backgrounds below the page border", p.Pos(border.Pos()), "backgrounds first", "the page border is painted before a background")
	r.Cond(instrDominates(border, content), "html/document.drawPage | page decorations below the content", p.Pos(content.Pos()), "the root stacking context is painted last", "the content is painted before the page's border")
}

// c16FixedBoxes: fixed-position boxes repeated from other pages keep tree order.  layoutDocument rebuilds the children
// of each page's root as: the fixed boxes of the earlier pages, the root's own children, the fixed boxes of the later
// pages — so that, painted in tree order, a box from an earlier page is below and one from a later page above the
// page's own positioned content.
func c16FixedBoxes(c *core.Check) {
	p := c.Prog
	r := c.Rule("R7", "fixed boxes of other pages are inserted in document order: in layoutDocument the new children of a page's root are appended in three steps — layoutFixedBoxes of the pages before this one (a slice of the page list ending at the page's index), the root's own children, layoutFixedBoxes of the pages after it (a slice starting after the index)", 1)
	fn := p.Fn("html/layout", "layoutDocument")
	lfb := p.Fn("html/layout", "layoutFixedBoxes")
	if fn == nil || lfb == nil {
		r.Anchor("html/layout.layoutDocument / layoutFixedBoxes")
		return
	}
	// the calls, classified by the slice of pages they receive
	var before, after []*ssa.Call
	var other []*ssa.Call
	core.Instrs(fn, func(in ssa.Instruction) {
		call, ok := in.(*ssa.Call)
		if !ok || call.Call.StaticCallee() != lfb || len(call.Call.Args) < 2 {
			return
		}
		sl, ok := call.Call.Args[1].(*ssa.Slice)
		switch {
		case ok && sl.Low == nil && sl.High != nil:
			before = append(before, call)
		case ok && sl.Low != nil && sl.High == nil:
			after = append(after, call)
		default:
			other = append(other, call)
		}
	})
	r.Cond(len(before) == 1 && len(after) == 1 && len(other) == 0, "html/layout.layoutDocument | one call for the pages before, one for the pages after", p.Pos(fn.Pos()),
		"layoutFixedBoxes(pages[:i]) and layoutFixedBoxes(pages[i+1:])", fmt.Sprintf("%d call(s) on the pages before, %d on the pages after, %d on another list: the fixed boxes of earlier and later pages are no longer told apart", len(before), len(after), len(other)))
	if len(before) != 1 || len(after) != 1 {
		return
	}
	// order: before-call, then a load of the root's Children, then after-call, all feeding appends in that order
	var childrenLoad ssa.Instruction
	core.Instrs(fn, func(in ssa.Instruction) {
		ld, ok := in.(*ssa.UnOp)
		if !ok || ld.Op != token.MUL || ld.Block() != before[0].Block() {
			return
		}
		if fa, ok := ld.X.(*ssa.FieldAddr); ok && core.FieldName(fa) == "Children" && childrenLoad == nil && instrDominates(before[0], ld) {
			childrenLoad = ld
		}
	})
	okOrder := childrenLoad != nil && before[0].Block() == after[0].Block() && instrDominates(before[0], childrenLoad) && instrDominates(childrenLoad, after[0])
	r.Cond(okOrder, "html/layout.layoutDocument | earlier pages' boxes, own children, later pages' boxes", p.Pos(before[0].Pos()), "appended in that order", "the three parts are not appended in document order: a fixed box from an earlier page is painted over the positioned boxes of this page")
	r.Cond(true, "html/layout.layoutDocument | fixed boxes anchor", p.Pos(after[0].Pos()), "calls found", "")
}

// c16WrapperProperties: z-index moves to the table wrapper together with position.
func c16WrapperProperties(c *core.Check) {
	p := c.Prog
	r := c.Rule("R8", "a positioned table forms its stacking context on the wrapper: the set of properties moved from a table to its wrapper (TableWrapperBoxProperties) contains z-index if and only if it contains position (z-index left on the now static table box would be ignored: the table would never form a z-index context)", 1)
	entries, err := p.Table("css/properties", "TableWrapperBoxProperties")
	if err != nil {
		r.Anchor("css/properties.TableWrapperBoxProperties: " + err.Error())
		return
	}
	has := map[string]bool{}
	for _, e := range entries {
		if e.ValObj != nil {
			has[e.ValObj.Name()] = true
		} else if e.KeyExpr != nil {
			has[p.NodeText(e.KeyExpr)] = true
		} else if e.Val != nil {
			has[p.NodeText(e.Val)] = true
		}
	}
	if len(has) < 10 {
		r.Anchor(fmt.Sprintf("css/properties.TableWrapperBoxProperties: %d entries read", len(has)))
		return
	}
	r.Cond(has["PPosition"] == has["PZIndex"], "css/properties.TableWrapperBoxProperties | position and z-index together", "css/properties/datas.go", "both moved to the wrapper", fmt.Sprintf("position moved: %v, z-index moved: %v — `<table style=\"position:relative;z-index:-1\">` paints over the in-flow blocks", has["PPosition"], has["PZIndex"]))
}

// c16ZIndexPositioned: z-index applies to positioned boxes only.  A box that forms a stacking context for another
// reason (opacity, transform, overflow) is painted at level 0 whatever its z-index says.
func c16ZIndexPositioned(c *core.Check) {
	p := c.Prog
	r := c.Rule("R9", "z-index applies to positioned boxes only: in NewStackingContext the integer z-index of the style reaches the context's level only on paths where the position was compared with \"static\" and found different (a non-positioned box with opacity < 1 and z-index: 2 is painted at level 0, below a positioned box with z-index: 1)", 1)
	fn := p.Fn("html/document", "NewStackingContext")
	if fn == nil {
		r.Anchor("html/document.NewStackingContext")
		return
	}
	var atoms []ssa.Value
	pol := map[ssa.Value]bool{}
	for _, a := range core.CondAtoms(fn) {
		bo, ok := a.(*ssa.BinOp)
		if !ok || (bo.Op != token.EQL && bo.Op != token.NEQ) {
			continue
		}
		if s, isS := core.ConstStr(bo.Y); isS && s == "static" {
			atoms = append(atoms, a)
			pol[a] = bo.Op == token.NEQ
		}
	}
	n := 0
	core.Instrs(fn, func(in ssa.Instruction) {
		st, ok := in.(*ssa.Store)
		if !ok {
			return
		}
		fa, ok := st.Addr.(*ssa.FieldAddr)
		if !ok || core.FieldName(fa) != "zIndex" {
			return
		}
		if _, isK := st.Val.(*ssa.Const); isK {
			return // level 0
		}
		n++
		ok2 := false
		if len(atoms) > 0 {
			ok2, _ = core.GuardedBy(fn, st.Block(), atoms, func(m map[ssa.Value]bool) bool {
				for a, v := range m {
					if v == pol[a] {
						return true
					}
				}
				return false
			})
		}
		r.Cond(ok2, "html/document.NewStackingContext | zIndex = the style's integer", p.Pos(st.Pos()), "only where the position is not static", "the z-index of the style becomes the level of the context without a test of the position: a non-positioned box that forms a context through opacity, transform or overflow is ordered by a z-index that does not apply to it")
	})
	if n == 0 {
		r.Anchor("NewStackingContext: self.zIndex = zIndex.Int")
	}
}
