package props

import (
	"fmt"
	"go/types"

	"golang.org/x/tools/go/ssa"

	"wrverif/core"
)

// c01GridWidth (R25): the border grid of a collapsed table is as wide as the table's grid.  wrapTable numbers the
// columns (column boxes first, then the cells of every row) by storing a running counter into the GridX fields; the
// width it hands to collapseTableBorders must take every one of these counters into account, or the grid is
// narrower than a column that only <col> elements declare and the border resolution indexes past its end.
// Decided by connectivity: the width and every value stored into a GridX field belong to one web of merges,
// additions and max() calls.
func c01GridWidth(c *core.Check) {
	p := c.Prog
	r := c.Rule("R25", "wrapTable: every counter stored into a GridX field (column boxes, column groups, cells) is connected, through merges, additions and max calls, with the grid width handed to collapseTableBorders: no numbered column lies outside the border grid", 1)
	fn := p.Fn("html/boxes", "wrapTable")
	if fn == nil {
		r.Anchor("html/boxes.wrapTable")
		return
	}
	// union-find over integer values
	parent := map[ssa.Value]ssa.Value{}
	var find func(v ssa.Value) ssa.Value
	find = func(v ssa.Value) ssa.Value {
		if parent[v] == nil {
			parent[v] = v
		}
		if parent[v] != v {
			parent[v] = find(parent[v])
		}
		return parent[v]
	}
	union := func(a, b ssa.Value) {
		if _, isK := a.(*ssa.Const); isK {
			return
		}
		if _, isK := b.(*ssa.Const); isK {
			return
		}
		parent[find(a)] = find(b)
	}
	isInt := func(v ssa.Value) bool {
		b, ok := v.Type().Underlying().(*types.Basic)
		return ok && b.Info()&types.IsInteger != 0
	}
	var width ssa.Value
	var stores []*ssa.Store
	core.Instrs(fn, func(in ssa.Instruction) {
		switch x := in.(type) {
		case *ssa.Phi:
			if isInt(x) {
				for _, e := range x.Edges {
					union(x, e)
				}
			}
		case *ssa.BinOp:
			if isInt(x) {
				union(x, x.X)
				union(x, x.Y)
			}
		case *ssa.Call:
			if callee := x.Call.StaticCallee(); callee != nil {
				switch callee.Name() {
				case "MaxInt", "max":
					for _, a := range x.Call.Args {
						union(x, a)
					}
				case "collapseTableBorders":
					if len(x.Call.Args) >= 2 {
						width = x.Call.Args[1]
					}
				}
			}
			if b, ok := x.Call.Value.(*ssa.Builtin); ok && b.Name() == "max" {
				for _, a := range x.Call.Args {
					union(x, a)
				}
			}
		case *ssa.Store:
			if fa, ok := x.Addr.(*ssa.FieldAddr); ok && core.FieldName(fa) == "GridX" {
				stores = append(stores, x)
			}
		}
	})
	if width == nil || len(stores) == 0 {
		r.Unknown("html/boxes.wrapTable | grid width", p.Pos(fn.Pos()), fmt.Sprintf("the call of collapseTableBorders (%v) or the stores to GridX (%d) were not found", width != nil, len(stores)))
		return
	}
	for i, st := range stores {
		key := fmt.Sprintf("html/boxes.wrapTable | GridX store #%d", i+1)
		if _, isK := st.Val.(*ssa.Const); isK {
			r.OK(key, p.Pos(st.Pos()), "a constant position")
			continue
		}
		r.Cond(find(st.Val) == find(width), key, p.Pos(st.Pos()), "its counter reaches the grid width", "the counter stored here never reaches the width handed to collapseTableBorders: a column numbered here can lie outside the border grid (`border-collapse: collapse` with more <col> than cell columns: index out of range)")
	}
}
