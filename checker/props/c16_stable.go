package props

import (
	"fmt"

	"golang.org/x/tools/go/ssa"

	"wrverif/core"
)

// c16StableSorts (R13): the lists of boxes that layout and drawing sort are in document order, and the keys they are
// sorted by (z-index, `order`, the position of a border segment) tie: document order must break the tie.  Every call
// of a sorting function of package sort in html/layout, html/document and html/boxes is a call of a stable one
// (sort.SliceStable, sort.Stable).  (Flex and grid items were sorted by `order` with sort.Slice: beyond twelve items
// those of equal order came out in another order than the document's.)
func c16StableSorts(c *core.Check) {
	p := c.Prog
	r := c.Rule("R13", "ties keep document order: every call of a sort function of package sort in html/layout, html/document and html/boxes is stable (sort.SliceStable or sort.Stable, not sort.Slice or sort.Sort)", 5)
	n := 0
	for _, pkg := range []string{"html/layout", "html/document", "html/boxes"} {
		for _, fn := range p.FuncsOfPkg(pkg) {
			k := 0
			core.Instrs(fn, func(in ssa.Instruction) {
				call, ok := in.(*ssa.Call)
				if !ok {
					return
				}
				callee := call.Call.StaticCallee()
				if callee == nil || callee.Pkg == nil || callee.Pkg.Pkg.Path() != "sort" {
					return
				}
				switch callee.Name() {
				case "Slice", "Sort", "SliceStable", "Stable":
				default:
					return // searches, Ints/Strings/Float64s sort values that are their own key
				}
				n++
				k++
				key := fmt.Sprintf("%s | sort.%s #%d", core.FuncName(fn), "call", k)
				stable := callee.Name() == "SliceStable" || callee.Name() == "Stable"
				r.Cond(stable, key, p.Pos(call.Pos()), "sort."+callee.Name(), "sort."+callee.Name()+" is not stable: elements whose keys are equal leave document order")
			})
		}
	}
	if n == 0 {
		r.Anchor("calls of package sort in html/layout, html/document, html/boxes")
	}
}
