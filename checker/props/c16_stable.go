package props

import (
	"fmt"

	"golang.org/x/tools/go/ssa"

	"wrverif/core"
)

// c16StableSorts (R13): the lists of boxes that layout and drawing sort are in document order, and the keys they are
// sorted by (z-index, `order`, the position of a border segment) tie: document order must break the tie.  Every call
// of a sorting function of package sort in html/layout, html/document and html/boxes is a call of a stable one
// (sort.SliceStable, sort.Stable).  (Flex and grid items were sorted by `order` with sort.Slice: beyond twelve items
// those of equal order came out in another order than the document's.)
func c16StableSorts(c *core.Check) {
	p := c.Prog
	r := c.Rule("R13", "ties keep document order: every call of a sort function of package sort in html/layout, html/document and html/boxes is stable (sort.SliceStable or sort.Stable, not sort.Slice or sort.Sort)", 3)
	n := 0
	for _, pkg := range []string{"html/layout", "html/document", "html/boxes"} {
		for _, fn := range p.FuncsOfPkg(pkg) {
			k := 0
			core.Instrs(fn, func(in ssa.Instruction) {
				call, ok := in.(*ssa.Call)
				if !ok {
					return
				}
				callee := call.Call.StaticCallee()
				if callee == nil || callee.Pkg == nil || callee.Pkg.Pkg.Path() != "sort" {
					return
				}
				switch callee.Name() {
				case "Slice", "Sort", "SliceStable", "Stable":
				default:
					return // searches, Ints/Strings/Float64s sort values that are their own key
				}
				n++
				k++
				key := fmt.Sprintf("%s | sort.%s #%d", core.FuncName(fn), "call", k)
				stable := callee.Name() == "SliceStable" || callee.Name() == "Stable"
				r.Cond(stable, key, p.Pos(call.Pos()), "sort."+callee.Name(), "sort."+callee.Name()+" is not stable: elements whose keys are equal leave document order")
			})
		}
	}
	if n == 0 {
		r.Anchor("calls of package sort in html/layout, html/document, html/boxes")
	}
}

// c16ViewportOverflow (R14): the overflow of the root element — or of <body> when the root's is visible — is
// propagated to the viewport, and the element it was taken from is then treated as overflow: visible (CSS Overflow
// §3.3).  In setViewportOverflow the box whose overflow is stored into ViewportOverflow is the box whose style is
// reset: the two are the same value.  (Resetting the root while the value came from <body> leaves <body> clipping
// its sub-tree and forming a stacking context of its own.)
func c16ViewportOverflow(c *core.Check) {
	p := c.Prog
	r := c.Rule("R14", "the propagated overflow is reset where it was taken: in html/boxes.setViewportOverflow the box whose GetOverflow() is stored into ViewportOverflow and the box whose style receives SetOverflow(\"visible\") are the same value", 1)
	fn := p.Fn("html/boxes", "setViewportOverflow")
	if fn == nil {
		r.Anchor("html/boxes.setViewportOverflow")
		return
	}
	key := "html/boxes.setViewportOverflow | reset where taken"
	// the box behind X.Box().Style.<method>()
	boxOf := func(call *ssa.Call) ssa.Value {
		v := call.Call.Value
		for i := 0; i < 6 && v != nil; i++ {
			switch x := v.(type) {
			case *ssa.UnOp:
				v = x.X
			case *ssa.FieldAddr:
				v = x.X
			case *ssa.Field:
				v = x.X
			case *ssa.Call:
				if x.Call.IsInvoke() && x.Call.Method.Name() == "Box" {
					return x.Call.Value
				}
				return nil
			default:
				return nil
			}
		}
		return nil
	}
	var taken, reset []ssa.Value
	core.Instrs(fn, func(in ssa.Instruction) {
		switch x := in.(type) {
		case *ssa.Store:
			if fa, ok := x.Addr.(*ssa.FieldAddr); ok && core.FieldName(fa) == "ViewportOverflow" {
				core.Instrs(fn, func(in2 ssa.Instruction) {
					if call, ok := in2.(*ssa.Call); ok && call.Call.IsInvoke() && call.Call.Method.Name() == "GetOverflow" {
						if core.DerivesFrom(x.Val, func(v ssa.Value) bool { return v == ssa.Value(call) }) {
							if b := boxOf(call); b != nil {
								taken = append(taken, b)
							}
						}
					}
				})
			}
		case *ssa.Call:
			if x.Call.IsInvoke() && x.Call.Method.Name() == "SetOverflow" && len(x.Call.Args) == 1 {
				if k, ok := core.ConstStr(core.Unwrap(x.Call.Args[0])); ok && k == "visible" {
					if b := boxOf(x); b != nil {
						reset = append(reset, b)
					}
				}
			}
		}
	})
	if len(taken) != 1 || len(reset) != 1 {
		r.Unknown(key, p.Pos(fn.Pos()), fmt.Sprintf("%d boxes whose overflow is stored into ViewportOverflow, %d boxes reset to visible (1 and 1 expected)", len(taken), len(reset)))
		return
	}
	r.Cond(taken[0] == reset[0], key, p.Pos(fn.Pos()), "the same box", "the overflow propagated to the viewport is taken from one box and another box is reset to visible: the box it was taken from keeps clipping its sub-tree")
}
