package props

import (
	"fmt"
	"go/token"
	"go/types"
	"math/big"

	"golang.org/x/tools/go/ssa"

	"wrverif/core"
)

// c11TextAlign folds layout.textAlign for every text-align / text-align-last / direction combination and both outcomes
// of the overflow test: the offset of the line's content is 0 for start and justify, the free space for end, half of it
// for center, with left/right mapped to start/end by the direction (CSS Text 3 §7.1), and 0 when the line overflows.
func c11TextAlign(c *core.Check) {
	p := c.Prog
	r := c.Rule("R6", "layout.textAlign, folded for the 6 text-align values × ltr/rtl × last line or not (with the 7 text-align-last values) × line overflowing or not: the offset returned is 0 when the line overflows, 0 for start and justify, available − line width for end, half of that for center; left and right are start and end under ltr and the reverse under rtl; on the last line text-align-last replaces text-align unless it is auto", 172)
	fn := p.Fn("html/layout", "textAlign")
	pk := p.ByPath["html/boxes"]
	if fn == nil || pk == nil || pk.Types.Scope().Lookup("BoxFields") == nil {
		r.Anchor("html/layout.textAlign")
		return
	}
	bfT := pk.Types.Scope().Lookup("BoxFields").Type()
	st := bfT.Underlying().(*types.Struct)
	idx := map[string]int{}
	for i := 0; i < st.NumFields(); i++ {
		idx[st.Field(i).Name()] = i
	}
	if _, ok := idx["Width"]; !ok {
		r.Anchor("html/boxes.BoxFields.Width")
		return
	}
	if _, ok := idx["Style"]; !ok {
		r.Anchor("html/boxes.BoxFields.Style")
		return
	}
	w, avail := core.SymP("w"), core.SymP("avail")
	free := avail.Add(w.Neg())
	half := free.Mul(core.PolyConst(big.NewRat(1, 2)))
	aligns := []string{"start", "end", "left", "right", "center", "justify"}
	lasts := []string{"auto", "start", "end", "left", "right", "center", "justify"}
	type styleMarker struct{}
	n := 0
	for _, dir := range []string{"ltr", "rtl"} {
		for _, align := range aligns {
			for _, last := range []bool{false, true} {
				ls := []string{"auto"}
				if last {
					ls = lasts
				}
				for _, alignLast := range ls {
					for _, overflow := range []bool{false, true} {
						key := fmt.Sprintf("textAlign | text-align %s, direction %s", align, dir)
						if last {
							key += ", last line with text-align-last " + alignLast
						}
						if overflow {
							key += ", line overflows"
						}
						// effective alignment
						eff := align
						if last && alignLast != "auto" {
							eff = alignLast
						}
						switch eff {
						case "left":
							eff = map[string]string{"ltr": "start", "rtl": "end"}[dir]
						case "right":
							eff = map[string]string{"ltr": "end", "rtl": "start"}[dir]
						}
						want := core.Num(0)
						if !overflow {
							switch eff {
							case "end":
								want = free
							case "center":
								want = half
							}
						}
						agg := core.ZeroOf(bfT).(core.Agg)
						agg.E[idx["Width"]] = w
						agg.E[idx["Style"]] = styleMarker{}
						boxPtr := core.Ptr{C: &core.Cell{V: agg}}
						f := &core.Folder{MaxDepth: 1}
						f.Invoke = func(_ *core.Folder, call *ssa.Call, recv core.AV, args []core.AV) (core.AV, bool) {
							switch call.Call.Method.Name() {
							case "Box":
								return boxPtr, true
							case "V":
								if pv, ok := recv.(core.Poly); ok {
									return pv, true
								}
							case "GetTextAlignAll":
								return core.StrV(align), true
							case "GetTextAlignLast":
								return core.StrV(alignLast), true
							case "GetDirection":
								return core.StrV(dir), true
							case "GetWhiteSpace":
								return core.StrV("normal"), true
							}
							return nil, false
						}
						f.Call = func(_ *core.Folder, call *ssa.Call, args []core.AV) (core.AV, bool) {
							if cal := call.Call.StaticCallee(); cal != nil {
								switch cal.Name() {
								case "justifyLine":
									return core.NilV{}, true
								case "V":
									if len(args) == 1 {
										if pv, ok := args[0].(core.Poly); ok {
											return pv, true
										}
									}
								}
							}
							return nil, false
						}
						f.Cmp = func(op token.Token, x, y core.AV) (bool, bool) {
							px, ok1 := x.(core.Poly)
							py, ok2 := y.(core.Poly)
							if ok1 && ok2 && px.Equal(w) && py.Equal(avail) {
								switch op {
								case token.GEQ:
									return overflow, true
								case token.LSS:
									return !overflow, true
								}
							}
							return false, false
						}
						res, err := f.Fold(fn, []core.AV{core.NilV{}, boxPtr, avail, core.BoolV(last)})
						n++
						if err != nil || len(res) != 1 {
							r.Unknown(key, p.Pos(fn.Pos()), fmt.Sprintf("could not be folded: %v", err))
							continue
						}
						got, ok := res[0].(core.Poly)
						r.Cond(ok && got.Equal(want), key, p.Pos(fn.Pos()), "offset "+core.AVString(res[0]), fmt.Sprintf("offset %s, CSS Text gives %s", core.AVString(res[0]), want.String()))
					}
				}
			}
		}
	}
}
