package props

import (
	"fmt"
	"go/token"
	"go/types"

	"golang.org/x/tools/go/ssa"

	"wrverif/core"
)

// c06URLInvalidEscape (R13): in an unquoted url a backslash that does not start a valid escape (it is followed by a
// newline) is a parse error: the tokenizer consumes the remnants of a bad url.  Decided on consumeUrl: in the loop
// that reads the characters, with the current character a backslash and the test "followed by a newline" true,
// neither the continuation of the loop (a back edge to its header) nor a return without error is reachable.
func c06URLInvalidEscape(c *core.Check) {
	p := c.Prog
	r := c.Rule("R13", "consumeUrl: when the current character of an unquoted url is a backslash followed by a newline (not a valid escape), the scan neither goes on to the next character nor returns a url without error: every path leads to the bad-url remnants", 1)
	fn := p.Lookup("css/parser.(*tokenizer).consumeUrl")
	if fn == nil {
		r.Anchor("css/parser.(*tokenizer).consumeUrl")
		return
	}
	// the loop that decodes the characters and calls consumeEscape
	var loop *core.Loop
	var decode *ssa.Call
	for _, l := range core.Loops(fn) {
		hasEscape := false
		var dec *ssa.Call
		for b := range l.Blocks {
			for _, in := range b.Instrs {
				if call, ok := in.(*ssa.Call); ok && call.Call.StaticCallee() != nil {
					switch call.Call.StaticCallee().Name() {
					case "consumeEscape":
						hasEscape = true
					case "DecodeRune":
						if dec == nil || call.Pos() < dec.Pos() {
							dec = call
						}
					}
				}
			}
		}
		if hasEscape && dec != nil {
			loop, decode = l, dec
		}
	}
	key := "css/parser.(*tokenizer).consumeUrl | backslash not starting an escape"
	if loop == nil {
		r.Unknown(key, p.Pos(fn.Pos()), "the loop decoding the characters of the url was not found")
		return
	}
	// the decoded character
	var ch ssa.Value
	for _, ref := range *decode.Referrers() {
		if ex, ok := ref.(*ssa.Extract); ok && ex.Index == 0 {
			ch = ex
		}
	}
	if ch == nil {
		r.Unknown(key, p.Pos(decode.Pos()), "the decoded character is not used")
		return
	}
	assign := map[ssa.Value]bool{}
	nBack, nPrefix := 0, 0
	for _, a := range core.CondAtoms(fn) {
		switch x := a.(type) {
		case *ssa.BinOp:
			if x.X == ch && (x.Op == token.EQL || x.Op == token.NEQ) {
				if k, ok := core.ConstInt(x.Y); ok {
					assign[a] = (k == '\\') == (x.Op == token.EQL)
					if k == '\\' {
						nBack++
					}
				}
			}
		case *ssa.Call:
			callee := x.Call.StaticCallee()
			if callee == nil || !loop.Blocks[x.Block()] {
				continue
			}
			switch callee.Name() {
			case "HasPrefix":
				// the stream starts with backslash-newline
				assign[a] = true
				nPrefix++
			case "ContainsRune", "ContainsAny", "IndexRune":
				if set, ok := core.ConstStr(x.Call.Args[0]); ok && x.Call.Args[1] == ch {
					in := false
					for _, rn := range set {
						if rn == '\\' {
							in = true
						}
					}
					assign[a] = in
				}
			case "isSpace":
				assign[a] = false
			}
		}
	}
	if nBack == 0 {
		r.Fail(key, p.Pos(decode.Pos()), "the character is never compared with a backslash inside the loop")
		return
	}
	reach := core.ForwardReach(decode.Block(), assign, nil)
	bad := ""
	for b := range reach {
		if !loop.Blocks[b] {
			continue
		}
		for _, s := range b.Succs {
			if s == loop.Header && s.Dominates(b) {
				bad = fmt.Sprintf("the scan continues with the next character (block %d loops back)", b.Index)
			}
		}
	}
	core.Instrs(fn, func(in ssa.Instruction) {
		ret, ok := in.(*ssa.Return)
		if !ok || !reach[in.Block()] || !loop.Blocks[in.Block()] || len(ret.Results) != 2 {
			return
		}
		if k, ok := ret.Results[1].(*ssa.Const); ok && k.IsNil() {
			bad = "a url is returned without error"
		}
	})
	r.Cond(bad == "", key, p.Pos(decode.Pos()), fmt.Sprintf("with the %d backslash tests true and the %d newline-prefix tests true, only the bad-url path is reachable", nBack, nPrefix), bad+": `url(a\\<newline>)` is read as a valid url of value `a\\`")
}

// c06URLAtEOF (R14): an unquoted url cut by the end of the input is a url token plus an EOF parse error (CSS Syntax
// §4.3.6: "EOF: this is a parse error. Return the <url-token>"), never a bad-url.  In consumeUrl, from every test of
// the cursor against the input length that can still lead to a url, the end-of-input side only reaches returns whose
// first result is a URL token.
func c06URLAtEOF(c *core.Check) {
	p := c.Prog
	r := c.Rule("R14", "consumeUrl at the end of the input: from each comparison of the cursor with the input length from which a url token can still be returned, the side where the input is exhausted (every such comparison decided that way) reaches only returns of a url token — never the bad-url remnants", 3)
	fn := p.Lookup("css/parser.(*tokenizer).consumeUrl")
	if fn == nil {
		r.Anchor("css/parser.(*tokenizer).consumeUrl")
		return
	}
	isURLReturn := func(ret *ssa.Return) bool {
		if len(ret.Results) == 0 {
			return false
		}
		mi, ok := ret.Results[0].(*ssa.MakeInterface)
		if !ok {
			return false
		}
		nm, ok := mi.X.Type().(*types.Named)
		return ok && nm.Obj().Name() == "URL"
	}
	// atoms: cursor (a load of a field named pos) compared with a length
	type atom struct {
		v   *ssa.BinOp
		eof bool // truth value meaning "input exhausted"
	}
	var atoms []atom
	isPos := func(v ssa.Value) bool {
		ld, ok := v.(*ssa.UnOp)
		if !ok {
			return false
		}
		fa, ok := ld.X.(*ssa.FieldAddr)
		return ok && core.FieldName(fa) == "pos"
	}
	isLen := func(v ssa.Value) bool {
		if call, ok := v.(*ssa.Call); ok {
			if b, ok := call.Call.Value.(*ssa.Builtin); ok && b.Name() == "len" {
				return true
			}
		}
		if phi, ok := v.(*ssa.Phi); ok {
			return phi.Comment == "L"
		}
		return false
	}
	for _, a := range core.CondAtoms(fn) {
		bo, ok := a.(*ssa.BinOp)
		if !ok || !isPos(bo.X) || !(isLen(bo.Y) || valueText(bo.Y) != "" && isLenValue(fn, bo.Y)) {
			continue
		}
		switch bo.Op {
		case token.LSS:
			atoms = append(atoms, atom{bo, false})
		case token.GEQ:
			atoms = append(atoms, atom{bo, true})
		}
	}
	if len(atoms) == 0 {
		r.Unknown("css/parser.(*tokenizer).consumeUrl | end of input", p.Pos(fn.Pos()), "no comparison of the cursor with the input length")
		return
	}
	assign := map[ssa.Value]bool{}
	for _, a := range atoms {
		assign[a.v] = a.eof
	}
	n := 0
	for _, a := range atoms {
		// can a url still be returned from here?
		free := core.ForwardReach(a.v.Block(), nil, nil)
		can := false
		core.Instrs(fn, func(in ssa.Instruction) {
			if ret, ok := in.(*ssa.Return); ok && free[in.Block()] && isURLReturn(ret) {
				can = true
			}
		})
		if !can {
			continue // inside the remnants of a bad url
		}
		n++
		key := fmt.Sprintf("css/parser.(*tokenizer).consumeUrl | end of input at test #%d", n)
		reach := core.ForwardReach(a.v.Block(), assign, nil)
		bad := ""
		core.Instrs(fn, func(in ssa.Instruction) {
			if ret, ok := in.(*ssa.Return); ok && reach[in.Block()] && !isURLReturn(ret) {
				bad = p.Pos(ret.Pos())
			}
		})
		r.Cond(bad == "", key, p.Pos(a.v.Pos()), "the exhausted input only leads to returns of a url token", "with the input exhausted the return at "+bad+" is reached, which does not return a url token: `url(foo.png ` at the end of the input becomes a bad-url")
	}
}

// isLenValue: v is the local that holds len(tk.src) (named L in the source).
func isLenValue(fn *ssa.Function, v ssa.Value) bool {
	call, ok := v.(*ssa.Call)
	if !ok {
		return false
	}
	b, ok := call.Call.Value.(*ssa.Builtin)
	return ok && b.Name() == "len"
}
