package props

import (
	"fmt"
	"go/token"
	"go/types"
	"sort"
	"strings"

	"golang.org/x/tools/go/ssa"

	"wrverif/core"
)

// c13HeaderFooterAttempts (R15): a table with a repeated header and footer is tried with both, with the header only,
// with the footer only and with neither.  The attempts are siblings: every attempt that keeps the header starts the
// body at the same distance below it, and every attempt that keeps the footer leaves the same room above it.  A
// change of the header's height bookkeeping applied to one attempt only moves the first body row of the other.
func c13HeaderFooterAttempts(c *core.Check) {
	p := c.Prog
	r := c.Rule("R15", "the attempts of tableLayout with header and/or footer agree: all calls of the body layout whose start position involves the header's height pass the same expression, and all calls whose bottom space involves the footer's height pass the same expression", 2)
	var calls []*ssa.Call
	var owner *ssa.Function
	for _, fn := range p.FuncsOfPkg("html/layout") {
		if fn.Blocks == nil || !strings.HasPrefix(fn.Name(), "tableLayout") {
			continue
		}
		var cs []*ssa.Call
		core.Instrs(fn, func(in ssa.Instruction) {
			call, ok := in.(*ssa.Call)
			if !ok || len(call.Call.Args) != 4 {
				return
			}
			// a call of a local closure (bodyGroupsLayout) taking (skipStack, positionY, bottomSpace, flag)
			if call.Call.StaticCallee() != nil && call.Call.StaticCallee().Parent() == nil {
				return
			}
			if b, ok := call.Call.Args[3].Type().Underlying().(*types.Basic); !ok || b.Kind() != types.Bool {
				return
			}
			cs = append(cs, call)
		})
		if len(cs) >= 4 && len(cs) > len(calls) {
			calls, owner = cs, fn
		}
	}
	if owner == nil {
		r.Anchor("html/layout.tableLayout: the four calls of the body layout with header/footer")
		return
	}
	mentions := func(v ssa.Value, word string) bool {
		found := false
		seen := map[ssa.Value]bool{}
		var walk func(v ssa.Value, d int)
		walk = func(v ssa.Value, d int) {
			if v == nil || seen[v] || d > 6 {
				return
			}
			seen[v] = true
			switch x := v.(type) {
			case *ssa.BinOp:
				walk(x.X, d+1)
				walk(x.Y, d+1)
			case *ssa.Phi:
				if strings.Contains(strings.ToLower(x.Comment), word) {
					found = true
				}
			case *ssa.UnOp:
				if x.Op == token.MUL {
					if al, ok := x.X.(*ssa.Alloc); ok && strings.Contains(strings.ToLower(al.Comment), word) {
						found = true
					}
					if fv, ok := x.X.(*ssa.FreeVar); ok && strings.Contains(strings.ToLower(fv.Name()), word) {
						found = true
					}
				}
			}
		}
		walk(v, 0)
		return found
	}
	for _, side := range []struct {
		arg  int
		word string
		what string
	}{{1, "header", "start position below the header"}, {2, "footer", "room left above the footer"}} {
		forms := map[string][]string{}
		for _, call := range calls {
			a := call.Call.Args[side.arg]
			if !mentions(a, side.word) {
				continue
			}
			t := valueText(a)
			forms[t] = append(forms[t], p.Pos(call.Pos()))
		}
		key := fmt.Sprintf("%s | %s", core.FuncName(owner), side.what)
		n := 0
		for _, ps := range forms {
			n += len(ps)
		}
		if n < 2 {
			r.Unknown(key, p.Pos(owner.Pos()), fmt.Sprintf("%d attempts involve the %s's height, 2 expected", n, side.word))
			continue
		}
		var texts []string
		for t := range forms {
			texts = append(texts, t)
		}
		sort.Strings(texts)
		r.Cond(len(forms) == 1, key, p.Pos(calls[0].Pos()), fmt.Sprintf("the %d attempts pass the same expression", n), fmt.Sprintf("the attempts pass %d different expressions (%s): one attempt places the body at another distance from the %s than the other", len(forms), strings.Join(texts, " / "), side.word))
	}
}

// c13FreshColumnPositions (R16): the lists a table box keeps per fragment (column positions, widths) are rebuilt on
// fresh storage.  Boxes are copied by value for each page; a field re-initialised by re-slicing its old value to
// length zero keeps the backing array, and laying out the next fragment overwrites the positions of the previous one.
func c13FreshColumnPositions(c *core.Check) {
	p := c.Prog
	r := c.Rule("R16", "per-fragment lists of a box are rebuilt on fresh storage: in html/layout no slice field of a box type of html/boxes is assigned a re-slice of its own previous value (x.F = x.F[:0]): the copies of the box made for the other pages share that array", 1)
	n := 0
	for _, fn := range p.FuncsOfPkg("html/layout") {
		if fn.Blocks == nil {
			continue
		}
		k := 0
		core.Instrs(fn, func(in ssa.Instruction) {
			st, ok := in.(*ssa.Store)
			if !ok {
				return
			}
			fa, ok := st.Addr.(*ssa.FieldAddr)
			if !ok {
				return
			}
			if _, isSlice := st.Val.Type().Underlying().(*types.Slice); !isSlice {
				return
			}
			pt, ok := fa.X.Type().(*types.Pointer)
			if !ok {
				return
			}
			nm, ok := pt.Elem().(*types.Named)
			if !ok || nm.Obj().Pkg() == nil || core.Rel(nm.Obj().Pkg().Path()) != "html/boxes" {
				return
			}
			n++
			sl, ok := st.Val.(*ssa.Slice)
			if !ok {
				return
			}
			ld, ok := sl.X.(*ssa.UnOp)
			if !ok || ld.Op != token.MUL {
				return
			}
			fa2, ok := ld.X.(*ssa.FieldAddr)
			if !ok || fa2.Field != fa.Field || valueText(fa2.X) != valueText(fa.X) {
				return
			}
			k++
			r.Fail(fmt.Sprintf("%s | %s re-sliced onto itself #%d", core.FuncName(fn), core.FieldName(fa), k), p.Pos(st.Pos()), "the field is re-initialised by re-slicing its previous value: the box laid out on the previous page shares the array and its values are overwritten")
		})
	}
	r.OK("scan", "-", fmt.Sprintf("%d stores of slices into fields of boxes", n))
}

// c13GroupExtent (R17): no column group has a negative width.  tableLayout computes the extent of a group from its
// first and last columns (last.x + last.width − first.x); in a right-to-left table column 0 is the rightmost, so the
// two ends must be chosen under a test of the table's direction.  Structurally: the width stored into a column group
// is computed from values that a comparison of the direction with "rtl" decides (a merge after that test), or the
// store itself is on one side of such a test.
func c13GroupExtent(c *core.Check) {
	p := c.Prog
	r := c.Rule("R17", "the extent of a column group depends on the direction: in tableLayout the width stored into a column group as (one column's right edge − another column's left edge) is computed from columns chosen by a test of the direction against \"rtl\"", 1)
	fn := p.Fn("html/layout", "tableLayout")
	if fn == nil {
		r.Anchor("html/layout.tableLayout")
		return
	}
	// direction tests
	var dirBlocks []*ssa.BasicBlock
	for _, b := range fn.Blocks {
		if len(b.Instrs) == 0 {
			continue
		}
		ifi, ok := b.Instrs[len(b.Instrs)-1].(*ssa.If)
		if !ok {
			continue
		}
		for _, a := range core.IfCondAtoms(ifi.Cond) {
			if bo, ok := a.(*ssa.BinOp); ok && (bo.Op == token.EQL || bo.Op == token.NEQ) {
				if k, ok := core.ConstStr(bo.Y); ok && (k == "rtl" || k == "ltr") {
					dirBlocks = append(dirBlocks, b)
				}
			}
		}
	}
	n := 0
	core.Instrs(fn, func(in ssa.Instruction) {
		st, ok := in.(*ssa.Store)
		if !ok {
			return
		}
		fa, ok := st.Addr.(*ssa.FieldAddr)
		if !ok || core.FieldName(fa) != "Width" {
			return
		}
		v := st.Val
		if mi, ok := v.(*ssa.MakeInterface); ok {
			v = mi.X
		}
		sub, ok := v.(*ssa.BinOp)
		if !ok || sub.Op != token.SUB {
			return
		}
		// (a.PositionX + a.Width) - b.PositionX
		px := func(v ssa.Value) (ssa.Value, bool) {
			ld, ok := v.(*ssa.UnOp)
			if !ok {
				return nil, false
			}
			f2, ok := ld.X.(*ssa.FieldAddr)
			if !ok || core.FieldName(f2) != "PositionX" {
				return nil, false
			}
			return f2.X, true
		}
		first, ok := px(sub.Y)
		if !ok {
			return
		}
		add, ok := sub.X.(*ssa.BinOp)
		if !ok || add.Op != token.ADD {
			return
		}
		last, ok := px(add.X)
		if !ok {
			return
		}
		n++
		key := fmt.Sprintf("html/layout.tableLayout | extent from two columns #%d", n)
		decided := false
		for _, v := range []ssa.Value{first, last} {
			if phi, ok := v.(*ssa.Phi); ok {
				for _, db := range dirBlocks {
					if db.Dominates(phi.Block()) {
						for _, pr := range phi.Block().Preds {
							if pr == db || db.Dominates(pr) {
								decided = true
							}
						}
					}
				}
			}
		}
		for _, db := range dirBlocks {
			for _, s := range db.Succs {
				if len(s.Preds) == 1 && (s == st.Block() || s.Dominates(st.Block())) {
					decided = true
				}
			}
		}
		r.Cond(decided, key, p.Pos(st.Pos()), "the two columns are chosen by a test of the direction", "the two columns are the first and the last of the group whatever the direction: in a right-to-left table the first column is the rightmost and the width is negative")
	})
	if n == 0 {
		r.Unknown("html/layout.tableLayout | extent from two columns", p.Pos(fn.Pos()), "no width computed from the edges of two boxes")
	}
}

// c13GroupExtentInGrid (R18): columns beyond the grid ("extra empty columns": more <col> than cells) are given the
// position 0 and the width 0 by tableLayout; they have no place, so they cannot be an end of their group's extent.
// tableLayout compares the GridX of a column with the number of column positions once to place the column; the
// extent of the group needs the same comparison outside of the placing loop (the loop that stores the columns' GetCells),
// in the loop over the groups.  (Three <col> for two cells and a table at x = 50: the group's width was −50.)
func c13GroupExtentInGrid(c *core.Check) {
	p := c.Prog
	r := c.Rule("R18", "the extent of a column group ignores columns beyond the grid: in tableLayout, besides the test that places a column, a comparison of a column's GridX with len(table.ColumnPositions) is made outside of the placing loop (the one that stores GetCells), in the loop that stores the group's width", 1)
	fn := p.Fn("html/layout", "tableLayout")
	if fn == nil {
		r.Anchor("html/layout.tableLayout")
		return
	}
	key := "html/layout.tableLayout | group extent over the columns of the grid"
	var place *core.Loop
	core.Instrs(fn, func(in ssa.Instruction) {
		if st, ok := in.(*ssa.Store); ok {
			if fa, ok := st.Addr.(*ssa.FieldAddr); ok && core.FieldName(fa) == "GetCells" {
				place = core.InnermostLoop(fn, st.Block())
			}
		}
	})
	if place == nil {
		r.Unknown(key, p.Pos(fn.Pos()), "the loop that places the columns (store of GetCells) was not found")
		return
	}
	// the loop over the groups: the smallest loop that strictly contains the placing loop
	var groups *core.Loop
	for _, l := range core.Loops(fn) {
		if l != place && l.Blocks[place.Header] && len(l.Blocks) > len(place.Blocks) && (groups == nil || len(l.Blocks) < len(groups.Blocks)) {
			groups = l
		}
	}
	if groups == nil {
		r.Unknown(key, p.Pos(fn.Pos()), "no loop around the placing loop")
		return
	}
	isGridX := func(v ssa.Value) bool {
		return core.DerivesFrom(v, func(x ssa.Value) bool { return core.IsFieldNamed(x, "GridX") })
	}
	isLenPositions := func(v ssa.Value) bool {
		call, ok := v.(*ssa.Call)
		if !ok {
			return false
		}
		if b, ok := call.Call.Value.(*ssa.Builtin); !ok || b.Name() != "len" {
			return false
		}
		return core.DerivesFrom(call.Call.Args[0], func(x ssa.Value) bool { return core.IsFieldNamed(x, "ColumnPositions") })
	}
	inPlace, outside := 0, 0
	for _, a := range core.CondAtoms(fn) {
		bo, ok := a.(*ssa.BinOp)
		if !ok {
			continue
		}
		if !((isGridX(bo.X) && isLenPositions(bo.Y)) || (isGridX(bo.Y) && isLenPositions(bo.X))) {
			continue
		}
		switch {
		case place.Blocks[bo.Block()]:
			inPlace++
		case groups.Blocks[bo.Block()]:
			outside++
		}
	}
	if inPlace == 0 {
		r.Skip(key, p.Pos(fn.Pos()), "tableLayout does not set columns beyond the grid aside: every column has a position")
		return
	}
	r.Cond(outside > 0, key, p.Pos(fn.Pos()), fmt.Sprintf("%d comparison(s) of GridX with the number of positions in the loop over the groups, outside of the placing loop", outside), "columns beyond the grid are given the position 0 and the width 0, and the extent of the group is computed without testing which columns are in the grid: with more <col> than cells the group's width is negative")
}
