package props

import (
	"fmt"
	"sort"
	"strings"

	"wrverif/core"
)

// sites of the two byte scanners that the linear analysis does not prove: function | kind -> why the read is in range
// (a named site is listed in the evidence and never reported; any other unproved site is a violation)
var scanNotes = map[string]string{
	"css/selector.(*parser).parseRegex | slice low<=high":              "p.s[p.i:i]: i is a local copy of the cursor that the loop only increments; the relation between the local and the cursor versions inside the loop is not derived",
	"css/parser.(*tokenizer).consumeEscape | cursor store <= len":        "tk.pos += len(hexMatch[0]): hexEscapeRe is anchored at the start (C06.R3 reads the pattern), so the match is a prefix of tk.src[tk.pos:]",
	"css/parser.(*tokenizer).tryConsumeNumber | slice low<=high":          "numberRe.FindIndex: 0 <= m[0] <= m[1] (contract of regexp.FindIndex)",
	"css/parser.(*tokenizer).tryConsumeNumber | slice high<=len":          "numberRe.FindIndex on tk.src[tk.pos:]: m[1] <= len(tk.src) - tk.pos (contract of regexp.FindIndex)",
	"css/parser.(*tokenizer).tryConsumeNumber | cursor store <= len":      "tk.pos += match[1], same contract",
	"css/parser.(*tokenizer).tryConsumeNumber | cursor store >= before":   "match[1] >= 0, same contract",
	"css/parser.(*tokenizer).updateLine | slice low<=high":                "tk.previousPos is the value tk.pos had when the previous token started (assigned from it at the end of this function, nowhere else): a saved cursor, and the cursor never decreases (proved store by store); `newline` is an index found inside that slice",
	"css/parser.(*tokenizer).updateLine | slice high<=len":                "previousPos + index found in src[previousPos:pos] <= pos <= len",
	"css/parser.(*tokenizer).consumeValueList | slice low<=len":           "tk.src[tk.previousPos+2:] in the comment branch: previousPos is the start of the comment, where `/*` (2 bytes) was just matched",
	"css/parser.(*tokenizer).consumeValueList | slice low<=high":          "tk.src[tk.previousPos+2 : tk.pos]: same, and tk.pos was advanced past the `/*`",
}

// scannerBoundsRule: no read of the two byte scanners' buffers is out of range.
func scannerBoundsRule(c *core.Check, r *core.Rule) {
	p := c.Prog
	total := 0
	for _, spec := range []core.ScanSpec{{Pkg: "css/selector", Type: "parser", BufField: "s", Cursor: "i"}, {Pkg: "css/parser", Type: "tokenizer", BufField: "src", Cursor: "pos"}} {
		sites, err := p.ScanBounds(spec)
		if err != nil {
			r.Anchor(spec.Pkg + "." + spec.Type + ": " + err.Error())
			continue
		}
		sort.SliceStable(sites, func(i, j int) bool { return sites[i].Pos < sites[j].Pos })
		seen := map[string]int{}
		for _, s := range sites {
			total++
			kind := s.Kind
			base := core.FuncName(s.Fn) + " | " + kind
			key := base + " | " + p.StmtTextAt(s.Fn, s.Pos)
			seen[key]++
			if seen[key] > 1 {
				key = fmt.Sprintf("%s #%d", key, seen[key])
			}
			if s.Proved {
				why := "bound implied by the dominating tests, the cursor invariant and the library contracts"
				if s.Why != "" {
					why = s.Why
				}
				r.OK(key, p.Pos(s.Pos), why)
				continue
			}
			noteKey := base
			if strings.HasPrefix(kind, "call of") {
				noteKey = core.FuncName(s.Fn) + " | " + kind
			}
			if why, ok := scanNotes[noteKey]; ok {
				r.Skip(key, p.Pos(s.Pos), why)
				continue
			}
			r.Fail(key, p.Pos(s.Pos), "not implied by the tests that dominate it: "+s.Goal+" (C#k: the cursor after its k-th change in the function, LEN: the length of the buffer) — at the end of the input the read, or a later read at the cursor, is out of range")
		}
	}
	if total == 0 {
		r.Anchor("reads of the scanners' buffers")
	}
}
