package props

import (
	"fmt"
	"go/token"
	"go/types"

	"golang.org/x/tools/go/ssa"

	"wrverif/core"
)

// c08CSSWideIsWhole (R22): `inherit` and `initial` are values of a declaration as a whole (CSS Cascade §7.3); a
// shorthand that is given several component values of which one is such a keyword is invalid.  The validator of a
// longhand, validateNonShorthand, accepts the keyword when it is the only token of the list it is given — so an
// expander that hands it one part of the shorthand's value must have refused the keyword for that part before
// (`margin: 1px inherit` gave margin-top: 1px, margin-right: inherit; `grid-row: inherit / inherit`).
//
// For every call of validateNonShorthand made by an expander (the `required` argument is the constant true), replayed
// for the keywords inherit and initial and for 2, 3 and 4 component values: with the tests of the whole value (the
// keyword of the token list the expander received) false, the tests of a part against the keyword true and the
// loops that hold them entered, the call is not reached.  A call that passes a list of two tokens or more cannot
// meet the keyword (getSingleKeyword needs one token).
func c08CSSWideIsWhole(c *core.Check) {
	p := c.Prog
	r := c.Rule("R22", "inherit and initial are whole values: every call of validateNonShorthand made by an expander with one part of the shorthand's value (required = true) is unreachable when several values were given and the part is inherit or initial: a comparison of the part's keyword with both words precedes it (lists of two tokens or more, which cannot be a keyword, and the classifying expander of the font-variant descriptor excepted)", 1)
	target := p.Fn("css/validation", "validateNonShorthand")
	if target == nil {
		r.Anchor("css/validation.validateNonShorthand")
		return
	}
	exempt := map[string]string{
		"css/validation.fontVariant": "descriptor of @font-face: expandFontVariant files every token under a keyword table before the call, a CSS-wide keyword is in none",
	}
	n := 0
	for _, fn := range p.FuncsOfPkg("css/validation") {
		core.Instrs(fn, func(in ssa.Instruction) {
			call, ok := in.(*ssa.Call)
			if !ok || call.Call.StaticCallee() != target || len(call.Call.Args) != 4 {
				return
			}
			if k, ok := call.Call.Args[3].(*ssa.Const); !ok || k.Value == nil || k.Value.String() != "true" {
				return
			}
			n++
			name := core.FuncName(fn)
			key := fmt.Sprintf("%s | validateNonShorthand(part) #%d", name, siteIndex(fn, call, target))
			if why, ok := exempt[name]; ok {
				r.Skip(key, p.Pos(call.Pos()), why)
				return
			}
			// a list literal of two tokens or more
			if sl, ok := call.Call.Args[2].(*ssa.Slice); ok {
				if al, ok := sl.X.(*ssa.Alloc); ok {
					if arr, ok := al.Type().Underlying().(*types.Pointer).Elem().Underlying().(*types.Array); ok && arr.Len() >= 2 {
						r.OK(key, p.Pos(call.Pos()), fmt.Sprintf("the list passed holds %d tokens: it is not a single keyword", arr.Len()))
						return
					}
				}
			}
			// the atoms of the function
			type kwAtom struct {
				atom  ssa.Value
				word  string
				eq    bool
				whole bool
			}
			var kws []kwAtom
			type lenAtom struct {
				atom ssa.Value
				op   token.Token
				k    int64
			}
			var lens []lenAtom
			var loopConds []ssa.Value
			for _, a := range core.CondAtoms(fn) {
				// a helper that compares its argument with both words (isCSSWide(token)) counts for both
				if hc, ok := a.(*ssa.Call); ok {
					if callee := hc.Call.StaticCallee(); callee != nil && comparesWithBothWords(callee) {
						whole := false
						if len(hc.Call.Args) == 1 {
							_, whole = hc.Call.Args[0].(*ssa.Parameter)
							if _, isList := hc.Call.Args[0].Type().Underlying().(*types.Slice); !isList {
								whole = false
							}
						}
						kws = append(kws, kwAtom{a, "inherit", true, whole}, kwAtom{a, "initial", true, whole})
						if !whole {
							if l := core.InnermostLoop(fn, hc.Block()); l != nil && len(l.Header.Instrs) > 0 && !l.Blocks[call.Block()] {
								if ifi, ok := l.Header.Instrs[len(l.Header.Instrs)-1].(*ssa.If); ok {
									loopConds = append(loopConds, core.IfCondAtoms(ifi.Cond)...)
								}
							}
						}
					}
					continue
				}
				bo, ok := a.(*ssa.BinOp)
				if !ok {
					continue
				}
				for _, side := range [][2]ssa.Value{{bo.X, bo.Y}, {bo.Y, bo.X}} {
					w, isStr := core.ConstStr(side[1])
					if isStr && (w == "inherit" || w == "initial") && (bo.Op == token.EQL || bo.Op == token.NEQ) {
						whole := false
						if kc, ok := side[0].(*ssa.Call); ok && kc.Call.StaticCallee() != nil && kc.Call.StaticCallee().Name() == "getSingleKeyword" && len(kc.Call.Args) == 1 {
							_, whole = kc.Call.Args[0].(*ssa.Parameter)
						}
						kws = append(kws, kwAtom{a, w, bo.Op == token.EQL, whole})
						if !whole {
							if l := core.InnermostLoop(fn, bo.Block()); l != nil && len(l.Header.Instrs) > 0 && !l.Blocks[call.Block()] {
								if ifi, ok := l.Header.Instrs[len(l.Header.Instrs)-1].(*ssa.If); ok {
									loopConds = append(loopConds, core.IfCondAtoms(ifi.Cond)...)
								}
							}
						}
					}
				}
				if lc, ok := bo.X.(*ssa.Call); ok {
					if b, ok := lc.Call.Value.(*ssa.Builtin); ok && b.Name() == "len" {
						if _, isParam := lc.Call.Args[0].(*ssa.Parameter); isParam {
							if k, ok := core.ConstInt(bo.Y); ok {
								lens = append(lens, lenAtom{a, bo.Op, k})
							}
						}
					}
				}
			}
			parts := 0
			for _, k := range kws {
				if !k.whole {
					parts++
				}
			}
			if parts < 2 {
				r.Fail(key, p.Pos(call.Pos()), "the part handed to the longhand's validator is not compared with inherit and initial: given among several values the keyword is accepted for that longhand (`margin: 1px inherit`, `grid-row: inherit / inherit`)")
				return
			}
			bad := ""
			for _, word := range []string{"inherit", "initial"} {
				for _, nvals := range []int64{2, 3, 4} {
					assign := map[ssa.Value]bool{}
					for _, k := range kws {
						is := !k.whole && k.word == word
						if prev, seen := assign[k.atom]; seen && prev == k.eq {
							continue // a helper atom stands for both words: true once is true
						}
						assign[k.atom] = is == k.eq
					}
					for _, a := range loopConds {
						assign[a] = true
					}
					for _, l := range lens {
						var v bool
						switch l.op {
						case token.EQL:
							v = nvals == l.k
						case token.NEQ:
							v = nvals != l.k
						case token.LSS:
							v = nvals < l.k
						case token.LEQ:
							v = nvals <= l.k
						case token.GTR:
							v = nvals > l.k
						case token.GEQ:
							v = nvals >= l.k
						default:
							continue
						}
						assign[l.atom] = v
					}
					if core.ForwardReach(fn.Blocks[0], assign, nil)[call.Block()] {
						bad = fmt.Sprintf("%s among %d values", word, nvals)
					}
				}
			}
			r.Cond(bad == "", key, p.Pos(call.Pos()), "not reached when the part is inherit or initial among several values", "the call is reached with "+bad+": the keyword is accepted for one longhand of the shorthand")
		})
	}
	if n == 0 {
		r.Anchor("calls of validateNonShorthand with required = true")
	}
}

// comparesWithBothWords: a function with a boolean result whose body compares a string with "inherit" and with
// "initial".
func comparesWithBothWords(fn *ssa.Function) bool {
	res := fn.Signature.Results()
	if res.Len() != 1 || len(fn.Blocks) == 0 {
		return false
	}
	if b, ok := res.At(0).Type().Underlying().(*types.Basic); !ok || b.Kind() != types.Bool {
		return false
	}
	seen := map[string]bool{}
	core.Instrs(fn, func(in ssa.Instruction) {
		if bo, ok := in.(*ssa.BinOp); ok && bo.Op == token.EQL {
			for _, v := range []ssa.Value{bo.X, bo.Y} {
				if w, ok := core.ConstStr(v); ok {
					seen[w] = true
				}
			}
		}
	})
	return seen["inherit"] && seen["initial"]
}

// siteIndex numbers the calls of target in fn in source order.
func siteIndex(fn *ssa.Function, site *ssa.Call, target *ssa.Function) int {
	i, out := 0, 0
	core.Instrs(fn, func(in ssa.Instruction) {
		if call, ok := in.(*ssa.Call); ok && call.Call.StaticCallee() == target {
			i++
			if call == site {
				out = i
			}
		}
	})
	return out
}
