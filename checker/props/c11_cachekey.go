package props

import (
	"fmt"
	"go/types"
	"strings"

	"golang.org/x/tools/go/ssa"

	"wrverif/core"
)

// c11StrutCacheKey (R16): the height and baseline of the strut are cached per layout context.  Every property of
// the style that StrutLayout reads directly and that the cached value depends on is part of the cache key: two
// boxes with the same font and different line-height must not share an entry.
func c11StrutCacheKey(c *core.Check) {
	p := c.Prog
	r := c.Rule("R16", "the strut cache key covers what the cached value depends on: in text.StrutLayout every accessor of the style (GetX) whose result flows into the value stored in the cache also flows into the key used for the lookup and the store", 1)
	fn := p.Fn("text", "StrutLayout")
	if fn == nil || len(fn.Params) == 0 {
		r.Anchor("text.StrutLayout")
		return
	}
	// the cache store
	var mu *ssa.MapUpdate
	core.Instrs(fn, func(in ssa.Instruction) {
		if m, ok := in.(*ssa.MapUpdate); ok {
			mu = m
		}
	})
	if mu == nil {
		r.Unknown("text.StrutLayout | cache", p.Pos(fn.Pos()), "no store into a map")
		return
	}
	// dependsOn: v is computed from src (through memory of locals)
	dependsOn := func(v, src ssa.Value) bool {
		seen := map[ssa.Value]bool{}
		var walk func(v ssa.Value, d int) bool
		walk = func(v ssa.Value, d int) bool {
			if v == nil || seen[v] || d > 14 {
				return false
			}
			seen[v] = true
			if v == src {
				return true
			}
			switch x := v.(type) {
			case *ssa.Phi:
				for _, e := range x.Edges {
					if walk(e, d+1) {
						return true
					}
				}
			case *ssa.BinOp:
				return walk(x.X, d+1) || walk(x.Y, d+1)
			case *ssa.UnOp:
				return walk(x.X, d+1)
			case *ssa.Field:
				return walk(x.X, d+1)
			case *ssa.FieldAddr:
				return walk(x.X, d+1)
			case *ssa.IndexAddr:
				return walk(x.X, d+1) || walk(x.Index, d+1)
			case *ssa.Index:
				return walk(x.X, d+1)
			case *ssa.Convert:
				return walk(x.X, d+1)
			case *ssa.ChangeType:
				return walk(x.X, d+1)
			case *ssa.MakeInterface:
				return walk(x.X, d+1)
			case *ssa.Extract:
				return walk(x.Tuple, d+1)
			case *ssa.Call:
				if x.Call.IsInvoke() && walk(x.Call.Value, d+1) {
					return true
				}
				for _, a := range x.Call.Args {
					if walk(a, d+1) {
						return true
					}
				}
			case *ssa.Alloc:
				for _, ref := range *x.Referrers() {
					switch y := ref.(type) {
					case *ssa.Store:
						if y.Addr == ssa.Value(x) && walk(y.Val, d+1) {
							return true
						}
					case *ssa.FieldAddr:
						for _, r2 := range *y.Referrers() {
							if st, ok := r2.(*ssa.Store); ok && st.Addr == ssa.Value(y) && walk(st.Val, d+1) {
								return true
							}
						}
					case *ssa.IndexAddr:
						for _, r2 := range *y.Referrers() {
							if st, ok := r2.(*ssa.Store); ok && st.Addr == ssa.Value(y) && walk(st.Val, d+1) {
								return true
							}
						}
					}
				}
			}
			return false
		}
		return walk(v, 0)
	}
	n := 0
	core.Instrs(fn, func(in ssa.Instruction) {
		call, ok := in.(*ssa.Call)
		if !ok || !call.Call.IsInvoke() || !strings.HasPrefix(call.Call.Method.Name(), "Get") {
			return
		}
		if _, isIface := call.Call.Value.Type().Underlying().(*types.Interface); !isIface {
			return
		}
		if !dependsOn(mu.Value, call) {
			return
		}
		n++
		key := fmt.Sprintf("text.StrutLayout | %s", call.Call.Method.Name())
		r.Cond(dependsOn(mu.Key, call), key, p.Pos(call.Pos()), "part of the cache key", "the cached value depends on "+call.Call.Method.Name()+"() and the key does not: two boxes that differ only by it share one cache entry (the second gets the first one's strut)")
	})
	if n == 0 {
		r.Unknown("text.StrutLayout | accessors", p.Pos(fn.Pos()), "no style accessor flows into the cached value")
	}
}
