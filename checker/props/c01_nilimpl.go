package props

import (
	"fmt"
	"go/token"
	"go/types"
	"sort"

	"golang.org/x/tools/go/ssa"

	"wrverif/core"
)

// c01NilImplementations is a contradiction rule between the callers and the implementations of an interface method:
// where a caller dereferences the pointer returned by an interface method without comparing it with nil, it believes
// that no implementation returns nil; an implementation of that interface in the module that returns the nil constant
// contradicts it.
func c01NilImplementations(c *core.Check) {
	p := c.Prog
	r := c.Rule("R16", "implementations agree with what their callers believe: when some caller dereferences the pointer returned by an interface method without testing it, no implementation of that method in the module returns the nil constant", 24)
	type belief struct {
		iface  *types.Interface
		name   string
		method string
		site   ssa.Instruction
		fn     *ssa.Function
	}
	var beliefs []belief
	for _, fn := range p.ModFuncs {
		if fn.Blocks == nil {
			continue
		}
		fn := fn
		core.Instrs(fn, func(in ssa.Instruction) {
			call, ok := in.(*ssa.Call)
			if !ok || !call.Call.IsInvoke() || call.Referrers() == nil {
				return
			}
			if _, isPtr := call.Type().Underlying().(*types.Pointer); !isPtr {
				return
			}
			deref, tested := false, false
			for _, ref := range *call.Referrers() {
				switch x := ref.(type) {
				case *ssa.FieldAddr:
					if x.X == ssa.Value(call) {
						deref = true
					}
				case *ssa.UnOp:
					deref = true
				case *ssa.BinOp, *ssa.Phi, *ssa.Store, *ssa.Return, *ssa.MakeInterface:
					tested = true // compared, merged or handed on: no belief read off this site
				}
			}
			if !deref || tested {
				return
			}
			it, ok := call.Call.Value.Type().Underlying().(*types.Interface)
			if !ok {
				return
			}
			beliefs = append(beliefs, belief{it, types.TypeString(call.Call.Value.Type(), nil), call.Call.Method.Name(), in, fn})
		})
	}
	type pair struct{ recv, method string }
	seen := map[pair]bool{}
	var keys []string
	verdict := map[string]bool{}
	pos := map[string]string{}
	why := map[string]string{}
	for _, b := range beliefs {
		for _, fn := range p.ModFuncs {
			if fn.Blocks == nil || fn.Signature.Recv() == nil || fn.Name() != b.method {
				continue
			}
			rt := fn.Signature.Recv().Type()
			if !types.Implements(rt, b.iface) && !types.Implements(types.NewPointer(rt), b.iface) {
				continue
			}
			pk := pair{types.TypeString(rt, nil), b.method}
			if seen[pk] {
				continue
			}
			seen[pk] = true
			retNil := false
			core.Instrs(fn, func(in ssa.Instruction) {
				if ret, ok := in.(*ssa.Return); ok && len(ret.Results) == 1 {
					if k, ok := ret.Results[0].(*ssa.Const); ok && k.Value == nil {
						retNil = true
					}
				}
			})
			key := core.FuncName(fn) + " | result dereferenced unchecked by " + core.FuncName(b.fn)
			keys = append(keys, key)
			verdict[key] = !retNil
			pos[key] = p.Pos(fn.Pos())
			why[key] = "returns the nil constant, and " + core.FuncName(b.fn) + " (" + p.Pos(b.site.Pos()) + ") dereferences the result of " + b.name + "." + b.method + "() without a test: nil pointer dereference when this implementation is the one in use"
		}
	}
	sort.Strings(keys)
	for _, k := range keys {
		r.Cond(verdict[k], k, pos[k], "no return of the nil constant", why[k])
	}
	if len(keys) == 0 {
		r.Anchor("interface methods returning pointers that a caller dereferences unchecked")
	}
}

// c01NilResults: the pointer returned by a function of the module that has a `return nil` is dereferenced (field,
// element of the pointed array, load) only where a comparison of that very result with nil excludes nil.  `len(p)` of
// a pointer to an array is a constant and tests nothing.
func c01NilResults(c *core.Check) {
	p := c.Prog
	r := c.Rule("R18", "a result that can be nil is tested before it is used: for every static call to a function of the module that returns a pointer or a map and contains `return nil`, each dereference of the result (field, element, load, write into the map) is reachable only after a comparison of that result with nil (the length of a pointer to an array is a constant: `len(p) == 2` tests nothing)", 4)
	retNil := map[*ssa.Function]bool{}
	for _, fn := range p.ModFuncs {
		if fn.Blocks == nil || fn.Signature.Results().Len() != 1 {
			continue
		}
		switch fn.Signature.Results().At(0).Type().Underlying().(type) {
		case *types.Pointer, *types.Map:
		default:
			continue
		}
		fn := fn
		core.Instrs(fn, func(in ssa.Instruction) {
			if ret, ok := in.(*ssa.Return); ok && len(ret.Results) == 1 {
				if k, ok := ret.Results[0].(*ssa.Const); ok && k.Value == nil {
					retNil[fn] = true
				}
			}
		})
	}
	n := 0
	for _, fn := range p.ModFuncs {
		if fn.Blocks == nil {
			continue
		}
		fn := fn
		seenKey := map[string]int{}
		core.Instrs(fn, func(in ssa.Instruction) {
			call, ok := in.(*ssa.Call)
			if !ok || call.Call.StaticCallee() == nil || !retNil[call.Call.StaticCallee()] || call.Referrers() == nil {
				return
			}
			var atoms []ssa.Value
			pol := map[ssa.Value]bool{}
			for _, a := range core.CondAtoms(fn) {
				bo, ok := a.(*ssa.BinOp)
				if !ok || (bo.Op != token.NEQ && bo.Op != token.EQL) || bo.X != ssa.Value(call) {
					continue
				}
				atoms = append(atoms, a)
				pol[a] = bo.Op == token.NEQ
			}
			for _, ref := range *call.Referrers() {
				deref := false
				switch x := ref.(type) {
				case *ssa.FieldAddr:
					deref = x.X == ssa.Value(call)
				case *ssa.IndexAddr:
					deref = x.X == ssa.Value(call)
				case *ssa.UnOp:
					deref = x.Op == token.MUL
				case *ssa.MapUpdate:
					deref = x.Map == ssa.Value(call) // a write into a nil map panics
				}
				if !deref {
					continue
				}
				n++
				ok := false
				// dominance first (cheap, and enough for `if p != nil { … p[0] … }`): the use is dominated by the
				// successor taken when the result is not nil, and that successor is entered from the test only
				for _, b := range fn.Blocks {
					ifi, isIf := b.Instrs[len(b.Instrs)-1].(*ssa.If)
					if !isIf {
						continue
					}
					cmp, isCmp := ifi.Cond.(*ssa.BinOp)
					if !isCmp || cmp.X != ssa.Value(call) || (cmp.Op != token.NEQ && cmp.Op != token.EQL) {
						continue
					}
					if k, isK := cmp.Y.(*ssa.Const); !isK || k.Value != nil {
						continue
					}
					succ := b.Succs[0]
					if cmp.Op == token.EQL {
						succ = b.Succs[1]
					}
					if len(succ.Preds) == 1 && succ.Dominates(ref.Block()) {
						ok = true
					}
				}
				if !ok && len(atoms) > 0 && len(fn.Blocks) < 60 {
					ok, _ = core.GuardedBy(fn, ref.Block(), atoms, func(m map[ssa.Value]bool) bool {
						for a, v := range m {
							if v == pol[a] {
								return true
							}
						}
						return false
					})
				}
				key := core.FuncName(fn) + " | result of " + call.Call.StaticCallee().Name() + " used at " + p.StmtTextAt(fn, ref.Pos())
				seenKey[key]++
				if seenKey[key] > 1 {
					key = fmt.Sprintf("%s #%d", key, seenKey[key])
				}
				r.Cond(ok, key, p.Pos(ref.Pos()), "dereferenced only where the result was compared with nil", core.FuncName(call.Call.StaticCallee())+" can return nil and its result is dereferenced here without a comparison with nil on the way: nil pointer dereference (`<p lang=en style=\"hyphens:auto;width:30px\">aaa b</p>`)")
			}
		})
	}
	if n == 0 {
		r.Anchor("dereferences of results of nil-returning functions")
	}
}

// c01ErrorNotPanic: a function that has an error result reports what it cannot handle through it.  In the packages
// that turn document text into values (css/parser, css/validation, html/tree) no function with an error result
// contains an explicit panic: the callers handle the error (warning, declaration ignored), nobody recovers a panic.
func c01ErrorNotPanic(c *core.Check) {
	p := c.Prog
	r := c.Rule("R19", "bad input is reported, not thrown: in css/parser, css/validation and html/tree no function that has an error result contains an explicit panic (its callers log the error and ignore the declaration; a panic ends the rendering)", 78)
	errT := types.Universe.Lookup("error").Type()
	n := 0
	for _, pkg := range []string{"css/parser", "css/validation", "html/tree"} {
		for _, fn := range p.FuncsOfPkg(pkg) {
			if fn.Blocks == nil {
				continue
			}
			hasErr := false
			res := fn.Signature.Results()
			for i := 0; i < res.Len(); i++ {
				if types.Identical(res.At(i).Type(), errT) {
					hasErr = true
				}
			}
			if !hasErr {
				continue
			}
			n++
			var at token.Pos
			core.Instrs(fn, func(in ssa.Instruction) {
				if pn, ok := in.(*ssa.Panic); ok {
					at = pn.Pos()
				}
			})
			pos := p.Pos(fn.Pos())
			if at != token.NoPos {
				pos = p.Pos(at)
			}
			r.Cond(at == token.NoPos, core.FuncName(fn)+" | no panic beside the error result", pos, "no explicit panic", "the function can return an error but panics instead: `a::before { content: attr(href url) }` ended the rendering with \"invalid attr() property\" where a warning and an ignored declaration were due")
		}
	}
	if n == 0 {
		r.Anchor("functions with an error result in css/parser, css/validation, html/tree")
	}
}
