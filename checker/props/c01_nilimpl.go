package props

import (
	"go/types"
	"sort"

	"golang.org/x/tools/go/ssa"

	"wrverif/core"
)

// c01NilImplementations is a contradiction rule between the callers and the implementations of an interface method:
// where a caller dereferences the pointer returned by an interface method without comparing it with nil, it believes
// that no implementation returns nil; an implementation of that interface in the module that returns the nil constant
// contradicts it.
func c01NilImplementations(c *core.Check) {
	p := c.Prog
	r := c.Rule("R16", "implementations agree with what their callers believe: when some caller dereferences the pointer returned by an interface method without testing it, no implementation of that method in the module returns the nil constant", 1)
	type belief struct {
		iface  *types.Interface
		name   string
		method string
		site   ssa.Instruction
		fn     *ssa.Function
	}
	var beliefs []belief
	for _, fn := range p.ModFuncs {
		if fn.Blocks == nil {
			continue
		}
		fn := fn
		core.Instrs(fn, func(in ssa.Instruction) {
			call, ok := in.(*ssa.Call)
			if !ok || !call.Call.IsInvoke() || call.Referrers() == nil {
				return
			}
			if _, isPtr := call.Type().Underlying().(*types.Pointer); !isPtr {
				return
			}
			deref, tested := false, false
			for _, ref := range *call.Referrers() {
				switch x := ref.(type) {
				case *ssa.FieldAddr:
					if x.X == ssa.Value(call) {
						deref = true
					}
				case *ssa.UnOp:
					deref = true
				case *ssa.BinOp, *ssa.Phi, *ssa.Store, *ssa.Return, *ssa.MakeInterface:
					tested = true // compared, merged or handed on: no belief read off this site
				}
			}
			if !deref || tested {
				return
			}
			it, ok := call.Call.Value.Type().Underlying().(*types.Interface)
			if !ok {
				return
			}
			beliefs = append(beliefs, belief{it, types.TypeString(call.Call.Value.Type(), nil), call.Call.Method.Name(), in, fn})
		})
	}
	type pair struct{ recv, method string }
	seen := map[pair]bool{}
	var keys []string
	verdict := map[string]bool{}
	pos := map[string]string{}
	why := map[string]string{}
	for _, b := range beliefs {
		for _, fn := range p.ModFuncs {
			if fn.Blocks == nil || fn.Signature.Recv() == nil || fn.Name() != b.method {
				continue
			}
			rt := fn.Signature.Recv().Type()
			if !types.Implements(rt, b.iface) && !types.Implements(types.NewPointer(rt), b.iface) {
				continue
			}
			pk := pair{types.TypeString(rt, nil), b.method}
			if seen[pk] {
				continue
			}
			seen[pk] = true
			retNil := false
			core.Instrs(fn, func(in ssa.Instruction) {
				if ret, ok := in.(*ssa.Return); ok && len(ret.Results) == 1 {
					if k, ok := ret.Results[0].(*ssa.Const); ok && k.Value == nil {
						retNil = true
					}
				}
			})
			key := core.FuncName(fn) + " | result dereferenced unchecked by " + core.FuncName(b.fn)
			keys = append(keys, key)
			verdict[key] = !retNil
			pos[key] = p.Pos(fn.Pos())
			why[key] = "returns the nil constant, and " + core.FuncName(b.fn) + " (" + p.Pos(b.site.Pos()) + ") dereferences the result of " + b.name + "." + b.method + "() without a test: nil pointer dereference when this implementation is the one in use"
		}
	}
	sort.Strings(keys)
	for _, k := range keys {
		r.Cond(verdict[k], k, pos[k], "no return of the nil constant", why[k])
	}
	if len(keys) == 0 {
		r.Anchor("interface methods returning pointers that a caller dereferences unchecked")
	}
}
