package props

import (
	"fmt"
	"go/ast"
	"go/constant"
	"go/token"
	"go/types"
	"regexp"
	"sort"
	"strconv"
	"strings"
	"unicode"

	"golang.org/x/tools/go/ssa"

	"wrverif/core"
)

func init() { register("C20", c20) }

// fusingPairs is the CSS Syntax 3 §9 serialization table restricted to the token kinds of this
// tokenizer (no separate bad-url kind), plus the three extra rows this tokenizer needs; every row
// kept here was confirmed against this tokenizer: the reason gives what the two tokens fuse into
// when written back to back.
var fusingPairs = []struct{ a, b, reason string }{
	// ident row
	{"ident", "ident", "one longer ident"}, {"ident", "function", "one function name"}, {"ident", "url", "ident+url( reads as a function"},
	{"ident", "-", "ident absorbs the dash"}, {"ident", "number", "ident absorbs digits"}, {"ident", "percentage", "ident absorbs digits"},
	{"ident", "dimension", "ident absorbs digits and unit"}, {"ident", "-->", "ident absorbs the dashes"}, {"ident", "() block", "becomes a function"},
	// at-keyword, hash, dimension rows
	{"at-keyword", "ident", "longer at-keyword"}, {"at-keyword", "function", "longer at-keyword + ("}, {"at-keyword", "url", "longer at-keyword"},
	{"at-keyword", "-", "absorbed"}, {"at-keyword", "number", "absorbed"}, {"at-keyword", "percentage", "absorbed"}, {"at-keyword", "dimension", "absorbed"}, {"at-keyword", "-->", "absorbed"},
	{"hash", "ident", "longer hash"}, {"hash", "function", "longer hash + ("}, {"hash", "url", "longer hash"},
	{"hash", "-", "absorbed"}, {"hash", "number", "absorbed"}, {"hash", "percentage", "absorbed"}, {"hash", "dimension", "absorbed"}, {"hash", "-->", "absorbed"},
	{"dimension", "ident", "longer unit"}, {"dimension", "function", "longer unit + ("}, {"dimension", "url", "longer unit"},
	{"dimension", "-", "unit absorbs the dash"}, {"dimension", "number", "unit absorbs digits"}, {"dimension", "percentage", "absorbed"}, {"dimension", "dimension", "absorbed"}, {"dimension", "-->", "absorbed"},
	// delimiter rows
	{"#", "ident", "becomes a hash"}, {"#", "function", "hash + ("}, {"#", "url", "hash"}, {"#", "-", "`#-` is a hash token"},
	{"#", "number", "hash"}, {"#", "percentage", "hash + %"}, {"#", "dimension", "hash"},
	{"-", "ident", "ident starting with a dash"}, {"-", "function", "function name starting with a dash"}, {"-", "url", "`-url(` is a function"},
	{"-", "-", "`--` is an ident"}, {"-", "number", "negative number"}, {"-", "percentage", "negative percentage"}, {"-", "dimension", "negative dimension"},
	{"-", "-->", "`--->` reads as ident `---` then `>`"},
	{"number", "ident", "becomes a dimension"}, {"number", "function", "dimension + ("}, {"number", "url", "dimension"},
	{"number", "number", "one longer number"}, {"number", "percentage", "one longer percentage"}, {"number", "dimension", "one longer dimension"},
	{"number", "%", "becomes a percentage"},
	{"@", "ident", "becomes an at-keyword"}, {"@", "function", "at-keyword + ("}, {"@", "url", "at-keyword"}, {"@", "-", "`@-` may start an at-keyword"},
	{".", "number", "`.5`"}, {".", "percentage", "`.5%`"}, {".", "dimension", "`.5px`"},
	{"+", "number", "signed number"}, {"+", "percentage", "signed percentage"}, {"+", "dimension", "signed dimension"},
	{"/", "*", "opens a comment"}, {"/", "*=", "`/*=` opens a comment too: everything after it is swallowed"},
	// CDC column of the §9 table for the rows whose first token absorbs dashes, with this tokenizer:
	{"number", "-->", "`1-->` reads as the dimension 1 with unit `--`, then `>`"}, {"#", "-->", "`#-->` reads as the hash `--`, then `>`"},
	{"@", "-->", "`@-->` reads as the at-keyword `--`, then `>`"},
	// three delimiters that spell the CDO token
	{"<", "!", "`<`, `!`, `--` written back to back read as `<!--`"},
}

// reasoned exception for R3 (one named site, one reason)
var c20DeadErrorKinds = map[string]string{
	"errInvalidNumber": "only built in tryConsumeUnicodeRune when strconv.ParseInt fails on the digits collected by consumeUnicodeRange, which are 1 to 6 characters of [0-9a-fA-F] padded with 0/F: ParseInt(…, 16, 0) cannot fail on them, so the token is never produced",
}

func evalBadPairs(p *core.Prog) (map[[2]string]token.Pos, error) {
	out := map[[2]string]token.Pos{}
	pk := p.ByPath["css/parser"]
	if pk == nil {
		return nil, fmt.Errorf("package css/parser")
	}
	info := pk.TypesInfo
	found := false
	for _, f := range pk.Syntax {
		for _, d := range f.Decls {
			fd, ok := d.(*ast.FuncDecl)
			if !ok || fd.Name.Name != "init" || fd.Recv != nil {
				continue
			}
			var walk func(stmts []ast.Stmt, env map[types.Object]string) error
			resolve := func(e ast.Expr, env map[types.Object]string) (string, bool) {
				if s, ok := core.StrConst(info, e); ok {
					return s, true
				}
				if id, ok := e.(*ast.Ident); ok {
					if s, ok := env[info.Uses[id]]; ok {
						return s, true
					}
				}
				return "", false
			}
			walk = func(stmts []ast.Stmt, env map[types.Object]string) error {
				for _, st := range stmts {
					switch x := st.(type) {
					case *ast.RangeStmt:
						cl, ok := x.X.(*ast.CompositeLit)
						if !ok {
							continue // loops over other things do not fill badPairs with literals
						}
						vid, _ := x.Value.(*ast.Ident)
						for _, el := range cl.Elts {
							s, ok := core.StrConst(info, el)
							if !ok {
								return fmt.Errorf("non-constant element in a range literal at %s", p.Pos(el.Pos()))
							}
							env2 := map[types.Object]string{}
							for k, v := range env {
								env2[k] = v
							}
							if vid != nil {
								env2[info.Defs[vid]] = s
							}
							if err := walk(x.Body.List, env2); err != nil {
								return err
							}
						}
					case *ast.AssignStmt:
						if len(x.Lhs) != 1 {
							continue
						}
						ie, ok := x.Lhs[0].(*ast.IndexExpr)
						if !ok {
							continue
						}
						id, ok := ie.X.(*ast.Ident)
						if !ok || id.Name != "badPairs" {
							continue
						}
						found = true
						kl, ok := ie.Index.(*ast.CompositeLit)
						if !ok || len(kl.Elts) != 2 {
							return fmt.Errorf("badPairs key is not a 2-element literal at %s", p.Pos(ie.Pos()))
						}
						a, ok1 := resolve(kl.Elts[0], env)
						b, ok2 := resolve(kl.Elts[1], env)
						v := core.ConstOf(info, x.Rhs[0])
						if !ok1 || !ok2 || v == nil {
							return fmt.Errorf("badPairs entry not constant at %s", p.Pos(ie.Pos()))
						}
						if constant.BoolVal(v) {
							out[[2]string{a, b}] = ie.Pos()
						}
					}
				}
				return nil
			}
			if err := walk(fd.Body.List, map[types.Object]string{}); err != nil {
				return nil, err
			}
		}
	}
	// a literal initialiser is accepted too
	if init := p.VarInit("css/parser", "badPairs"); init != nil {
		if cl, ok := init.(*ast.CompositeLit); ok {
			for _, e := range cl.Elts {
				kv, ok := e.(*ast.KeyValueExpr)
				if !ok {
					continue
				}
				kl, ok := kv.Key.(*ast.CompositeLit)
				if !ok || len(kl.Elts) != 2 {
					continue
				}
				a, ok1 := core.StrConst(info, kl.Elts[0])
				b, ok2 := core.StrConst(info, kl.Elts[1])
				if ok1 && ok2 {
					found = true
					out[[2]string{a, b}] = kv.Pos()
				}
			}
		}
	}
	if !found {
		return nil, fmt.Errorf("no assignment to badPairs found")
	}
	return out, nil
}

func returnedStrings(fn *ssa.Function) []string {
	var out []string
	core.Instrs(fn, func(in ssa.Instruction) {
		if r, ok := in.(*ssa.Return); ok {
			for _, v := range r.Results {
				if s, ok := core.ConstStr(v); ok {
					out = append(out, s)
				}
			}
		}
	})
	sort.Strings(out)
	return out
}

func c20(c *core.Check) {
	p := c.Prog
	c.Explain = "Structural necessary conditions of serialize/re-tokenize round-tripping: the separator table contains every pair of adjacent token kinds that would fuse with this tokenizer (CSS Syntax 3 §9 table, each row confirmed); its vocabulary is what Kind.String() and literal tokens can produce, so no row is silently dead; every ParseError kind the tokenizer can put in a token list is serialisable; the string, url and name escapers cover the characters CSS Syntax §4.3 requires. Also decided: an escaped leading digit ends with a space, the character after a leading dash goes through the identifier-start escaping, exponent-like units are escaped with the letter's own code, and the fusing pairs of literal tokens computed from the tokenizer's vocabulary are in the table. Numeric representation of values built in code is not decided."
	r1 := c.Rule("R1", "parser.badPairs (its init loops evaluated as a cross product of literals, no execution) contains every fusing pair of the §9 table", 72)
	bp, err := evalBadPairs(p)
	if err != nil {
		r1.Unknown("parser.badPairs", "-", err.Error())
		return
	}
	initPos := "css/parser/serialize.go"
	for _, fp := range fusingPairs {
		_, ok := bp[[2]string{fp.a, fp.b}]
		r1.Cond(ok, fmt.Sprintf("badPairs has (%s, %s)", fp.a, fp.b), initPos, "separator inserted ("+fp.reason+")",
			fmt.Sprintf("no separator between %s and %s: written back to back they re-tokenize differently (%s)", fp.a, fp.b, fp.reason))
	}
	// literal tokens of more than one character: computed from the tokenizer's own vocabulary. Two literal tokens
	// written back to back must read back as the same two tokens under the tokenizer's rule (`||` first, then
	// `c=` for c in the set it tests, then one character).
	if cd := p.Lookup("css/parser.(*tokenizer).consumeDelimOrLitteral"); cd == nil {
		r1.Anchor("css/parser.(*tokenizer).consumeDelimOrLitteral")
	} else {
		var prefixes []string // multi-character literals tested with bytes.HasPrefix, in order
		var eqChars []string  // characters c for which `c=` is one token
		core.Instrs(cd, func(in ssa.Instruction) {
			switch x := in.(type) {
			case *ssa.Call:
				if cal := x.Call.StaticCallee(); cal != nil && cal.Name() == "HasPrefix" && len(x.Call.Args) == 2 {
					if cv, ok := x.Call.Args[1].(*ssa.Convert); ok {
						if s, ok := core.ConstStr(cv.X); ok && len(s) > 1 {
							prefixes = append(prefixes, s)
						}
					}
				}
			case *ssa.BinOp:
				if x.Op == token.EQL {
					if k, ok := core.ConstInt(x.Y); ok && k > 32 && k < 127 {
						if _, isLookup := x.X.(*ssa.UnOp); isLookup {
							eqChars = append(eqChars, string(rune(k)))
						} else if _, isIdx := x.X.(*ssa.Lookup); isIdx {
							eqChars = append(eqChars, string(rune(k)))
						} else {
							eqChars = append(eqChars, string(rune(k)))
						}
					}
				}
			}
		})
		sort.Strings(eqChars)
		if len(prefixes) == 0 || len(eqChars) < 3 {
			r1.Unknown("literal vocabulary of consumeDelimOrLitteral", p.Pos(cd.Pos()), fmt.Sprintf("prefixes %v, c= characters %v", prefixes, eqChars))
		} else {
			isEq := map[string]bool{}
			for _, ch := range eqChars {
				isEq[ch] = true
			}
			next := func(src string) string { // the first literal token of src under the tokenizer's rule
				for _, pf := range prefixes {
					if strings.HasPrefix(src, pf) {
						return pf
					}
				}
				if isEq[src[:1]] {
					if len(src) > 1 && src[1] == '=' {
						return src[:2]
					}
					return src[:1]
				}
				return src[:1]
			}
			vocab := []string{"="}
			for _, pf := range prefixes {
				if !strings.ContainsAny(pf, "<!-") { // `<!--` and `-->` cannot be produced by two literal tokens of this set
					vocab = append(vocab, pf)
				}
			}
			for _, ch := range eqChars {
				vocab = append(vocab, ch, ch+"=")
			}
			nPairs := 0
			for _, a := range vocab {
				for _, b := range vocab {
					src := a + b
					t1 := next(src)
					fuses := t1 != a
					if !fuses {
						if t2 := next(src[len(t1):]); t2 != b {
							fuses = true
						}
					}
					if !fuses {
						continue
					}
					nPairs++
					_, ok := bp[[2]string{a, b}]
					r1.Cond(ok, fmt.Sprintf("badPairs has (%s, %s)", a, b), initPos, "separator inserted (written back to back they read as "+t1+" …)",
						fmt.Sprintf("no separator between the literal tokens %s and %s: written back to back (%s) the tokenizer reads %s first", a, b, src, t1))
				}
			}
			if nPairs < 6 {
				r1.Unknown("literal fusing pairs", p.Pos(cd.Pos()), fmt.Sprintf("%d fusing pairs computed from vocabulary %v", nPairs, vocab))
			}
		}
	}
	// the table is consulted with (previous kind, this kind) in that order and a comment is written
	st := p.Fn("css/parser", "serializeTo")
	if st == nil {
		r1.Anchor("css/parser.serializeTo")
	} else {
		g := p.Global("css/parser", "badPairs")
		okLookup := false
		core.Instrs(st, func(in ssa.Instruction) {
			if l, ok := in.(*ssa.Lookup); ok {
				if u, ok := l.X.(*ssa.UnOp); ok && u.X == g {
					okLookup = true
				}
			}
		})
		r1.Cond(okLookup, "serializeTo consults badPairs", p.Pos(st.Pos()), "lookup present", "serializeTo no longer consults badPairs")
	}

	r2 := c.Rule("R2", "every component of a badPairs key is a value of Kind.String() or a punctuation literal: a misspelt kind name silently disables a row", 35)
	ks := p.Method("css/parser", "Kind", "String")
	if ks == nil {
		r2.Anchor("css/parser.Kind.String")
	} else {
		kinds := map[string]bool{}
		for _, s := range returnedStrings(ks) {
			kinds[s] = true
		}
		var keys [][2]string
		for k := range bp {
			keys = append(keys, k)
		}
		sort.Slice(keys, func(i, j int) bool { return keys[i][0]+"|"+keys[i][1] < keys[j][0]+"|"+keys[j][1] })
		seen := map[string]bool{}
		for _, k := range keys {
			for _, comp := range k {
				if seen[comp] {
					continue
				}
				seen[comp] = true
				hasLetter := false
				for _, r := range comp {
					if unicode.IsLetter(r) || r == ' ' {
						hasLetter = true
					}
				}
				if hasLetter {
					r2.Cond(kinds[comp], "badPairs component "+comp, initPos, "is a Kind.String() value", "is not a value Kind.String() can return: rows using it never match")
				} else {
					r2.OK("badPairs component "+comp, initPos, "punctuation literal")
				}
			}
		}
		// kinds the oracle relies on exist
		for _, k := range []string{"ident", "at-keyword", "hash", "dimension", "number", "percentage", "function", "url", "() block"} {
			r2.Cond(kinds[k], "Kind.String() returns "+k, p.Pos(ks.Pos()), "present", "no kind has this name any more: the rows of the separator oracle using it are dead")
		}
	}

	r3 := c.Rule("R3", "every ParseError kind that a tokenizer-level construction site can produce has a case in ParseError.serializeTo (whose default panics)", 2)
	pse := p.Method("css/parser", "ParseError", "serializeTo")
	if pse == nil {
		r3.Anchor("css/parser.ParseError.serializeTo")
	} else {
		handled := map[int64]bool{}
		for _, cv := range core.ComparedConsts(pse, func(v ssa.Value) bool { return core.IsFieldNamed(v, "kind") }) {
			if n, ok := constant.Int64Val(cv); ok {
				handled[n] = true
			}
		}
		// byte constants named err*
		errName := map[int64]string{}
		pk := p.ByPath["css/parser"]
		for _, n := range pk.Types.Scope().Names() {
			if k, ok := pk.Types.Scope().Lookup(n).(*types.Const); ok && strings.HasPrefix(n, "err") {
				if v, ok := constant.Int64Val(k.Val()); ok {
					errName[v] = n
				}
			}
		}
		peObj := p.Obj("css/parser", "ParseError")
		// construction sites in functions of the tokenizer (receiver tokenizer, or Tokenize*/tokenize*)
		for _, fn := range p.FuncsOfPkg("css/parser") {
			isTok := false
			if recv := fn.Signature.Recv(); recv != nil && strings.Contains(recv.Type().String(), "tokenizer") {
				isTok = true
			}
			if strings.HasPrefix(strings.ToLower(fn.Name()), "tokenize") {
				isTok = true
			}
			if !isTok {
				continue
			}
			core.Instrs(fn, func(in ssa.Instruction) {
				s, ok := in.(*ssa.Store)
				if !ok {
					return
				}
				fa, ok := s.Addr.(*ssa.FieldAddr)
				if !ok || !core.IsFieldNamed(fa, "kind") {
					return
				}
				if pt, ok := fa.X.Type().Underlying().(*types.Pointer); !ok || !types.Identical(pt.Elem(), peObj.Type()) {
					return
				}
				// possible constant kinds stored
				var vals []int64
				unknown := false
				var walk func(v ssa.Value, depth int)
				walk = func(v ssa.Value, depth int) {
					if n, ok := core.ConstInt(v); ok {
						vals = append(vals, n)
						return
					}
					switch x := v.(type) {
					case *ssa.Phi:
						if depth < 4 {
							for _, e := range x.Edges {
								walk(e, depth+1)
							}
							return
						}
					case *ssa.Extract:
						if call, ok := x.Tuple.(*ssa.Call); ok {
							if callee := call.Common().StaticCallee(); callee != nil {
								core.Instrs(callee, func(i2 ssa.Instruction) {
									if r, ok := i2.(*ssa.Return); ok && x.Index < len(r.Results) {
										walk(r.Results[x.Index], depth+1)
									}
								})
								return
							}
						}
					}
					unknown = true
				}
				walk(s.Val, 0)
				site := core.FuncName(fn)
				if unknown && len(vals) == 0 {
					// the closing-bracket error stores the offending byte itself: ) ] }
					r3.Skip(site+" stores a computed kind", p.Pos(s.Pos()), "kind is the unmatched closing byte itself (one of ')', ']', '}' by the enclosing switch)")
					return
				}
				for _, v := range vals {
					if v == 0 {
						continue
					}
					name := errName[v]
					if why, dead := c20DeadErrorKinds[name]; dead && !handled[v] {
						r3.OK(site+" builds ParseError kind "+name, p.Pos(s.Pos()), "no serializeTo case, but the site is dead: "+why)
						continue
					}
					r3.Cond(handled[v], site+" builds ParseError kind "+name, p.Pos(s.Pos()), "serializeTo has a case", "serializeTo has no case for this kind and its default panics: Serialize(Tokenize(x)) can crash")
				}
			})
		}
	}

	c20EscapeTerminator(c)
	c20HexEscapesEndWithSpace(c)
	c20BackslashNewline(c)
	c20IdentFuses(c)
	c20TightLookahead(c)
	r4 := c.Rule("R4", "serializeStringValue escapes \", \\, LF, CR, FF; serializeURL additionally ', space, TAB, ( and ); serializeName passes through only [A-Za-z0-9_-] and non-ASCII", 5)
	// an escaped leading digit (or control character) of an identifier is a hexadecimal escape: it must end with a space
	if si := p.Fn("css/parser", "serializeIdentifier"); si == nil {
		r4.Anchor("css/parser.serializeIdentifier")
	} else {
		nHex := 0
		core.Instrs(si, func(in ssa.Instruction) {
			// fmt.Sprintf("\\%X…", c) and the literal escapes stored into the suffix
			if call, ok := in.(*ssa.Call); ok && call.Call.StaticCallee() != nil && call.Call.StaticCallee().Name() == "Sprintf" && len(call.Call.Args) >= 1 {
				if f, ok := core.ConstStr(call.Call.Args[0]); ok && strings.Contains(f, "%X") {
					nHex++
					r4.Cond(strings.HasSuffix(f, " "), "serializeIdentifier | hexadecimal escape of a leading digit", p.Pos(call.Pos()), fmt.Sprintf("format %q ends with the terminating space", f), fmt.Sprintf("format %q does not end the escape with a space: a following hexadecimal digit or letter a-f is read as part of the escape", f))
				}
			}
		})
		if nHex == 0 {
			r4.Unknown("serializeIdentifier | hexadecimal escape of a leading digit", p.Pos(si.Pos()), "no Sprintf with a %X format found")
		}
		// after a single leading dash the next character still goes through the first-character escaping (a digit
		// after the dash would otherwise start a number: `-0red`)
		var dashBlk *ssa.BasicBlock
		for _, a := range core.CondAtoms(si) {
			if bo, ok := a.(*ssa.BinOp); ok && bo.Op == token.EQL {
				if k, ok := core.ConstInt(bo.Y); ok && k == '-' {
					dashBlk = bo.Block()
				}
			}
		}
		if dashBlk == nil || len(dashBlk.Succs) != 2 {
			r4.Unknown("serializeIdentifier | character after a leading dash", p.Pos(si.Pos()), "the test of a leading '-' was not found")
		} else {
			isDecode := func(in ssa.Instruction) bool {
				call, ok := in.(*ssa.Call)
				return ok && call.Call.StaticCallee() != nil && call.Call.StaticCallee().Name() == "DecodeRuneInString"
			}
			isRet := func(in ssa.Instruction) bool { _, ok := in.(*ssa.Return); return ok }
			okDash := core.PassFrom(dashBlk.Succs[0], isDecode, isRet)
			r4.Cond(okDash, "serializeIdentifier | character after a leading dash", p.Pos(dashBlk.Instrs[0].Pos()), "the character after the dash goes through the first-character escaping", "after a leading '-' the function returns without escaping the next character as an identifier start: `-0red` is written as is and reads back as a dimension")
		}
	}
	// a dimension's unit that looks like an exponent (e or E, then a digit or a dash) is escaped, with the letter's own code
	if ds := p.Lookup("css/parser.Dimension.serializeTo"); ds == nil {
		r4.Anchor("css/parser.Dimension.serializeTo")
	} else {
		consts := map[int64]bool{}
		fromUnit := false
		core.Instrs(ds, func(in ssa.Instruction) {
			switch x := in.(type) {
			case *ssa.BinOp:
				if k, ok := core.ConstInt(x.Y); ok {
					consts[k] = true
				}
				if k, ok := core.ConstInt(x.X); ok {
					consts[k] = true
				}
			case *ssa.Call:
				if cal := x.Call.StaticCallee(); cal != nil && cal.Name() == "Sprintf" && len(x.Call.Args) == 2 {
					if f, ok := core.ConstStr(x.Call.Args[0]); ok && strings.Contains(f, "%X") && strings.HasSuffix(f, " ") {
						// the formatted value is a character of the unit, not a constant
						if sl, ok := x.Call.Args[1].(*ssa.Slice); ok {
							if al, ok := sl.X.(*ssa.Alloc); ok && al.Referrers() != nil {
								for _, rr := range *al.Referrers() {
									ia, ok := rr.(*ssa.IndexAddr)
									if !ok || ia.Referrers() == nil {
										continue
									}
									for _, r2 := range *ia.Referrers() {
										if st, ok := r2.(*ssa.Store); ok {
											v := st.Val
											for {
												switch y := v.(type) {
												case *ssa.MakeInterface:
													v = y.X
													continue
												case *ssa.Convert:
													v = y.X
													continue
												}
												break
											}
											switch v.(type) {
											case *ssa.Lookup, *ssa.Index: // a character of the unit string
												fromUnit = true
											}
										}
									}
								}
							}
						}
					}
				}
			}
		})
		digits := consts['0'] && consts['9']
		r4.Cond(consts['e'] && consts['E'] && consts['-'] && digits, "Dimension.serializeTo | exponent-like units", p.Pos(ds.Pos()), "units starting with e/E followed by a dash or a digit are escaped", fmt.Sprintf("the test for exponent-like units does not cover e, E, '-' and the digits (constants compared: e %v E %v - %v 0..9 %v): `1e3` with unit e3 is written as a number", consts['e'], consts['E'], consts['-'], digits))
		r4.Cond(fromUnit, "Dimension.serializeTo | escape keeps the letter", p.Pos(ds.Pos()), "the escape is formatted from the unit's first character", "the escape of the first letter is a constant: the unit E is written as e (or the reverse)")
	}
	type esc struct {
		fn   string
		need []rune
	}
	for _, e := range []esc{{"serializeStringValue", []rune{'"', '\\', '\n', '\r', '\f'}}, {"serializeURL", []rune{'"', '\\', '\n', '\r', '\f', '\'', ' ', '\t', '(', ')'}}} {
		fn := p.Fn("css/parser", e.fn)
		if fn == nil {
			r4.Anchor("css/parser." + e.fn)
			continue
		}
		info := p.InfoOf(fn)
		cases := map[rune]bool{}
		for _, sw := range core.Switches(p.Body(fn)) {
			for i, cs := range sw.Cases {
				// the clause must not pass the character through unchanged
				passthrough := false
				for _, st := range sw.Bodies[i] {
					if as, ok := st.(*ast.AssignStmt); ok && len(as.Rhs) == 1 {
						if call, ok := as.Rhs[0].(*ast.CallExpr); ok && types.ExprString(call.Fun) == "string" {
							passthrough = true
						}
					}
				}
				if passthrough {
					continue
				}
				for _, l := range cs {
					if v := core.ConstOf(info, l); v != nil {
						if n, ok := constant.Int64Val(v); ok {
							cases[rune(n)] = true
						}
					}
				}
			}
		}
		need := e.need
		tableOK := map[rune]bool{}
		if e.fn == "serializeURL" {
			// reader's table: every character the tokenizer refuses in an unquoted URL (constant sets tested in consumeUrl)
			refused := c20RefusedInURL(p)
			need = append(append([]rune{}, need...), refused...)
			// writer's side: a test of the character against a constant set whose true branch never reaches string(c)
			core.Instrs(fn, func(in ssa.Instruction) {
				call, ok := in.(*ssa.Call)
				if !ok {
					return
				}
				callee := call.Call.StaticCallee()
				if callee == nil || callee.Pkg == nil || callee.Pkg.Pkg.Path() != "strings" || (callee.Name() != "ContainsRune" && callee.Name() != "IndexRune") || len(call.Call.Args) != 2 {
					return
				}
				set, ok := core.ConstStr(call.Call.Args[0])
				if !ok || callee.Name() != "ContainsRune" {
					return
				}
				reach := core.ForwardReach(fn.Blocks[0], map[ssa.Value]bool{call: true}, nil)
				raw := false
				core.Instrs(fn, func(in2 ssa.Instruction) {
					if cv, ok := in2.(*ssa.Convert); ok && reach[in2.Block()] && cv.Block() != call.Block() && call.Block().Dominates(cv.Block()) {
						if b, ok := cv.Type().Underlying().(*types.Basic); ok && b.Kind() == types.String {
							raw = true
						}
					}
				})
				if !raw {
					for _, r := range set {
						tableOK[r] = true
					}
				}
			})
		}
		var missing []string
		for _, r := range need {
			if !cases[r] && !tableOK[r] {
				missing = append(missing, fmt.Sprintf("%q", r))
			}
		}
		r4.Cond(len(missing) == 0, e.fn+" escapes the required characters", p.Pos(fn.Pos()), fmt.Sprintf("%d escaping cases, %d characters escaped through a table test, %d required", len(cases), len(tableOK), len(need)), "no escaping case for "+strings.Join(missing, " ")+": the tokenizer refuses these characters in an unquoted URL (bad-url)")
	}
	// no escaper hands its input back unescaped (a fast path must test every character that needs escaping)
	for _, e := range []esc{{"serializeStringValue", []rune{'"', '\\', '\n', '\r', '\f'}}, {"serializeURL", []rune{'"', '\\', '\n', '\r', '\f', '\'', ' ', '\t', '(', ')'}}, {"serializeName", nil}} {
		fn := p.Fn("css/parser", e.fn)
		if fn == nil || len(fn.Params) != 1 {
			continue
		}
		par := fn.Params[0]
		core.Instrs(fn, func(in ssa.Instruction) {
			ret, ok := in.(*ssa.Return)
			if !ok || len(ret.Results) != 1 {
				return
			}
			if core.Unwrap(ret.Results[0]) != ssa.Value(par) {
				return
			}
			// accepted only under !strings.ContainsAny(value, CONST) with CONST covering the required characters
			okGuard := false
			for _, a := range core.CondAtomsReaching(fn, ret.Block()) {
				call, isCall := a.(*ssa.Call)
				if !isCall {
					continue
				}
				callee := call.Common().StaticCallee()
				if callee == nil || callee.Name() != "ContainsAny" || len(call.Call.Args) != 2 || call.Call.Args[0] != ssa.Value(par) {
					continue
				}
				chars, isConst := core.ConstStr(call.Call.Args[1])
				if !isConst || e.need == nil {
					continue
				}
				covers := true
				for _, rr := range e.need {
					if !strings.ContainsRune(chars, rr) {
						covers = false
					}
				}
				if covers && !core.ForwardReach(fn.Blocks[0], map[ssa.Value]bool{a: true}, nil)[ret.Block()] {
					okGuard = true
				}
			}
			r4.Cond(okGuard, e.fn+" never returns its input unescaped", p.Pos(ret.Pos()), "the raw return is guarded by a test of every character that needs escaping", "the input is returned as is on a path that does not exclude every character that needs escaping (a backslash or quote would be written raw)")
		})
	}
	if fn := p.Fn("css/parser", "serializeName"); fn == nil {
		r4.Anchor("css/parser.serializeName")
	} else {
		info := p.InfoOf(fn)
		var bad []string
		n := 0
		for _, sw := range core.Switches(p.Body(fn)) {
			for i, cs := range sw.Cases {
				passthrough := false
				for _, st := range sw.Bodies[i] {
					if as, ok := st.(*ast.AssignStmt); ok && len(as.Rhs) == 1 {
						if call, ok := as.Rhs[0].(*ast.CallExpr); ok && types.ExprString(call.Fun) == "string" {
							passthrough = true
						}
					}
				}
				if !passthrough {
					continue
				}
				for _, l := range cs {
					if v := core.ConstOf(info, l); v != nil {
						if k, ok := constant.Int64Val(v); ok {
							r := rune(k)
							n++
							if !(r == '-' || r == '_' || (r >= '0' && r <= '9') || (r >= 'a' && r <= 'z') || (r >= 'A' && r <= 'Z')) {
								bad = append(bad, fmt.Sprintf("%q", r))
							}
						}
					}
				}
			}
		}
		r4.Cond(len(bad) == 0 && n >= 64, "serializeName passes through only name characters", p.Pos(fn.Pos()), fmt.Sprintf("%d pass-through characters, all in [A-Za-z0-9_-]", n), fmt.Sprintf("%d pass-through characters; outside the name set: %s", n, strings.Join(bad, " ")))
	}
}

// c20EscapeTerminator: the serializer ends a hex escape with one space; the tokenizer must consume one and only one.
func c20EscapeTerminator(c *core.Check) {
	p := c.Prog
	r := c.Rule("R5", "escape terminator: the serializers write a code point as `\\hex` followed by one space (a newline in a string is `\\A `), so the tokenizer's hex escape must consume at most one white-space character after the digits — the pattern hexEscapeRe, matched on inputs with zero, one and two following spaces — and consumeEscape must not skip further white space in a loop", 2)
	init := p.VarInit("css/parser", "hexEscapeRe")
	pat := ""
	if call, ok := init.(*ast.CallExpr); ok && len(call.Args) == 1 {
		if bl, ok := call.Args[0].(*ast.BasicLit); ok && bl.Kind == token.STRING {
			pat, _ = strconv.Unquote(bl.Value)
		}
	}
	if pat == "" {
		r.Anchor("css/parser.hexEscapeRe (regexp.MustCompile of a string literal)")
	} else if re, err := regexp.Compile(pat); err != nil {
		r.Fail("css/parser.hexEscapeRe", p.Pos(init.Pos()), "the pattern does not compile: "+err.Error())
	} else {
		var bad []string
		for _, tc := range []struct {
			in   string
			want int
		}{{"41", 2}, {"41 b", 3}, {"41  b", 3}, {"A  x", 2}, {"A\n\nx", 2}, {"a\t b", 2}} {
			got := -1
			if loc := re.FindStringIndex(tc.in); loc != nil && loc[0] == 0 {
				got = loc[1]
			}
			if got != tc.want {
				bad = append(bad, fmt.Sprintf("%q consumes %d bytes, one optional white space after the digits gives %d", tc.in, got, tc.want))
			}
		}
		r.Cond(len(bad) == 0, "css/parser.hexEscapeRe | one optional white space", p.Pos(init.Pos()), "the digits and at most one white-space character", strings.Join(bad, "; "))
	}
	if fn := p.Method("css/parser", "tokenizer", "consumeEscape"); fn == nil {
		r.Anchor("css/parser.(*tokenizer).consumeEscape")
	} else {
		loops := core.Loops(fn)
		r.Cond(len(loops) == 0, "css/parser.consumeEscape | no loop", p.Pos(fn.Pos()), "straight-line code: what the pattern matched is what is consumed", fmt.Sprintf("%d loop(s) in consumeEscape: white space after an escape may be consumed beyond the single terminator (`\"a\\A  b\"` would lose a space on re-parse)", len(loops)))
	}
}

// c20HexEscapesEndWithSpace: every hexadecimal escape written by the string and url serializers is followed by its
// terminating space, unconditionally.  The tokenizer consumes one white space after a hexadecimal escape whatever
// follows: an escape written without it swallows a space or tab that is part of the value ("one\A  two").
func c20HexEscapesEndWithSpace(c *core.Check) {
	p := c.Prog
	r := c.Rule("R6", "hexadecimal escapes are always terminated: every string constant of css/parser's serializers that spells a hexadecimal escape (backslash and hex digits) ends with a space — there is no escape constant without it, whose space would then depend on what follows", 5)
	n := 0
	for _, name := range []string{"serializeStringValue", "serializeURL", "endEscape"} {
		fn := p.Fn("css/parser", name)
		if fn == nil {
			continue
		}
		core.Instrs(fn, func(in ssa.Instruction) {
			for _, op := range in.Operands(nil) {
				k, ok := (*op).(*ssa.Const)
				if !ok || k.Value == nil || k.Value.Kind() != constant.String {
					continue
				}
				s := constant.StringVal(k.Value)
				if len(s) < 2 || s[0] != '\\' {
					continue
				}
				hex := 0
				for hex+1 < len(s) && strings.IndexByte("0123456789abcdefABCDEF", s[1+hex]) >= 0 {
					hex++
				}
				if hex == 0 {
					continue
				}
				n++
				rest := s[1+hex:]
				r.Cond(rest == " ", fmt.Sprintf("css/parser.%s | escape constant %q", name, s), p.Pos(in.Pos()), "ends with its terminating space", "the escape is written without its terminating space (added only before a hexadecimal digit): the tokenizer swallows the space or tab that follows it in the value (`\"one\\A  two\"` reads back as one, newline, two)")
			}
		})
	}
	// also functions called from serializeStringValue with such constants as arguments are covered above by name; any other
	// helper receiving an escape constant is found through the callers' operands
	if fn := p.Fn("css/parser", "serializeStringValue"); fn != nil {
		core.Instrs(fn, func(in ssa.Instruction) {
			call, ok := in.(*ssa.Call)
			if !ok {
				return
			}
			for _, a := range call.Call.Args {
				if k, ok := a.(*ssa.Const); ok && k.Value != nil && k.Value.Kind() == constant.String {
					s := constant.StringVal(k.Value)
					if len(s) >= 2 && s[0] == '\\' && strings.IndexByte("0123456789abcdefABCDEF", s[1]) >= 0 && !strings.HasSuffix(s, " ") {
						n++
						r.Fail(fmt.Sprintf("css/parser.serializeStringValue | escape %q passed to %s", s, core.CalleeName(in)), p.Pos(in.Pos()), "an escape without its terminating space is handed to a helper: whether the space is written depends on what follows")
					}
				}
			}
		})
	}
	if n == 0 {
		r.Anchor("css/parser: the hexadecimal escape constants of the serializers")
	}
}

// c20RefusedInURL lists the characters that end an unquoted URL with an error in the tokenizer: the members of the
// constant sets that (*tokenizer).consumeUrl tests a character against (NUL excepted: the preprocessing replaces it).
func c20RefusedInURL(p *core.Prog) []rune {
	fn := p.Lookup("css/parser.(*tokenizer).consumeUrl")
	if fn == nil {
		return nil
	}
	seen := map[rune]bool{}
	var out []rune
	core.Instrs(fn, func(in ssa.Instruction) {
		call, ok := in.(*ssa.Call)
		if !ok {
			return
		}
		callee := call.Call.StaticCallee()
		if callee == nil || callee.Pkg == nil || callee.Pkg.Pkg.Path() != "strings" || callee.Name() != "ContainsRune" || len(call.Call.Args) != 2 {
			return
		}
		if set, ok := core.ConstStr(call.Call.Args[0]); ok {
			for _, r := range set {
				if r != 0 && !seen[r] {
					seen[r] = true
					out = append(out, r)
				}
			}
		}
	})
	return out
}
