package props

import (
	"fmt"
	"go/token"
	"go/types"

	"golang.org/x/tools/go/ssa"

	"wrverif/core"
)

// c08VarInvalid (R16): a var() reference that cannot be resolved — the variable is undefined or being resolved
// (cyclic), and there is no fallback — is invalid at computed-value time: the declaration using it falls back to the
// inherited or initial value as a whole; it is not "substituted by nothing" (`margin: 1px var(--nope)` is not 1px).
// With a fallback, the fallback is what gets resolved, also for a cyclic variable.
func c08VarInvalid(c *core.Check) {
	p := c.Prog
	r := c.Rule("R16", "unusable var() references: (a) resolveVar has a boolean result that is true on every return reached when the variable is undefined or in the set of resolutions in progress and there is no fallback (no comma), and false on every return reached when there is a comma with nothing after it: var(--a,) is replaced with nothing; (b) in those cases with a fallback, the recursive resolution of the fallback is reached; (c) in cascadeValue, when that result is true neither Validate nor ExpandValidatePending is reached: the declaration is handled as invalid (the scenarios of (a) and (b) are replayed along forward edges; they are named and not decided when the function carries a flag around a loop and tests it after the loop)", 1)
	rv := p.Fn("html/tree", "resolveVar")
	cv := p.Lookup("html/tree.(*ComputedStyle).cascadeValue")
	if rv == nil || cv == nil {
		r.Anchor("html/tree.resolveVar / (*ComputedStyle).cascadeValue")
		return
	}
	res := rv.Signature.Results()
	boolIdx := -1
	for i := 0; i < res.Len(); i++ {
		if b, ok := res.At(i).Type().Underlying().(*types.Basic); ok && b.Kind() == types.Bool {
			boolIdx = i
		}
	}
	if boolIdx < 0 {
		for _, k := range []string{"undefined variable, no fallback", "cyclic variable, no fallback", "undefined variable, fallback", "cyclic variable, fallback", "cascadeValue"} {
			r.Fail("html/tree.resolveVar | "+k, p.Pos(rv.Pos()), "resolveVar has no result that reports an unusable reference: a var() naming an undefined or cyclic variable without fallback is replaced by nothing and the rest of the value is validated (`margin: 1px var(--nope)` gives 1px)")
		}
		return
	}
	// atoms of resolveVar
	var hasAtoms, definedAtoms, fallbackAtoms []ssa.Value
	fallbackPositive := map[ssa.Value]bool{} // atom true <=> a fallback exists
	for _, a := range core.CondAtoms(rv) {
		switch x := a.(type) {
		case *ssa.Call:
			if callee := x.Call.StaticCallee(); callee != nil && callee.Name() == "Has" {
				hasAtoms = append(hasAtoms, a)
			}
		case *ssa.Extract:
			if lk, ok := x.Tuple.(*ssa.Lookup); ok && lk.CommaOk && x.Index == 1 {
				definedAtoms = append(definedAtoms, a)
			}
		case *ssa.BinOp:
			// len(<slice of the arguments after the name>) op 0
			call, ok := x.X.(*ssa.Call)
			if !ok {
				continue
			}
			if b, ok := call.Call.Value.(*ssa.Builtin); !ok || b.Name() != "len" {
				continue
			}
			if k, ok := core.ConstInt(x.Y); !ok || k != 0 {
				continue
			}
			// the list is a list of tokens that does not come from the table of variables
			arg := call.Call.Args[0]
			if st, isSlice := arg.Type().Underlying().(*types.Slice); isSlice && types.TypeString(st.Elem(), nil) != "" && !core.DerivesFrom(arg, func(v ssa.Value) bool { _, isLookup := v.(*ssa.Lookup); return isLookup }) {
				if _, nested := st.Elem().Underlying().(*types.Slice); !nested {
					fallbackAtoms = append(fallbackAtoms, a)
					fallbackPositive[a] = x.Op == token.NEQ || x.Op == token.GTR
				}
			}
		}
	}
	// the comma that introduces the fallback: IsLiteral(argument, ",") deciding a branch, and the condition of the
	// loop that looks for it (true when a comma is found: the loop was entered)
	var commaAtoms, commaLoopAtoms []ssa.Value
	for _, a := range core.CondAtoms(rv) {
		call, ok := a.(*ssa.Call)
		if !ok || call.Call.StaticCallee() == nil || call.Call.StaticCallee().Name() != "IsLiteral" || len(call.Call.Args) != 2 {
			continue
		}
		if k, ok := core.ConstStr(call.Call.Args[1]); !ok || k != "," {
			continue
		}
		commaAtoms = append(commaAtoms, a)
		if l := core.InnermostLoop(rv, call.Block()); l != nil && len(l.Header.Instrs) > 0 {
			if ifi, ok := l.Header.Instrs[len(l.Header.Instrs)-1].(*ssa.If); ok {
				commaLoopAtoms = append(commaLoopAtoms, core.IfCondAtoms(ifi.Cond)...)
			}
		}
	}
	if len(hasAtoms) == 0 || len(fallbackAtoms)+len(commaAtoms) == 0 {
		r.Unknown("html/tree.resolveVar | scenarios", p.Pos(rv.Pos()), fmt.Sprintf("tests not found: %d membership tests of the set in progress, %d lookups with presence, %d tests of the fallback's length", len(hasAtoms), len(definedAtoms), len(fallbackAtoms)))
		return
	}
	// the function-name test selects the var() branch: `AsciiLower(fn.Name) != "var"`
	base := map[ssa.Value]bool{}
	for _, a := range core.CondAtoms(rv) {
		if bo, ok := a.(*ssa.BinOp); ok {
			if k, ok := core.ConstStr(bo.Y); ok && k == "var" {
				base[a] = bo.Op == token.EQL
			}
		}
		if call, ok := a.(*ssa.Call); ok {
			if callee := call.Call.StaticCallee(); callee != nil && callee.Name() == "HasVar" {
				base[a] = true
			}
		}
	}
	type scen struct {
		name              string
		cyclic, hasFallbk bool
		emptyFallbk       bool // var(--a,): a fallback that holds no token
	}
	scens := []scen{{"undefined variable, no fallback", false, false, false}, {"cyclic variable, no fallback", true, false, false}, {"undefined variable, fallback", false, true, false}, {"cyclic variable, fallback", true, true, false}}
	if len(commaAtoms) > 0 {
		scens = append(scens, scen{"undefined variable, empty fallback", false, true, true}, scen{"cyclic variable, empty fallback", true, true, true})
	}
	// The replay follows forward edges only: what a loop computes must leave it forwards (break, return).  A loop
	// that carries its result in a flag tested after the loop (`for …; !found; … { if … { found = true } }`) is not
	// modelled — at the exit the flag would have its entry value — and its scenarios are named, not decided.
	carried := loopCarriedFlagTestedOutside(rv)
	for _, s := range scens {
		if carried != "" {
			r.Skip("html/tree.resolveVar | "+s.name, p.Pos(rv.Pos()), "not decided: "+carried)
			continue
		}
		assign := map[ssa.Value]bool{}
		for k, v := range base {
			assign[k] = v
		}
		for _, a := range hasAtoms {
			assign[a] = s.cyclic
		}
		for _, a := range definedAtoms {
			assign[a] = false
		}
		for _, a := range fallbackAtoms {
			assign[a] = fallbackPositive[a] == (s.hasFallbk && !s.emptyFallbk)
		}
		// a fallback exists when the arguments hold a comma
		for _, a := range commaAtoms {
			assign[a] = s.hasFallbk
		}
		if s.hasFallbk {
			for _, a := range commaLoopAtoms {
				assign[a] = true
			}
		}
		reach, edges := core.ForwardReachEdges(rv.Blocks[0], assign)
		// a range loop over a list that is empty under the scenario is not entered: the list is a merge of nil and of
		// appends made in blocks the scenario does not reach
		for round := 0; round < 3; round++ {
			changed := false
			for _, a := range core.CondAtoms(rv) {
				bo, ok := a.(*ssa.BinOp)
				if !ok || bo.Op != token.LSS {
					continue
				}
				if _, done := assign[a]; done {
					continue
				}
				call, ok := bo.Y.(*ssa.Call)
				if !ok {
					continue
				}
				if b, ok := call.Call.Value.(*ssa.Builtin); !ok || b.Name() != "len" {
					continue
				}
				if emptyUnder(call.Call.Args[0], reach, 0) {
					assign[a] = false
					changed = true
				} else if nonEmptyUnder(call.Call.Args[0], edges, 0) {
					// the first iteration of a loop over a list that holds an element on every path taken
					assign[a] = true
					changed = true
				}
			}
			if !changed {
				break
			}
			reach, edges = core.ForwardReachEdges(rv.Blocks[0], assign)
		}
		key := "html/tree.resolveVar | " + s.name
		if s.emptyFallbk {
			// the reference is replaced with nothing: no return reached reports it as invalid
			okAll, n := true, 0
			core.Instrs(rv, func(in ssa.Instruction) {
				ret, ok := in.(*ssa.Return)
				if !ok || !reach[in.Block()] || len(ret.Results) <= boolIdx {
					return
				}
				n++
				if k, ok := spilledResult(ret, boolIdx).(*ssa.Const); !ok || k.Value == nil || k.Value.String() != "false" {
					okAll = false
				}
			})
			r.Cond(okAll && n > 0, key, p.Pos(rv.Pos()), fmt.Sprintf("the %d returns reached use the empty fallback", n), "with a comma and nothing after it a return is reached that reports the reference as invalid: var(--a,) is valid and is replaced with nothing when --a cannot be used")
			continue
		}
		if !s.hasFallbk {
			okAll, n := true, 0
			core.Instrs(rv, func(in ssa.Instruction) {
				ret, ok := in.(*ssa.Return)
				if !ok || !reach[in.Block()] || len(ret.Results) <= boolIdx {
					return
				}
				n++
				if k, ok := spilledResult(ret, boolIdx).(*ssa.Const); !ok || k.Value == nil || k.Value.String() != "true" {
					okAll = false
				}
			})
			r.Cond(okAll && n > 0, key, p.Pos(rv.Pos()), fmt.Sprintf("the %d returns reached report the reference as invalid", n), "a return is reached that does not report the reference as invalid: it is replaced by nothing and the rest of the value is validated")
			continue
		}
		rec := false
		core.Instrs(rv, func(in ssa.Instruction) {
			if call, ok := in.(*ssa.Call); ok && reach[in.Block()] && call.Call.StaticCallee() == rv {
				rec = true
			}
		})
		r.Cond(rec, key, p.Pos(rv.Pos()), "the resolution of the fallback is reached", "no recursive resolution is reached: the fallback of the reference is not used")
	}
	// (c) the caller
	key := "html/tree.(*ComputedStyle).cascadeValue | invalid reference"
	var inv []ssa.Value
	core.Instrs(cv, func(in ssa.Instruction) {
		if ex, ok := in.(*ssa.Extract); ok && ex.Index == boolIdx {
			if call, ok := ex.Tuple.(*ssa.Call); ok && call.Call.StaticCallee() == rv {
				inv = append(inv, ex)
			}
		}
	})
	if len(inv) == 0 {
		r.Fail(key, p.Pos(cv.Pos()), "cascadeValue does not read the result of resolveVar that reports an unusable reference")
		return
	}
	for _, a := range inv {
		in := a.(ssa.Instruction)
		// the result must decide a branch (the rest of the check follows its true side)
		tested := false
		for _, ref := range *a.Referrers() {
			if _, ok := ref.(*ssa.If); ok {
				tested = true
			}
		}
		if !tested {
			r.Fail(key, p.Pos(in.Pos()), "the result of resolveVar that reports an unusable reference is not tested: the rest of the value is validated as if the reference were empty")
			continue
		}
		reach := core.ForwardReach(in.Block(), map[ssa.Value]bool{a: true}, nil)
		bad := ""
		core.Instrs(cv, func(in2 ssa.Instruction) {
			if call, ok := in2.(*ssa.Call); ok && reach[in2.Block()] && in2.Block() != in.Block() {
				if callee := call.Call.StaticCallee(); callee != nil && (callee.Name() == "Validate" || callee.Name() == "ExpandValidatePending") {
					bad = callee.Name()
				}
			}
		})
		r.Cond(bad == "", key, p.Pos(in.Pos()), "no validation of the value is reached when the reference is invalid", bad+" is reached although a reference of the value is invalid: the rest of the value is validated as if the reference were empty")
	}
}

// emptyUnder: the slice value is nil on every path the scenario can take (phi edges from unreached blocks are ignored).
func emptyUnder(v ssa.Value, reach map[*ssa.BasicBlock]bool, depth int) bool {
	if depth > 6 {
		return false
	}
	switch x := v.(type) {
	case *ssa.Const:
		return x.IsNil()
	case *ssa.Phi:
		any := false
		for i, e := range x.Edges {
			if !reach[x.Block().Preds[i]] {
				continue
			}
			any = true
			if !emptyUnder(e, reach, depth+1) {
				return false
			}
		}
		return any
	}
	return false
}

// nonEmptyUnder: the list holds an element on every control-flow edge taken: it is the result of an append of at
// least one element, or a phi all of whose taken edges bring such a list.
func nonEmptyUnder(v ssa.Value, edges map[[2]int]bool, depth int) bool {
	if depth > 6 {
		return false
	}
	switch x := v.(type) {
	case *ssa.Call:
		if b, ok := x.Call.Value.(*ssa.Builtin); ok && b.Name() == "append" && len(x.Call.Args) == 2 {
			if sl, ok := x.Call.Args[1].(*ssa.Slice); ok {
				if al, ok := sl.X.(*ssa.Alloc); ok {
					if arr, ok := al.Type().Underlying().(*types.Pointer).Elem().Underlying().(*types.Array); ok && arr.Len() > 0 {
						return true
					}
				}
			}
		}
	case *ssa.Phi:
		any := false
		for i, e := range x.Edges {
			if !edges[[2]int{x.Block().Preds[i].Index, x.Block().Index}] {
				continue
			}
			any = true
			if !nonEmptyUnder(e, edges, depth+1) {
				return false
			}
		}
		return any
	}
	return false
}

// spilledResult returns the value a return instruction yields for result idx: with a defer in the function the
// named results live in locals, stored just before `rundefers` and loaded again for the return.
func spilledResult(ret *ssa.Return, idx int) ssa.Value {
	v := ret.Results[idx]
	ld, ok := v.(*ssa.UnOp)
	if !ok || ld.Op != token.MUL {
		return v
	}
	al, ok := ld.X.(*ssa.Alloc)
	if !ok {
		return v
	}
	b := ret.Block()
	for hops := 0; hops < 4 && b != nil; hops++ {
		for i := len(b.Instrs) - 1; i >= 0; i-- {
			if st, ok := b.Instrs[i].(*ssa.Store); ok && st.Addr == ssa.Value(al) {
				return st.Val
			}
		}
		if len(b.Preds) != 1 {
			break
		}
		b = b.Preds[0]
	}
	return v
}

// c08VarFallbackCommas (R17): the fallback of a var() reference is a declaration value of its own, commas included
// (`font-family: var(--f, Arial, serif)` is two families).  ParseFunction returns the arguments with the commas
// dropped, so its list may supply the variable's name and nothing else: in resolveVar it is only read at a constant
// position, never re-sliced, ranged over or passed on.
func c08VarFallbackCommas(c *core.Check) {
	p := c.Prog
	r := c.Rule("R17", "the fallback of var() keeps its commas: in resolveVar the comma-less list returned by ParseFunction is only indexed at a constant position (the name); the tokens substituted for the reference are not a slice of it, a range over it or the list itself", 1)
	rv := p.Fn("html/tree", "resolveVar")
	if rv == nil {
		r.Anchor("html/tree.resolveVar")
		return
	}
	n := 0
	core.Instrs(rv, func(in ssa.Instruction) {
		ex, ok := in.(*ssa.Extract)
		if !ok || ex.Index != 1 {
			return
		}
		call, ok := ex.Tuple.(*ssa.Call)
		if !ok {
			return
		}
		if callee := call.Call.StaticCallee(); callee == nil || callee.Name() != "ParseFunction" {
			return
		}
		n++
		bad := ""
		for _, ref := range *ex.Referrers() {
			switch x := ref.(type) {
			case *ssa.IndexAddr:
				if _, ok := core.ConstInt(x.Index); !ok {
					bad = "indexed at a variable position (ranged over)"
				}
			case *ssa.DebugRef:
			case *ssa.Call:
				if b, ok := x.Call.Value.(*ssa.Builtin); ok && b.Name() == "len" {
					continue
				}
				bad = "passed to " + core.CalleeName(x)
			case *ssa.Slice:
				bad = "re-sliced: the rest of the list is used as tokens"
			default:
				bad = fmt.Sprintf("used by %s", ref.String())
			}
		}
		r.Cond(bad == "", "html/tree.resolveVar | arguments of ParseFunction", p.Pos(call.Pos()), "read at constant positions only", "the list is "+bad+": a fallback with commas (`var(--f, Arial, serif)`) loses them and is read as one value")
	})
	if n == 0 {
		r.OK("html/tree.resolveVar | arguments of ParseFunction", p.Pos(rv.Pos()), "the comma-less list is not used at all")
	}
}

// c08VarTrailingComma (R21): ParseFunction refuses a functional notation that ends with a comma, which is right for
// every function but var(): `var(--a,)` is valid (an empty fallback).  HasVar recognises a reference through
// ParseFunction, so a reference refused there makes the whole declaration invalid when it is parsed.  After the loop
// over the arguments, when the name of the function was found equal to "var", no return gives the zero name.
func c08VarTrailingComma(c *core.Check) {
	p := c.Prog
	r := c.Rule("R21", "var(--a,) is a function: in css/parser.ParseFunction, after the loop over the arguments, no return reached when the function name compares equal to \"var\" gives the empty name (the refusal of a trailing comma does not apply to var)", 1)
	fn := p.Fn("css/parser", "ParseFunction")
	if fn == nil {
		r.Anchor("css/parser.ParseFunction")
		return
	}
	key := "css/parser.ParseFunction | trailing comma of var()"
	assign := map[ssa.Value]bool{}
	for _, a := range core.CondAtoms(fn) {
		if bo, ok := a.(*ssa.BinOp); ok && (bo.Op == token.EQL || bo.Op == token.NEQ) {
			kx, okx := core.ConstStr(bo.X)
			ky, oky := core.ConstStr(bo.Y)
			if (okx && kx == "var") || (oky && ky == "var") {
				assign[a] = bo.Op == token.EQL
			}
		}
	}
	if len(assign) == 0 {
		r.Fail(key, p.Pos(fn.Pos()), "the name of the function is never compared with \"var\": a trailing comma is refused for var() like for the other functions, and `margin: 1px var(--a,) 2px` is dropped when parsed")
		return
	}
	loops := core.Loops(fn)
	if len(loops) != 1 {
		r.Unknown(key, p.Pos(fn.Pos()), fmt.Sprintf("%d loops found, 1 expected", len(loops)))
		return
	}
	bad, n := 0, 0
	for _, exit := range loops[0].Header.Succs {
		if loops[0].Blocks[exit] {
			continue
		}
		reach := core.ForwardReach(exit, assign, nil)
		core.Instrs(fn, func(in ssa.Instruction) {
			ret, ok := in.(*ssa.Return)
			if !ok || !reach[in.Block()] || len(ret.Results) == 0 {
				return
			}
			n++
			if k, ok := core.ConstStr(ret.Results[0]); ok && k == "" {
				bad++
			}
		})
	}
	r.Cond(bad == 0 && n > 0, key, p.Pos(fn.Pos()), fmt.Sprintf("the %d returns reached after the loop give the name", n), "a return after the loop gives the empty name although the function is var: var(--a,) is refused")
}

// loopCarriedFlagTestedOutside: some boolean tested outside of a loop is (a merge of) a value carried around that
// loop: a header phi with a non-constant value on a back edge.  Returns a description, or "" when there is none.
func loopCarriedFlagTestedOutside(fn *ssa.Function) string {
	loops := core.Loops(fn)
	headerOf := map[*ssa.BasicBlock]*core.Loop{}
	for _, l := range loops {
		headerOf[l.Header] = l
	}
	for _, b := range fn.Blocks {
		if len(b.Instrs) == 0 {
			continue
		}
		ifi, ok := b.Instrs[len(b.Instrs)-1].(*ssa.If)
		if !ok {
			continue
		}
		seen := map[ssa.Value]bool{}
		var walk func(v ssa.Value) string
		walk = func(v ssa.Value) string {
			if seen[v] {
				return ""
			}
			seen[v] = true
			if u, ok := v.(*ssa.UnOp); ok && u.Op == token.NOT {
				return walk(u.X)
			}
			phi, ok := v.(*ssa.Phi)
			if !ok {
				return ""
			}
			if bt, ok := phi.Type().Underlying().(*types.Basic); !ok || bt.Kind() != types.Bool {
				return ""
			}
			if l := headerOf[phi.Block()]; l != nil && !l.Blocks[b] {
				for i, pred := range phi.Block().Preds {
					if l.Blocks[pred] {
						if _, isK := phi.Edges[i].(*ssa.Const); !isK {
							return "a boolean carried around a loop is tested after the loop (block " + fmt.Sprint(b.Index) + "): the replay follows forward edges only"
						}
					}
				}
			}
			for _, e := range phi.Edges {
				if w := walk(e); w != "" {
					return w
				}
			}
			return ""
		}
		if w := walk(ifi.Cond); w != "" {
			return w
		}
	}
	return ""
}
