package props

import (
	"fmt"
	"go/ast"
	"go/token"
	"strconv"
	"sort"
	"strings"

	"golang.org/x/tools/go/ssa"

	"wrverif/core"
)

// svgAttributeNames: the attribute index of SVG 1.1 / SVG 2 (element-specific and presentation attributes), with
// the namespace prefix dropped as the port drops it (xlink:href -> href, xml:space -> space, xml:base -> base).
var svgAttributeNames = stringSet(strings.Fields(`
accumulate additive alignment-baseline amplitude attributeName attributeType azimuth
base baseFrequency baseline-shift begin bias by
calcMode class clip clip-path clip-rule clipPathUnits color color-interpolation color-interpolation-filters
color-profile color-rendering cursor cx cy
d diffuseConstant direction display divisor dominant-baseline dur dx dy
edgeMode elevation end exponent
fill fill-opacity fill-rule filter filterUnits flood-color flood-opacity font-family font-size font-size-adjust
font-stretch font-style font-variant font-weight fr from fx fy
glyph-orientation-horizontal glyph-orientation-vertical gradientTransform gradientUnits
height href
id image-rendering in in2 intercept
k1 k2 k3 k4 kernelMatrix kernelUnitLength kerning keyPoints keySplines keyTimes
lang lengthAdjust letter-spacing lighting-color limitingConeAngle
marker marker-end marker-mid marker-start markerHeight markerUnits markerWidth mask maskContentUnits maskUnits
max media method min mode
numOctaves
offset opacity operator order orient origin overflow
paint-order path pathLength patternContentUnits patternTransform patternUnits pointer-events points
pointsAtX pointsAtY pointsAtZ preserveAlpha preserveAspectRatio primitiveUnits
r radius refX refY repeatCount repeatDur requiredExtensions requiredFeatures restart result rotate rx ry
scale seed shape-rendering side slope space spacing specularConstant specularExponent spreadMethod startOffset
stdDeviation stitchTiles stop-color stop-opacity stroke stroke-dasharray stroke-dashoffset stroke-linecap
stroke-linejoin stroke-miterlimit stroke-opacity stroke-width style surfaceScale systemLanguage
tabindex tableValues target targetX targetY text-anchor text-decoration text-rendering textLength title to transform
transform-origin type
unicode-bidi
values vector-effect version viewBox visibility
width word-spacing writing-mode
x x1 x2 xChannelSelector y y1 y2 yChannelSelector
z zoomAndPan`))

// c18AttributeVocabulary (R15): every attribute the SVG code asks a node for is an attribute SVG defines.  The keys
// with which package svg indexes a nodeAttributes map are constants of the source; one that is not in the attribute
// index of the specification can never be present in a document: the feature it gates is dead
// (`fill-rull`: no path was ever filled with the even-odd rule).
func c18AttributeVocabulary(c *core.Check) {
	p := c.Prog
	r := c.Rule("R15", "attribute names are SVG's: every constant key used to look up a nodeAttributes map in package svg is in the attribute index of SVG 1.1/2 (namespace prefixes dropped), the named extensions excepted", 72)
	extensions := map[string]string{
		"display-anchor": "not an SVG attribute: an extension the text code of the port (and of upstream) reads next to text-anchor",
	}
	seen := map[string]string{}
	for _, fn := range p.FuncsOfPkg("svg") {
		if fn.Blocks == nil {
			continue
		}
		core.Instrs(fn, func(in ssa.Instruction) {
			lk, ok := in.(*ssa.Lookup)
			if !ok {
				return
			}
			if !strings.HasSuffix(lk.X.Type().String(), "svg.nodeAttributes") {
				return
			}
			if k, ok := core.ConstStr(lk.Index); ok {
				if _, done := seen[k]; !done {
					seen[k] = p.Pos(lk.Pos())
				}
			}
		})
	}
	var keys []string
	for k := range seen {
		keys = append(keys, k)
	}
	sort.Strings(keys)
	for _, k := range keys {
		key := fmt.Sprintf("svg | attribute %q", k)
		if why, ok := extensions[k]; ok {
			r.Skip(key, seen[k], why)
			continue
		}
		r.Cond(svgAttributeNames[k], key, seen[k], "an attribute of the SVG attribute index", "no SVG attribute has this name: no document can carry it, and what the code does with it never happens")
	}
}

func stringSet(l []string) map[string]bool {
	out := map[string]bool{}
	for _, s := range l {
		out[s] = true
	}
	return out
}

// c18LongestUnit (R16): the table of SVG units holds one unit whose name ends another (em, rem).  A loop that finds
// the unit of a length by testing suffixes must therefore look at the whole table and keep the longest match: it
// has no early exit.  (`1rem` matched `em`; `1r` is not a number and the image was refused.)
func c18LongestUnit(c *core.Check) {
	p := c.Prog
	r := c.Rule("R16", "longest unit wins: the units table of package svg contains a unit that is a proper suffix of another; the loop of parseValue that matches a unit by suffix has no early exit (it examines every unit)", 1)
	tab, err := p.Table("svg", "units")
	fn := p.Fn("svg", "parseValue")
	if err != nil || fn == nil {
		r.Anchor("svg.units / svg.parseValue")
		return
	}
	var names []string
	for _, e := range tab {
		if lit, ok := e.Val.(*ast.BasicLit); ok && lit.Kind == token.STRING {
			if s, err := strconv.Unquote(lit.Value); err == nil && s != "" {
				names = append(names, s)
			}
		}
	}
	nested := ""
	for _, a := range names {
		for _, b := range names {
			if a != b && strings.HasSuffix(b, a) {
				nested = a + " ends " + b
			}
		}
	}
	key := "svg.parseValue | unit suffix loop"
	if nested == "" {
		r.OK(key, p.Pos(fn.Pos()), fmt.Sprintf("no unit of the %d in the table is a suffix of another", len(names)))
		return
	}
	var loop *core.Loop
	for _, l := range core.Loops(fn) {
		for b := range l.Blocks {
			for _, in := range b.Instrs {
				if call, ok := in.(*ssa.Call); ok && call.Call.StaticCallee() != nil && call.Call.StaticCallee().Name() == "HasSuffix" {
					loop = l
				}
			}
		}
	}
	if loop == nil {
		r.Unknown(key, p.Pos(fn.Pos()), "no loop testing a suffix")
		return
	}
	_, early := core.EveryIterationPasses(loop, func(ssa.Instruction) bool { return false })
	r.Cond(len(early) == 0, key, p.Pos(loop.Header.Instrs[0].Pos()), "the loop examines every unit ("+nested+")", "the loop leaves at the first match although "+nested+" in the table: a length in the longer unit is read with the shorter one and the rest is not a number")
}

// c18ListSeparators (R17): white-space separated attribute values are split on runs of white space.  In package svg
// no attribute text is split with strings.Split(text, " "): two spaces, a tab or a newline between the two words of
// preserveAspectRatio are one separator (the second word, slice, was lost).
func c18ListSeparators(c *core.Check) {
	p := c.Prog
	r := c.Rule("R17", "white space separates, whatever its length: package svg does not split text with strings.Split(text, \" \") (strings.Fields or a scanner is used instead)", 1)
	n, bad := 0, 0
	for _, fn := range p.FuncsOfPkg("svg") {
		if fn.Blocks == nil {
			continue
		}
		core.Instrs(fn, func(in ssa.Instruction) {
			call, ok := in.(*ssa.Call)
			if !ok {
				return
			}
			callee := call.Call.StaticCallee()
			if callee == nil || callee.Pkg == nil || callee.Pkg.Pkg.Path() != "strings" {
				return
			}
			switch callee.Name() {
			case "Split", "SplitN":
				n++
				if sep, ok := core.ConstStr(call.Call.Args[1]); ok && sep == " " {
					bad++
					r.Fail(fmt.Sprintf("%s | strings.%s on a single space #%d", core.FuncName(fn), callee.Name(), bad), p.Pos(call.Pos()), "the text is split on single spaces: two spaces, a tab or a newline between two words give an empty or a glued word")
				}
			case "Fields":
				n++
			}
		})
	}
	r.OK("scan", "-", fmt.Sprintf("%d splits of text in package svg", n))
}
