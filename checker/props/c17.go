package props

import (
	"fmt"
	"go/ast"
	"go/constant"
	"go/token"
	"go/types"
	"math"
	"math/big"
	"sort"
	"strings"

	"golang.org/x/tools/go/ssa"

	"wrverif/core"
)

func init() { register("C17", c17) }

type mat6 [6]core.RatP // A B C D E F  (x' = A x + C y + E ; y' = B x + D y + F)

func symMat(prefix string) mat6 {
	var m mat6
	for i, n := range []string{"A", "B", "C", "D", "E", "F"} {
		m[i] = core.SymR(prefix + "." + n)
	}
	return m
}

// specMul is the product of two affine matrices (specification, CSS Transforms §12 / SVG 1.1 §7.4).
func specMul(t, u mat6) mat6 {
	return mat6{
		t[0].Mul(u[0]).Add(t[2].Mul(u[1])),
		t[1].Mul(u[0]).Add(t[3].Mul(u[1])),
		t[0].Mul(u[2]).Add(t[2].Mul(u[3])),
		t[1].Mul(u[2]).Add(t[3].Mul(u[3])),
		t[0].Mul(u[4]).Add(t[2].Mul(u[5])).Add(t[4]),
		t[1].Mul(u[4]).Add(t[3].Mul(u[5])).Add(t[5]),
	}
}

func (m mat6) av() core.AV {
	a := core.Agg{}
	for _, p := range m {
		a.E = append(a.E, core.FromRat(p))
	}
	return a
}

func matOf(v core.AV) (mat6, bool) {
	var m mat6
	a, ok := v.(core.Agg)
	if !ok || len(a.E) != 6 {
		return m, false
	}
	for i, e := range a.E {
		p, ok := core.ToRat(e)
		if !ok {
			return m, false
		}
		m[i] = p
	}
	return m, true
}

func (m mat6) equal(n mat6) bool {
	for i := range m {
		if !m[i].Equal(n[i]) {
			return false
		}
	}
	return true
}

func (m mat6) String() string {
	var parts []string
	for i, n := range []string{"A", "B", "C", "D", "E", "F"} {
		parts = append(parts, n+"="+m[i].String())
	}
	return strings.Join(parts, " ")
}

func zero() core.RatP { return core.NumR(0) }
func one() core.RatP  { return core.NumR(1) }

func c17(c *core.Check) {
	_ = c
	c.Explain = "Each routine of package matrix is normalised, without executing it, to a polynomial in its inputs (global value numbering over SSA, exact rational coefficients, sin/cos/tan uninterpreted) and compared with the specification matrix of CSS Transforms / SVG; in-place operations are compared with right multiplication by the corresponding constructor; the CSS and SVG plumbing (vocabulary, arity, argument order, left-to-right composition, transform-origin conjugation, degree/radian factors, angle-unit table) is checked on the AST/SSA. Float rounding and overflow are outside the abstraction."
	c17Determinant(c)
	c17Computed(c)
	c17ZeroAngles(c)
	c17GradientBox(c)
	c17ClipRestore(c)
	c17TransformSeparators(c)
	c17DeadArithmetic(c)
	c.Assume = []string{"float32/float64 conversions are treated as identity", "the group laws follow from the laws of 2x3 affine matrices once each routine equals its specification matrix (mathematics, not re-proved)"}

	r1 := c.Rule("R1", "matrix package: Translation, Scaling, Rotation, Skew, Identity, New, Determinant, mult/Mul/Mul3, LeftMultBy, RightMultBy, Apply, Invert and the in-place Translate/Scale/Rotate/Skew have the specification normal forms", 15)
	c17Matrix(c, r1)

	r2 := c.Rule("R2", "CSS plumbing: names emitted by validation.transformFunction are the cases of document.getMatrix; the largest argument index each case reads is below the length of the Dimensions the validator emits for that name; single-axis forms put their argument on the right axis; getMatrix passes args[i] as i-th argument, composes with RightMultBy in list order, starts from the translation by the origin and ends with the translation by its negation", 29)
	c17CSS(c, r2)

	r3 := c.Rule("R3", "SVG plumbing: parseTransform's kind/arity table is SVG 1.1 §7.6 (rotate 1|3, translate 1|2, skewX 1, skewY 1, scale 1|2, matrix 6); transform.applyTo, folded per kind, right-multiplies by the specification matrix with degrees converted to radians", 13)
	c17SVG(c, r3)

	r4 := c.Rule("R4", "validation.ANGLETORADIANS = {rad:1, turn:2π, deg:π/180, grad:π/200} and AngleUnits names map to the same-named units", 10)
	c17Angles(c, r4)
}

// foldMat folds fn; comparisons of a single input symbol with zero are decided by zeroSyms (the symbol is then
// also substituted by 0 in the arguments by the caller) and recorded in compared; any other comparison with zero
// (the determinant) is assumed to be "non-zero".
func foldMat(p *core.Prog, fn *ssa.Function, args []core.AV, zeroSyms map[string]bool, compared map[string]bool) ([]core.AV, *core.Folder, error) {
	f := &core.Folder{MaxDepth: 5}
	f.Cmp = func(op token.Token, x, y core.AV) (bool, bool) {
		px, okx := x.(core.Poly)
		py, oky := y.(core.Poly)
		if okx && oky {
			if c, isc := py.IsConst(); isc && c.Sign() == 0 {
				if len(px.T) == 1 {
					for name, coef := range px.T {
						if name != "" && coef.Cmp(big.NewRat(1, 1)) == 0 && !strings.ContainsAny(name, "(\x1f") {
							compared[name] = true
							if zeroSyms[name] {
								return op == token.EQL, true
							}
						}
					}
				}
				return op == token.NEQ, true
			}
		}
		return false, false
	}
	res, err := f.Fold(fn, args)
	return res, f, err
}

func c17Matrix(c *core.Check, r *core.Rule) {
	p := c.Prog
	T := p.Obj("matrix", "Transform")
	if T == nil {
		r.Anchor("matrix.Transform")
		return
	}
	// field order must be A..F for the mat6 view
	st := T.Type().Underlying().(*types.Struct)
	names := ""
	for i := 0; i < st.NumFields(); i++ {
		names += st.Field(i).Name()
	}
	if names != "ABCDEF" {
		r.Anchor("matrix.Transform fields A,B,C,D,E,F (got " + names + ")")
		return
	}
	runAll := func(zeroSet map[string]bool, label string, only map[string]bool) map[string]map[string]bool {
		comparedBy := map[string]map[string]bool{}
		z := func(m mat6) mat6 {
			for i, n := range []string{"A", "B", "C", "D", "E", "F"} {
				for pre := range map[string]bool{"T": true, "U": true, "V": true} {
					if m[i].Equal(core.SymR(pre+"."+n)) && zeroSet[pre+"."+n] {
						m[i] = core.NumR(0)
					}
				}
			}
			return m
		}
		M, U, V := z(symMat("T")), z(symMat("U")), z(symMat("V"))
		tan := func(s string) core.RatP { return core.SymR("tan(" + s + ")") }
		cos := func(s string) core.RatP { return core.SymR("cos(" + s + ")") }
		sin := func(s string) core.RatP { return core.SymR("sin(" + s + ")") }
		sym := core.SymR
		symA := func(n string) core.AV { return core.SymP(n) }

		specTranslation := mat6{one(), zero(), zero(), one(), sym("tx"), sym("ty")}
		specScaling := mat6{sym("sx"), zero(), zero(), sym("sy"), zero(), zero()}
		specRotation := mat6{cos("a"), sin("a"), sin("a").Neg(), cos("a"), zero(), zero()}
		// skew(ax, ay): x' = x + tan(ax) y ; y' = tan(ay) x + y
		specSkew := mat6{one(), tan("ay"), tan("ax"), one(), zero(), zero()}

		type tcase struct {
			name   string
			fn     *ssa.Function
			args   []core.AV
			expect func(res []core.AV, args []core.AV) (bool, string, string)
		}
		expectMat := func(want mat6) func([]core.AV, []core.AV) (bool, string, string) {
			return func(res []core.AV, _ []core.AV) (bool, string, string) {
				if len(res) != 1 {
					return false, "", "no single result"
				}
				got, ok := matOf(res[0])
				if !ok {
					return false, "", "result is not a polynomial matrix: " + core.AVString(res[0])
				}
				return got.equal(want), got.String(), "specification: " + want.String()
			}
		}
		expectInPlace := func(want mat6) func([]core.AV, []core.AV) (bool, string, string) {
			return func(_ []core.AV, args []core.AV) (bool, string, string) {
				got, ok := matOf(core.Deref(args[0]))
				if !ok {
					return false, "", "receiver is not a polynomial matrix after the call: " + core.AVString(core.Deref(args[0]))
				}
				return got.equal(want), got.String(), "specification: " + want.String()
			}
		}
		ptr := func(m mat6) core.AV { return core.Ptr{C: &core.Cell{V: m.av()}} }
		fnOf := func(name string) *ssa.Function { return p.Fn("matrix", name) }
		meth := func(name string) *ssa.Function { return p.Method("matrix", "Transform", name) }
		det := M[0].Mul(M[3]).Add(M[1].Mul(M[2]).Neg())
		// inverse of an affine map: A^-1 = adj/det ; translation = -A^-1 (E,F)
		iA, iB, iC, iD := M[3].Div(det), M[1].Neg().Div(det), M[2].Neg().Div(det), M[0].Div(det)
		specInv := mat6{iA, iB, iC, iD,
			iA.Mul(M[4]).Add(iC.Mul(M[5])).Neg(),
			iB.Mul(M[4]).Add(iD.Mul(M[5])).Neg()}

		cases := []tcase{
			{"Identity", fnOf("Identity"), nil, expectMat(mat6{one(), zero(), zero(), one(), zero(), zero()})},
			{"New", fnOf("New"), []core.AV{symA("a"), symA("b"), symA("c"), symA("d"), symA("e"), symA("f")}, expectMat(mat6{sym("a"), sym("b"), sym("c"), sym("d"), sym("e"), sym("f")})},
			{"Translation", fnOf("Translation"), []core.AV{symA("tx"), symA("ty")}, expectMat(specTranslation)},
			{"Scaling", fnOf("Scaling"), []core.AV{symA("sx"), symA("sy")}, expectMat(specScaling)},
			{"Rotation", fnOf("Rotation"), []core.AV{symA("a")}, expectMat(specRotation)},
			{"Skew", fnOf("Skew"), []core.AV{symA("ax"), symA("ay")}, expectMat(specSkew)},
			{"Mul", fnOf("Mul"), []core.AV{M.av(), U.av()}, expectMat(specMul(M, U))},
			{"Mul3", fnOf("Mul3"), []core.AV{M.av(), U.av(), V.av()}, expectMat(specMul(M, specMul(U, V)))},
			{"Transform.Determinant", meth("Determinant"), []core.AV{M.av()}, func(res []core.AV, _ []core.AV) (bool, string, string) {
				got, ok := core.ToRat(res[0])
				return ok && got.Equal(det), core.AVString(res[0]), "specification: " + det.String()
			}},
			{"Transform.Apply", meth("Apply"), []core.AV{M.av(), symA("x"), symA("y")}, func(res []core.AV, _ []core.AV) (bool, string, string) {
				if len(res) != 2 {
					return false, "", "two results expected"
				}
				gx, ok1 := core.ToRat(res[0])
				gy, ok2 := core.ToRat(res[1])
				wx := M[0].Mul(sym("x")).Add(M[2].Mul(sym("y"))).Add(M[4])
				wy := M[1].Mul(sym("x")).Add(M[3].Mul(sym("y"))).Add(M[5])
				return ok1 && ok2 && gx.Equal(wx) && gy.Equal(wy), core.AVString(res[0]) + " ; " + core.AVString(res[1]), "specification: " + wx.String() + " ; " + wy.String()
			}},
			{"(*Transform).LeftMultBy", meth("LeftMultBy"), []core.AV{ptr(M), U.av()}, expectInPlace(specMul(U, M))},
			{"(*Transform).RightMultBy", meth("RightMultBy"), []core.AV{ptr(M), U.av()}, expectInPlace(specMul(M, U))},
			{"(*Transform).Translate", meth("Translate"), []core.AV{ptr(M), symA("tx"), symA("ty")}, expectInPlace(specMul(M, specTranslation))},
			{"(*Transform).Scale", meth("Scale"), []core.AV{ptr(M), symA("sx"), symA("sy")}, expectInPlace(specMul(M, specScaling))},
			{"(*Transform).Rotate", meth("Rotate"), []core.AV{ptr(M), symA("a")}, expectInPlace(specMul(M, specRotation))},
			{"(*Transform).Skew", meth("Skew"), []core.AV{ptr(M), symA("ax"), symA("ay")}, expectInPlace(specMul(M, specSkew))},
			{"(*Transform).Invert", meth("Invert"), []core.AV{ptr(M)}, expectInPlace(specInv)},
		}
		for _, tc := range cases {
			if tc.fn == nil {
				r.Anchor("matrix." + tc.name)
				continue
			}
			if only != nil && !only[tc.name] {
				continue
			}
			compared := map[string]bool{}
			res, _, err := foldMat(p, tc.fn, tc.args, zeroSet, compared)
			comparedBy[tc.name] = compared
			pos := p.Pos(tc.fn.Pos())
			if err != nil {
				r.Unknown("matrix."+tc.name+label, pos, err.Error())
				continue
			}
			ok, got, want := tc.expect(res, tc.args)
			r.Cond(ok, "matrix."+tc.name+label, pos, "normal form "+got, "normal form "+got+" ; "+want)
		}

		return comparedBy
	}
	base := runAll(map[string]bool{}, "", nil)
	// case split: a routine that tests an input entry against zero (a fast path) is folded again with that entry
	// being zero; entries first tested inside such a branch are split in turn (bounded).
	for name := range base {
		type state struct{ zero map[string]bool }
		seen := map[string]bool{"": true}
		work := []state{}
		enqueue := func(zero map[string]bool, cmp map[string]bool) {
			for sname := range cmp {
				if zero[sname] {
					continue
				}
				nz := map[string]bool{sname: true}
				for k := range zero {
					nz[k] = true
				}
				var parts []string
				for k := range nz {
					parts = append(parts, k)
				}
				sort.Strings(parts)
				key := strings.Join(parts, ",")
				if !seen[key] {
					seen[key] = true
					work = append(work, state{nz})
				}
			}
		}
		enqueue(map[string]bool{}, base[name])
		for n := 0; len(work) > 0 && n < 64; n++ {
			st := work[0]
			work = work[1:]
			var parts []string
			for k := range st.zero {
				parts = append(parts, k+"=0")
			}
			sort.Strings(parts)
			res := runAll(st.zero, " ["+strings.Join(parts, ",")+"]", map[string]bool{name: true})
			enqueue(st.zero, res[name])
		}
	}
}

// ---------------------------------------------------------------- CSS

type emitted struct {
	name  string
	arity int
	pos   token.Pos
	lit   *ast.CompositeLit
	cases []string // case labels of the enclosing `switch name` clause
}

func c17CSS(c *core.Check, r *core.Rule) {
	p := c.Prog
	tf := p.Fn("css/validation", "transformFunction")
	gm := p.Fn("html/document", "getMatrix")
	if tf == nil || gm == nil {
		r.Anchor("css/validation.transformFunction / html/document.getMatrix")
		return
	}
	info := p.InfoOf(tf)
	sdim := p.Obj("css/properties", "SDimensions")
	var ems []emitted
	// walk with a stack to find enclosing clauses
	var stack []ast.Node
	ast.Inspect(p.Body(tf), func(n ast.Node) bool {
		if n == nil {
			stack = stack[:len(stack)-1]
			return true
		}
		stack = append(stack, n)
		cl, ok := n.(*ast.CompositeLit)
		if !ok {
			return true
		}
		if tv, ok := info.Types[cl]; !ok || !types.Identical(tv.Type, sdim.Type()) {
			return true
		}
		se := core.FieldExpr(cl, "String")
		de := core.FieldExpr(cl, "Dimensions")
		if se == nil || de == nil {
			return true // the zero value returned with an error
		}
		e := emitted{pos: cl.Pos(), lit: cl, arity: -1}
		if s, ok := core.StrConst(info, se); ok {
			e.name = s
		}
		if dl, ok := de.(*ast.CompositeLit); ok {
			e.arity = len(dl.Elts)
		}
		// enclosing conditions
		for i := len(stack) - 1; i >= 0; i-- {
			switch x := stack[i].(type) {
			case *ast.IfStmt:
				if e.name == "" {
					ast.Inspect(x.Cond, func(m ast.Node) bool {
						if be, ok := m.(*ast.BinaryExpr); ok && be.Op == token.EQL {
							if id, ok := be.X.(*ast.Ident); ok && id.Name == "name" {
								if s, ok := core.StrConst(info, be.Y); ok {
									e.name = s
								}
							}
						}
						return true
					})
				}
			case *ast.CaseClause:
				// which switch?
				if i > 1 {
					if sw, ok := stack[i-2].(*ast.SwitchStmt); ok && sw.Tag != nil {
						tag := types.ExprString(sw.Tag)
						if tag == "len(args)" && e.arity < 0 && len(x.List) == 1 {
							if v := core.ConstOf(info, x.List[0]); v != nil {
								n, _ := constant.Int64Val(v)
								e.arity = int(n)
							}
						}
						if tag == "name" {
							for _, l := range x.List {
								if s, ok := core.StrConst(info, l); ok {
									e.cases = append(e.cases, s)
								}
							}
						}
					}
				}
			}
		}
		ems = append(ems, e)
		return true
	})
	if len(ems) < 10 {
		r.Unknown("transformFunction emitted values", p.Pos(tf.Pos()), fmt.Sprintf("only %d SDimensions literals found", len(ems)))
		return
	}
	// consumer
	ginfo := p.InfoOf(gm)
	type cons struct {
		maxIdx int
		pos    token.Pos
		body   []ast.Stmt
	}
	consumer := map[string]*cons{}
	defPanics := false
	for _, sw := range core.Switches(p.Body(gm)) {
		if sw.Tag == nil || types.ExprString(sw.Tag) != "name" {
			continue
		}
		defPanics = sw.HasDef && core.BodyPanics(sw.Default)
		for i, cs := range sw.Cases {
			for _, l := range cs {
				s, ok := core.StrConst(ginfo, l)
				if !ok {
					continue
				}
				cn := &cons{maxIdx: -1, pos: l.Pos(), body: sw.Bodies[i]}
				for _, st := range sw.Bodies[i] {
					ast.Inspect(st, func(m ast.Node) bool {
						if ie, ok := m.(*ast.IndexExpr); ok {
							if id, ok := ie.X.(*ast.Ident); ok && id.Name == "args" {
								if v := core.ConstOf(ginfo, ie.Index); v != nil {
									n, _ := constant.Int64Val(v)
									if int(n) > cn.maxIdx {
										cn.maxIdx = int(n)
									}
								}
							}
						}
						return true
					})
				}
				consumer[s] = cn
			}
		}
	}
	if len(consumer) == 0 {
		r.Anchor("switch name in html/document.getMatrix")
		return
	}
	for _, e := range ems {
		key := fmt.Sprintf("transformFunction emits %q with %d dimensions", e.name, e.arity)
		if e.name == "" || e.arity < 0 {
			r.Unknown("transformFunction emitted literal", p.Pos(e.pos), "cannot determine the emitted name / number of dimensions")
			continue
		}
		cn := consumer[e.name]
		if cn == nil {
			msg := "getMatrix has no case for this name"
			if defPanics {
				msg += " and its default panics"
			}
			r.Fail(key, p.Pos(e.pos), msg)
			continue
		}
		r.Cond(cn.maxIdx < e.arity, key, p.Pos(e.pos), fmt.Sprintf("getMatrix reads args[0..%d]", cn.maxIdx), fmt.Sprintf("getMatrix reads args[%d] but only %d dimensions are emitted: index out of range while drawing", cn.maxIdx, e.arity))
	}
	// single-axis forms
	mentions := func(e ast.Expr, names ...string) bool {
		found := false
		ast.Inspect(e, func(m ast.Node) bool {
			if id, ok := m.(*ast.Ident); ok {
				for _, n := range names {
					if id.Name == n {
						found = true
					}
				}
			}
			return true
		})
		return found
	}
	axis := map[string]int{"skewx": 0, "skewy": 1, "translatex": 0, "translatey": 1, "scalex": 0, "scaley": 1}
	seenAxis := map[string]bool{}
	for _, e := range ems {
		for _, cs := range e.cases {
			ax, ok := axis[cs]
			if !ok {
				continue
			}
			de, _ := core.FieldExpr(e.lit, "Dimensions").(*ast.CompositeLit)
			if de == nil || len(de.Elts) != 2 {
				r.Fail("single-axis form "+cs, p.Pos(e.pos), "does not emit two dimensions")
				continue
			}
			seenAxis[cs] = true
			arg := []string{"angle", "length", "number"}
			okAxis := mentions(de.Elts[ax], arg...) && !mentions(de.Elts[1-ax], arg...)
			r.Cond(okAxis, "single-axis form "+cs+" puts its argument at index "+fmt.Sprint(ax), p.Pos(e.pos), types.ExprString(de), "emits "+types.ExprString(de)+": the argument is on the wrong axis")
			// the neutral element of the other axis: 1 for scale, zero otherwise
			other := de.Elts[1-ax]
			if strings.HasPrefix(cs, "scale") {
				v := (constant.Value)(nil)
				if call, ok := other.(*ast.CallExpr); ok && len(call.Args) == 1 {
					v = core.ConstOf(info, call.Args[0])
				}
				r.Cond(v != nil && constant.Compare(constant.ToFloat(v), token.EQL, constant.MakeFloat64(1)), cs+" keeps the other axis at 1", p.Pos(e.pos), types.ExprString(other), "other axis is "+types.ExprString(other))
			} else {
				r.Cond(strings.HasSuffix(types.ExprString(other), "ZeroPixels"), cs+" keeps the other axis at 0", p.Pos(e.pos), types.ExprString(other), "other axis is "+types.ExprString(other))
			}
		}
	}
	for cs := range axis {
		if !seenAxis[cs] {
			r.Fail("single-axis form "+cs, p.Pos(tf.Pos()), "no case emits this form")
		}
	}
	// argument order in getMatrix: the i-th argument of the constructor call mentions args[i]
	for name, cn := range consumer {
		for _, st := range cn.body {
			ast.Inspect(st, func(m ast.Node) bool {
				call, ok := m.(*ast.CallExpr)
				if !ok {
					return true
				}
				sel, ok := call.Fun.(*ast.SelectorExpr)
				if !ok {
					return true
				}
				switch sel.Sel.Name {
				case "Scale", "Rotate", "Translate", "Skew", "New":
				default:
					return true
				}
				okOrder := true
				for i, a := range call.Args {
					idx := -1
					ast.Inspect(a, func(k ast.Node) bool {
						if ie, ok := k.(*ast.IndexExpr); ok {
							if id, ok := ie.X.(*ast.Ident); ok && id.Name == "args" {
								if v := core.ConstOf(ginfo, ie.Index); v != nil {
									n, _ := constant.Int64Val(v)
									idx = int(n)
								}
							}
						}
						if id, ok := k.(*ast.Ident); ok {
							// local copies: sx, sy := toF(args[0]), toF(args[1]) — resolved below
							if obj := ginfo.Uses[id]; obj != nil {
								if ix, ok := localArgIndex(ginfo, cn.body, obj); ok {
									idx = ix
								}
							}
						}
						return true
					})
					if idx != i {
						okOrder = false
					}
				}
				wantFn := map[string]string{"scale": "Scale", "rotate": "Rotate", "translate": "Translate", "skew": "Skew", "matrix": "New"}[name]
				r.Cond(okOrder && sel.Sel.Name == wantFn, fmt.Sprintf("getMatrix case %q calls %s with args in order", name, wantFn), p.Pos(call.Pos()), types.ExprString(call), "calls "+types.ExprString(call))
				return false
			})
		}
	}
	// composition and origin conjugation on SSA
	rmb := p.Method("matrix", "Transform", "RightMultBy")
	lmb := p.Method("matrix", "Transform", "LeftMultBy")
	newFn := p.Fn("matrix", "New")
	trFn := p.Method("matrix", "Transform", "Translate")
	var newCall, trCall, rmbCall *ssa.Call
	nLeft := 0
	core.Instrs(gm, func(in ssa.Instruction) {
		call, ok := in.(*ssa.Call)
		if !ok {
			return
		}
		switch call.Common().StaticCallee() {
		case rmb:
			rmbCall = call
		case lmb:
			nLeft++
		case newFn:
			if k, ok := core.ConstInt(call.Call.Args[0]); ok && k == 1 && newCall == nil {
				newCall = call
			} else if f, ok := call.Call.Args[0].(*ssa.Const); ok && f.Value != nil && constant.Compare(constant.ToFloat(f.Value), token.EQL, constant.MakeFloat64(1)) && newCall == nil {
				newCall = call
			}
		case trFn:
			// the final translate is the one whose arguments are negations
			if u, ok := call.Call.Args[1].(*ssa.UnOp); ok && u.Op == token.SUB {
				trCall = call
			}
		}
	})
	pos := p.Pos(gm.Pos())
	r.Cond(rmbCall != nil && nLeft == 0, "getMatrix composes with RightMultBy", pos, "matrix.RightMultBy(rightMat) and no LeftMultBy", "the list is not composed by right multiplication (a list must compose left to right)")
	if rmbCall != nil {
		inLoop := false
		for _, s := range rmbCall.Block().Succs {
			_ = s
		}
		// the call sits in a loop body: its block reaches itself
		inLoop = core.Reaches(rmbCall, func(i ssa.Instruction) bool { return i == ssa.Instruction(rmbCall) })
		r.Cond(inLoop, "RightMultBy is applied once per list item", p.Pos(rmbCall.Pos()), "call is inside the loop over the transform list", "call is outside the loop")
	}
	if newCall == nil || trCall == nil {
		r.Fail("transform-origin conjugation", pos, "initial matrix mt.New(1,0,0,1,originX,originY) or final Translate(-originX,-originY) not found")
	} else {
		isConstF := func(v ssa.Value, f float64) bool {
			k, ok := v.(*ssa.Const)
			return ok && k.Value != nil && constant.Compare(constant.ToFloat(k.Value), token.EQL, constant.MakeFloat64(f))
		}
		a := newCall.Call.Args
		okInit := isConstF(a[0], 1) && isConstF(a[1], 0) && isConstF(a[2], 0) && isConstF(a[3], 1)
		negOf := func(v ssa.Value, of ssa.Value) bool {
			u, ok := v.(*ssa.UnOp)
			return ok && u.Op == token.SUB && u.X == of
		}
		okFinal := negOf(trCall.Call.Args[1], a[4]) && negOf(trCall.Call.Args[2], a[5])
		after, _ := core.MustPassThrough(gm, func(i ssa.Instruction) bool { return i == ssa.Instruction(rmbCall) }, func(i ssa.Instruction) bool { return false })
		_ = after
		// the final translate is after the loop: it cannot reach the RightMultBy call
		notInLoop := !core.Reaches(trCall, func(i ssa.Instruction) bool { return i == ssa.Instruction(rmbCall) })
		r.Cond(okInit, "matrix starts as the translation by the transform origin", p.Pos(newCall.Pos()), "mt.New(1,0,0,1,originX,originY)", "initial matrix is not the translation by the origin")
		// the origin is the border-box corner plus the transform-origin resolved against the border box
		fromCall := func(v ssa.Value, name string) bool {
			found := false
			var walk func(v ssa.Value, d int)
			walk = func(v ssa.Value, d int) {
				if d > 6 || found {
					return
				}
				switch x := v.(type) {
				case *ssa.Call:
					if callsNamed(x, name) {
						found = true
						return
					}
					for _, a := range x.Call.Args {
						walk(a, d+1)
					}
					if x.Call.IsInvoke() {
						walk(x.Call.Value, d+1)
					}
				case *ssa.MakeInterface:
					walk(x.X, d+1)
				case *ssa.BinOp:
					walk(x.X, d+1)
					walk(x.Y, d+1)
				case *ssa.Convert:
					walk(x.X, d+1)
				case *ssa.ChangeType:
					walk(x.X, d+1)
				case *ssa.Extract:
					walk(x.Tuple, d+1)
				}
			}
			walk(v, 0)
			return found
		}
		r.Cond(fromCall(a[4], "BorderBoxX") && fromCall(a[4], "BorderWidth") && fromCall(a[5], "BorderBoxY") && fromCall(a[5], "BorderHeight"), "transform origin is measured from the border box", p.Pos(newCall.Pos()),
			"originX = BorderBoxX() + origin resolved against BorderWidth(); originY likewise with BorderBoxY()/BorderHeight()", "the origin is not the border-box corner plus the transform-origin resolved against the border box (CSS Transforms: the reference box is the border box)")
		r.Cond(okFinal && notInLoop, "matrix ends with the translation by the negated origin", p.Pos(trCall.Pos()), "Translate(-originX,-originY) after the loop", "final Translate does not negate the same origin values after the loop")
	}
}

// localArgIndex resolves a local variable defined as ... args[k] ... in a tuple assignment.
func localArgIndex(info *types.Info, body []ast.Stmt, obj types.Object) (int, bool) {
	res, found := -1, false
	for _, st := range body {
		as, ok := st.(*ast.AssignStmt)
		if !ok || as.Tok != token.DEFINE || len(as.Lhs) != len(as.Rhs) {
			continue
		}
		for i, l := range as.Lhs {
			id, ok := l.(*ast.Ident)
			if !ok || info.Defs[id] != obj {
				continue
			}
			ast.Inspect(as.Rhs[i], func(k ast.Node) bool {
				if ie, ok := k.(*ast.IndexExpr); ok {
					if x, ok := ie.X.(*ast.Ident); ok && x.Name == "args" {
						if v := core.ConstOf(info, ie.Index); v != nil {
							n, _ := constant.Int64Val(v)
							res, found = int(n), true
						}
					}
				}
				return true
			})
		}
	}
	return res, found
}

// ---------------------------------------------------------------- SVG

func c17SVG(c *core.Check, r *core.Rule) {
	p := c.Prog
	pt := p.Fn("svg", "parseTransform")
	at := p.Method("svg", "transform", "applyTo")
	if pt == nil || at == nil {
		r.Anchor("svg.parseTransform / svg.transform.applyTo")
		return
	}
	info := p.InfoOf(pt)
	// arity table: for each case label, the set of L == n tests in its clause that assign tr.kind
	want := map[string][]int64{"rotate": {1, 3}, "translate": {1, 2}, "skewx": {1}, "skewy": {1}, "scale": {1, 2}, "matrix": {6}}
	got := map[string][]int64{}
	for _, sw := range core.Switches(p.Body(pt)) {
		if sw.Tag == nil {
			continue
		}
		if _, isStr := info.Types[sw.Tag].Type.Underlying().(*types.Basic); !isStr {
			continue
		}
		for i, cs := range sw.Cases {
			for _, l := range cs {
				s, ok := core.StrConst(info, l)
				if !ok {
					continue
				}
				var ar []int64
				for _, st := range sw.Bodies[i] {
					ast.Inspect(st, func(m ast.Node) bool {
						ifs, ok := m.(*ast.IfStmt)
						if !ok {
							return true
						}
						if be, ok := ifs.Cond.(*ast.BinaryExpr); ok && be.Op == token.EQL {
							if v := core.ConstOf(info, be.Y); v != nil && types.ExprString(be.X) == "L" {
								// the branch must set tr.kind
								sets := false
								ast.Inspect(ifs.Body, func(k ast.Node) bool {
									if as, ok := k.(*ast.AssignStmt); ok {
										for _, lh := range as.Lhs {
											if types.ExprString(lh) == "tr.kind" {
												sets = true
											}
										}
									}
									return true
								})
								if sets {
									n, _ := constant.Int64Val(v)
									ar = append(ar, n)
								}
							}
						}
						return true
					})
				}
				sort.Slice(ar, func(a, b int) bool { return ar[a] < ar[b] })
				got[s] = ar
			}
		}
	}
	for name, w := range want {
		g := got[name]
		r.Cond(fmt.Sprint(g) == fmt.Sprint(w), "parseTransform arities of "+name, p.Pos(pt.Pos()), fmt.Sprint(g), fmt.Sprintf("accepts %v arguments, SVG 1.1 §7.6 allows %v", g, w))
	}
	// applyTo folded per kind
	kinds := p.ConstsOfType("svg", "transformKind")
	kindVal := map[string]int64{}
	for v, k := range kinds {
		kindVal[k.Name()] = v
	}
	resolve := p.Method("svg", "Value", "Resolve")
	trT := at.Params[0].Type()
	M := symMat("T")
	deg := func(f *core.Folder, name string) (core.Poly, bool) { // argument of a trig symbol
		a, ok := f.FuncArgs[name]
		return a, ok
	}
	_ = deg
	type kc struct {
		kind string
		want func(arg func(string) core.Poly) mat6
	}
	tanS := func(a core.Poly) core.Poly { return core.SymP("tan(" + a.String() + ")") }
	cosS := func(a core.Poly) core.Poly { return core.SymP("cos(" + a.String() + ")") }
	sinS := func(a core.Poly) core.Poly { return core.SymP("sin(" + a.String() + ")") }
	a := func(i int) core.Poly { return core.SymP(fmt.Sprintf("a%d", i)) }
	R := core.PolyR
	rot := func(th core.Poly) mat6 {
		return mat6{R(cosS(th)), R(sinS(th)), R(sinS(th).Neg()), R(cosS(th)), zero(), zero()}
	}
	tr := func(x, y core.Poly) mat6 { return mat6{one(), zero(), zero(), one(), R(x), R(y)} }
	for _, kcase := range []string{"rotate", "rotateWithOrigin", "translate", "skew", "scale", "customMatrix"} {
		kv, ok := kindVal[kcase]
		if !ok {
			r.Anchor("svg transform kind " + kcase)
			continue
		}
		f := &core.Folder{MaxDepth: 5}
		var d2r *big.Rat
		f.Call = func(_ *core.Folder, call *ssa.Call, args []core.AV) (core.AV, bool) {
			if call.Common().StaticCallee() == resolve {
				// args[0] is the Value {V, U}: V is a symbol a<i>
				if ag, ok := args[0].(core.Agg); ok && len(ag.E) >= 1 {
					if pv, ok := ag.E[0].(core.Poly); ok {
						return pv, true
					}
				}
			}
			return nil, false
		}
		// tr = {kind, args[6]{V:a_i, U:0}}
		valT := p.Obj("svg", "Value").Type()
		argsAgg := core.Agg{}
		for i := 0; i < 6; i++ {
			argsAgg.E = append(argsAgg.E, core.StructAV(valT, map[string]core.AV{"V": a(i)}))
		}
		trv := core.StructAV(trT, map[string]core.AV{"kind": core.Num(kv), "args": argsAgg})
		mptr := core.Ptr{C: &core.Cell{V: M.av()}}
		_, err := f.Fold(at, []core.AV{trv, mptr, core.SymP("fs"), core.SymP("diag")})
		key := "transform.applyTo kind=" + kcase
		if err != nil {
			r.Unknown(key, p.Pos(at.Pos()), err.Error())
			continue
		}
		gotM, ok := matOf(core.Deref(mptr))
		if !ok {
			r.Unknown(key, p.Pos(at.Pos()), "matrix is not polynomial after the call: "+core.AVString(core.Deref(mptr)))
			continue
		}
		// degrees to radians: the coefficient used by the code, read from the trig arguments
		for name, argp := range f.FuncArgs {
			_ = name
			for _, coef := range argp.T {
				d2r = coef
			}
		}
		th := func(i int) core.Poly {
			if d2r == nil {
				return a(i)
			}
			return a(i).Mul(core.PolyConst(d2r))
		}
		var want mat6
		needsAngle := false
		switch kcase {
		case "rotate":
			want, needsAngle = specMul(M, rot(th(0))), true
		case "rotateWithOrigin":
			want, needsAngle = specMul(specMul(specMul(M, tr(a(1), a(2))), rot(th(0))), tr(a(1).Neg(), a(2).Neg())), true
		case "translate":
			want = specMul(M, tr(a(0), a(1)))
		case "skew":
			want, needsAngle = specMul(M, mat6{one(), R(tanS(th(1))), R(tanS(th(0))), one(), zero(), zero()}), true
		case "scale":
			want = specMul(M, mat6{R(a(0)), zero(), zero(), R(a(1)), zero(), zero()})
		case "customMatrix":
			want = specMul(M, mat6{R(a(0)), R(a(1)), R(a(2)), R(a(3)), R(a(4)), R(a(5))})
		}
		okM := gotM.equal(want)
		if needsAngle {
			okDeg := false
			if d2r != nil {
				fv, _ := d2r.Float64()
				okDeg = math.Abs(fv-math.Pi/180) < 1e-8
			}
			r.Cond(okDeg, key+" converts degrees to radians", p.Pos(at.Pos()), "angle factor = π/180", "the angle reaching sin/cos/tan is not the attribute value × π/180")
		}
		r.Cond(okM, key, p.Pos(at.Pos()), "T·"+kcase+" = "+gotM.String(), "normal form "+gotM.String()+" ; specification "+want.String())
	}
}

func c17Angles(c *core.Check, r *core.Rule) {
	p := c.Prog
	tab, err := p.Table("css/validation", "ANGLETORADIANS")
	tab2, err2 := p.Table("css/validation", "AngleUnits")
	if err != nil || err2 != nil {
		r.Anchor("css/validation.ANGLETORADIANS / AngleUnits")
		return
	}
	unitName := map[int64]string{}
	for v, k := range p.ConstsOfType("css/properties", "Unit") {
		unitName[v] = k.Name()
	}
	info := p.Info("css/validation")
	want := map[string]float64{"Rad": 1, "Turn": 2 * math.Pi, "Deg": math.Pi / 180, "Grad": math.Pi / 200}
	seen := map[string]bool{}
	for _, e := range tab {
		n, _ := constant.Int64Val(e.Key)
		un := unitName[n]
		v := core.ConstOf(info, e.Val)
		if v == nil {
			r.Fail("ANGLETORADIANS["+un+"]", p.Pos(e.Val.Pos()), "non-constant ratio")
			continue
		}
		f, _ := constant.Float64Val(constant.ToFloat(v))
		w, ok := want[un]
		seen[un] = true
		r.Cond(ok && float32(f) == float32(w), "ANGLETORADIANS["+un+"]", p.Pos(e.Val.Pos()), fmt.Sprintf("%v rad", f), fmt.Sprintf("%v rad, CSS Values fixes %v", f, w))
	}
	for un := range want {
		r.Cond(seen[un], "ANGLETORADIANS has "+un, p.Pos(p.VarInit("css/validation", "ANGLETORADIANS").Pos()), "present", "missing angle unit")
	}
	for _, e := range tab2 {
		v := core.ConstOf(info, e.Val)
		if v == nil || e.Key == nil {
			continue
		}
		n, _ := constant.Int64Val(v)
		r.Cond(strings.ToLower(unitName[n]) == constant.StringVal(e.Key), "AngleUnits["+constant.StringVal(e.Key)+"]", p.Pos(e.Val.Pos()), unitName[n], "maps to "+unitName[n])
	}
}

// c17Determinant: invertibility is `determinant != 0`; a reflection has a negative determinant and is invertible.
func c17Determinant(c *core.Check) {
	p := c.Prog
	r := c.Rule("R5", "every test of a matrix determinant in the module compares it with 0 by == or != (a transform with a negative determinant, a reflection, is invertible and must be applied)", 1)
	n := 0
	for _, fn := range p.ModFuncs {
		core.Instrs(fn, func(in ssa.Instruction) {
			bo, ok := in.(*ssa.BinOp)
			if !ok {
				return
			}
			isDet := func(v ssa.Value) bool {
				call, ok := v.(*ssa.Call)
				return ok && call.Call.StaticCallee() != nil && call.Call.StaticCallee().Name() == "Determinant"
			}
			var other ssa.Value
			switch {
			case isDet(bo.X):
				other = bo.Y
			case isDet(bo.Y):
				other = bo.X
			default:
				return
			}
			switch bo.Op {
			case token.EQL, token.NEQ, token.LSS, token.LEQ, token.GTR, token.GEQ:
			default:
				return
			}
			n++
			z, isZ := core.ConstFloat(other)
			okCmp := (bo.Op == token.EQL || bo.Op == token.NEQ) && isZ && z == 0
			r.Cond(okCmp, core.FuncName(fn)+" | "+p.StmtTextAt(fn, bo.Pos())+" | determinant test", p.Pos(bo.Pos()), "compared with 0 by "+bo.Op.String(), "the determinant is compared by "+bo.Op.String()+": matrices with a negative determinant (reflections) are treated as singular")
		})
	}
	if n < 2 {
		r.Unknown("determinant tests", "-", fmt.Sprintf("%d comparisons of a determinant found, 2 expected", n))
	}
}

// c17Computed: the computed value of `transform` is per element.
func c17Computed(c *core.Check) {
	p := c.Prog
	r := c.Rule("R6", "the computed value of transform is per element: the computer function `transforms` resolves the lengths of translate() into a fresh list and never writes through the declared value (shared by every element the rule matches): otherwise translate(2em) is converted with the font size of the first element computed, for all of them", 1)
	fn := p.Fn("html/tree", "transforms")
	if fn == nil || len(fn.Params) != 3 {
		r.Anchor("html/tree.transforms")
		return
	}
	eng := core.NewEffectsEngine(p, func(fn *ssa.Function, in ssa.Instruction) bool {
		_, ok := c15WriteExempt[core.FuncName(fn)+" | "+p.StmtTextAt(fn, in.Pos())]
		return ok
	})
	ws := eng.WritesFrom(fn, func(v ssa.Value) bool { return v == ssa.Value(fn.Params[2]) })
	if len(ws) == 0 {
		r.OK("html/tree.transforms | declared value not written", p.Pos(fn.Pos()), "no store, copy or in-place append reaches memory derived from the declared value")
	}
	for _, w := range ws {
		r.Fail("html/tree.transforms | "+p.StmtTextAt(fn, w.Instr.Pos()), p.Pos(w.Instr.Pos()), fmt.Sprintf("%s %s: the matrix of every other element matched by the same rule is built from this element's pixel values", w.What, w.Via))
	}
}

// c17ZeroAngles: an angle of zero is an angle.  The validator of transform functions accepts a rotate()/skew()
// argument whenever getAngle recognised an angle; it never compares the angle's value with a constant (a test
// `angle != 0`, the Python truthiness of the original, rejects rotate(0deg) and with it the whole declaration).
func c17ZeroAngles(c *core.Check) {
	p := c.Prog
	r := c.Rule("R7", "every angle is accepted: in the validator of transform functions no condition compares the value returned by getAngle with a constant — acceptance depends only on whether the argument is an angle (rotate(0deg), skewX(0deg) are valid; refusing them drops the whole transform declaration)", 1)
	ga := p.Fn("css/validation", "getAngle")
	if ga == nil {
		r.Anchor("css/validation.getAngle")
		return
	}
	n := 0
	for _, fn := range p.FuncsOfPkg("css/validation") {
		if fn.Blocks == nil {
			continue
		}
		fn := fn
		var values []ssa.Value
		core.Instrs(fn, func(in ssa.Instruction) {
			if ex, ok := in.(*ssa.Extract); ok && ex.Index == 0 {
				if call, ok := ex.Tuple.(*ssa.Call); ok && call.Call.StaticCallee() == ga {
					values = append(values, ex)
				}
			}
		})
		if len(values) == 0 {
			continue
		}
		n++
		tested := false
		bad := ""
		for _, a := range core.CondAtoms(fn) {
			bo, ok := a.(*ssa.BinOp)
			if !ok {
				continue
			}
			for _, v := range values {
				if bo.X == v || bo.Y == v {
					_, kx := bo.X.(*ssa.Const)
					_, ky := bo.Y.(*ssa.Const)
					if kx || ky {
						tested = true
						bad = bo.String()
					}
				}
			}
		}
		r.Cond(!tested, core.FuncName(fn)+" | the angle's value is not tested", p.Pos(fn.Pos()), "accepted whenever getAngle says it is an angle", "the value of the angle is compared with a constant ("+bad+"): `transform: translate(10px, 5px) rotate(0deg)` is ignored as a whole")
	}
	if n == 0 {
		r.Anchor("callers of getAngle in css/validation")
	}
}

// c17GradientBox: a gradient in objectBoundingBox units is scaled to the aspect of the box and then moved to the
// box: the matrix starts as the translation to (x, y) and the scaling is composed on the right (T·S applies S first).
// Composed on the left the translation itself is scaled and the gradient is shifted (x offset doubled for a box
// twice as wide as high).  The linear and radial branches must agree.
func c17GradientBox(c *core.Check) {
	p := c.Prog
	r := c.Rule("R8", "gradients in bounding-box units are scaled before they are moved to the box: in the paint method of SVG gradients every composition of the matrix with matrix.Scaling(…) is a RightMultBy (the matrix is the translation to the box: T·S scales first), in the linear and in the radial branch alike", 2)
	var fn *ssa.Function
	for _, f := range p.FuncsOfPkg("svg") {
		if f.Name() == "paint" && f.Signature.Recv() != nil && strings.HasSuffix(f.Signature.Recv().Type().String(), "gradient") {
			fn = f
		}
	}
	if fn == nil {
		r.Anchor("svg.gradient.paint")
		return
	}
	n := 0
	core.Instrs(fn, func(in ssa.Instruction) {
		call, ok := in.(*ssa.Call)
		if !ok || call.Call.StaticCallee() == nil || len(call.Call.Args) != 2 {
			return
		}
		name := call.Call.StaticCallee().Name()
		if name != "LeftMultBy" && name != "RightMultBy" {
			return
		}
		arg, ok := call.Call.Args[1].(*ssa.Call)
		if !ok || arg.Call.StaticCallee() == nil || arg.Call.StaticCallee().Name() != "Scaling" {
			return
		}
		n++
		r.Cond(name == "RightMultBy", fmt.Sprintf("svg.gradient.paint | bounding-box scaling #%d", n), p.Pos(call.Pos()), "composed on the right of the translation", "composed on the left: the translation to the box is scaled too, the gradient of `<rect x=10 y=20 width=100 height=50 fill=url(#linear)>` is handed to the backend with the matrix (2 0 0 1 20 20) instead of (2 0 0 1 10 20)")
	})
	if n < 2 {
		r.Anchor(fmt.Sprintf("svg.gradient.paint: compositions with matrix.Scaling (%d found, 2 confirmed by reading)", n))
	}
}

// c17ClipRestore: after drawing a clip path, applyClipPath puts the transformation matrix back.  The backend's
// Transform(m) applies m before the current matrix (CTM ← CTM·m), so the matrix that restores the old one is
// CTM⁻¹·old: matrix.Mul(inverse of the current matrix, old matrix) — in that order.
func c17ClipRestore(c *core.Check) {
	p := c.Prog
	r := c.Rule("R9", "the matrix is restored after a clip path: in applyClipPath the argument of the final Transform is matrix.Mul(current⁻¹, old) — first argument the matrix on which Invert was called, second the matrix read with GetTransform before the clip path was drawn (Transform composes on the right: CTM·(CTM⁻¹·old) = old; the other order is right only when the two commute)", 1)
	fn := p.Lookup("svg.(*SVGImage).applyClipPath")
	if fn == nil {
		r.Anchor("svg.(*SVGImage).applyClipPath")
		return
	}
	var inverted ssa.Value // the address Invert is called on
	var first *ssa.Call    // the first GetTransform
	core.Instrs(fn, func(in ssa.Instruction) {
		call, ok := in.(*ssa.Call)
		if !ok {
			return
		}
		if cal := call.Call.StaticCallee(); cal != nil && cal.Name() == "Invert" && len(call.Call.Args) == 1 {
			inverted = call.Call.Args[0]
		}
		if call.Call.IsInvoke() && call.Call.Method.Name() == "GetTransform" && first == nil {
			first = call
		}
	})
	n := 0
	core.Instrs(fn, func(in ssa.Instruction) {
		call, ok := in.(*ssa.Call)
		if !ok || call.Call.StaticCallee() == nil || call.Call.StaticCallee().String() != "github.com/benoitkugler/webrender/matrix.Mul" || len(call.Call.Args) != 2 {
			return
		}
		n++
		fromInverted := func(v ssa.Value) bool {
			ld, ok := v.(*ssa.UnOp)
			return ok && inverted != nil && ld.X == inverted
		}
		isOld := func(v ssa.Value) bool {
			if first == nil {
				return false
			}
			if v == ssa.Value(first) {
				return true
			}
			// spilled to a local and loaded back
			if ld, ok := v.(*ssa.UnOp); ok {
				for _, st := range core.StoresTo(ld.X) {
					if st == ssa.Value(first) {
						return true
					}
				}
			}
			return false
		}
		r.Cond(fromInverted(call.Call.Args[0]) && isOld(call.Call.Args[1]), "svg.applyClipPath | Transform(Mul(current⁻¹, old))", p.Pos(call.Pos()), "inverse of the current matrix first, old matrix second", "the restoring matrix is composed in the other order (old·current⁻¹): under a backend transform of (2 0 0 2 100 50) and a clip path whose rect is translated by 5, the matrix ends at (2 0 0 2 90 50) and the clipped shape is drawn 10 device units to the left")
	})
	if n == 0 {
		r.Anchor("applyClipPath: matrix.Mul(…)")
	}
}

// c17TransformSeparators: the transforms of an SVG `transform` attribute are separated by white space and/or a comma.
func c17TransformSeparators(c *core.Check) {
	p := c.Prog
	r := c.Rule("R10", "a comma may separate the transforms of an SVG transform attribute: in parseTransform each item is stripped of leading separators with a constant set that contains the comma before its name is read (`translate(10,20), scale(2)` made svg.Parse fail for the whole image)", 1)
	fn := p.Fn("svg", "parseTransform")
	if fn == nil {
		r.Anchor("svg.parseTransform")
		return
	}
	found := false
	var at token.Pos
	core.Instrs(fn, func(in ssa.Instruction) {
		call, ok := in.(*ssa.Call)
		if !ok || call.Call.StaticCallee() == nil || len(call.Call.Args) != 2 {
			return
		}
		switch call.Call.StaticCallee().String() {
		case "strings.TrimLeft", "strings.Trim", "strings.TrimPrefix":
			if set, isK := core.ConstStr(call.Call.Args[1]); isK && strings.Contains(set, ",") {
				found = true
				at = call.Pos()
			}
		}
	})
	pos := p.Pos(fn.Pos())
	if found {
		pos = p.Pos(at)
	}
	r.Cond(found, "svg.parseTransform | leading comma stripped from each item", pos, "strings.TrimLeft/Trim with a set containing the comma", "no item is stripped of a leading comma: the name of the second transform of `translate(10,20), scale(2)` is read as \", scale\" and the whole attribute — and image — is rejected")
}

// c17DeadArithmetic (R11): in the packages that build transforms (svg, matrix, html/document) no arithmetic result is
// dropped: the rotation angle of an SVG marker used to be computed and never given to the transform.
func c17DeadArithmetic(c *core.Check) {
	r := c.Rule("R11", "no arithmetic result of svg, matrix and html/document is unused (go/ssa keeps dead values: a sum, difference, product or quotient without referrer is spelled in the source and dropped) — the angle of a marker must reach its transform", 125)
	deadArithmeticRule(c, r, nil, "svg", "matrix", "html/document")
}
