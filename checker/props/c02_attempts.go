package props

import (
	"fmt"
	"go/token"
	"go/types"

	"golang.org/x/tools/go/ssa"

	"wrverif/core"
)

// c02RetryReset (R8): a line is laid out again when floats change its position; every attempt starts with no
// waiting float.  In the loop of getNextLinebox the list whose address is handed to the line layout (which appends
// the floats that do not fit) is emptied inside the loop before that call; otherwise a float kept from the abandoned
// attempt is laid out and drawn twice.
func c02RetryReset(c *core.Check) {
	p := c.Prog
	r := c.Rule("R8", "every attempt of getNextLinebox starts with no waiting float: the local list whose address is passed, inside the retry loop, to a callee that appends through it is assigned a zero-length value in the loop before that call", 1)
	fn := p.Fn("html/layout", "getNextLinebox")
	if fn == nil {
		r.Anchor("html/layout.getNextLinebox")
		return
	}
	loops := core.Loops(fn)
	n := 0
	core.Instrs(fn, func(in ssa.Instruction) {
		al, ok := in.(*ssa.Alloc)
		if !ok {
			return
		}
		sl, ok := al.Type().(*types.Pointer).Elem().Underlying().(*types.Slice)
		if !ok {
			return
		}
		// the waiting floats are boxes; the three lists of placeholders handed to the same call are not reset by the
		// port either (upstream resets them too): no input was found for which that shows, so they are not judged
		if nm, ok := types.Unalias(sl.Elem()).(*types.Named); !ok || nm.Obj().Name() != "Box" {
			return
		}
		for _, ref := range *al.Referrers() {
			call, ok := ref.(*ssa.Call)
			if !ok {
				continue
			}
			callee := call.Call.StaticCallee()
			if callee == nil || callee.Blocks == nil {
				continue
			}
			appends := false
			for i, a := range call.Call.Args {
				if a == ssa.Value(al) && i < len(callee.Params) && appendsThrough(callee, callee.Params[i], 0, map[*ssa.Function]bool{}) {
					appends = true
				}
			}
			if !appends {
				continue
			}
			var l *core.Loop
			for _, lp := range loops {
				if lp.Blocks[call.Block()] && (l == nil || len(lp.Blocks) < len(l.Blocks)) {
					l = lp
				}
			}
			if l == nil {
				continue
			}
			n++
			key := fmt.Sprintf("html/layout.getNextLinebox | %s handed to %s", al.Comment, callee.Name())
			reset := false
			for _, r2 := range *al.Referrers() {
				st, ok := r2.(*ssa.Store)
				if !ok || st.Addr != ssa.Value(al) || !l.Blocks[st.Block()] {
					continue
				}
				zero := false
				switch v := st.Val.(type) {
				case *ssa.Const:
					zero = v.IsNil()
				case *ssa.Slice:
					if v.High != nil {
						if k, ok := core.ConstInt(v.High); ok && k == 0 {
							zero = true
						}
					}
				}
				if zero && (st.Block() == call.Block() && st.Pos() < call.Pos() || st.Block() != call.Block() && st.Block().Dominates(call.Block())) {
					reset = true
				}
			}
			r.Cond(reset, key, p.Pos(call.Pos()), "emptied in the loop before the call", "the list is not emptied at the start of an attempt: a float that did not fit in an abandoned attempt stays in it, is collected again by the next attempt and is laid out and drawn twice")
		}
	})
	if n == 0 {
		r.Unknown("html/layout.getNextLinebox | waiting floats", p.Pos(fn.Pos()), "no local list handed to an appending callee inside a loop")
	}
}

// c02CancelledPublishesNothing (R9): a block whose layout is cancelled (it returns no box so that the caller breaks
// before it) must not have registered its broken floats in the page context: the caller lays the block out again on
// the next page, and the registered tail would be drawn there a second time.  In blockContainerLayout no return of a
// nil box is reachable from a write to context.brokenOutOfFlow.
func c02CancelledPublishesNothing(c *core.Check) {
	p := c.Prog
	r := c.Rule("R9", "a cancelled layout publishes nothing: in blockContainerLayout, no return whose box result is nil is reachable from a write into context.brokenOutOfFlow", 1)
	fn := p.Fn("html/layout", "blockContainerLayout")
	if fn == nil {
		r.Anchor("html/layout.blockContainerLayout")
		return
	}
	n := 0
	core.Instrs(fn, func(in ssa.Instruction) {
		mu, ok := in.(*ssa.MapUpdate)
		if !ok {
			return
		}
		ld, ok := mu.Map.(*ssa.UnOp)
		if !ok || ld.Op != token.MUL {
			return
		}
		fa, ok := ld.X.(*ssa.FieldAddr)
		if !ok || core.FieldName(fa) != "brokenOutOfFlow" {
			return
		}
		n++
		key := fmt.Sprintf("html/layout.blockContainerLayout | write to context.brokenOutOfFlow #%d", n)
		// forward reachability over all edges (the write is in a loop)
		seen := map[*ssa.BasicBlock]bool{}
		work := []*ssa.BasicBlock{in.Block()}
		for len(work) > 0 {
			b := work[len(work)-1]
			work = work[:len(work)-1]
			for _, s := range b.Succs {
				if !seen[s] {
					seen[s] = true
					work = append(work, s)
				}
			}
		}
		bad := ""
		core.Instrs(fn, func(in2 ssa.Instruction) {
			ret, ok := in2.(*ssa.Return)
			if !ok || !seen[in2.Block()] || len(ret.Results) == 0 {
				return
			}
			if k, ok := ret.Results[0].(*ssa.Const); ok && k.IsNil() {
				bad = p.Pos(ret.Pos())
			}
		})
		r.Cond(bad == "", key, p.Pos(in.Pos()), "only returns with a box follow", "the return without a box at "+bad+" can follow this write: the floats of a block that is laid out again on the next page are registered twice and their tail is drawn out of order")
	})
	if n == 0 {
		r.Unknown("html/layout.blockContainerLayout | context.brokenOutOfFlow", p.Pos(fn.Pos()), "no write into context.brokenOutOfFlow")
	}
}

// c02SpanningResume (R10): a resume stack is keyed by the children of the box whose layout returned it.  In
// columnsLayout the stack returned by the layout of a `column-span: all` block describes a position *inside that
// block*: it may be stored under the block's index, but never unpacked and added to an index of the multi-column
// box itself, which resumes the next page at an unrelated child.
func c02SpanningResume(c *core.Check) {
	p := c.Prog
	r := c.Rule("R10", "columnsLayout: the resume point returned by blockLevelLayout for a spanning block never reaches ResumeStack.Unpack in columnsLayout (its keys index the block's children, not the multi-column box's): it is only stored under the block's own index", 1)
	fn := p.Fn("html/layout", "columnsLayout")
	if fn == nil {
		r.Anchor("html/layout.columnsLayout")
		return
	}
	// the resume points taken from blockLevelLayout results
	var srcs []ssa.Value
	core.Instrs(fn, func(in ssa.Instruction) {
		call, ok := in.(*ssa.Call)
		if !ok {
			return
		}
		if callee := call.Call.StaticCallee(); callee == nil || callee.Name() != "blockLevelLayout" {
			return
		}
		for _, ref := range *call.Referrers() {
			ex, ok := ref.(*ssa.Extract)
			if !ok {
				continue
			}
			// the blockLayout struct: its resumeAt field
			for _, r2 := range *ex.Referrers() {
				switch x := r2.(type) {
				case *ssa.Field:
					if st, ok := x.X.Type().Underlying().(*types.Struct); ok && st.Field(x.Field).Name() == "resumeAt" {
						srcs = append(srcs, x)
					}
				case *ssa.Store:
					// spilled to a local: loads of its resumeAt field
					if al, ok := x.Addr.(*ssa.Alloc); ok {
						for _, r3 := range *al.Referrers() {
							if fa, ok := r3.(*ssa.FieldAddr); ok && core.FieldName(fa) == "resumeAt" {
								for _, r4 := range *fa.Referrers() {
									if ld, ok := r4.(*ssa.UnOp); ok {
										srcs = append(srcs, ld)
									}
								}
							}
						}
					}
				}
			}
		}
	})
	key := "html/layout.columnsLayout | resume point of a spanning block"
	if len(srcs) == 0 {
		r.Unknown(key, p.Pos(fn.Pos()), "the resumeAt of the blockLevelLayout result is not read")
		return
	}
	isSrc := map[ssa.Value]bool{}
	for _, s := range srcs {
		isSrc[s] = true
	}
	bad := ""
	core.Instrs(fn, func(in ssa.Instruction) {
		call, ok := in.(*ssa.Call)
		if !ok {
			return
		}
		callee := call.Call.StaticCallee()
		if callee == nil || callee.Name() != "Unpack" || len(call.Call.Args) == 0 {
			return
		}
		// the receiver, through merges and the local it may live in
		seen := map[ssa.Value]bool{}
		var walk func(v ssa.Value, d int)
		walk = func(v ssa.Value, d int) {
			if v == nil || seen[v] || d > 8 || bad != "" {
				return
			}
			seen[v] = true
			if isSrc[v] {
				bad = p.Pos(call.Pos())
				return
			}
			switch x := v.(type) {
			case *ssa.Phi:
				for _, e := range x.Edges {
					walk(e, d+1)
				}
			case *ssa.UnOp:
				if al, ok := x.X.(*ssa.Alloc); ok {
					for _, ref := range *al.Referrers() {
						if st, ok := ref.(*ssa.Store); ok && st.Addr == ssa.Value(al) {
							walk(st.Val, d+1)
						}
					}
				}
			case *ssa.ChangeType:
				walk(x.X, d+1)
			}
		}
		walk(call.Call.Args[0], 0)
	})
	r.Cond(bad == "", key, p.Pos(fn.Pos()), fmt.Sprintf("%d reads of it, none reaches Unpack", len(srcs)), "it reaches the Unpack at "+bad+": its first key, an index among the block's children, is added to the index of the block in the multi-column box — the next page resumes at an unrelated child (content lost, or slice bounds out of range)")
}

// c02FirstLetter (R11): the letters taken out of the text for ::first-letter are put back in the tree.
// firstLetterToBox cuts the first letter off the first text box and builds a box for it; that box must become a
// child of the box being processed (the line, or the inline box that holds the text).  Structurally: after every
// construction of a first-letter inline or block box in firstLetterToBox, the children of the parameter box are
// written; and nowhere in the layout and box-building code are children stored into a text box, which is a leaf.
func c02FirstLetter(c *core.Check) {
	p := c.Prog
	r := c.Rule("R11", "the first letter stays in the tree: in firstLetterToBox every inline or block box built for the letter is followed by a write to the children of the box being processed (box.Box().Children), and no function of html/layout or html/boxes stores children into a text box", 2)
	fn := p.Fn("html/layout", "firstLetterToBox")
	if fn == nil || len(fn.Params) < 2 {
		r.Anchor("html/layout.firstLetterToBox")
		return
	}
	boxParam := fn.Params[1]
	isOwnChildren := func(addr ssa.Value) bool {
		if ia, ok := addr.(*ssa.IndexAddr); ok {
			if ld, ok := ia.X.(*ssa.UnOp); ok {
				addr = ld.X
			}
		}
		fa, ok := addr.(*ssa.FieldAddr)
		if !ok || core.FieldName(fa) != "Children" {
			return false
		}
		call, ok := fa.X.(*ssa.Call)
		return ok && call.Call.IsInvoke() && call.Call.Method.Name() == "Box" && call.Call.Value == ssa.Value(boxParam)
	}
	n := 0
	core.Instrs(fn, func(in ssa.Instruction) {
		call, ok := in.(*ssa.Call)
		if !ok {
			return
		}
		callee := call.Call.StaticCallee()
		if callee == nil || (callee.Name() != "NewInlineBox" && callee.Name() != "NewBlockBox") {
			return
		}
		n++
		key := fmt.Sprintf("html/layout.firstLetterToBox | %s #%d", callee.Name(), n)
		attached := false
		core.Instrs(fn, func(in2 ssa.Instruction) {
			st, ok := in2.(*ssa.Store)
			if !ok || !isOwnChildren(st.Addr) {
				return
			}
			if st.Block() == call.Block() && st.Pos() > call.Pos() || st.Block() != call.Block() && call.Block().Dominates(st.Block()) {
				attached = true
			}
		})
		r.Cond(attached, key, p.Pos(call.Pos()), "followed by a write to the children of the box being processed", "the box built for the first letter is never written into the children of the box being processed: the letter was removed from the text and is not laid out (`Hello world` is drawn as `ello world`)")
	})
	if n == 0 {
		r.Unknown("html/layout.firstLetterToBox | letter boxes", p.Pos(fn.Pos()), "no construction of an inline or block box")
	}
	// text boxes are leaves
	bad := ""
	for _, pkg := range []string{"html/layout", "html/boxes"} {
		for _, f := range p.FuncsOfPkg(pkg) {
			if f.Blocks == nil {
				continue
			}
			core.Instrs(f, func(in ssa.Instruction) {
				st, ok := in.(*ssa.Store)
				if !ok {
					return
				}
				fa, ok := st.Addr.(*ssa.FieldAddr)
				if !ok || core.FieldName(fa) != "Children" {
					return
				}
				if k, ok := st.Val.(*ssa.Const); ok && k.IsNil() {
					return
				}
				// the BoxFields embedded in a *TextBox
				if inner, ok := fa.X.(*ssa.FieldAddr); ok {
					if pt, ok := inner.X.Type().(*types.Pointer); ok {
						if nm, ok := pt.Elem().(*types.Named); ok && nm.Obj().Name() == "TextBox" {
							bad = core.FuncName(f) + " at " + p.Pos(st.Pos())
						}
					}
				}
			})
		}
	}
	r.Cond(bad == "", "html/layout, html/boxes | children of text boxes", "-", "no store of children into a text box", "children are stored into a text box in "+bad+": a text box is a leaf, what is attached to it is never laid out or drawn")
}
