package props

import (
	"fmt"
	"go/token"

	"golang.org/x/tools/go/ssa"

	"wrverif/core"
)

// c20BackslashNewline (R7): the delimiter `\` exists only in front of a newline (anything else after a backslash
// is an escape).  Where serializeTo handles a token that follows this delimiter, it may leave out the newline it
// writes only when the text of the next token *begins* with one: a newline further inside a white space token
// (" \n") leaves `\ `, a valid escape, in the output.
func c20BackslashNewline(c *core.Check) {
	p := c.Prog
	r := c.Rule("R7", "serializeTo, after the delimiter backslash: every path through the branch either writes a newline or has established that the next token's text starts with one (a prefix test with \"\\n\", or a comparison of its first byte) — a newline elsewhere in the token is not enough", 1)
	fn := p.Fn("css/parser", "serializeTo")
	if fn == nil {
		r.Anchor("css/parser.serializeTo")
		return
	}
	var region *ssa.BasicBlock
	for _, b := range fn.Blocks {
		if len(b.Instrs) == 0 {
			continue
		}
		ifi, ok := b.Instrs[len(b.Instrs)-1].(*ssa.If)
		if !ok {
			continue
		}
		if bo, ok := ifi.Cond.(*ssa.BinOp); ok && bo.Op == token.EQL {
			if s, ok := core.ConstStr(bo.Y); ok && s == "\\" {
				region = b.Succs[0]
			}
		}
	}
	key := "css/parser.serializeTo | token after the delimiter backslash"
	if region == nil {
		r.Unknown(key, p.Pos(fn.Pos()), "no branch on the previous token being the delimiter backslash was found")
		return
	}
	// the writes of "\n" inside the region
	writes := map[*ssa.BasicBlock]bool{}
	assign := map[ssa.Value]bool{}
	nPrefix := 0
	core.Instrs(fn, func(in ssa.Instruction) {
		call, ok := in.(*ssa.Call)
		if !ok || !(in.Block() == region || region.Dominates(in.Block())) {
			return
		}
		for _, a := range call.Call.Args {
			if s, ok := core.ConstStr(a); ok && s == "\n" {
				if callee := call.Call.StaticCallee(); callee != nil && callee.Pkg != nil && callee.Pkg.Pkg.Path() == "strings" {
					if callee.Name() == "HasPrefix" && len(call.Call.Args) == 2 && a == call.Call.Args[1] {
						assign[call] = false
						nPrefix++
					}
					continue
				}
				writes[in.Block()] = true
			}
		}
	})
	// first byte compared with '\n'
	for _, a := range core.CondAtoms(fn) {
		bo, ok := a.(*ssa.BinOp)
		if !ok || (bo.Op != token.EQL && bo.Op != token.NEQ) || !(bo.Block() == region || region.Dominates(bo.Block())) {
			continue
		}
		if k, ok := core.ConstInt(bo.Y); ok && k == '\n' {
			var index ssa.Value
			switch x := bo.X.(type) {
			case *ssa.Lookup:
				index = x.Index
			case *ssa.Index:
				index = x.Index
			}
			if index != nil {
				if i, ok := core.ConstInt(index); ok && i == 0 {
					assign[a] = bo.Op == token.NEQ
					nPrefix++
				}
			}
		}
	}
	if len(writes) == 0 {
		r.Fail(key, p.Pos(region.Instrs[0].Pos()), "no newline is written after the delimiter backslash")
		return
	}
	if writes[region] {
		r.OK(key, p.Pos(region.Instrs[0].Pos()), "the newline is written unconditionally")
		return
	}
	reach := core.ForwardReach(region, assign, func(b *ssa.BasicBlock) bool { return writes[b] })
	escaped := false
	for b := range reach {
		if b != region && !region.Dominates(b) {
			escaped = true
		}
	}
	r.Cond(!escaped, key, p.Pos(region.Instrs[0].Pos()), fmt.Sprintf("with the %d start-of-text tests false every path writes the newline", nPrefix), "the branch can be left without writing a newline although no test established that the next token starts with one: `\\` followed by \" \\n\" is written as an escaped space")
}
