package props

import (
	"fmt"
	"go/token"
	"sort"
	"strings"

	"golang.org/x/tools/go/ssa"

	"wrverif/core"
)

// c10Rerun (R15): the min/max wrappers run the wrapped sizing function again after clamping the size.  A second run
// is only right if it starts from the state the first one started from: every box field that a wrapped function
// updates from its own previous value (x += …: the rtl shift of an over-constrained block) must be put back by the
// wrapper before the function is called again, as the margins are.  Otherwise the update is applied twice whenever
// min-width or max-width applies.
func c10Rerun(c *core.Check) {
	p := c.Prog
	r := c.Rule("R15", "re-run from the same state: for every function wrapped by handleMinMaxWidth / handleMinMaxHeight, each box field it updates from its own previous value is stored by the wrapper between two calls of the function (like the computed margins); functions that only assign fresh values need nothing", 8)
	pk := p.ByPath["html/layout"]
	if pk == nil {
		r.Anchor("package html/layout")
		return
	}
	// wrappers: closures calling their free variable more than once
	type wrapper struct {
		outer    *ssa.Function
		closure  *ssa.Function
		restored map[string]bool
	}
	wrappers := map[*ssa.Function]*wrapper{}
	for _, fn := range p.ModFuncs {
		if fn.Pkg == nil || fn.Pkg.Pkg != pk.Types || fn.Parent() == nil || len(fn.FreeVars) == 0 {
			continue
		}
		calls := 0
		core.Instrs(fn, func(in ssa.Instruction) {
			if call, ok := in.(*ssa.Call); ok {
				v := call.Call.Value
				if ld, ok := v.(*ssa.UnOp); ok {
					v = ld.X
				}
				for _, fv := range fn.FreeVars {
					if v == ssa.Value(fv) {
						calls++
					}
				}
			}
		})
		if calls < 2 {
			continue
		}
		w := &wrapper{outer: fn.Parent(), closure: fn, restored: map[string]bool{}}
		core.Instrs(fn, func(in ssa.Instruction) {
			if st, ok := in.(*ssa.Store); ok {
				if fa, ok := st.Addr.(*ssa.FieldAddr); ok {
					w.restored[core.FieldName(fa)] = true
				}
			}
		})
		wrappers[fn.Parent()] = w
	}
	if len(wrappers) == 0 {
		r.Unknown("html/layout | min/max wrappers", "-", "no closure calling its captured function twice was found")
		return
	}
	// wrapped functions: arguments of the calls to the wrappers' outer functions
	n := 0
	var callers []*ssa.Function
	for fn := range p.AllFuncs {
		if fn.Pkg != nil && fn.Pkg.Pkg == pk.Types && fn.Blocks != nil {
			callers = append(callers, fn)
		}
	}
	sort.Slice(callers, func(i, j int) bool { return callers[i].String() < callers[j].String() })
	for _, fn := range callers {
		core.Instrs(fn, func(in ssa.Instruction) {
			call, ok := in.(*ssa.Call)
			if !ok {
				return
			}
			w := wrappers[call.Call.StaticCallee()]
			if w == nil || len(call.Call.Args) != 1 {
				return
			}
			var g *ssa.Function
			switch x := call.Call.Args[0].(type) {
			case *ssa.Function:
				g = x
			case *ssa.MakeClosure:
				g, _ = x.Fn.(*ssa.Function)
			}
			if g == nil || g.Blocks == nil {
				r.Unknown(fmt.Sprintf("%s(%s)", w.outer.Name(), call.Call.Args[0].Name()), p.Pos(call.Pos()), "the wrapped function is not a named function")
				return
			}
			n++
			// read-modify-write stores of fields
			rmw := map[string]token.Pos{}
			core.Instrs(g, func(in ssa.Instruction) {
				st, ok := in.(*ssa.Store)
				if !ok {
					return
				}
				fa, ok := st.Addr.(*ssa.FieldAddr)
				if !ok {
					return
				}
				f := core.FieldName(fa)
				v := st.Val
				if mi, ok := v.(*ssa.MakeInterface); ok {
					v = mi.X
				}
				self := arithDerives(v, func(v ssa.Value) bool {
					call, isCall := v.(*ssa.Call)
					if isCall && call.Call.IsInvoke() && call.Call.Method.Name() == "V" {
						v = call.Call.Value
					}
					ld, ok := v.(*ssa.UnOp)
					if !ok || ld.Op != token.MUL {
						return false
					}
					fa2, ok := ld.X.(*ssa.FieldAddr)
					return ok && core.FieldName(fa2) == f
				})
				if self && v != st.Val || self && !isPlainLoad(v) {
					rmw[f] = st.Pos()
				}
			})
			key := fmt.Sprintf("%s(%s)", w.outer.Name(), g.Name())
			if len(rmw) == 0 {
				r.OK(key, p.Pos(g.Pos()), "assigns fresh values only")
				return
			}
			var fs []string
			for f := range rmw {
				fs = append(fs, f)
			}
			sort.Strings(fs)
			for _, f := range fs {
				r.Cond(w.restored[f], key+" | "+f, p.Pos(rmw[f]), "put back by the wrapper before each further run", fmt.Sprintf("%s updates %s from its previous value and %s does not put it back before calling the function again (it stores %s): with a min- or max- clamp the update is applied twice", g.Name(), f, w.outer.Name(), strings.Join(strKeys(w.restored), ", ")))
			}
		})
	}
	if n == 0 {
		r.Unknown("html/layout | wrapped functions", "-", "no call of a min/max wrapper with a named function was found")
	}
}

func isPlainLoad(v ssa.Value) bool {
	ld, ok := v.(*ssa.UnOp)
	return ok && ld.Op == token.MUL
}

func strKeys(m map[string]bool) []string {
	var out []string
	for k := range m {
		out = append(out, k)
	}
	sort.Strings(out)
	return out
}

// c10SavedBeforeFirstRun (R16): what is put back before a second run is what was there before the first.
// Where a layout function stores into a box field a value it loaded earlier from that same field (a restore) and
// the same sizing function is called both before and after that store, the load precedes the first call — a value
// saved after the first run is already the resolved one (auto margins are gone), and the second run is not a re-run.
func c10SavedBeforeFirstRun(c *core.Check) {
	r := c.Rule("R16", "restores restore the state before the first run: in html/layout, when a field is stored with a value loaded earlier from the same field and one function is called both before and after that store, the load comes before the first of these calls", 10)
	savedBeforeFirstRunRule(c, r, "")
}

// c12PageMarginsRerun (R10): the same rule for the page boxes: the vertical auto margins of an @page rule are
// recomputed after a min-/max-height clamp only if handleMinMaxHeight restores the margins it saved before the run.
func c12PageMarginsRerun(c *core.Check) {
	r := c.Rule("R10", "auto margins of a page are recomputed after a min-/max-height clamp: in handleMinMaxHeight the margins stored back before the second run were loaded before the first (shared with C10.R16)", 2)
	savedBeforeFirstRunRule(c, r, "handleMinMaxHeight")
}

func savedBeforeFirstRunRule(c *core.Check, r *core.Rule, only string) {
	p := c.Prog
	n := 0
	calleeKey := func(call *ssa.Call) string {
		if g := call.Call.StaticCallee(); g != nil {
			return g.String()
		}
		if call.Call.IsInvoke() {
			return ""
		}
		return "dyn:" + valueText(call.Call.Value)
	}
	before := func(a, b ssa.Instruction) bool {
		if a.Block() == b.Block() {
			for _, in := range a.Block().Instrs {
				if in == a {
					return true
				}
				if in == b {
					return false
				}
			}
		}
		return a.Block().Dominates(b.Block())
	}
	for _, fn := range p.FuncsOfPkg("html/layout") {
		if fn.Blocks == nil || only != "" && !strings.HasPrefix(fn.Name(), only) {
			continue
		}
		var calls []*ssa.Call
		core.Instrs(fn, func(in ssa.Instruction) {
			if call, ok := in.(*ssa.Call); ok && calleeKey(call) != "" {
				if _, isBuiltin := call.Call.Value.(*ssa.Builtin); !isBuiltin {
					calls = append(calls, call)
				}
			}
		})
		k := 0
		core.Instrs(fn, func(in ssa.Instruction) {
			st, ok := in.(*ssa.Store)
			if !ok {
				return
			}
			fa, ok := st.Addr.(*ssa.FieldAddr)
			if !ok {
				return
			}
			ld, ok := st.Val.(*ssa.UnOp)
			if !ok || ld.Op != token.MUL {
				return
			}
			fa2, ok := ld.X.(*ssa.FieldAddr)
			if !ok || fa2.Field != fa.Field || valueText(fa2.X) != valueText(fa.X) || ld.Block() == nil {
				return
			}
			if !before(ld, st) {
				return
			}
			// a function called before and after the store: the same one, or two functions that both write the field
			field := core.FieldName(fa)
			var first *ssa.Call
			for _, c1 := range calls {
				if !before(c1, st) {
					continue
				}
				for _, c2 := range calls {
					if c2 == c1 || !before(st, c2) {
						continue
					}
					same := calleeKey(c2) == calleeKey(c1)
					if !same && writesField(c1.Call.StaticCallee(), field, 0) && writesField(c2.Call.StaticCallee(), field, 0) {
						same = true
					}
					if same && (first == nil || before(c1, first)) {
						first = c1
					}
				}
			}
			if first == nil {
				return
			}
			n++
			k++
			key := fmt.Sprintf("%s | %s restored before a second run #%d", core.FuncName(fn), core.FieldName(fa), k)
			r.Cond(before(ld, first), key, p.Pos(st.Pos()), "saved before the first run", "the value stored back was loaded after the first run of "+core.CalleeName(first)+": it is already the resolved value (an auto margin is gone) and the second run computes from it")
		})
	}
	if n == 0 {
		r.Unknown("html/layout | restores around a re-run", "-", "none found")
	}
}

// writesField: g (or a function it calls directly, two levels) stores into a field of that name.
func writesField(g *ssa.Function, field string, depth int) bool {
	if g == nil || g.Blocks == nil || depth > 2 {
		return false
	}
	found := false
	core.Instrs(g, func(in ssa.Instruction) {
		if found {
			return
		}
		switch x := in.(type) {
		case *ssa.Store:
			if fa, ok := x.Addr.(*ssa.FieldAddr); ok && core.FieldName(fa) == field {
				found = true
			}
		case *ssa.Call:
			if callee := x.Call.StaticCallee(); callee != nil && callee != g && callee.Pkg == g.Pkg {
				if writesField(callee, field, depth+1) {
					found = true
				}
			}
		}
	})
	return found
}

// c10LastInFlowChild (R17): whether the bottom margins of a block collapse through it, or with its last child, is
// decided on its last *in-flow* child: floats and absolutely positioned boxes after it do not count (CSS 2.1
// §8.3.1).  blockContainerLayout therefore looks for that child backwards past the out-of-flow ones: the box it
// compares with nil before asking for the clearance is selected inside a loop over the laid-out children, under a
// test of IsInNormalFlow — not read at one fixed position.  (Looking at the very last child only, a wrapper whose
// last child is a float is treated as empty: the next sibling is placed at its top.)
func c10LastInFlowChild(c *core.Check) {
	p := c.Prog
	r := c.Rule("R17", "the last in-flow child is searched past the out-of-flow ones: in html/layout.blockContainerLayout the box whose comparison with nil leads to getClearance (margins collapsing through) gets its non-nil values inside a loop, under a test of IsInNormalFlow", 1)
	fn := p.Fn("html/layout", "blockContainerLayout")
	if fn == nil {
		r.Anchor("html/layout.blockContainerLayout")
		return
	}
	key := "html/layout.blockContainerLayout | last in-flow child"
	// the comparison with nil whose true side reaches getClearance
	var subject ssa.Value
	for _, b := range fn.Blocks {
		if len(b.Instrs) == 0 {
			continue
		}
		ifi, ok := b.Instrs[len(b.Instrs)-1].(*ssa.If)
		if !ok {
			continue
		}
		cmp, ok := ifi.Cond.(*ssa.BinOp)
		if !ok || cmp.Op != token.EQL {
			continue
		}
		if k, ok := cmp.Y.(*ssa.Const); !ok || !k.IsNil() {
			continue
		}
		if _, isPhi := cmp.X.(*ssa.Phi); !isPhi {
			continue
		}
		reach := core.ForwardReach(b.Succs[0], nil, func(x *ssa.BasicBlock) bool { return x == b.Succs[1] })
		found := false
		for rb := range reach {
			for _, in := range rb.Instrs {
				if call, ok := in.(*ssa.Call); ok && call.Call.StaticCallee() != nil && call.Call.StaticCallee().Name() == "getClearance" {
					found = true
				}
			}
		}
		if found && b.Succs[0] != b.Succs[1] {
			// the nearest one: the true successor itself holds or leads to the call before any other branch on it
			subject = cmp.X
		}
	}
	if subject == nil {
		r.Unknown(key, p.Pos(fn.Pos()), "no comparison of a box with nil leading to getClearance")
		return
	}
	// non-nil values flowing into the subject
	var sources []ssa.Value
	seen := map[ssa.Value]bool{}
	var walk func(ssa.Value)
	walk = func(v ssa.Value) {
		if seen[v] {
			return
		}
		seen[v] = true
		if phi, ok := v.(*ssa.Phi); ok {
			for _, e := range phi.Edges {
				walk(e)
			}
			return
		}
		if k, ok := v.(*ssa.Const); ok && k.IsNil() {
			return
		}
		sources = append(sources, v)
	}
	walk(subject)
	if len(sources) == 0 {
		r.Unknown(key, p.Pos(fn.Pos()), "the box compared with nil has no non-nil value")
		return
	}
	bad := ""
	for _, s := range sources {
		in, ok := s.(ssa.Instruction)
		if !ok {
			bad = "a value that is not computed in the function"
			continue
		}
		l := core.InnermostLoop(fn, in.Block())
		if l == nil {
			// a block that leaves a loop (`…; break`) is not part of the natural loop: it belongs to the loop of
			// the block it comes from
			for _, pred := range in.Block().Preds {
				if pl := core.InnermostLoop(fn, pred); pl != nil && pl.Header.Dominates(in.Block()) && len(in.Block().Preds) == 1 {
					l = pl
				}
			}
		}
		if l == nil {
			bad = "a child read at a fixed position (" + p.Pos(in.Pos()) + ")"
			continue
		}
		guarded := false
		for _, a := range core.CondAtomsReaching(fn, in.Block()) {
			if call, ok := a.(*ssa.Call); ok && isCallOf(call, "IsInNormalFlow") && l.Blocks[call.Block()] {
				guarded = true
			}
		}
		// the selection may also happen where the phi merges: a test of IsInNormalFlow anywhere in the same loop
		if !guarded {
			for b := range l.Blocks {
				for _, in2 := range b.Instrs {
					if call, ok := in2.(*ssa.Call); ok && isCallOf(call, "IsInNormalFlow") {
						guarded = true
					}
				}
			}
		}
		if !guarded {
			bad = "a child selected in a loop that does not test IsInNormalFlow"
		}
	}
	r.Cond(bad == "", key, p.Pos(fn.Pos()), fmt.Sprintf("%d selection(s), each inside a loop that tests IsInNormalFlow", len(sources)), "the box is "+bad+": out-of-flow children after the last in-flow one make the block look empty")
}

// isCallOf: the call is a call (static or through an interface) of a function or method with this name.
func isCallOf(call *ssa.Call, name string) bool {
	if call.Call.IsInvoke() {
		return call.Call.Method.Name() == name
	}
	callee := call.Call.StaticCallee()
	return callee != nil && callee.Name() == name
}
