package props

import (
	"fmt"
	"go/token"
	"sort"
	"strings"

	"golang.org/x/tools/go/ssa"

	"wrverif/core"
)

// c10Rerun (R15): the min/max wrappers run the wrapped sizing function again after clamping the size.  A second run
// is only right if it starts from the state the first one started from: every box field that a wrapped function
// updates from its own previous value (x += …: the rtl shift of an over-constrained block) must be put back by the
// wrapper before the function is called again, as the margins are.  Otherwise the update is applied twice whenever
// min-width or max-width applies.
func c10Rerun(c *core.Check) {
	p := c.Prog
	r := c.Rule("R15", "re-run from the same state: for every function wrapped by handleMinMaxWidth / handleMinMaxHeight, each box field it updates from its own previous value is stored by the wrapper between two calls of the function (like the computed margins); functions that only assign fresh values need nothing", 9)
	pk := p.ByPath["html/layout"]
	if pk == nil {
		r.Anchor("package html/layout")
		return
	}
	// wrappers: closures calling their free variable more than once
	type wrapper struct {
		outer    *ssa.Function
		closure  *ssa.Function
		restored map[string]bool
	}
	wrappers := map[*ssa.Function]*wrapper{}
	for _, fn := range p.ModFuncs {
		if fn.Pkg == nil || fn.Pkg.Pkg != pk.Types || fn.Parent() == nil || len(fn.FreeVars) == 0 {
			continue
		}
		calls := 0
		core.Instrs(fn, func(in ssa.Instruction) {
			if call, ok := in.(*ssa.Call); ok {
				v := call.Call.Value
				if ld, ok := v.(*ssa.UnOp); ok {
					v = ld.X
				}
				for _, fv := range fn.FreeVars {
					if v == ssa.Value(fv) {
						calls++
					}
				}
			}
		})
		if calls < 2 {
			continue
		}
		w := &wrapper{outer: fn.Parent(), closure: fn, restored: map[string]bool{}}
		core.Instrs(fn, func(in ssa.Instruction) {
			if st, ok := in.(*ssa.Store); ok {
				if fa, ok := st.Addr.(*ssa.FieldAddr); ok {
					w.restored[core.FieldName(fa)] = true
				}
			}
		})
		wrappers[fn.Parent()] = w
	}
	if len(wrappers) == 0 {
		r.Unknown("html/layout | min/max wrappers", "-", "no closure calling its captured function twice was found")
		return
	}
	// wrapped functions: arguments of the calls to the wrappers' outer functions
	n := 0
	var callers []*ssa.Function
	for fn := range p.AllFuncs {
		if fn.Pkg != nil && fn.Pkg.Pkg == pk.Types && fn.Blocks != nil {
			callers = append(callers, fn)
		}
	}
	sort.Slice(callers, func(i, j int) bool { return callers[i].String() < callers[j].String() })
	for _, fn := range callers {
		core.Instrs(fn, func(in ssa.Instruction) {
			call, ok := in.(*ssa.Call)
			if !ok {
				return
			}
			w := wrappers[call.Call.StaticCallee()]
			if w == nil || len(call.Call.Args) != 1 {
				return
			}
			var g *ssa.Function
			switch x := call.Call.Args[0].(type) {
			case *ssa.Function:
				g = x
			case *ssa.MakeClosure:
				g, _ = x.Fn.(*ssa.Function)
			}
			if g == nil || g.Blocks == nil {
				r.Unknown(fmt.Sprintf("%s(%s)", w.outer.Name(), call.Call.Args[0].Name()), p.Pos(call.Pos()), "the wrapped function is not a named function")
				return
			}
			n++
			// read-modify-write stores of fields
			rmw := map[string]token.Pos{}
			core.Instrs(g, func(in ssa.Instruction) {
				st, ok := in.(*ssa.Store)
				if !ok {
					return
				}
				fa, ok := st.Addr.(*ssa.FieldAddr)
				if !ok {
					return
				}
				f := core.FieldName(fa)
				v := st.Val
				if mi, ok := v.(*ssa.MakeInterface); ok {
					v = mi.X
				}
				self := arithDerives(v, func(v ssa.Value) bool {
					call, isCall := v.(*ssa.Call)
					if isCall && call.Call.IsInvoke() && call.Call.Method.Name() == "V" {
						v = call.Call.Value
					}
					ld, ok := v.(*ssa.UnOp)
					if !ok || ld.Op != token.MUL {
						return false
					}
					fa2, ok := ld.X.(*ssa.FieldAddr)
					return ok && core.FieldName(fa2) == f
				})
				if self && v != st.Val || self && !isPlainLoad(v) {
					rmw[f] = st.Pos()
				}
			})
			key := fmt.Sprintf("%s(%s)", w.outer.Name(), g.Name())
			if len(rmw) == 0 {
				r.OK(key, p.Pos(g.Pos()), "assigns fresh values only")
				return
			}
			var fs []string
			for f := range rmw {
				fs = append(fs, f)
			}
			sort.Strings(fs)
			for _, f := range fs {
				r.Cond(w.restored[f], key+" | "+f, p.Pos(rmw[f]), "put back by the wrapper before each further run", fmt.Sprintf("%s updates %s from its previous value and %s does not put it back before calling the function again (it stores %s): with a min- or max- clamp the update is applied twice", g.Name(), f, w.outer.Name(), strings.Join(strKeys(w.restored), ", ")))
			}
		})
	}
	if n == 0 {
		r.Unknown("html/layout | wrapped functions", "-", "no call of a min/max wrapper with a named function was found")
	}
}

func isPlainLoad(v ssa.Value) bool {
	ld, ok := v.(*ssa.UnOp)
	return ok && ld.Op == token.MUL
}

func strKeys(m map[string]bool) []string {
	var out []string
	for k := range m {
		out = append(out, k)
	}
	sort.Strings(out)
	return out
}
