package props

import (
	"fmt"
	"go/token"
	"go/types"

	"golang.org/x/tools/go/ssa"

	"wrverif/core"
)

// c15MapReadWhileRewritten (R8): the iteration order of a map is not specified.  A loop that ranges over a map,
// writes entries of that map and, in the same loop, reads an entry of it under a key that is not the current one
// gives a result that depends on whether the entry read was already rewritten: two renderings of one document
// differ.  (SVG attributes: `currentColor` resolved from color in the loop that also resolves color="inherit".)
func c15MapReadWhileRewritten(c *core.Check) {
	p := c.Prog
	r := c.Rule("R8", "no order-dependent rewriting of a map: in the module, a loop ranging over a map that stores into that map does not also read an entry of it under a key other than the key of the current iteration", 58)
	n := 0
	for _, fn := range p.ModFuncs {
		if fn.Blocks == nil {
			continue
		}
		loops := core.Loops(fn)
		k := 0
		core.Instrs(fn, func(in ssa.Instruction) {
			rg, ok := in.(*ssa.Range)
			if !ok {
				return
			}
			if _, isMap := rg.X.Type().Underlying().(*types.Map); !isMap {
				return
			}
			// the loop: the one whose header calls Next on this iterator
			var loop *core.Loop
			var key ssa.Value
			for _, ref := range *rg.Referrers() {
				nx, ok := ref.(*ssa.Next)
				if !ok {
					continue
				}
				for _, l := range loops {
					if l.Blocks[nx.Block()] && (loop == nil || len(l.Blocks) < len(loop.Blocks)) {
						loop = l
					}
				}
				for _, r2 := range *nx.Referrers() {
					if ex, ok := r2.(*ssa.Extract); ok && ex.Index == 1 {
						key = ex
					}
				}
			}
			if loop == nil {
				return
			}
			mt := valueText(rg.X)
			writes := false
			var otherRead ssa.Instruction
			for b := range loop.Blocks {
				for _, ins := range b.Instrs {
					switch x := ins.(type) {
					case *ssa.MapUpdate:
						if valueText(x.Map) == mt {
							writes = true
						}
					case *ssa.Lookup:
						if valueText(x.X) == mt && x.Index != key && !derivesOnlyFrom(x.Index, key) {
							if otherRead == nil || x.Pos() < otherRead.Pos() {
								otherRead = ins
							}
						}
					}
				}
			}
			n++
			k++
			keyS := fmt.Sprintf("%s | range over a map #%d", core.FuncName(fn), k)
			if !writes || otherRead == nil {
				r.OK(keyS, p.Pos(rg.Pos()), "no read of another entry while entries are rewritten")
				return
			}
			r.Fail(keyS, p.Pos(otherRead.Pos()), "the loop stores into the map it ranges over and reads another entry of it here: the value read depends on whether that entry was already rewritten, that is on the iteration order")
		})
	}
	r.OK("scan", "-", fmt.Sprintf("%d ranges over maps", n))
}

// derivesOnlyFrom: v is the iteration key itself through conversions.
func derivesOnlyFrom(v, key ssa.Value) bool {
	for i := 0; i < 4; i++ {
		if v == key {
			return true
		}
		switch x := v.(type) {
		case *ssa.Convert:
			v = x.X
		case *ssa.ChangeType:
			v = x.X
		case *ssa.UnOp:
			if x.Op == token.MUL {
				return false
			}
			return false
		default:
			return false
		}
	}
	return false
}
