package props

import (
	"fmt"
	"go/token"
	"go/types"

	"golang.org/x/tools/go/ssa"

	"wrverif/core"
)

// c15MapReadWhileRewritten (R8): the iteration order of a map is not specified.  A loop that ranges over a map,
// writes entries of that map and, in the same loop, reads an entry of it under a key that is not the current one
// gives a result that depends on whether the entry read was already rewritten: two renderings of one document
// differ.  (SVG attributes: `currentColor` resolved from color in the loop that also resolves color="inherit".)
func c15MapReadWhileRewritten(c *core.Check) {
	p := c.Prog
	r := c.Rule("R8", "no order-dependent rewriting of a map: in the module, a loop ranging over a map that stores into that map does not also read an entry of it under a key other than the key of the current iteration", 58)
	n := 0
	for _, fn := range p.ModFuncs {
		if fn.Blocks == nil {
			continue
		}
		loops := core.Loops(fn)
		k := 0
		core.Instrs(fn, func(in ssa.Instruction) {
			rg, ok := in.(*ssa.Range)
			if !ok {
				return
			}
			if _, isMap := rg.X.Type().Underlying().(*types.Map); !isMap {
				return
			}
			// the loop: the one whose header calls Next on this iterator
			var loop *core.Loop
			var key ssa.Value
			for _, ref := range *rg.Referrers() {
				nx, ok := ref.(*ssa.Next)
				if !ok {
					continue
				}
				for _, l := range loops {
					if l.Blocks[nx.Block()] && (loop == nil || len(l.Blocks) < len(loop.Blocks)) {
						loop = l
					}
				}
				for _, r2 := range *nx.Referrers() {
					if ex, ok := r2.(*ssa.Extract); ok && ex.Index == 1 {
						key = ex
					}
				}
			}
			if loop == nil {
				return
			}
			mt := valueText(rg.X)
			writes := false
			var otherRead ssa.Instruction
			for b := range loop.Blocks {
				for _, ins := range b.Instrs {
					switch x := ins.(type) {
					case *ssa.MapUpdate:
						if valueText(x.Map) == mt {
							writes = true
						}
					case *ssa.Lookup:
						if valueText(x.X) == mt && x.Index != key && !derivesOnlyFrom(x.Index, key) {
							if otherRead == nil || x.Pos() < otherRead.Pos() {
								otherRead = ins
							}
						}
					}
				}
			}
			n++
			k++
			keyS := fmt.Sprintf("%s | range over a map #%d", core.FuncName(fn), k)
			if !writes || otherRead == nil {
				r.OK(keyS, p.Pos(rg.Pos()), "no read of another entry while entries are rewritten")
				return
			}
			r.Fail(keyS, p.Pos(otherRead.Pos()), "the loop stores into the map it ranges over and reads another entry of it here: the value read depends on whether that entry was already rewritten, that is on the iteration order")
		})
	}
	r.OK("scan", "-", fmt.Sprintf("%d ranges over maps", n))
}

// derivesOnlyFrom: v is the iteration key itself through conversions.
func derivesOnlyFrom(v, key ssa.Value) bool {
	for i := 0; i < 4; i++ {
		if v == key {
			return true
		}
		switch x := v.(type) {
		case *ssa.Convert:
			v = x.X
		case *ssa.ChangeType:
			v = x.X
		case *ssa.UnOp:
			if x.Op == token.MUL {
				return false
			}
			return false
		default:
			return false
		}
	}
	return false
}

// c15TokenListsNotAppendedTo (R9): the tokens of a declaration belong to the parsed style sheet: they are shared by
// every element the rule matches and by every document rendered with the same sheet.  The Arguments list of a
// function token is read, never extended in place: in html/tree and css/validation no append has for base a list
// that derives (through re-slicing such as `fn.Arguments[:0]`, and merges) from the Arguments field of a token.
// (resolveVar with `arguments := fn.Arguments[:0]` wrote the values of the first element's custom properties into
// the sheet: every later element and document got them.)
func c15TokenListsNotAppendedTo(c *core.Check) {
	p := c.Prog
	r := c.Rule("R9", "the token lists of the style sheet are not extended in place: in html/tree and css/validation, in every function that reads the Arguments field of a token, no append has a base that derives (re-slices and merges included) from that field", 13)
	n := 0
	for _, pkg := range []string{"html/tree", "css/validation"} {
		for _, fn := range p.FuncsOfPkg(pkg) {
			fn := fn
			reads := false
			core.Instrs(fn, func(in ssa.Instruction) {
				switch x := in.(type) {
				case *ssa.FieldAddr:
					if core.FieldName(x) == "Arguments" {
						reads = true
					}
				case *ssa.Field:
					if core.IsFieldNamed(x, "Arguments") {
						reads = true
					}
				}
			})
			if !reads {
				continue
			}
			k := 0
			core.Instrs(fn, func(in ssa.Instruction) {
				call, ok := in.(*ssa.Call)
				if !ok {
					return
				}
				b, ok := call.Call.Value.(*ssa.Builtin)
				if !ok || b.Name() != "append" || len(call.Call.Args) == 0 {
					return
				}
				k++
				n++
				key := fmt.Sprintf("%s | append #%d", core.FuncName(fn), k)
				shared := core.DerivesFrom(call.Call.Args[0], func(v ssa.Value) bool { return core.IsFieldNamed(v, "Arguments") })
				r.Cond(!shared, key, p.Pos(call.Pos()), "the base of the append is a list of the function's own", "the base of the append is (a re-slice of) the Arguments of a token: the append writes into the array of the parsed style sheet, shared by every element and every render")
			})
		}
	}
	if n == 0 {
		r.Anchor("appends in functions reading token arguments")
	}
}
