package props

import (
	"fmt"
	"go/token"
	"go/types"
	"sort"

	"golang.org/x/tools/go/ssa"

	"wrverif/core"
)

// sameExpr: two values are computed by the same expression: same operation on operands that are the same expression
// (no store is looked for in between: used for values computed a few instructions apart).
func sameExpr(a, b ssa.Value, depth int) bool {
	if a == b {
		return true
	}
	if depth > 8 || a == nil || b == nil {
		return false
	}
	switch x := a.(type) {
	case *ssa.Const:
		y, ok := b.(*ssa.Const)
		return ok && x.Value != nil && y.Value != nil && x.Value.ExactString() == y.Value.ExactString() && types.Identical(x.Type(), y.Type())
	case *ssa.Call:
		y, ok := b.(*ssa.Call)
		if !ok || len(x.Call.Args) != len(y.Call.Args) || x.Call.IsInvoke() != y.Call.IsInvoke() {
			return false
		}
		if x.Call.IsInvoke() {
			if x.Call.Method != y.Call.Method || !sameExpr(x.Call.Value, y.Call.Value, depth+1) {
				return false
			}
		} else if x.Call.StaticCallee() == nil || x.Call.StaticCallee() != y.Call.StaticCallee() {
			return false
		}
		for i := range x.Call.Args {
			if !sameExpr(x.Call.Args[i], y.Call.Args[i], depth+1) {
				return false
			}
		}
		return true
	case *ssa.UnOp:
		y, ok := b.(*ssa.UnOp)
		return ok && x.Op == y.Op && sameExpr(x.X, y.X, depth+1)
	case *ssa.BinOp:
		y, ok := b.(*ssa.BinOp)
		return ok && x.Op == y.Op && sameExpr(x.X, y.X, depth+1) && sameExpr(x.Y, y.Y, depth+1)
	case *ssa.FieldAddr:
		y, ok := b.(*ssa.FieldAddr)
		return ok && x.Field == y.Field && sameExpr(x.X, y.X, depth+1)
	case *ssa.Field:
		y, ok := b.(*ssa.Field)
		return ok && x.Field == y.Field && sameExpr(x.X, y.X, depth+1)
	case *ssa.IndexAddr:
		y, ok := b.(*ssa.IndexAddr)
		return ok && sameExpr(x.Index, y.Index, depth+1) && sameExpr(x.X, y.X, depth+1)
	case *ssa.Index:
		y, ok := b.(*ssa.Index)
		return ok && sameExpr(x.Index, y.Index, depth+1) && sameExpr(x.X, y.X, depth+1)
	case *ssa.Extract:
		y, ok := b.(*ssa.Extract)
		return ok && x.Index == y.Index && sameExpr(x.Tuple, y.Tuple, depth+1)
	case *ssa.Convert:
		y, ok := b.(*ssa.Convert)
		return ok && types.Identical(x.Type(), y.Type()) && sameExpr(x.X, y.X, depth+1)
	case *ssa.ChangeType:
		y, ok := b.(*ssa.ChangeType)
		return ok && sameExpr(x.X, y.X, depth+1)
	case *ssa.MakeInterface:
		y, ok := b.(*ssa.MakeInterface)
		return ok && sameExpr(x.X, y.X, depth+1)
	}
	return false
}

func containsCall(v ssa.Value, depth int) bool {
	if depth > 8 {
		return false
	}
	switch x := v.(type) {
	case *ssa.Call:
		return true
	case *ssa.UnOp:
		return containsCall(x.X, depth+1)
	case *ssa.BinOp:
		return containsCall(x.X, depth+1) || containsCall(x.Y, depth+1)
	case *ssa.Field:
		return containsCall(x.X, depth+1)
	case *ssa.FieldAddr:
		return containsCall(x.X, depth+1)
	case *ssa.Extract:
		return containsCall(x.Tuple, depth+1)
	case *ssa.Convert:
		return containsCall(x.X, depth+1)
	case *ssa.ChangeType:
		return containsCall(x.X, depth+1)
	case *ssa.MakeInterface:
		return containsCall(x.X, depth+1)
	}
	return false
}

// c04TwinComponents (R15): the computed value of a property with several components (the two radii of a radial
// gradient, the two lengths of a position, of a size, of a border-spacing) is computed component by component.  In
// the computer functions of html/tree, no fixed-size composite is filled with two components computed by the same
// call on the same arguments — the mark of a copied line whose index was not changed (`radial-gradient(2em 3em, …)`
// computed to 20px 20px).
func c04TwinComponents(c *core.Check) {
	p := c.Prog
	r := c.Rule("R15", "component by component: in the functions of html/tree that compute values, the elements stored at different constant indices of one fixed-size array are not computed by the same call with the same arguments (a copied line whose index was not changed)", 27)
	n := 0
	for _, fn := range p.FuncsOfPkg("html/tree") {
		fn := fn
		byAlloc := map[*ssa.Alloc]map[int64]ssa.Value{}
		var order []*ssa.Alloc
		core.Instrs(fn, func(in ssa.Instruction) {
			st, ok := in.(*ssa.Store)
			if !ok {
				return
			}
			ia, ok := st.Addr.(*ssa.IndexAddr)
			if !ok {
				return
			}
			al, ok := ia.X.(*ssa.Alloc)
			if !ok {
				return
			}
			if pt, ok := al.Type().Underlying().(*types.Pointer); !ok {
				return
			} else if _, isArr := pt.Elem().Underlying().(*types.Array); !isArr {
				return
			}
			idx, ok := core.ConstInt(ia.Index)
			if !ok {
				return
			}
			if byAlloc[al] == nil {
				byAlloc[al] = map[int64]ssa.Value{}
				order = append(order, al)
			}
			byAlloc[al][idx] = st.Val
		})
		k := 0
		for _, al := range order {
			m := byAlloc[al]
			if len(m) < 2 {
				continue
			}
			var idxs []int64
			for i := range m {
				idxs = append(idxs, i)
			}
			sort.Slice(idxs, func(i, j int) bool { return idxs[i] < idxs[j] })
			k++
			n++
			key := fmt.Sprintf("%s | composite #%d", core.FuncName(fn), k)
			bad := ""
			for i := 0; i < len(idxs); i++ {
				for j := i + 1; j < len(idxs); j++ {
					a, b := m[idxs[i]], m[idxs[j]]
					if containsCall(a, 0) && sameExpr(a, b, 0) {
						bad = fmt.Sprintf("elements %d and %d", idxs[i], idxs[j])
					}
				}
			}
			r.Cond(bad == "", key, p.Pos(al.Pos()), fmt.Sprintf("%d elements, computed by different expressions", len(idxs)), bad+" are computed by the same call on the same arguments: one component of the declared value is used twice and the other not at all")
		}
	}
	if n == 0 {
		r.Anchor("fixed-size composites filled in html/tree")
	}
	_ = token.ADD
}
