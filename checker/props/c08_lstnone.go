package props

import (
	"fmt"
	"go/token"
	"strings"

	"golang.org/x/tools/go/ssa"

	"wrverif/core"
)

// c08ListStyleNone (R25): the name of a counter style is a case-sensitive identifier, the keyword `none` that stands
// in its place is not.  The box builder decides "no marker" by comparing the Name of the CounterStyleID with the
// constant "none"; the validator that builds that Name from an identifier (listStyleType_, also used for the style
// argument of counter() and counters()) therefore compares the folded identifier with "none" and stores the constant.
// (`list-style-type: NONE` drew the decimal marker.)
func c08ListStyleNone(c *core.Check) {
	p := c.Prog
	r := c.Rule("R25", "the keyword none of list-style-type is case-insensitive: the module compares CounterStyleID.Name with the constant \"none\" (sites counted), so css/validation.listStyleType_ compares the ASCII-lowered identifier with \"none\" and a constant \"none\" flows into the Name it returns", 1)
	fn := p.Fn("css/validation", "listStyleType_")
	if fn == nil {
		r.Anchor("css/validation.listStyleType_")
		return
	}
	isName := func(v ssa.Value) bool {
		switch x := v.(type) {
		case *ssa.UnOp:
			if fa, ok := x.X.(*ssa.FieldAddr); ok && core.FieldName(fa) == "Name" && strings.HasSuffix(fa.X.Type().String(), "CounterStyleID") {
				return true
			}
		case *ssa.Field:
			if strings.HasSuffix(x.X.Type().String(), "CounterStyleID") {
				return core.IsFieldNamed(x, "Name")
			}
		}
		return false
	}
	consumers := 0
	for f := range p.AllFuncs {
		if f.Pkg == nil || !core.InModule(f.Pkg.Pkg.Path()) {
			continue
		}
		core.Instrs(f, func(in ssa.Instruction) {
			b, ok := in.(*ssa.BinOp)
			if !ok || (b.Op != token.EQL && b.Op != token.NEQ) {
				return
			}
			for _, side := range [][2]ssa.Value{{b.X, b.Y}, {b.Y, b.X}} {
				if w, ok := core.ConstStr(side[1]); ok && w == "none" && isName(side[0]) {
					consumers++
				}
			}
		})
	}
	key := "css/validation.listStyleType_ | identifier none"
	if consumers == 0 {
		r.Skip(key, p.Pos(fn.Pos()), "no comparison of CounterStyleID.Name with the constant none found in the module: the spelling of the keyword is not relied upon")
		return
	}
	folded := false
	for _, w := range core.ComparedStrings(fn, core.IsCallNamed("AsciiLower", "ToLower")) {
		if w == "none" {
			folded = true
		}
	}
	// or a case-insensitive comparison: strings.EqualFold(name, "none") (no non-ASCII letter folds to n, o or e)
	core.Instrs(fn, func(in ssa.Instruction) {
		if call, ok := in.(*ssa.Call); ok && call.Call.StaticCallee() != nil && call.Call.StaticCallee().Name() == "EqualFold" {
			for _, a := range call.Call.Args {
				if w, ok := core.ConstStr(a); ok && w == "none" {
					folded = true
				}
			}
		}
	})
	stored := false
	var flows func(v ssa.Value, depth int) bool
	flows = func(v ssa.Value, depth int) bool {
		if depth > 4 {
			return false
		}
		if w, ok := core.ConstStr(v); ok && w == "none" {
			return true
		}
		if phi, ok := v.(*ssa.Phi); ok {
			for _, e := range phi.Edges {
				if flows(e, depth+1) {
					return true
				}
			}
		}
		return false
	}
	core.Instrs(fn, func(in ssa.Instruction) {
		if st, ok := in.(*ssa.Store); ok {
			if fa, ok := st.Addr.(*ssa.FieldAddr); ok && core.FieldName(fa) == "Name" && flows(st.Val, 0) {
				stored = true
			}
		}
	})
	r.Cond(folded && stored, key, p.Pos(fn.Pos()), fmt.Sprintf("the folded identifier is compared with none and the constant is stored (%d comparisons of the Name with none in the module)", consumers), fmt.Sprintf("the Name is the identifier as written (folded comparison with none: %v, constant stored: %v) while %d sites compare it with the constant none: `list-style-type: NONE` draws a marker", folded, stored, consumers))
}
