package props

import (
	"golang.org/x/tools/go/ssa"

	"wrverif/core"
)

// parallel lists re-sliced with the index of a loop over their sibling: function -> why the lengths agree
var c01ParallelLists = map[string]string{
	"images.RadialGradient.Layout":       "colors and positions are the two halves of the same list of colour stops: built together, re-sliced together",
	"css/validation.gridTemplateAreas": "rows of the areas grid have the same length, checked when the grid is built; the slice bounds are decided by C07.R8",
}

// c01RangeIndexSlices: the index of a `range` loop cuts the list that is ranged over.  `B[i:]` with i the index of a
// loop over another list A is in range only if B is at least as long as A at that point — which is false when B has
// just been emptied and is being refilled by the loop (the list of reported footnotes).
func c01RangeIndexSlices(c *core.Check) {
	p := c.Prog
	r := c.Rule("R20", "a range index cuts the list it ranges over: every slice expression whose lower bound is the index of a range loop is taken on the list the loop ranges over (same field of the same value, or same local), or on a named sibling list of the same length", 3)
	n := 0
	for _, fn := range p.ModFuncs {
		if fn.Blocks == nil {
			continue
		}
		fn := fn
		seen := map[string]int{}
		core.Instrs(fn, func(in ssa.Instruction) {
			sl, ok := in.(*ssa.Slice)
			if !ok || sl.Low == nil || sl.High != nil {
				return
			}
			bo, ok := sl.Low.(*ssa.BinOp)
			if !ok || bo.Referrers() == nil {
				return
			}
			phi, ok := bo.X.(*ssa.Phi)
			if !ok || phi.Comment != "rangeindex" {
				return
			}
			var ranged ssa.Value
			for _, ref := range *bo.Referrers() {
				if cmp, ok := ref.(*ssa.BinOp); ok && cmp.X == ssa.Value(bo) {
					if call, ok := cmp.Y.(*ssa.Call); ok && len(call.Call.Args) == 1 {
						if b, isB := call.Call.Value.(*ssa.Builtin); isB && b.Name() == "len" {
							ranged = call.Call.Args[0]
						}
					}
				}
			}
			if ranged == nil {
				return
			}
			n++
			root := fn
			for root.Parent() != nil {
				root = root.Parent()
			}
			key := core.FuncName(fn) + " | " + p.StmtTextAt(fn, sl.Pos())
			seen[key]++
			if seen[key] > 1 {
				key += " #2"
			}
			if ranged == sl.X {
				r.OK(key, p.Pos(sl.Pos()), "the list ranged over")
				return
			}
			// two loads of the same field are the same list only if the function never stores to that field
			if valueText(ranged) == valueText(sl.X) {
				stored := false
				if ld, ok := sl.X.(*ssa.UnOp); ok {
					if fa, ok := ld.X.(*ssa.FieldAddr); ok {
						core.Instrs(fn, func(in2 ssa.Instruction) {
							if st, ok := in2.(*ssa.Store); ok {
								if fa2, ok := st.Addr.(*ssa.FieldAddr); ok && fa2.Field == fa.Field && valueText(fa2.X) == valueText(fa.X) {
									stored = true
								}
							}
						})
					}
				}
				if !stored {
					r.OK(key, p.Pos(sl.Pos()), "the list ranged over (same field, never assigned in the function)")
					return
				}
			}
			if why, ok := c01ParallelLists[core.FuncName(root)]; ok {
				r.Skip(key, p.Pos(sl.Pos()), why)
				return
			}
			r.Fail(key, p.Pos(sl.Pos()), "the index counts the elements of "+valueText(ranged)+" but cuts "+valueText(sl.X)+", another list: out of range as soon as that list is shorter (five footnotes under `@footnote{max-height:40px}`: slice bounds out of range [2:1])")
		})
	}
	if n == 0 {
		r.Anchor("slices cut at a range index")
	}
}
