package props

import (
	"fmt"
	"go/types"
	"os"
	"sort"
	"strconv"
	"strings"
	"time"

	"golang.org/x/tools/go/ssa"

	"wrverif/core"
)

func init() { register("C01", c01) }

func c01(c *core.Check) {
	c.Explain = "Structural necessary conditions of 'rendering returns': (R1) every explicit panic that is the default of a switch or if-chain over a CSS keyword, an enum constant or a dynamic type is unreachable because the value set of its producers (validator returns refined by path conditions, initial values, computer results, field-based store sets, caller arguments; all constants of the enum; all module types implementing the interface) is included in the handled cases, with a reasoned table of the defaults that rest on invariants this analysis cannot derive; (R2) no integer division or modulo by a possibly zero divisor anywhere in the module; (R3) reference-following recursions are cycle-guarded; (R4) anticipated nil dereferences are guarded; (R5) the re-pagination loop is counted; (R6) inventory of the remaining explicit panics. Page-loop progress, stack depth of structural recursion, index errors and nil dereferences in general are not decided. Also decided: (R7) non-empty preconditions of panicking constructors; (R8) the guard contract of the SVG path interpreter (hasSetsOrMore accepts whole groups only); (R9) the running quote depth, an index, never becomes negative. Also decided: (R10) every strings.Repeat of css/counters and text has a count clamped by or tested against a constant; (R11) the automatic range of counter styles is unbounded, so the decimal last resort never falls back to itself; (R12) no function calls itself twice in one activation on what may be the same subtree (time exponential in the depth); (R13) the recursive descent of the CSS tokenizer is bounded by a depth counter; (R14) the SVG tree is built with a bounded depth. Not decided: the stack depth of the layout recursion over HTML nesting, the cost of nested flex containers."
	r2 := c.Rule("R2", "no integer division or modulo by a divisor that may be zero anywhere in the module (an integer division by zero is a run-time panic): the divisor is a non-zero constant, is tested on every path, is non-zero by construction, or every caller passes a non-zero argument; a % used as an index also needs a non-negative dividend", 26)
	divisionRuleNotes(c, r2, func(fn *ssa.Function) bool { return true }, c01DivisionNotes)

	c01Exhaustive(c)
	c01Recursion(c)
	r8 := c.Rule("R8", "the SVG path interpreter indexes its argument list only behind hasSetsOrMore(sz, …), which returns true only for a list of at least sz numbers made of whole groups of sz (an index error while drawing is a crash of the render)", 1)
	groupGuardRule(c, r8)
	r9 := c.Rule("R9", "the running quote depth, which indexes the quotes list, never becomes negative: every store into quoteDepth[0] is clamped at 0, adds a positive constant, or subtracts under a test that the depth is large enough", 2)
	counterCellRule(c, r9)
	r10 := c.Rule("R10", "sizes taken from the document are bounded before they size an allocation: colspan and rowspan are read within the limits of the HTML specification (the table grid and the collapsed-border grid are allocated with them), and every strings.Repeat of css/counters and text (pad symbols, symbolic and additive repetitions, the spaces measured for tab-size) has its count clamped by, or tested against, a constant", 8)
	spanBounds(c, r10)
	padBoundRule(c, r10)
	r11 := c.Rule("R11", "the last resort of counter rendering ends the recursion: the automatic range of a counter style, which is the range of decimal, is unbounded (its constant bounds are the smallest and the largest integer), so decimal never falls back to itself", 2)
	autoRangeRule(c, r11)
	c01Fanout(c)
	r13 := c.Rule("R13", "the recursive descent of the CSS tokenizer is bounded: every recursive call of consumeValueList goes through a guard that tests a depth counter against a constant, increments it before the call and decrements it after", 3)
	depthGuardRule(c, r13)
	r14 := c.Rule("R14", "the depth of the SVG tree is bounded where the tree is built: the recursive builder of newSVGContext passes its depth parameter on incremented and recurses only below a constant depth (every other recursive function of the package walks the tree it returns)", 1)
	depthParamRule(c, r14)
	c01AtomicInlines(c)
	c01NilImplementations(c)
	c01NilResults(c)
	c01ErrorNotPanic(c)
	c01RangeIndexSlices(c)
	c01FloatLoops(c)
	c01GrowingPlaceholders(c)
	c01AttrTag(c)
	c01StridedLoops(c)
	c01GridWidth(c)
	c01FetchRecursion(c)
	c01LoaderCycles(c)
	c01BoundedRepeats(c)
	c01OrderedSlices(c)
	c01VisitedTravels(c)
	c01EmptyGrid(c)
	c01RepeatCounts(c)
	c01RootStaysBlock(c)
	c01NilCheckedThenUsed(c)
	c01NestedSelectorBound(c)

	p := c.Prog
	r4 := c.Rule("R4", "no nil dereference the code itself anticipates: every method call through ComputedStyle.parentStyle (nil on the root element) is dominated by a nil / root test; no comma-ok type assertion to a pointer or interface discards its ok result and then dereferences the value without a nil test (module-wide)", 5)
	parentNilGuard(c, r4)
	nFns, nSites := 0, 0
	for _, fn := range p.ModFuncs {
		nFns++
		for _, site := range core.DiscardedOks(fn) {
			nSites++
			r4.Fail(core.FuncName(fn)+" | "+p.StmtTextAt(fn, site.Assert.Pos()), p.Pos(site.Use.Pos()), "the ok result of this type assertion is discarded and the asserted value is dereferenced without a nil test: when the assertion fails the value is nil")
		}
	}
	if nSites == 0 {
		r4.OK(fmt.Sprintf("%d module functions scanned for discarded ok results", nFns), "-", "no comma-ok assertion to a pointer or interface is dereferenced with its ok result unused")
	}

	r7 := c.Rule("R7", "non-empty preconditions: a function that panics when a string or slice parameter is empty is only called with a non-empty constant, under a test that keeps control away when the argument is empty, or with the caller's own parameter (the requirement then moves to the caller's callers)", 10)
	reqs, sites := p.NonEmptyRequirements()
	for _, rq := range reqs {
		r7.Skip(fmt.Sprintf("requirement | %s parameter %d", core.FuncName(rq.Fn), rq.Param), p.Pos(rq.Fn.Pos()), rq.Why)
	}
	seenSite := map[string]int{}
	for _, st := range sites {
		caller := st.Call.Parent()
		key := core.FuncName(caller) + " | " + p.StmtTextAt(caller, st.Call.Pos()) + " | " + st.Callee.Name()
		seenSite[key]++
		if seenSite[key] > 1 {
			key = fmt.Sprintf("%s #%d", key, seenSite[key])
		}
		if why, tabled := c01NonEmptyNotes[key]; tabled && !st.OK {
			r7.Skip(key, p.Pos(st.Call.Pos()), "not decided: "+why)
			continue
		}
		r7.Cond(st.OK, key, p.Pos(st.Call.Pos()), st.How, st.How+": "+core.FuncName(st.Callee)+" panics on an empty argument")
	}

	// inventory (evidence only): explicit panics outside R1 assert internal invariants this family cannot prove dead
	r6 := c.Rule("R6", "inventory, not a verdict: explicit panics of the rendering packages that are not the default of a keyword/enum/type switch decided by R1 assert internal invariants of layout and box building; they are listed per function as not decided", 0)
	perFn := map[string]int{}
	posOf := map[string]string{}
	for _, fn := range p.ModFuncs {
		if !inPkgs("html/...", "svg", "images", "text/...", "css/counters", "css/properties", "utils", "backend", "matrix")(fn) {
			continue
		}
		core.Instrs(fn, func(in ssa.Instruction) {
			if pn, ok := in.(*ssa.Panic); ok && pn.Pos().IsValid() {
				k := core.FuncName(fn)
				perFn[k]++
				if posOf[k] == "" {
					posOf[k] = p.Pos(pn.Pos())
				}
			}
		})
	}
	for k, n := range perFn {
		r6.Skip(fmt.Sprintf("%s | %d explicit panic(s)", k, n), posOf[k], "internal invariant assertion(s); reachability not decided")
	}

	r5 := c.Rule("R5", "bounded loops: the re-pagination loop of layout.layoutDocument (the loop that calls makeAllPages) is a counted loop: its counter is incremented by a positive constant on every back edge and compared with a bound defined outside the loop; every loop whose only progress is an integer division (`for v != 0 { v /= d }`) has a divisor of at least 2 (at least 1 when the dividend is decremented first)", 1)
	if ld := p.Fn("html/layout", "layoutDocument"); ld == nil {
		r5.Anchor("html/layout.layoutDocument")
	} else {
		found := false
		for _, l := range core.Loops(ld) {
			calls := false
			for b := range l.Blocks {
				for _, in := range b.Instrs {
					if call, ok := in.(*ssa.Call); ok {
						if callee := call.Call.StaticCallee(); callee != nil && callee.Name() == "makeAllPages" {
							calls = true
						}
					}
				}
			}
			if !calls {
				continue
			}
			found = true
			ok, why := core.CountedLoop(l)
			r5.Cond(ok, "html/layout.layoutDocument | re-pagination loop", p.Pos(l.Header.Instrs[0].Pos()), why, why+": pagination that keeps changing (page counters in content) would be repeated without end")
		}
		if !found {
			r5.Unknown("html/layout.layoutDocument | re-pagination loop", p.Pos(ld.Pos()), "no loop calling makeAllPages found")
		}
	}
	if n := divLoopRule(c, r5, func(fn *ssa.Function) bool { return true }); n < 2 {
		r5.Unknown("division-progress loops", "-", fmt.Sprintf("%d loops of the form `for v != 0 { v /= d }` found, 2 expected", n))
	}
}

// c01Recursion: recursions that follow references named by the document terminate on cyclic references.
func c01Recursion(c *core.Check) {
	p := c.Prog
	r3 := c.Rule("R3", "every recursion that follows a reference named by the document (a custom property by name, a <use> target by id or URL, an href chain between definitions, a counter-style fallback) is guarded against cycles: visited/in-use set tested before and filled before following, or the reference destroyed before recursing", 12)
	if rv := p.Fn("html/tree", "resolveVar"); rv == nil {
		r3.Anchor("html/tree.resolveVar")
	} else {
		ok, why := core.VisitedSetGuard(rv, func(l *ssa.Lookup) bool {
			mt, isMap := l.X.Type().Underlying().(*types.Map)
			return isMap && strings.HasSuffix(mt.Elem().String(), "properties.RawTokens")
		})
		r3.Cond(ok, "html/tree.resolveVar | computed[variableName]", p.Pos(rv.Pos()), why, why+": --a: var(--a) recurses until the stack is exhausted")
		ok2, why2 := core.DescendingRecursion(p, rv, 1)
		r3.Cond(ok2, "html/tree.resolveVar | recursion descends", p.Pos(rv.Pos()), why2, why2+": a function whose nested argument still holds a var() is rebuilt and resolved again without end")
	}
	if ru := p.Lookup("svg.(*svgContext).resolveUse"); ru == nil {
		r3.Anchor("svg.(*svgContext).resolveUse")
	} else {
		ok, why := core.GuardedRecursion(p, ru, func(s ssa.Value) bool {
			u, isLoad := s.(*ssa.UnOp)
			if !isLoad {
				return false
			}
			fa, isField := u.X.(*ssa.FieldAddr)
			return isField && core.FieldName(fa) == "inUseIDs"
		})
		r3.Cond(ok, "svg.(*svgContext).resolveUse | processNode(&useTarget)", p.Pos(ru.Pos()), why, why+": a <use> that (indirectly) references itself is expanded until the stack is exhausted")
	}
	if ie := p.Lookup("svg.(*svgContext).inheritElement"); ie == nil {
		r3.Anchor("svg.(*svgContext).inheritElement")
	} else {
		ok, why := core.DeleteBeforeRecursion(p, ie, "href")
		r3.Cond(ok, "svg.(*svgContext).inheritElement | inheritElement(parent)", p.Pos(ie.Pos()), why, why+": two gradients referencing each other through href recurse until the stack is exhausted")
	}
	c18DrawCycles(c, r3)
	if ps := p.Fn("html/tree", "preprocessStylesheetImports"); ps == nil {
		r3.Anchor("html/tree.preprocessStylesheetImports")
	} else {
		ok, why := core.GuardedCall(p, ps, "newCSSImports")
		r3.Cond(ok, "html/tree.preprocessStylesheetImports | @import → newCSSImports", p.Pos(ps.Pos()), why, why+": a style sheet that imports itself is fetched and parsed until the stack is exhausted")
	}
	if rc := p.Lookup("css/counters.CounterStyle.resolveCounter"); rc == nil {
		r3.Anchor("css/counters.CounterStyle.resolveCounter")
	} else {
		ok, why := core.SetGuardedResolver(p, rc)
		r3.Cond(ok, "css/counters.CounterStyle.resolveCounter | previousTypes", p.Pos(rc.Pos()), why, why+": the fallback chain of renderValue is only finite because each resolved name is new")
	}
	for _, name := range []string{"css/counters.CounterStyle.resolveCounter", "css/counters.CounterStyle.renderValue"} {
		if fn := p.Lookup(name); fn != nil {
			ok, why := core.LoopVisitedGuard(p, fn, func(l *ssa.Lookup) bool { return l.X == ssa.Value(fn.Params[0]) })
			r3.Cond(ok, name+" | extends loop", p.Pos(fn.Pos()), why, why+": counter styles extending each other in a cycle are followed forever")
		}
	}
	// renderValue recurses on fallbacks only through resolveCounter with the same set
	if rv := p.Lookup("css/counters.CounterStyle.renderValue"); rv == nil {
		r3.Anchor("css/counters.CounterStyle.renderValue")
	} else {
		rc := p.Lookup("css/counters.CounterStyle.resolveCounter")
		n, bad := 0, ""
		core.Instrs(rv, func(in ssa.Instruction) {
			call, ok := in.(*ssa.Call)
			if !ok || call.Call.StaticCallee() != rv {
				return
			}
			n++
			// args: receiver, value, counter, set
			if len(call.Call.Args) != 4 {
				bad = "unexpected arity"
				return
			}
			inner, ok := call.Call.Args[2].(*ssa.Call)
			if !ok || inner.Call.StaticCallee() != rc || len(inner.Call.Args) != 3 || inner.Call.Args[2] != call.Call.Args[3] {
				bad = "the recursive call at " + p.Pos(call.Pos()) + " does not take its counter from resolveCounter(…, previousTypes) with the set it passes on"
				return
			}
			if k, isConst := call.Call.Args[3].(*ssa.Const); isConst && k.Value == nil {
				bad = "the recursive call at " + p.Pos(call.Pos()) + " passes a nil set"
			}
		})
		r3.Cond(n >= 3 && bad == "", "css/counters.CounterStyle.renderValue | fallback recursion", p.Pos(rv.Pos()), fmt.Sprintf("%d recursive calls, each on resolveCounter(fallback, previousTypes) with the same set", n), fmt.Sprintf("%d recursive calls found; %s", n, bad))
	}
}

// c01GuardNotes: reasoned entries for panicking defaults (key: function | panic statement).
//
//	exclude: keywords / constants / types the producers can yield but an invariant keeps away from this consumer
//	notDecided: the producer set cannot be computed by this analysis; the site is named in the evidence, not claimed
type c01Note struct {
	exclude    map[string]string
	notDecided string
}

const (
	c01ComputedLength = "the switched value is a computed length: the computers of html/tree convert every absolute and font-relative unit to px and keep percentages (C04.R3/R4 decide that length_ has a case for every unit a validator can emit), so only px, % or the tested keyword arrive; that every style read here went through those computers is an invariant of the style computation this rule does not re-derive"
	c01BoxClass       = "which box classes reach this function is an invariant of box building and of the layout dispatch (the callers select the box class before calling); it is not a set this rule can compute from producers"
)

var c01GuardNotes = map[string]c01Note{
	`css/properties.ContentProperty.AsStrings | panic(fmt.Sprintf("invalid content (expected []string): %v", c.Content))`: {notDecided: "the dynamic type of Content is correlated with the Type tag of the same struct (callers switch on Type first); the field-based sets do not track that correlation"},
	`css/properties.ResolvePercentage | panic(fmt.Sprintf("expected percentage, got %d", value.Unit))`:                    {notDecided: c01ComputedLength},
	`html/boxes.BoxType.AnonymousFrom | panic("unsupported box type in AnonymousFrom " + t.String())`:                     {notDecided: c01BoxClass},
	`html/document.NewStackingContextFromBox$1 | panic(fmt.Sprintf("expected auto z-index, got %v", style.GetZIndex()))`:  {notDecided: "asserts the CSS rule that a non-positioned box has z-index auto after blockification; a relation between two properties of one style, not a producer set"},
	`html/document.drawContext.drawInlineLevel | panic(fmt.Sprintf("unexpected box %s", box_.Type()))`:                    {notDecided: c01BoxClass},
	`html/layout.skipFirstWhitespace | panic(fmt.Sprintf("unexpected skip inside %s", box.Type()))`:                       {notDecided: c01BoxClass},
	`html/layout.atomicBox | panic(fmt.Sprintf("Layout for %s not handled yet", box))`:                                    {notDecided: c01BoxClass},
	`html/layout.(*widths).add | panic("unexpected key " + key)`:                                                          {notDecided: "called with the float value of a child for which IsFloated() holds, which excludes `none` through a method call this analysis does not see through; that a `float: footnote` box never stays a child of a line (the builder moves footnotes out and resets their float) is an invariant of box building"},
	`html/layout.lineBoxVerticality | panic(fmt.Sprintf("expected top or bottom, got %v", va))`:                           {notDecided: "iterates over the sub-trees collected by inlineBoxVerticality under the test vertical-align ∈ {top, bottom}; a relation between two functions through a slice of boxes"},
	`html/layout.columnsLayout | panic(fmt.Sprintf("expected Px got %v", height_))`:                                       {notDecided: c01ComputedLength},
	`html/layout.blockLevelLayoutSwitch | panic(fmt.Sprintf("Layout for %s not handled yet", box_))`:                      {notDecided: c01BoxClass},
	`html/layout.minContentWidth | panic(fmt.Sprintf("min-content width for %T not handled yet", box))`:                   {notDecided: c01BoxClass},
	`html/layout.blockContentWidth | panic(fmt.Sprintf("expected Px got %d", width.Unit))`:                                {notDecided: c01ComputedLength},
	`html/layout.marginWidth | panic(fmt.Sprintf("expected Px or Percentage, got %d", styleValue.Unit))`:                  {notDecided: c01ComputedLength},
	`html/layout.columnGroupContentWidth | panic(fmt.Sprintf("expected Px got %d", width.Unit))`:                          {notDecided: c01ComputedLength},
	`html/layout.replacedMinContentWidth | panic(fmt.Sprintf("expected Px got %d", height.Unit))`:                         {notDecided: c01ComputedLength},
	`html/layout.replacedMinContentWidth | panic(fmt.Sprintf("expected Px got %d", width.Unit))`:                          {notDecided: c01ComputedLength},
	`html/layout.replacedMaxContentWidth | panic(fmt.Sprintf("expected Px got %d", height.Unit))`:                         {notDecided: c01ComputedLength},
	`html/layout.replacedMaxContentWidth | panic(fmt.Sprintf("expected Px got %d", width.Unit))`:                          {notDecided: c01ComputedLength},
	`html/layout.flexLayout | panic(fmt.Sprintf("unexpected Style[axis] : %v", styleAxis))`:                               {notDecided: c01ComputedLength},
	`html/layout.replacedBoxWidth_ | panic(fmt.Sprintf("expected ReplacedBox instance, got %s", box_))`:                   {notDecided: c01BoxClass},
	`html/layout.replacedBoxHeight_ | panic(fmt.Sprintf("expected ReplacedBox instance, got %s", box_))`:                  {notDecided: c01BoxClass},
	`html/layout.resolvePercentages | panic(fmt.Sprintf("expected percentage, got %d", height.Unit))`:                     {notDecided: c01ComputedLength},
	`svg.newGradient | panic("unexpected node tag " + node.tag)`:                                                          {notDecided: "called from the definitions pass under a test of the element tag; the tag comes from the parsed XML (golang.org/x/net/html), outside the module"},
}

func c01Exhaustive(c *core.Check) {
	p := c.Prog
	r1 := c.Rule("R1", "every explicit panic that is the default of a switch / if-chain over a CSS keyword, an enum constant or a dynamic type is unreachable: the set of values the producers can yield (what the property's validators return, its initial value, what its computer returns; every value stored in the struct field read; every constant of the enum type; every module type implementing the interface) is included in the set of handled cases", 12)
	ss := core.NewStrSets(p)
	pi := newPropIndex(p, ss)
	if pi.err != "" {
		r1.Anchor("property tables: " + pi.err)
		return
	}
	ss.Accessor = pi.accessorHook
	keyOf := func(fn *ssa.Function, pn *ssa.Panic) string {
		return core.FuncName(fn) + " | " + p.StmtTextAt(fn, pn.Pos())
	}
	seenKey := map[string]int{}
	uniq := func(k string) string {
		seenKey[k]++
		if seenKey[k] > 1 {
			return fmt.Sprintf("%s #%d", k, seenKey[k])
		}
		return k
	}
	decided := 0
	for _, fn := range p.ModFuncs {
		t0 := time.Now()
		for _, kg := range core.KeywordGuards(fn) {
			key := uniq(keyOf(fn, kg.Panic))
			pos := p.Pos(kg.Panic.Pos())
			note := c01NoteFor(key)
			if note.notDecided != "" {
				r1.Skip(key, pos, "not decided: "+note.notDecided)
				continue
			}
			var prod core.StrSet
			if tp, ok := c01TabledProducers[core.FuncName(fn)]; ok {
				prod = tp(p, ss)
			} else {
				prod = ss.Base(fn, kg.Value, 0)
			}
			if prod.Top {
				r1.Unknown(key, pos, "the keywords reaching this panicking default cannot be computed: "+prod.Why)
				continue
			}
			var missing, excluded []string
			for _, k := range prod.List() {
				if kg.Accept[k] {
					continue
				}
				if why, ok := note.exclude[k]; ok {
					excluded = append(excluded, fmt.Sprintf("%q (%s)", k, why))
					continue
				}
				missing = append(missing, strconv.Quote(k))
			}
			if len(missing) > 0 {
				r1.Fail(key, pos, fmt.Sprintf("the producers can yield %s, which no case handles: the default panics (producers: %s; handled: %s)", strings.Join(missing, ", "), prod, strings.Join(sortedKeys(kg.Accept), " ")))
				continue
			}
			decided++
			msg := fmt.Sprintf("producers %s ⊆ handled {%s}", prod, strings.Join(sortedKeys(kg.Accept), " "))
			if len(excluded) > 0 {
				msg += "; excluded by a stated invariant: " + strings.Join(excluded, ", ")
			}
			r1.OK(key, pos, msg)
		}
		for _, eg := range core.EnumGuards(fn) {
			key := uniq(keyOf(fn, eg.Panic))
			pos := p.Pos(eg.Panic.Pos())
			note := c01NoteFor(key)
			obj := eg.Type.Obj()
			consts := map[int64]*types.Const{}
			if obj.Pkg() != nil {
				consts = p.ConstsOfType(core.Rel(obj.Pkg().Path()), obj.Name())
			}
			if len(consts) < 2 {
				r1.Unknown(key, pos, "no constants found for "+obj.Name())
				continue
			}
			var missing []string
			for v, k := range consts {
				if !eg.Accept[v] {
					missing = append(missing, k.Name())
				}
			}
			sort.Strings(missing)
			if len(missing) == 0 {
				decided++
				r1.OK(key, pos, fmt.Sprintf("all %d constants of %s are handled", len(consts), obj.Name()))
				continue
			}
			if note.notDecided != "" {
				r1.Skip(key, pos, "not decided: "+note.notDecided+" (unhandled constants: "+strings.Join(missing, " ")+")")
				continue
			}
			r1.Fail(key, pos, fmt.Sprintf("constants of %s without a case before the panicking default: %s", obj.Name(), strings.Join(missing, " ")))
		}
		for _, tg := range core.TypeGuards(fn) {
			key := uniq(keyOf(fn, tg.Panic))
			pos := p.Pos(tg.Panic.Pos())
			note := c01NoteFor(key)
			iface, ok := tg.Value.Type().Underlying().(*types.Interface)
			if !ok {
				r1.Unknown(key, pos, "the switched value is not an interface")
				continue
			}
			if note.notDecided != "" {
				r1.Skip(key, pos, "not decided: "+note.notDecided)
				continue
			}
			var missing []string
			n := 0
			for _, t := range c01Implementers(p, iface) {
				n++
				handled := false
				for _, a := range tg.Accept {
					if types.Identical(a, t) {
						handled = true
					} else if ai, ok := a.Underlying().(*types.Interface); ok && types.Implements(t, ai) {
						handled = true
					}
				}
				if !handled {
					missing = append(missing, types.TypeString(t, func(pk *types.Package) string { return pk.Name() }))
				}
			}
			if len(missing) > 0 {
				r1.Fail(key, pos, "module types implementing the switched interface without a case before the panicking default: "+strings.Join(missing, ", "))
				continue
			}
			decided++
			r1.OK(key, pos, fmt.Sprintf("all %d module types implementing the interface are handled", n))
		}
		if d := time.Since(t0); d > time.Second && os.Getenv("WRV_TIMING") != "" {
			fmt.Fprintf(os.Stderr, "TIMING %s %v\n", core.FuncName(fn), d)
		}
	}
	if decided < 14 {
		r1.Unknown("decided instances", "-", fmt.Sprintf("only %d panicking defaults decided, 14 confirmed by hand", decided))
	}
	for k := range c01GuardNotes {
		if seenKey[k] == 0 {
			r1.Skip("stale note "+k, "-", "the reasoned table names a panicking default that no longer exists (not a violation: the table entry is simply unused)")
		}
	}
}

func sortedKeys(m map[string]bool) []string {
	var out []string
	for k := range m {
		out = append(out, k)
	}
	sort.Strings(out)
	return out
}

// c01Implementers lists the module's named types T or *T (non-interface) implementing iface.
func c01Implementers(p *core.Prog, iface *types.Interface) []types.Type {
	var out []types.Type
	for _, pk := range p.Pkgs {
		sc := pk.Types.Scope()
		for _, name := range sc.Names() {
			tn, ok := sc.Lookup(name).(*types.TypeName)
			if !ok || tn.IsAlias() {
				continue
			}
			t := tn.Type()
			if _, isI := t.Underlying().(*types.Interface); isI {
				continue
			}
			if named, ok := t.(*types.Named); ok && named.TypeParams().Len() > 0 {
				continue
			}
			if types.Implements(t, iface) {
				out = append(out, t)
			} else if pt := types.NewPointer(t); types.Implements(pt, iface) {
				out = append(out, pt)
			}
		}
	}
	return out
}

// c01TabledProducers: consumers whose keyword arrives through correlated struct fields (a tag field selects what the
// content field means), where the field-based sets are too coarse: the producers are named here and computed from them.
var c01TabledProducers = map[string]func(p *core.Prog, ss *core.StrSets) core.StrSet{
	"html/boxes.extractText": c01ExtractTextProducers,
}

// extractText receives (a) the Content of a ContentProperty whose Type is "content()" and (b) the text-style argument
// that validation.getTarget stores for target-text().
func c01ExtractTextProducers(p *core.Prog, ss *core.StrSets) core.StrSet {
	out := core.StrSet{S: map[string]bool{}}
	n := 0
	// (a) struct literals pr.ContentProperty{Type: "content()", Content: X}
	for _, fn := range p.ModFuncs {
		core.Instrs(fn, func(in ssa.Instruction) {
			st, ok := in.(*ssa.Store)
			if !ok {
				return
			}
			fa, ok := st.Addr.(*ssa.FieldAddr)
			if !ok || fa.Field != 1 {
				return
			}
			if !strings.HasSuffix(fa.X.Type().String(), "css/properties.ContentProperty") {
				return
			}
			tag, ok := core.ConstStr(st.Val)
			if !ok || tag != "content()" {
				return
			}
			// the store into Content of the same variable
			if fa.X.Referrers() == nil {
				return
			}
			for _, r := range *fa.X.Referrers() {
				fb, ok := r.(*ssa.FieldAddr)
				if !ok || fb.Field != 0 || fb.Referrers() == nil {
					continue
				}
				for _, rr := range *fb.Referrers() {
					if s2, ok := rr.(*ssa.Store); ok && s2.Addr == ssa.Value(fb) {
						n++
						one := ss.Of(fn, s2.Val, s2.Block(), 0)
						if one.Top {
							one.Why = core.FuncName(fn) + " at " + p.Pos(s2.Pos()) + ": " + one.Why
						}
						out = out.Union(one)
					}
				}
			}
		})
	}
	if n < 3 {
		return core.StrSet{Top: true, Why: fmt.Sprintf("only %d ContentProperty{Type: \"content()\"} literals found (3 expected)", n)}
	}
	// (b) getTarget: the SContentProp{String: content} appended outside the target-counter branch
	fn := p.Lookup("css/validation.getTarget")
	if fn == nil {
		return core.StrSet{Top: true, Why: "css/validation.getTarget not found"}
	}
	var prefixAtom ssa.Value
	for _, a := range core.CondAtoms(fn) {
		if call, ok := a.(*ssa.Call); ok && core.CalleeName(call) == "strings.HasPrefix" {
			prefixAtom = a
		}
	}
	if prefixAtom == nil {
		return core.StrSet{Top: true, Why: "getTarget: the strings.HasPrefix(name, \"target-counter\") test was not found"}
	}
	reach := core.ForwardReach(fn.Blocks[0], map[ssa.Value]bool{prefixAtom: false}, nil)
	m := 0
	core.Instrs(fn, func(in ssa.Instruction) {
		st, ok := in.(*ssa.Store)
		if !ok || !reach[st.Block()] {
			return
		}
		fa, ok := st.Addr.(*ssa.FieldAddr)
		if !ok || !strings.HasSuffix(fa.X.Type().String(), "css/properties.SContentProp") || !isStr(st.Val.Type()) {
			return
		}
		m++
		out = out.Union(ss.Of(fn, st.Val, st.Block(), 0))
	})
	if m == 0 {
		return core.StrSet{Top: true, Why: "getTarget: no text-style argument store found"}
	}
	return out
}

func isStr(t types.Type) bool {
	b, ok := t.Underlying().(*types.Basic)
	return ok && b.Info()&types.IsString != 0
}

// c01NoteFor finds the reasoned entry of a panicking default: by function and statement text, else — when the text of
// the panic statement was edited — by function alone, provided the function has a single entry or all its entries
// give the same reason.
func c01NoteFor(key string) c01Note {
	k := stripN(key)
	if n, ok := c01GuardNotes[k]; ok {
		return n
	}
	fn := k
	if i := strings.Index(k, " | "); i > 0 {
		fn = k[:i]
	}
	var found []c01Note
	for nk, n := range c01GuardNotes {
		if strings.HasPrefix(nk, fn+" | ") {
			found = append(found, n)
		}
	}
	if len(found) == 0 {
		return c01Note{}
	}
	for _, n := range found[1:] {
		if n.notDecided != found[0].notDecided {
			return c01Note{}
		}
	}
	return found[0]
}

// stripN removes the " #N" suffix distinguishing several guards of the same panic.
func stripN(k string) string {
	if i := strings.LastIndex(k, " #"); i > 0 {
		if _, err := strconv.Atoi(k[i+2:]); err == nil {
			return k[:i]
		}
	}
	return k
}

// divisions whose divisor is the length of a style list or of a gradient's stop list: non-empty by a data invariant
var c01DivisionNotes = map[string]string{
	"css/properties.(*GridAutoIter).Next | gai.pos % len(gai.src)":          "src is the grid-auto-rows/columns value: the validator returns at least one track size and the initial value has one entry; non-emptiness of a validated list is a value invariant this rule does not derive",
	"css/properties.(*GridAutoIter).Next | index by gai.pos % len(gai.src)": "pos starts at 0 in Cycle() and is only incremented; a field of a heap object, outside the local non-negativity facts",
	"html/layout.cycle | i % N":                                             "N is the length of a background-* list of the style (layoutBoxBackgrounds): validators return one entry per comma-separated layer, at least one, and the initial values have one entry; non-emptiness of a validated list is a value invariant this rule does not derive",
	"svg.GradientSpread.LinearGradient | i % len(nextColors)":               "nextColors is built from colors, which holds at least two stops: both callers (images.LinearGradient.Layout, svg.(*paintServer) gradients) return before this call for fewer stops, and gradientAverageColor states the same precondition; a length invariant across packages",
	"svg.GradientSpread.LinearGradient | i % len(previousColors)":           "same as nextColors",
}

// call sites whose argument is non-empty by a relation this rule does not track
var c01NonEmptyNotes = map[string]string{
	"html/layout.splitTextBox | box = box.CopyWithText(newText) | CopyWithText": "newText is the text of the first line and the call is made under length > 0, the number of runes of that line as returned by the same SplitFirstLine call: a relation between two results of the text engine",
}
