// Package props holds one file per property: rule instances and specification oracles.
package props

import "wrverif/core"

// Registry maps property ids to their rule sets.
var Registry = map[string]func(*core.Check){}

func register(id string, f func(*core.Check)) { Registry[id] = f }
