package props

import (
	"fmt"
	"go/token"
	"go/types"
	"math/big"
	"strings"

	"golang.org/x/tools/go/ssa"

	"wrverif/core"
)

// c12PageBox folds layout.pageWidthOrHeight (the used margins and content size of a page box or margin box along one
// axis, CSS Paged Media §3.3 / CSS 2.1 §10.3.3 without the ltr asymmetry) for the 8 combinations of `auto` among the
// content size and the two margins: whenever something is auto, margins + padding + border + content equal the
// size of the containing block, so the page box has the declared size.
func c12PageBox(c *core.Check) {
	p := c.Prog
	r := c.Rule("R5", "layout.pageWidthOrHeight, folded symbolically for the 8 combinations of `auto` among the content size and the two margins of a page (or margin) box along one axis: an auto content size takes what the margins (auto ones being 0), padding and border leave of the page size; two auto margins share the remaining space equally; one auto margin takes it; nothing else changes — so the page box fills the declared page size exactly whenever a value is auto", 6)
	fn := p.Fn("html/layout", "pageWidthOrHeight")
	pk := p.ByPath["html/layout"]
	if fn == nil || pk == nil || pk.Types.Scope().Lookup("orientedBox") == nil {
		r.Anchor("html/layout.pageWidthOrHeight")
		return
	}
	obT := pk.Types.Scope().Lookup("orientedBox").Type()
	st := obT.Underlying().(*types.Struct)
	idx := map[string]int{}
	for i := 0; i < st.NumFields(); i++ {
		idx[st.Field(i).Name()] = i
	}
	for _, f := range []string{"marginA", "marginB", "inner", "paddingPlusBorder"} {
		if _, ok := idx[f]; !ok {
			r.Anchor("html/layout.orientedBox." + f)
			return
		}
	}
	auto := core.BoolV(true) // pr.AutoF is the constant special(true) boxed in a MaybeFloat
	sym := core.SymP
	cb, pb := sym("cb"), sym("pb")
	half := core.PolyConst(big.NewRat(1, 2))
	for mask := 0; mask < 8; mask++ {
		iAuto, aAuto, bAuto := mask&1 != 0, mask&2 != 0, mask&4 != 0
		key := fmt.Sprintf("pageWidthOrHeight | content %s, first margin %s, second margin %s", autoS(iAuto), autoS(aAuto), autoS(bAuto))
		val := func(isAuto bool, s string) core.AV {
			if isAuto {
				return auto
			}
			return sym(s)
		}
		agg := core.ZeroOf(obT).(core.Agg)
		agg.E[idx["inner"]] = val(iAuto, "inner")
		agg.E[idx["marginA"]] = val(aAuto, "mA")
		agg.E[idx["marginB"]] = val(bAuto, "mB")
		agg.E[idx["paddingPlusBorder"]] = pb
		cell := &core.Cell{V: agg}
		ptr := core.Ptr{C: cell}
		badV := ""
		f := &core.Folder{MaxDepth: 1}
		f.Invoke = func(_ *core.Folder, call *ssa.Call, recv core.AV, args []core.AV) (core.AV, bool) {
			switch call.Call.Method.Name() {
			case "baseBox":
				return ptr, true
			case "restoreBoxAttributes":
				return core.NilV{}, true
			case "V":
				if pv, ok := recv.(core.Poly); ok {
					return pv, true
				}
				badV = "V() is taken of an auto value at " + p.Pos(call.Pos())
				return core.TopV{Why: "V() of auto"}, true
			}
			return nil, false
		}
		f.Call = func(_ *core.Folder, call *ssa.Call, args []core.AV) (core.AV, bool) {
			if cal := call.Call.StaticCallee(); cal != nil && cal.Name() == "V" && len(args) == 1 {
				if pv, ok := args[0].(core.Poly); ok {
					return pv, true
				}
				badV = "V() is taken of an auto value at " + p.Pos(call.Pos())
				return core.TopV{Why: "V() of auto"}, true
			}
			return nil, false
		}
		f.Cmp = func(op token.Token, x, y core.AV) (bool, bool) {
			_, xa := x.(core.BoolV)
			_, ya := y.(core.BoolV)
			if xa || ya {
				eq := xa && ya
				switch op {
				case token.EQL:
					return eq, true
				case token.NEQ:
					return !eq, true
				}
			}
			return false, false
		}
		if _, err := f.Fold(fn, []core.AV{ptr, cb}); err != nil {
			r.Unknown(key, p.Pos(fn.Pos()), "could not be folded: "+err.Error())
			continue
		}
		if badV != "" {
			r.Fail(key, p.Pos(fn.Pos()), badV)
			continue
		}
		out := cell.V.(core.Agg)
		// expectations
		mA, mB, inner := val(aAuto, "mA"), val(bAuto, "mB"), val(iAuto, "inner")
		zero := core.Num(0)
		rest := cb.Add(pb.Neg())
		switch {
		case iAuto:
			if aAuto {
				mA = zero
			}
			if bAuto {
				mB = zero
			}
			inner = rest.Add(mA.(core.Poly).Neg()).Add(mB.(core.Poly).Neg())
		case aAuto && bAuto:
			h := rest.Add(sym("inner").Neg()).Mul(half)
			mA, mB = h, h
		case aAuto:
			mA = rest.Add(sym("inner").Neg()).Add(sym("mB").Neg())
		case bAuto:
			mB = rest.Add(sym("inner").Neg()).Add(sym("mA").Neg())
		}
		var diffs []string
		for _, chk := range []struct {
			field string
			want  core.AV
		}{{"marginA", mA}, {"marginB", mB}, {"inner", inner}, {"paddingPlusBorder", pb}} {
			g := out.E[idx[chk.field]]
			if core.AVString(g) != core.AVString(chk.want) {
				diffs = append(diffs, fmt.Sprintf("%s = %s, specified %s", chk.field, core.AVString(g), core.AVString(chk.want)))
			}
		}
		// the declared size is filled whenever something was auto
		if iAuto || aAuto || bAuto {
			a, okA := out.E[idx["marginA"]].(core.Poly)
			b, okB := out.E[idx["marginB"]].(core.Poly)
			in, okI := out.E[idx["inner"]].(core.Poly)
			if okA && okB && okI {
				if sum := a.Add(b).Add(in).Add(pb); !sum.Equal(cb) {
					diffs = append(diffs, "margins + padding + border + content = "+sum.String()+", not the page size cb")
				}
			}
		}
		r.Cond(len(diffs) == 0, key, p.Pos(fn.Pos()), "used values as specified; the box fills the page size", strings.Join(diffs, "; "))
	}
}
