package props

import (
	"go/token"
	"go/types"

	"golang.org/x/tools/go/ssa"

	"wrverif/core"
)

// c08RawArguments: the arguments of a function or block token are a raw component value list: white space and
// comments are part of it (`url( "a.png" )`, `running( header )`).  Reading such a list at a fixed position, or
// testing its length against a constant, makes spelling matter; the module's idiom is to go through
// RemoveWhitespace / ParseFunction / SplitOnComma first (contradiction rule: 12 of the 14 readers did).
func c08RawArguments(c *core.Check) {
	p := c.Prog
	r := c.Rule("R13", "white space and comments inside a function are irrelevant: in css/validation and html/tree no list read from the Arguments field of a token is indexed at a constant position, sliced with constant bounds or has its length compared with a constant before white space and comments are removed from it", 12)
	n := 0
	for _, pkg := range []string{"css/validation", "html/tree"} {
		for _, fn := range p.FuncsOfPkg(pkg) {
			if fn.Blocks == nil {
				continue
			}
			fn := fn
			core.Instrs(fn, func(in ssa.Instruction) {
				var raw ssa.Value
				switch x := in.(type) {
				case *ssa.Field:
					if st, ok := x.X.Type().Underlying().(*types.Struct); ok && st.Field(x.Field).Name() == "Arguments" {
						raw = x
					}
				case *ssa.UnOp:
					if fa, ok := x.X.(*ssa.FieldAddr); ok && x.Op == token.MUL && core.FieldName(fa) == "Arguments" {
						raw = x
					}
				}
				if raw == nil {
					return
				}
				if sl, ok := raw.Type().Underlying().(*types.Slice); !ok || sl == nil {
					return
				}
				n++
				bad := ""
				for _, ref := range *raw.Referrers() {
					switch u := ref.(type) {
					case *ssa.IndexAddr:
						if _, isK := core.ConstInt(u.Index); isK && u.X == raw {
							bad = "indexed at a constant position"
						}
					case *ssa.Slice:
						if u.X == raw {
							if _, isK := core.ConstInt(u.Low); u.Low != nil && isK {
								bad = "sliced with a constant bound"
							}
							if _, isK := core.ConstInt(u.High); u.High != nil && isK {
								bad = "sliced with a constant bound"
							}
						}
					case *ssa.Call:
						if b, ok := u.Call.Value.(*ssa.Builtin); ok && b.Name() == "len" && u.Referrers() != nil {
							for _, lr := range *u.Referrers() {
								lr := lr
								// through the `L := len(...)` local
								check := func(cmp ssa.Instruction) {
									if bo, ok := cmp.(*ssa.BinOp); ok {
										switch bo.Op {
										case token.EQL, token.NEQ, token.LSS, token.LEQ, token.GTR, token.GEQ:
											if k, isK := core.ConstInt(bo.Y); isK && k > 0 {
												bad = "its length is compared with a constant"
											}
											if k, isK := core.ConstInt(bo.X); isK && k > 0 {
												bad = "its length is compared with a constant"
											}
										}
									}
								}
								check(lr)
							}
						}
					}
				}
				key := core.FuncName(fn) + " | " + p.StmtTextAt(fn, in.Pos())
				r.Cond(bad == "", key, p.Pos(in.Pos()), "the raw list is only handed on (to RemoveWhitespace, ParseFunction, a range loop)", "the raw argument list is "+bad+": white space or a comment after the opening parenthesis changes what is read (`url( \"a.png\" )`, `running( header )` are refused while `url(\"a.png\")`, `running(header)` are accepted)")
			})
		}
	}
	if n == 0 {
		r.Anchor("loads of the Arguments field in css/validation and html/tree")
	}
}

// c08UnrecognisedLength: getLength returns the zero Dimension for a token that is not a length.  A validator that
// converts that result to a value without asking IsNone() accepts any token as 0: an invalid declaration is then kept
// and overrides an earlier valid one (`tab-size: 4; tab-size: foo` gave 0).
func c08UnrecognisedLength(c *core.Check) {
	p := c.Prog
	r := c.Rule("R14", "an unrecognised token is not a length of zero: in css/validation every result of getLength that is turned into a property value with ToValue() is first tested with IsNone(), and converted only where it is not none", 23)
	gl := p.Fn("css/validation", "getLength")
	if gl == nil {
		r.Anchor("css/validation.getLength")
		return
	}
	n := 0
	for _, fn := range p.FuncsOfPkg("css/validation") {
		if fn.Blocks == nil {
			continue
		}
		fn := fn
		same := func(a, b ssa.Value) bool {
			if a == b {
				return true
			}
			// loads of the same local
			la, ok1 := a.(*ssa.UnOp)
			lb, ok2 := b.(*ssa.UnOp)
			return ok1 && ok2 && la.X == lb.X
		}
		fromGetLength := func(v ssa.Value) bool {
			return core.DerivesFrom(v, func(x ssa.Value) bool {
				call, ok := x.(*ssa.Call)
				return ok && call.Call.StaticCallee() == gl
			})
		}
		core.Instrs(fn, func(in ssa.Instruction) {
			call, ok := in.(*ssa.Call)
			if !ok || call.Call.StaticCallee() == nil || call.Call.StaticCallee().Name() != "ToValue" || len(call.Call.Args) != 1 {
				return
			}
			v := call.Call.Args[0]
			if !fromGetLength(v) {
				return
			}
			n++
			guarded := false
			for _, b := range fn.Blocks {
				ifi, isIf := b.Instrs[len(b.Instrs)-1].(*ssa.If)
				if !isIf {
					continue
				}
				cond := ifi.Cond
				neg := false
				if u, ok := cond.(*ssa.UnOp); ok && u.Op == token.NOT {
					cond, neg = u.X, true
				}
				ic, ok := cond.(*ssa.Call)
				if !ok || ic.Call.StaticCallee() == nil || ic.Call.StaticCallee().Name() != "IsNone" || len(ic.Call.Args) != 1 || !same(ic.Call.Args[0], v) {
					continue
				}
				succ := b.Succs[1] // IsNone() false
				if neg {
					succ = b.Succs[0]
				}
				if len(succ.Preds) == 1 && (succ == call.Block() || succ.Dominates(call.Block())) {
					guarded = true
				}
			}
			// or the converted value itself is asked (v := x.ToValue(); if v.IsNone() { … })
			if !guarded {
				core.Instrs(fn, func(in2 ssa.Instruction) {
					ic, ok := in2.(*ssa.Call)
					if !ok || ic.Call.StaticCallee() == nil || ic.Call.StaticCallee().Name() != "IsNone" || len(ic.Call.Args) != 1 {
						return
					}
					a := ic.Call.Args[0]
					if a == ssa.Value(call) {
						guarded = true
					}
					if ld, ok := a.(*ssa.UnOp); ok {
						for _, st := range core.StoresTo(ld.X) {
							if st == ssa.Value(call) {
								guarded = true
							}
						}
					}
				})
			}
			r.Cond(guarded, core.FuncName(fn)+" | "+p.StmtTextAt(fn, call.Pos()), p.Pos(call.Pos()), "converted only where IsNone() is false", "the result of getLength becomes the value of the property without an IsNone() test: a token that is not a length is accepted as 0 and the invalid declaration overrides the valid one before it")
		})
	}
	if n == 0 {
		r.Anchor("css/validation: getLength(…).ToValue()")
	}
}
