package props

import (
	"fmt"
	"go/token"

	"golang.org/x/tools/go/ssa"

	"wrverif/core"
)

// c18PositiveRadii (R18): a negative radius is invalid in SVG (rx/ry of rect and ellipse, r of circle); it is
// handled like the value that disables the feature, zero.  In the draw methods of rect and ellipse the outline that
// uses the radii (the first MoveTo) is reached only on paths where each of the two results of radii() was decided
// to be positive by a comparison with zero: `rx == 0` alone lets rx = -5 through, and the outline is then traced
// outside of the rectangle (rect) or as the circle of radius 5 (circle).
func c18PositiveRadii(c *core.Check) {
	p := c.Prog
	r := c.Rule("R18", "negative radii are invalid: in svg.rect.draw and svg.ellipse.draw the block of the first MoveTo is not reached when either result of radii() is negative or zero (replayed for both signs on each radius: the comparisons with zero get the truth that sign gives them)", 2)
	for _, typ := range []string{"rect", "ellipse"} {
		fn := p.Method("svg", typ, "draw")
		if fn == nil {
			r.Anchor("svg." + typ + ".draw")
			continue
		}
		key := fmt.Sprintf("svg.%s.draw | radii() > 0 before the outline", typ)
		var radii []ssa.Value
		var site *ssa.BasicBlock
		core.Instrs(fn, func(in ssa.Instruction) {
			switch v := in.(type) {
			case *ssa.Extract:
				if call, ok := v.Tuple.(*ssa.Call); ok && call.Call.StaticCallee() != nil && call.Call.StaticCallee().Name() == "radii" {
					radii = append(radii, v)
				}
			case *ssa.Call:
				if site == nil && v.Call.IsInvoke() && v.Call.Method.Name() == "MoveTo" {
					site = v.Block()
				}
			}
		})
		if len(radii) != 2 || site == nil {
			r.Unknown(key, p.Pos(fn.Pos()), fmt.Sprintf("%d results of radii() and MoveTo found=%v", len(radii), site != nil))
			continue
		}
		// the atoms that compare a radius with zero
		type cmp struct {
			atom   ssa.Value
			radius ssa.Value
			op     token.Token // normalised: radius OP 0
		}
		var cmps []cmp
		var atoms []ssa.Value
		for _, a := range core.CondAtoms(fn) {
			b, ok := a.(*ssa.BinOp)
			if !ok {
				continue
			}
			for _, rad := range radii {
				if z, ok := core.ConstFloat(b.Y); ok && z == 0 && b.X == rad {
					cmps = append(cmps, cmp{a, rad, b.Op})
					atoms = append(atoms, a)
				} else if z, ok := core.ConstFloat(b.X); ok && z == 0 && b.Y == rad {
					cmps = append(cmps, cmp{a, rad, flipCmp(b.Op)})
					atoms = append(atoms, a)
				}
			}
		}
		// replay: one radius negative, then zero, the other one free.  The comparisons made directly on the radius
		// get the truth that sign gives them; comparisons on a clamped copy (`if rx < 0 { rx = 0 }`) are decided by
		// the walk, which follows constants through merges
		bad := ""
		for _, rad := range radii {
			for _, sign := range []float64{-1, 0} {
				assign := map[ssa.Value]bool{}
				for _, cm := range cmps {
					if cm.radius != rad {
						continue
					}
					var t bool
					switch cm.op {
					case token.GTR:
						t = sign > 0
					case token.GEQ:
						t = sign >= 0
					case token.LSS:
						t = sign < 0
					case token.LEQ:
						t = sign <= 0
					case token.EQL:
						t = sign == 0
					case token.NEQ:
						t = sign != 0
					default:
						continue
					}
					assign[cm.atom] = t
				}
				// comparisons on a merge of the radius with constants: when the sign gives the same answer on every
				// edge, that is the answer
				for _, a := range core.CondAtoms(fn) {
					b, ok := a.(*ssa.BinOp)
					if !ok {
						continue
					}
					phi, ok := b.X.(*ssa.Phi)
					if !ok {
						continue
					}
					z, ok := core.ConstFloat(b.Y)
					if !ok || z != 0 {
						continue
					}
					truth := func(v float64) (bool, bool) {
						switch b.Op {
						case token.GTR:
							return v > 0, true
						case token.GEQ:
							return v >= 0, true
						case token.LSS:
							return v < 0, true
						case token.LEQ:
							return v <= 0, true
						case token.EQL:
							return v == 0, true
						case token.NEQ:
							return v != 0, true
						}
						return false, false
					}
					var first, agree, seen = false, true, false
					for _, e := range phi.Edges {
						var v float64
						if e == rad {
							v = sign
						} else if k, ok := core.ConstFloat(e); ok {
							v = k
						} else {
							agree = false
							break
						}
						t, ok := truth(v)
						if !ok {
							agree = false
							break
						}
						if seen && t != first {
							agree = false
							break
						}
						first, seen = t, true
					}
					if agree && seen {
						assign[a] = first
					}
				}
				if core.ForwardReach(fn.Blocks[0], assign, nil)[site] {
					if sign < 0 {
						bad = "negative"
					} else {
						bad = "zero"
					}
				}
			}
		}
		_ = atoms
		r.Cond(bad == "", key, p.Pos(fn.Pos()), "the outline is not reached with a negative or a zero radius", "the outline is reached with a "+bad+" radius: a negative radius (invalid) is drawn")
	}
}

func flipCmp(op token.Token) token.Token {
	switch op {
	case token.LSS:
		return token.GTR
	case token.GTR:
		return token.LSS
	case token.LEQ:
		return token.GEQ
	case token.GEQ:
		return token.LEQ
	}
	return op
}

// c18ViewBoxSize (R19): a negative width or height invalidates the viewBox attribute (SVG 1.1 §7.7, SVG 2 §8.6):
// the element is drawn as if it had none.  In nodeAttributes.viewBox the return that hands out the parsed rectangle
// is reached, when parsing succeeded, only on paths where its Width and its Height were decided non-negative.
// (viewBox="0 0 -10 -10" gave the scale -10: a mirrored image.)
func c18ViewBoxSize(c *core.Check) {
	p := c.Prog
	r := c.Rule("R19", "a negative size invalidates viewBox: in svg.nodeAttributes.viewBox the parsed rectangle is returned, when parseViewbox gave no error, only on paths where its Width and Height were decided non-negative by comparisons with zero", 1)
	fn := p.Method("svg", "nodeAttributes", "viewBox")
	if fn == nil {
		r.Anchor("svg.nodeAttributes.viewBox")
		return
	}
	key := "svg.nodeAttributes.viewBox | Width, Height >= 0 before the rectangle is returned"
	// the rectangle: the allocation returned as first result
	var rectAlloc *ssa.Alloc
	var site *ssa.BasicBlock
	var sites []*ssa.BasicBlock
	core.Instrs(fn, func(in ssa.Instruction) {
		ret, ok := in.(*ssa.Return)
		if !ok || len(ret.Results) != 2 {
			return
		}
		if al, ok := ret.Results[0].(*ssa.Alloc); ok {
			rectAlloc, site = al, ret.Block()
			sites = append(sites, ret.Block())
		}
	})
	if rectAlloc == nil {
		r.Unknown(key, p.Pos(fn.Pos()), "no return of the address of a local rectangle")
		return
	}
	type cmp struct {
		atom  ssa.Value
		field string
		op    token.Token
	}
	var cmps []cmp
	var atoms []ssa.Value
	var errAtoms []cmp
	fieldOf := func(v ssa.Value) string {
		ld, ok := v.(*ssa.UnOp)
		if !ok || ld.Op != token.MUL {
			return ""
		}
		fa, ok := ld.X.(*ssa.FieldAddr)
		if !ok || fa.X != ssa.Value(rectAlloc) {
			return ""
		}
		return core.FieldName(fa)
	}
	for _, a := range core.CondAtoms(fn) {
		b, ok := a.(*ssa.BinOp)
		if !ok {
			continue
		}
		if f := fieldOf(b.X); f != "" {
			if z, ok := core.ConstFloat(b.Y); ok && z == 0 {
				cmps = append(cmps, cmp{a, f, b.Op})
				atoms = append(atoms, a)
				continue
			}
		}
		if f := fieldOf(b.Y); f != "" {
			if z, ok := core.ConstFloat(b.X); ok && z == 0 {
				cmps = append(cmps, cmp{a, f, flipCmp(b.Op)})
				atoms = append(atoms, a)
				continue
			}
		}
		// err == nil / err != nil on the second result of parseViewbox
		for _, side := range [][2]ssa.Value{{b.X, b.Y}, {b.Y, b.X}} {
			ex, ok := side[0].(*ssa.Extract)
			if !ok || ex.Index != 1 {
				continue
			}
			if cst, ok := side[1].(*ssa.Const); ok && cst.IsNil() && (b.Op == token.EQL || b.Op == token.NEQ) {
				errAtoms = append(errAtoms, cmp{a, "err", b.Op})
				atoms = append(atoms, a)
			}
		}
	}
	req := func(assign map[ssa.Value]bool) bool {
		for _, e := range errAtoms {
			if (e.op == token.NEQ) == assign[e.atom] {
				return true // parsing failed: the error is what the caller looks at
			}
		}
		for _, f := range []string{"Width", "Height"} {
			nonneg := false
			for _, cm := range cmps {
				if cm.field != f {
					continue
				}
				t := assign[cm.atom]
				switch cm.op {
				case token.LSS, token.LEQ:
					nonneg = nonneg || !t
				case token.GEQ, token.GTR:
					nonneg = nonneg || t
				}
			}
			if !nonneg {
				return false
			}
		}
		return true
	}
	ok := true
	for _, st := range sites {
		if g, _ := core.GuardedBy(fn, st, atoms, req); !g {
			ok = false
		}
	}
	_ = site
	r.Cond(ok, key, p.Pos(fn.Pos()), "both sizes are decided non-negative on every path that returns the rectangle without an error", "a path returns the parsed rectangle without an error and without having compared its Width and Height with zero: viewBox=\"0 0 -10 -10\" mirrors the image")
}

// c18MissingSizeIsAuto (R20): the width and the height of an svg element default to 100 % (auto), for the root
// (DisplayedSize) and for a nested element (svg.draw) alike.  A missing attribute parses to the Value without unit
// (U == 0); both functions read the width and the height of the element, and each of the two values is tested for
// the missing unit before it is used.  (A nested <svg> without width/height had a 0x0 viewport and, overflow being
// hidden by default, nothing of it was visible.)
func c18MissingSizeIsAuto(c *core.Check) {
	p := c.Prog
	r := c.Rule("R20", "missing width/height of an svg element is auto: in (*SVGImage).DisplayedSize and in svg.draw each of the values read from the fields width and height has its unit U compared with 0 (the value of a missing attribute)", 2)
	for _, fn := range []*ssa.Function{p.Method("svg", "SVGImage", "DisplayedSize"), p.Method("svg", "svg", "draw")} {
		if fn == nil {
			r.Anchor("svg.(*SVGImage).DisplayedSize / svg.svg.draw")
			continue
		}
		// origin of an address: the field width/height it is, or the local a load of that field is stored into
		origin := func(addr ssa.Value) string {
			switch a := addr.(type) {
			case *ssa.FieldAddr:
				if n := core.FieldName(a); n == "width" || n == "height" {
					return n
				}
			case *ssa.Alloc:
				for _, st := range core.StoresTo(a) {
					if ld, ok := st.(*ssa.UnOp); ok && ld.Op == token.MUL {
						if fa, ok := ld.X.(*ssa.FieldAddr); ok {
							if n := core.FieldName(fa); n == "width" || n == "height" {
								return n
							}
						}
					}
				}
			}
			return ""
		}
		tested := map[string]bool{}
		read := map[string]bool{}
		core.Instrs(fn, func(in ssa.Instruction) {
			if fa, ok := in.(*ssa.FieldAddr); ok {
				if n := core.FieldName(fa); n == "width" || n == "height" {
					read[n] = true
				}
			}
			b, ok := in.(*ssa.BinOp)
			if !ok || (b.Op != token.EQL && b.Op != token.NEQ) {
				return
			}
			if z, ok := core.ConstInt(b.Y); !ok || z != 0 {
				return
			}
			ld, ok := b.X.(*ssa.UnOp)
			if !ok || ld.Op != token.MUL {
				return
			}
			fa, ok := ld.X.(*ssa.FieldAddr)
			if !ok || core.FieldName(fa) != "U" {
				return
			}
			if n := origin(fa.X); n != "" && len(*b.Referrers()) > 0 {
				tested[n] = true
			}
		})
		// the test may live in a helper the value is handed to: a function that compares the unit of its parameter with 0
		core.Instrs(fn, func(in ssa.Instruction) {
			call, ok := in.(*ssa.Call)
			if !ok || call.Call.StaticCallee() == nil || len(call.Call.StaticCallee().Blocks) == 0 {
				return
			}
			helperTests := false
			core.Instrs(call.Call.StaticCallee(), func(in2 ssa.Instruction) {
				if b, ok := in2.(*ssa.BinOp); ok && (b.Op == token.EQL || b.Op == token.NEQ) {
					if z, ok := core.ConstInt(b.Y); ok && z == 0 && core.IsFieldNamed(b.X, "U") {
						helperTests = true
					}
				}
			})
			if !helperTests {
				return
			}
			for _, a := range call.Call.Args {
				if ld, ok := a.(*ssa.UnOp); ok && ld.Op == token.MUL {
					if fa, ok := ld.X.(*ssa.FieldAddr); ok {
						if n := core.FieldName(fa); n == "width" || n == "height" {
							tested[n] = true
						}
					}
					if n := origin(ld.X); n != "" {
						tested[n] = true
					}
				}
			}
		})
		for _, f := range []string{"width", "height"} {
			key := fmt.Sprintf("%s | unit of %s compared with 0", core.FuncName(fn), f)
			if !read[f] {
				r.Unknown(key, p.Pos(fn.Pos()), "the field is not read by this function")
				continue
			}
			r.Cond(tested[f], key, p.Pos(fn.Pos()), "tested for the missing attribute", "the "+f+" of the element is used without a test of its unit: a missing attribute counts as 0 instead of 100%")
		}
	}
}

// c18UseWithoutHref (R21): a <use> element without href references nothing: it is a missing reference and is ignored.
// resolveUse treats an empty fragment as "another document" and fetches the base URL — the document itself, refused
// as recursive — or calls a nil fetcher.  The call of the fetcher is reached only when the href attribute was
// compared with the empty string and found different.
func c18UseWithoutHref(c *core.Check) {
	p := c.Prog
	r := c.Rule("R21", "a use without href is a missing reference: in svg.(*svgContext).resolveUse the call of the URL fetcher is reached only when the attribute href was compared with the empty string and found non-empty", 1)
	fn := p.Method("svg", "svgContext", "resolveUse")
	if fn == nil {
		r.Anchor("svg.(*svgContext).resolveUse")
		return
	}
	key := "svg.(*svgContext).resolveUse | fetch only with a href"
	var site *ssa.BasicBlock
	core.Instrs(fn, func(in ssa.Instruction) {
		call, ok := in.(*ssa.Call)
		if !ok || call.Call.IsInvoke() || call.Call.StaticCallee() != nil {
			return
		}
		if ld, ok := call.Call.Value.(*ssa.UnOp); ok {
			if fa, ok := ld.X.(*ssa.FieldAddr); ok && core.FieldName(fa) == "urlFetcher" {
				site = call.Block()
			}
		}
	})
	if site == nil {
		r.Skip(key, p.Pos(fn.Pos()), "resolveUse does not call the URL fetcher")
		return
	}
	isHref := func(v ssa.Value) bool {
		lk, ok := v.(*ssa.Lookup)
		if !ok {
			return false
		}
		k, ok := core.ConstStr(lk.Index)
		return ok && k == "href"
	}
	var atoms []ssa.Value
	eq := map[ssa.Value]bool{}
	for _, a := range core.CondAtoms(fn) {
		b, ok := a.(*ssa.BinOp)
		if !ok || (b.Op != token.EQL && b.Op != token.NEQ) {
			continue
		}
		for _, side := range [][2]ssa.Value{{b.X, b.Y}, {b.Y, b.X}} {
			if k, ok := core.ConstStr(side[1]); ok && k == "" && isHref(side[0]) {
				atoms = append(atoms, a)
				eq[a] = b.Op == token.EQL
			}
			// len(href) == 0
			if z, ok := core.ConstInt(side[1]); ok && z == 0 {
				if lc, ok := side[0].(*ssa.Call); ok {
					if bi, ok := lc.Call.Value.(*ssa.Builtin); ok && bi.Name() == "len" && isHref(lc.Call.Args[0]) {
						atoms = append(atoms, a)
						eq[a] = b.Op == token.EQL
					}
				}
			}
		}
	}
	if len(atoms) == 0 {
		r.Fail(key, p.Pos(fn.Pos()), "the attribute href is never compared with the empty string: a <use> without href is resolved as a reference to the document itself (refused as recursive, or a nil fetcher is called)")
		return
	}
	ok, _ := core.GuardedBy(fn, site, atoms, func(m map[ssa.Value]bool) bool {
		for a, v := range m {
			if v != eq[a] {
				return true
			}
		}
		return false
	})
	r.Cond(ok, key, p.Pos(fn.Pos()), "the fetcher is called only for a non-empty href", "the fetcher is reached although href was found empty")
}

// c18PathIsCopied (R22): the path parser is shared by all the <path> elements of a document and reuses its buffer
// (reset keeps the array).  What parsePath returns is a copy: a slice of the buffer itself, even with its capacity
// capped, is overwritten by the next path that is parsed (the first path of a document drawn with the segments of the
// later ones).  Every slice returned by parsePath is nil or the result of an append to nil (or to a fresh slice).
func c18PathIsCopied(c *core.Check) {
	p := c.Prog
	r := c.Rule("R22", "a parsed path does not alias the parser's buffer: every non-nil slice returned by svg.(*pathParser).parsePath is a fresh slice (make) or the result of an append whose base is nil or a fresh slice, not a slice or a load of a field of the parser", 1)
	fn := p.Method("svg", "pathParser", "parsePath")
	if fn == nil {
		r.Anchor("svg.(*pathParser).parsePath")
		return
	}
	n := 0
	core.Instrs(fn, func(in ssa.Instruction) {
		ret, ok := in.(*ssa.Return)
		if !ok || len(ret.Results) == 0 {
			return
		}
		v := ret.Results[0]
		if k, ok := v.(*ssa.Const); ok && k.IsNil() {
			return
		}
		n++
		key := fmt.Sprintf("svg.(*pathParser).parsePath | returned path #%d", n)
		fresh := false
		if _, ok := v.(*ssa.MakeSlice); ok {
			fresh = true // make + copy
		}
		if call, ok := v.(*ssa.Call); ok {
			if b, ok := call.Call.Value.(*ssa.Builtin); ok && b.Name() == "append" && len(call.Call.Args) > 0 {
				switch base := call.Call.Args[0].(type) {
				case *ssa.Const:
					fresh = base.IsNil()
				case *ssa.MakeSlice:
					fresh = true
				}
			}
		}
		r.Cond(fresh, key, p.Pos(ret.Pos()), "a copy (append to nil or to a fresh slice)", "the returned path is not a copy of the parser's buffer: the next path parsed with the same parser overwrites it")
	})
	if n == 0 {
		r.Unknown("svg.(*pathParser).parsePath | returned path", p.Pos(fn.Pos()), "no non-nil slice returned")
	}
}
