package props

import (
	"fmt"
	"go/token"

	"golang.org/x/tools/go/ssa"

	"wrverif/core"
)

// c18PositiveRadii (R18): a negative radius is invalid in SVG (rx/ry of rect and ellipse, r of circle); it is
// handled like the value that disables the feature, zero.  In the draw methods of rect and ellipse the outline that
// uses the radii (the first MoveTo) is reached only on paths where each of the two results of radii() was decided
// to be positive by a comparison with zero: `rx == 0` alone lets rx = -5 through, and the outline is then traced
// outside of the rectangle (rect) or as the circle of radius 5 (circle).
func c18PositiveRadii(c *core.Check) {
	p := c.Prog
	r := c.Rule("R18", "negative radii are invalid: in svg.rect.draw and svg.ellipse.draw the block of the first MoveTo is reached only when both results of radii() were decided positive by comparisons with zero (> 0, not <= 0, or not < 0 together with not == 0)", 2)
	for _, typ := range []string{"rect", "ellipse"} {
		fn := p.Method("svg", typ, "draw")
		if fn == nil {
			r.Anchor("svg." + typ + ".draw")
			continue
		}
		key := fmt.Sprintf("svg.%s.draw | radii() > 0 before the outline", typ)
		var radii []ssa.Value
		var site *ssa.BasicBlock
		core.Instrs(fn, func(in ssa.Instruction) {
			switch v := in.(type) {
			case *ssa.Extract:
				if call, ok := v.Tuple.(*ssa.Call); ok && call.Call.StaticCallee() != nil && call.Call.StaticCallee().Name() == "radii" {
					radii = append(radii, v)
				}
			case *ssa.Call:
				if site == nil && v.Call.IsInvoke() && v.Call.Method.Name() == "MoveTo" {
					site = v.Block()
				}
			}
		})
		if len(radii) != 2 || site == nil {
			r.Unknown(key, p.Pos(fn.Pos()), fmt.Sprintf("%d results of radii() and MoveTo found=%v", len(radii), site != nil))
			continue
		}
		// the atoms that compare a radius with zero
		type cmp struct {
			atom   ssa.Value
			radius ssa.Value
			op     token.Token // normalised: radius OP 0
		}
		var cmps []cmp
		var atoms []ssa.Value
		for _, a := range core.CondAtoms(fn) {
			b, ok := a.(*ssa.BinOp)
			if !ok {
				continue
			}
			for _, rad := range radii {
				if z, ok := core.ConstFloat(b.Y); ok && z == 0 && b.X == rad {
					cmps = append(cmps, cmp{a, rad, b.Op})
					atoms = append(atoms, a)
				} else if z, ok := core.ConstFloat(b.X); ok && z == 0 && b.Y == rad {
					cmps = append(cmps, cmp{a, rad, flipCmp(b.Op)})
					atoms = append(atoms, a)
				}
			}
		}
		positive := func(assign map[ssa.Value]bool) bool {
			for _, rad := range radii {
				gt, ge, ne := false, false, false
				for _, cm := range cmps {
					if cm.radius != rad {
						continue
					}
					t := assign[cm.atom]
					switch cm.op {
					case token.GTR:
						gt = gt || t
					case token.LEQ:
						gt = gt || !t
					case token.GEQ:
						ge = ge || t
					case token.LSS:
						ge = ge || !t
					case token.NEQ:
						ne = ne || t
					case token.EQL:
						ne = ne || !t
					}
				}
				if !(gt || (ge && ne)) {
					return false
				}
			}
			return true
		}
		ok, _ := core.GuardedBy(fn, site, atoms, positive)
		r.Cond(ok, key, p.Pos(fn.Pos()), "both radii are decided positive on every path to the outline", "a path reaches the outline on which a result of radii() was not decided positive: a negative radius (invalid) is drawn")
	}
}

func flipCmp(op token.Token) token.Token {
	switch op {
	case token.LSS:
		return token.GTR
	case token.GTR:
		return token.LSS
	case token.LEQ:
		return token.GEQ
	case token.GEQ:
		return token.LEQ
	}
	return op
}
