package props

import (
	"fmt"
	"go/token"
	"go/types"

	"golang.org/x/tools/go/ssa"

	"wrverif/core"
)

// c07TestedPositions is a contradiction rule (Engler et al.): when a function compares a position v with the
// length of a buffer before one read of buffer[v], it believes v may reach the length; every other read of the same
// buffer at the same SSA value v must then be dominated by such a comparison as well.  Nothing is claimed about
// positions that are never compared (they are the business of R1's tables); what is decided is that no read skips a
// test its own function shows to be necessary.
func c07TestedPositions(c *core.Check, scope []*ssa.Function) {
	p := c.Prog
	r := c.Rule("R9", "a position tested once is tested at every read: when a function compares a position v with the length of a buffer, every read buffer[v] at that same value in the function is reachable only after a comparison that excludes v >= len(buffer) (v < len true, v >= len false, v != len true, v == len false, and their mirrored forms)", 153)
	// identity of a buffer: the field path it is loaded from, or the value itself
	bufKey := func(v ssa.Value) string {
		for {
			switch x := v.(type) {
			case *ssa.UnOp:
				if x.Op == token.MUL {
					if fa, ok := x.X.(*ssa.FieldAddr); ok {
						return fmt.Sprintf("%s.#%d", fa.X.Name(), fa.Field)
					}
					if g, ok := x.X.(*ssa.Global); ok {
						return g.String()
					}
				}
				return x.Name()
			case *ssa.ChangeType:
				v = x.X
				continue
			case *ssa.Convert:
				v = x.X
				continue
			}
			return v.Name()
		}
	}
	lenOf := func(v ssa.Value) (string, bool) {
		call, ok := v.(*ssa.Call)
		if !ok {
			return "", false
		}
		b, ok := call.Call.Value.(*ssa.Builtin)
		if !ok || b.Name() != "len" || len(call.Call.Args) != 1 {
			return "", false
		}
		return bufKey(call.Call.Args[0]), true
	}
	for _, fn := range scope {
		if fn.Blocks == nil {
			continue
		}
		type read struct {
			in  ssa.Instruction
			idx ssa.Value
			buf string
		}
		var reads []read
		core.Instrs(fn, func(in ssa.Instruction) {
			switch x := in.(type) {
			case *ssa.IndexAddr:
				if _, isConst := x.Index.(*ssa.Const); isConst {
					return
				}
				if _, ok := x.X.Type().Underlying().(*types.Slice); ok {
					reads = append(reads, read{in, x.Index, bufKey(x.X)})
				}
			case *ssa.Index:
				if _, isConst := x.Index.(*ssa.Const); isConst {
					return
				}
				if b, ok := x.X.Type().Underlying().(*types.Basic); ok && b.Info()&types.IsString != 0 {
					reads = append(reads, read{in, x.Index, bufKey(x.X)})
				}
			}
		})
		if len(reads) == 0 {
			continue
		}
		// local lengths: L := len(buf) held in a value
		lengths := map[ssa.Value]string{}
		core.Instrs(fn, func(in ssa.Instruction) {
			if v, ok := in.(ssa.Value); ok {
				if k, ok := lenOf(v); ok {
					lengths[v] = k
				}
			}
		})
		// atoms: comparisons of a value with a length; polarity = truth value that excludes v >= len
		type atom struct {
			v    ssa.Value
			safe bool
		}
		atomsOf := map[string]map[ssa.Value][]ssa.Value{} // buffer -> position -> atoms
		pol := map[ssa.Value]bool{}
		for _, a := range core.CondAtoms(fn) {
			bo, ok := a.(*ssa.BinOp)
			if !ok {
				continue
			}
			var pos ssa.Value
			var buf string
			op := bo.Op
			if k, ok := lengths[bo.Y]; ok {
				pos, buf = bo.X, k
			} else if k, ok := lengths[bo.X]; ok {
				pos, buf = bo.Y, k
				switch op { // mirror
				case token.LSS:
					op = token.GTR
				case token.GTR:
					op = token.LSS
				case token.LEQ:
					op = token.GEQ
				case token.GEQ:
					op = token.LEQ
				}
			} else {
				continue
			}
			switch op {
			case token.LSS, token.NEQ:
				pol[a] = true
			case token.GEQ, token.EQL:
				pol[a] = false
			default:
				continue
			}
			if atomsOf[buf] == nil {
				atomsOf[buf] = map[ssa.Value][]ssa.Value{}
			}
			atomsOf[buf][pos] = append(atomsOf[buf][pos], a)
		}
		// a buffer the function itself replaces (grown, re-sliced) has no single length: beliefs do not carry over
		replaced := map[string]bool{}
		core.Instrs(fn, func(in ssa.Instruction) {
			if st, ok := in.(*ssa.Store); ok {
				if fa, ok := st.Addr.(*ssa.FieldAddr); ok {
					replaced[fmt.Sprintf("%s.#%d", fa.X.Name(), fa.Field)] = true
				}
				if g, ok := st.Addr.(*ssa.Global); ok {
					replaced[g.String()] = true
				}
			}
		})
		for _, rd := range reads {
			atoms := atomsOf[rd.buf][rd.idx]
			if len(atoms) == 0 || replaced[rd.buf] {
				continue
			}
			ok, _ := core.GuardedBy(fn, rd.in.Block(), atoms, func(m map[ssa.Value]bool) bool {
				for a, v := range m {
					if v == pol[a] {
						return true
					}
				}
				return false
			})
			key := core.FuncName(fn) + " | " + p.StmtTextAt(fn, rd.in.Pos())
			r.Cond(ok, key, p.Pos(rd.in.Pos()), "the read is reachable only after the position was compared with the length of the buffer",
				"the function compares this position with the length of the buffer before another read, but a path reaches this read without any such comparison: at the end of the input the index is out of range")
		}
	}
}
