package props

import (
	"fmt"
	"go/token"
	"go/types"
	"os"
	"strings"

	"golang.org/x/tools/go/ssa"

	"wrverif/core"
)

func init() { register("C13", c13) }

func c13(c *core.Check) {
	c.Explain = "Thin: structural necessary conditions of a consistent table grid, decided on the SSA form and the syntax tree: (R1) a cell spans at least one column and a non-negative number of rows; (R2) the slot assignment of wrapTable gives each cell the first column not occupied by a row-spanning cell, advances the cursor by the cell's colspan, clamps rowspan to the rows left in the group (0 meaning all of them) and marks exactly the columns of the cell as occupied in the spanned rows — so two cells never receive the same slot; (R3) the side-mirrored assignments, the box-edge sums and the named arguments of the table layout code are consistent. Column width distribution, row heights, border-spacing arithmetic and the equalities between cell edges are numerical relations between runtime values and are not decided. Also decided: (R4) border-spacing is read only in the separated-borders model; (R5) the spacing term of a spanning cell counts the columns actually spanned; (R6) a row's bottom edge is computed from its final height. Also decided: (R9) the edge cells are padded down to is the row's own bottom; (R10) the fixed layout divides no possibly negative width among columns; (R11) the spacings counted in the table's width and those laid between the columns are counted the same way."
	_ = c.Prog
	r1 := c.Rule("R1", "NewTableCellBox reads colspan within [1, 1000] and rowspan within [0, 65534] (HTML)", 4)
	spanBounds(c, r1)

	r2 := c.Rule("R2", "wrapTable's slot assignment: GridX is the cursor after skipping the columns occupied in this row; the cursor then advances by Colspan; Rowspan is clamped to the rows left in the group (all of them for 0); the columns marked as occupied in the spanned rows are those from GridX to GridX+Colspan", 3)
	tableSlotRule(c, r2)

	c13Spacing(c)
	c13SpanWidth(c)
	c13RowBottom(c)
	c13CellX(c)
	c13MinWidth(c)
	c13PadEdge(c)
	c13FixedWidths(c)
	c13SpacingCount(c)
	c13ResumedRowShift(c)
	c13MaxStart(c)
	c13TestedSide(c)
	c13HeaderFooterAttempts(c)
	c13FreshColumnPositions(c)
	c13GroupExtent(c)
	c13GroupExtentInGrid(c)
	c13SpacingAxis(c)

	r3 := c.Rule("R3", "the table layout code mirrors its side-symmetric assignments, sums margins, paddings and borders with consistent sides, and passes its named arguments in order", 7)
	tfiles := map[string]bool{"tables.go": true}
	sideSymmetryRule(c, r3, "html/layout", tfiles, 0)
	sideSumRule(c, r3, "html/layout", tfiles, 1)
	argNameRule(c, r3, "html/layout", tfiles, 6)
	_ = fmt.Sprint
}

// spanBounds: shared by C09.R5 and C13.R1.
func spanBounds(c *core.Check, r *core.Rule) {
	p := c.Prog
	fn := p.Fn("html/boxes", "NewTableCellBox")
	if fn == nil {
		r.Anchor("html/boxes.NewTableCellBox")
		return
	}
	want := map[string]int64{"Colspan": 1, "Rowspan": 0}
	seen := map[string]bool{}
	core.Instrs(fn, func(in ssa.Instruction) {
		st, ok := in.(*ssa.Store)
		if !ok {
			return
		}
		fa, ok := st.Addr.(*ssa.FieldAddr)
		if !ok {
			return
		}
		w, isSpan := want[core.FieldName(fa)]
		if !isSpan {
			return
		}
		seen[core.FieldName(fa)] = true
		got, upper := int64(-99), int64(-1)
		if call, ok := st.Val.(*ssa.Call); ok && len(call.Call.Args) >= 2 {
			if k, ok := core.ConstInt(call.Call.Args[1]); ok {
				got = k
			}
			if len(call.Call.Args) >= 3 {
				if k, ok := core.ConstInt(call.Call.Args[2]); ok {
					upper = k
				}
			}
		}
		r.Cond(got == w, "NewTableCellBox | "+core.FieldName(fa)+" lower bound", p.Pos(st.Pos()), fmt.Sprintf("minimum %d", got), fmt.Sprintf("the attribute is read with the lower bound %d, HTML 5 gives %d", got, w))
		limit := map[string]int64{"Colspan": 1000, "Rowspan": 65534}[core.FieldName(fa)]
		r.Cond(upper >= w && upper <= limit, "NewTableCellBox | "+core.FieldName(fa)+" upper bound", p.Pos(st.Pos()), fmt.Sprintf("maximum %d", upper), fmt.Sprintf("the attribute is read with the upper bound %d (-1: none), HTML gives %d: the grid is allocated with the span as a size, and a huge value panics", upper, limit))
	})
	for f := range want {
		if !seen[f] {
			r.Fail("NewTableCellBox | "+f+" lower bound", p.Pos(fn.Pos()), "the field is not assigned")
		}
	}
	// the span attribute of columns and column groups
	if ia := p.Fn("html/boxes", "integerAttribute"); ia != nil {
		sites, _ := p.CallSitesOf(ia)
		for _, cs := range sites {
			if cs.Parent() == fn || len(cs.Common().Args) < 3 {
				continue
			}
			k, ok := core.ConstInt(cs.Common().Args[2])
			r.Cond(ok && k <= 65534, core.FuncName(cs.Parent())+" | integer attribute upper bound", p.Pos(cs.Pos()), fmt.Sprintf("maximum %d", k), "an integer attribute of the document is read without a constant upper bound within the HTML limits: it sizes an allocation")
		}
	}
}

// tableSlotRule: shared by C13.R2 and C09.R7 (wrapTable is part of box generation).
func tableSlotRule(c *core.Check, r2 *core.Rule) {
	p := c.Prog
	var fn *ssa.Function
	for _, f := range p.FuncsOfPkg("html/boxes") {
		hasStore := false
		core.Instrs(f, func(in ssa.Instruction) {
			if st, ok := in.(*ssa.Store); ok {
				if fa, ok := st.Addr.(*ssa.FieldAddr); ok && core.FieldName(fa) == "GridX" {
					if _, isPhi := st.Val.(*ssa.Phi); isPhi {
						hasStore = true
					}
				}
			}
		})
		if hasStore && fn == nil {
			fn = f
		}
	}
	if fn == nil {
		r2.Anchor("html/boxes: the function storing a loop cursor into GridX (wrapTable)")
	} else {
		name := core.FuncName(fn)
		loadOf := func(v ssa.Value, field string) bool {
			u, ok := v.(*ssa.UnOp)
			if !ok {
				return false
			}
			fa, ok := u.X.(*ssa.FieldAddr)
			return ok && core.FieldName(fa) == field
		}
		var gridStore *ssa.Store
		core.Instrs(fn, func(in ssa.Instruction) {
			if st, ok := in.(*ssa.Store); ok {
				if fa, ok := st.Addr.(*ssa.FieldAddr); ok && core.FieldName(fa) == "GridX" {
					if _, isPhi := st.Val.(*ssa.Phi); isPhi {
						gridStore = st
					}
				}
			}
		})
		cursor := gridStore.Val.(*ssa.Phi)
		// (a) the cursor is the counter of a loop that skips occupied columns: its header tests a map lookup keyed by it
		skip := false
		if ifi, ok := cursor.Block().Instrs[len(cursor.Block().Instrs)-1].(*ssa.If); ok {
			if lk, ok := ifi.Cond.(*ssa.Lookup); ok && lk.Index == ssa.Value(cursor) {
				// the true branch increments the cursor, the false branch reaches the store
				inc := false
				for i, e := range cursor.Edges {
					if b, ok := e.(*ssa.BinOp); ok && b.Op == token.ADD && b.X == ssa.Value(cursor) {
						if k, ok := core.ConstInt(b.Y); ok && k == 1 && cursor.Block().Preds[i] == cursor.Block().Succs[0] {
							inc = true
						}
					}
				}
				skip = inc && (cursor.Block().Succs[1] == gridStore.Block() || cursor.Block().Succs[1].Dominates(gridStore.Block()))
			}
		}
		r2.Cond(skip, name+" | GridX is the first free column", p.Pos(gridStore.Pos()), "the cursor stored in GridX comes out of the loop `for occupied[gridX] { gridX++ }`", "the column stored in GridX is not the result of skipping the columns occupied by row-spanning cells: a cell can be placed under a cell spanning from a previous row")
		// (b) advance by Colspan: some value cursor + load(Colspan) feeds the outer loop's cursor
		var advance *ssa.BinOp
		core.Instrs(fn, func(in ssa.Instruction) {
			if b, ok := in.(*ssa.BinOp); ok && b.Op == token.ADD && b.X == ssa.Value(cursor) && loadOf(b.Y, "Colspan") {
				advance = b
			}
		})
		fed := false
		if advance != nil && advance.Referrers() != nil {
			for _, r := range *advance.Referrers() {
				if ph, ok := r.(*ssa.Phi); ok {
					// the outer cursor feeds the skip loop's entry
					for _, e := range cursor.Edges {
						if e == ssa.Value(ph) {
							fed = true
						}
					}
				}
			}
		}
		r2.Cond(advance != nil && fed, name+" | the cursor advances by Colspan", p.Pos(gridStore.Pos()), "the next cell starts at GridX + Colspan", "the cursor of the next cell is not GridX + Colspan: cells of one row overlap or leave holes")
		// (c) rowspan clamp
		clampMin, clampZero := false, false
		core.Instrs(fn, func(in ssa.Instruction) {
			st, ok := in.(*ssa.Store)
			if !ok {
				return
			}
			fa, ok := st.Addr.(*ssa.FieldAddr)
			if !ok || core.FieldName(fa) != "Rowspan" {
				return
			}
			lenPlus1 := func(v ssa.Value) bool {
				b, ok := v.(*ssa.BinOp)
				if !ok || b.Op != token.ADD {
					return false
				}
				k, isK := core.ConstInt(b.Y)
				call, isCall := b.X.(*ssa.Call)
				if !isK || k != 1 || !isCall {
					return false
				}
				bi, isB := call.Call.Value.(*ssa.Builtin)
				return isB && bi.Name() == "len"
			}
			switch v := st.Val.(type) {
			case *ssa.Call:
				if cal := v.Call.StaticCallee(); cal != nil && cal.Name() == "MinInt" && len(v.Call.Args) == 2 {
					if (loadOf(v.Call.Args[0], "Rowspan") && lenPlus1(v.Call.Args[1])) || (loadOf(v.Call.Args[1], "Rowspan") && lenPlus1(v.Call.Args[0])) {
						clampMin = true
					}
				}
			case *ssa.BinOp:
				if lenPlus1(v) {
					// only under Rowspan == 0
					for _, a := range core.CondAtoms(fn) {
						if b, ok := a.(*ssa.BinOp); ok && b.Op == token.EQL && loadOf(b.X, "Rowspan") {
							if k, ok := core.ConstInt(b.Y); ok && k == 0 {
								if !core.ForwardReach(fn.Blocks[0], map[ssa.Value]bool{a: false}, nil)[st.Block()] || a.(*ssa.BinOp).Block().Succs[0] == st.Block() {
									clampZero = true
								}
							}
						}
					}
				}
			}
		})
		r2.Cond(clampMin, name+" | Rowspan is clamped to the rows left in the group", p.Pos(fn.Pos()), "Rowspan = min(Rowspan, len(rows after this one) + 1)", "no clamp of Rowspan to the rows left in the row group: a cell can span beyond its group")
		r2.Cond(clampZero, name+" | rowspan 0 spans the rest of the group", p.Pos(fn.Pos()), "Rowspan = len(rows after this one) + 1 when it is 0", "rowspan=0 is not turned into the number of rows left in the group")
		// (d) occupied marking from the cursor to cursor+Colspan
		marked := false
		core.Instrs(fn, func(in ssa.Instruction) {
			mu, ok := in.(*ssa.MapUpdate)
			if !ok {
				return
			}
			ph, ok := mu.Key.(*ssa.Phi)
			if !ok {
				return
			}
			startsAtCursor := false
			for _, e := range ph.Edges {
				if e == ssa.Value(cursor) {
					startsAtCursor = true
				}
			}
			bounded := false
			if ifi, ok := ph.Block().Instrs[len(ph.Block().Instrs)-1].(*ssa.If); ok {
				if cmp, ok := ifi.Cond.(*ssa.BinOp); ok && cmp.Op == token.LSS && cmp.X == ssa.Value(ph) && advance != nil && cmp.Y == ssa.Value(advance) {
					bounded = true
				}
			}
			if startsAtCursor && bounded {
				marked = true
			}
		})
		r2.Cond(marked, name+" | the spanned rows mark the cell's columns", p.Pos(fn.Pos()), "columns GridX … GridX+Colspan-1 are marked occupied in every spanned row", "the columns marked as occupied in the spanned rows are not exactly those of the cell")
	}
}

// c13Spacing: border-spacing only exists in the separated-borders model.
func c13Spacing(c *core.Check) {
	p := c.Prog
	r := c.Rule("R4", "border-spacing applies to the separated-borders model only (CSS 2.1 §17.6.1): every read of the border-spacing property in the layout, box and drawing code is unreachable when the border-collapse value tested in the same function is `collapse` (otherwise collapsed tables are laid out with gaps that are not drawn, and spanning cells no longer cover their columns)", 2)
	n := 0
	for _, pkg := range []string{"html/layout", "html/document", "html/boxes"} {
		for _, fn := range p.FuncsOfPkg(pkg) {
			fn := fn
			var reads []*ssa.Call
			core.Instrs(fn, func(in ssa.Instruction) {
				if call, ok := in.(*ssa.Call); ok && call.Call.IsInvoke() && call.Call.Method.Name() == "GetBorderSpacing" {
					reads = append(reads, call)
				}
			})
			if len(reads) == 0 {
				continue
			}
			// scenario: the collapsing model
			assign := map[ssa.Value]bool{}
			for _, a := range core.CondAtoms(fn) {
				b, ok := core.ResolveLoad(a).(*ssa.BinOp) // `collapse := … == "collapse"` captured by a closure is a cell
				if !ok || (b.Op != token.EQL && b.Op != token.NEQ) {
					continue
				}
				x, y := b.X, b.Y
				if _, isC := core.Unwrap(x).(*ssa.Const); isC {
					x, y = y, x
				}
				s, isS := core.ConstStr(core.Unwrap(y))
				call, isCall := core.Unwrap(x).(*ssa.Call)
				if !isS || !isCall || !call.Call.IsInvoke() || call.Call.Method.Name() != "GetBorderCollapse" {
					continue
				}
				assign[a] = (s == "collapse") == (b.Op == token.EQL)
			}
			for i, rd := range reads {
				n++
				key := fmt.Sprintf("%s | GetBorderSpacing() #%d", core.FuncName(fn), i+1)
				if len(assign) == 0 {
					r.Fail(key, p.Pos(rd.Pos()), "border-spacing is read in a function that never tests border-collapse")
					continue
				}
				reach := core.ForwardReach(fn.Blocks[0], assign, nil)
				if os.Getenv("WRVERIF_DEBUG_C13") != "" {
					free := core.ForwardReach(fn.Blocks[0], nil, nil)
					fmt.Fprintln(os.Stderr, "c13 spacing:", key, "block", rd.Block().Index, "reach", reach[rd.Block()], "free", free[rd.Block()], len(reach), len(free), len(fn.Blocks))
					for _, b := range fn.Blocks {
						if free[b] && !reach[b] {
							fmt.Fprint(os.Stderr, " ", b.Index)
						}
					}
					fmt.Fprintln(os.Stderr)
					for _, b := range fn.Blocks {
						if !free[b] {
							for _, pr := range b.Preds {
								if free[pr] {
									fmt.Fprintln(os.Stderr, "  frontier: block", b.Index, b.Comment, "pred", pr.Index, pr.Comment, "dominates:", b.Dominates(pr), pr.Instrs[len(pr.Instrs)-1])
								}
							}
						}
					}
				}
				r.Cond(!reach[rd.Block()], key, p.Pos(rd.Pos()), fmt.Sprintf("unreachable in the collapsing model (%d tests of border-collapse decide it)", len(assign)), "border-spacing is read on a path taken by tables with border-collapse: collapse")
			}
		}
	}
	if n == 0 {
		r.Anchor("reads of GetBorderSpacing")
	}
}

// c13SpanWidth: the spacing term of a spanning cell's width counts the columns actually spanned.
func c13SpanWidth(c *core.Check) {
	p := c.Prog
	r := c.Rule("R5", "a spanning cell covers its columns and the spacing between them: in tableLayout the factor of border-spacing in a cell's width is (n − 1) where n is the number of column widths summed into that width — len of the spanned slice, or the cell's Colspan read after it was set to that length (a span reaching beyond the grid is cut first)", 1)
	var fns []*ssa.Function
	for _, fn := range p.FuncsOfPkg("html/layout") {
		root := fn
		for root.Parent() != nil {
			root = root.Parent()
		}
		if root.Name() == "tableLayout" {
			fns = append(fns, fn)
		}
	}
	n := 0
	for _, fn := range fns {
		fn := fn
		core.Instrs(fn, func(in ssa.Instruction) {
			mul, ok := in.(*ssa.BinOp)
			if !ok || mul.Op != token.MUL {
				return
			}
			// the factor (n − 1) converted to float, whatever the other operand is called
			spanMinusOne := func(v ssa.Value) *ssa.BinOp {
				for {
					if cv, ok := v.(*ssa.Convert); ok {
						v = cv.X
						continue
					}
					break
				}
				sub, ok := v.(*ssa.BinOp)
				if !ok || sub.Op != token.SUB {
					return nil
				}
				if bt, isB := sub.X.Type().Underlying().(*types.Basic); !isB || bt.Info()&types.IsInteger == 0 {
					return nil
				}
				return sub
			}
			sub := spanMinusOne(mul.Y)
			if sub == nil {
				sub = spanMinusOne(mul.X)
			}
			if sub == nil {
				return
			}
			if k, isK := core.ConstInt(sub.Y); !isK || k != 1 {
				return
			}
			ld, isLoad := sub.X.(*ssa.UnOp)
			if call, isCall := sub.X.(*ssa.Call); isCall {
				if b, isB := call.Call.Value.(*ssa.Builtin); isB && b.Name() == "len" {
					n++
					r.OK(core.FuncName(fn)+" | borderSpacingX * (len − 1)", p.Pos(mul.Pos()), "the count is the length of the spanned slice")
				}
				return
			}
			if !isLoad {
				return
			}
			fa, ok := ld.X.(*ssa.FieldAddr)
			if !ok || core.FieldName(fa) != "Colspan" {
				return
			}
			n++
			key := core.FuncName(fn) + " | borderSpacingX * (Colspan − 1)"
			// the latest store to the same field of the same box that dominates the load
			var latest *ssa.Store
			core.Instrs(fn, func(in2 ssa.Instruction) {
				st, ok := in2.(*ssa.Store)
				if !ok {
					return
				}
				fa2, ok := st.Addr.(*ssa.FieldAddr)
				if !ok || fa2.X != fa.X || fa2.Field != fa.Field {
					return
				}
				if !instrDominates(st, ld) {
					return
				}
				if latest == nil || instrDominates(latest, st) {
					latest = st
				}
			})
			if latest == nil {
				r.Fail(key, p.Pos(mul.Pos()), "the span multiplied with the spacing is read before it is cut to the number of columns actually spanned: a cell reaching beyond the grid is wider than its columns")
				return
			}
			call, isCall := latest.Val.(*ssa.Call)
			okLen := false
			if isCall {
				if b, isB := call.Call.Value.(*ssa.Builtin); isB && b.Name() == "len" {
					okLen = true
				}
			}
			r.Cond(okLen, key, p.Pos(mul.Pos()), "Colspan was set to the number of spanned widths at "+p.Pos(latest.Pos()), "the Colspan read here was last set to something else than the number of spanned widths")
		})
	}
	if n == 0 {
		r.Anchor("tableLayout: borderSpacingX * (span − 1)")
	}
}

// instrDominates: a is executed before b on every path to b.
func instrDominates(a, b ssa.Instruction) bool {
	if a.Block() == b.Block() {
		for _, in := range a.Block().Instrs {
			if in == a {
				return true
			}
			if in == b {
				return false
			}
		}
		return false
	}
	return a.Block().Dominates(b.Block())
}

// c13RowBottom: the bottom edge of a row is computed from its final height.
func c13RowBottom(c *core.Check) {
	p := c.Prog
	r := c.Rule("R6", "cells of a row share the row's height: where tableLayout computes the bottom edge of a row as PositionY + Height, the height read is the final one — no assignment of that row's Height can follow the read within the same iteration (cells are padded down to this edge)", 1)
	n := 0
	for _, fn := range p.FuncsOfPkg("html/layout") {
		root := fn
		for root.Parent() != nil {
			root = root.Parent()
		}
		if root.Name() != "tableLayout" {
			continue
		}
		fn := fn
		fieldLoad := func(v ssa.Value, name string) (*ssa.UnOp, *ssa.FieldAddr) {
			if call, ok := v.(*ssa.Call); ok && call.Call.IsInvoke() && call.Call.Method.Name() == "V" {
				v = call.Call.Value
			}
			ld, ok := v.(*ssa.UnOp)
			if !ok || ld.Op != token.MUL {
				return nil, nil
			}
			fa, ok := ld.X.(*ssa.FieldAddr)
			if !ok || core.FieldName(fa) != name {
				return nil, nil
			}
			return ld, fa
		}
		core.Instrs(fn, func(in ssa.Instruction) {
			add, ok := in.(*ssa.BinOp)
			if !ok || add.Op != token.ADD {
				return
			}
			_, pa := fieldLoad(add.X, "PositionY")
			hl, ha := fieldLoad(add.Y, "Height")
			if pa == nil || ha == nil {
				_, pa = fieldLoad(add.Y, "PositionY")
				hl, ha = fieldLoad(add.X, "Height")
			}
			if pa == nil || ha == nil || pa.X != ha.X {
				return
			}
			n++
			key := core.FuncName(fn) + " | PositionY + Height of a row"
			var later *ssa.Store
			reach := core.ForwardReach(hl.Block(), nil, nil)
			core.Instrs(fn, func(in2 ssa.Instruction) {
				st, ok := in2.(*ssa.Store)
				if !ok {
					return
				}
				fa2, ok := st.Addr.(*ssa.FieldAddr)
				if !ok || fa2.X != ha.X || fa2.Field != ha.Field {
					return
				}
				if st.Block() == hl.Block() {
					if instrDominates(hl, st) {
						later = st
					}
					return
				}
				if reach[st.Block()] {
					later = st
				}
			})
			if later != nil {
				r.Fail(key, p.Pos(add.Pos()), "the height read for the bottom edge is changed afterwards at "+p.Pos(later.Pos())+": cells are aligned on an edge that is not the row's")
			} else {
				r.OK(key, p.Pos(add.Pos()), "no later assignment of the row's height in the iteration")
			}
		})
	}
	if n == 0 {
		r.Anchor("tableLayout: row.PositionY + row.Height")
	}
}

// c13CellX: where a cell starts, and how an excess width is shared.
func c13CellX(c *core.Check) {
	p := c.Prog
	r := c.Rule("R7", "cells start on their columns and shares add up: in tableLayout a cell's PositionX is the position of column GridX in a left-to-right table and of column GridX + Colspan − 1 in a right-to-left one, read from ColumnPositions without further arithmetic (the positions already contain the spacing); and where an excess width is divided by the number of columns of a list, the quotient is added to every column of that list (one per iteration, unconditionally)", 4)
	leaf := func(v ssa.Value) string {
		if ld, ok := v.(*ssa.UnOp); ok {
			if fa, ok := ld.X.(*ssa.FieldAddr); ok {
				switch core.FieldName(fa) {
				case "GridX", "Colspan":
					return core.FieldName(fa)
				}
			}
		}
		return ""
	}
	nPos := 0
	for _, fn := range p.FuncsOfPkg("html/layout") {
		root := fn
		for root.Parent() != nil {
			root = root.Parent()
		}
		if root.Name() != "tableLayout" {
			continue
		}
		fn := fn
		core.Instrs(fn, func(in ssa.Instruction) {
			st, ok := in.(*ssa.Store)
			if !ok {
				return
			}
			fa, ok := st.Addr.(*ssa.FieldAddr)
			if !ok || core.FieldName(fa) != "PositionX" {
				return
			}
			// only the stores whose value comes from ColumnPositions
			fromCols := core.DerivesFrom(st.Val, func(v ssa.Value) bool { return core.IsFieldNamed(v, "ColumnPositions") }) ||
				arithDerives(st.Val, func(v ssa.Value) bool {
					ld, ok := v.(*ssa.UnOp)
					if !ok {
						return false
					}
					ia, ok := ld.X.(*ssa.IndexAddr)
					return ok && core.IsFieldNamed(ia.X, "ColumnPositions")
				})
			if !fromCols {
				return
			}
			nPos++
			key := fmt.Sprintf("%s | cell.PositionX #%d", core.FuncName(fn), nPos)
			ld, isLoad := st.Val.(*ssa.UnOp)
			var ia *ssa.IndexAddr
			if isLoad {
				ia, _ = ld.X.(*ssa.IndexAddr)
			}
			if ia == nil {
				r.Fail(key, p.Pos(st.Pos()), "the position is computed from a column position with further arithmetic: column positions already include the border spacing between columns")
				return
			}
			lin, okl := core.LinearOf(ia.Index, leaf, 0)
			form := ""
			if okl {
				form = core.LinearAtom(token.EQL, lin, core.Lin{T: map[string]int64{}})
			}
			okForm := form == "GridX == 0" || form == "Colspan + GridX - 1 == 0"
			r.Cond(okForm, key, p.Pos(st.Pos()), "ColumnPositions["+strings.TrimSuffix(form, " == 0")+"]", "the cell is placed on column `"+strings.TrimSuffix(form, " == 0")+"`, not on its first (ltr) or last (rtl) column")
		})
	}
	if nPos == 0 {
		r.Anchor("tableLayout: cell.PositionX from ColumnPositions")
	}
	// shares
	nShare := 0
	for _, name := range []string{"autoTableLayout", "distributeExcessWidth", "fixedTableLayout"} {
		fn := p.Fn("html/layout", name)
		if fn == nil {
			continue
		}
		for _, div := range floatCountDivs(fn) {
			cnt := countFactor(div.Y, 0)
			call, ok := cnt.(*ssa.Call)
			if !ok {
				continue
			}
			b, isB := call.Call.Value.(*ssa.Builtin)
			if !isB || b.Name() != "len" {
				continue
			}
			// the stores that add the quotient to an element
			var stores []*ssa.Store
			core.Instrs(fn, func(in ssa.Instruction) {
				st, ok := in.(*ssa.Store)
				if !ok {
					return
				}
				if _, isElem := st.Addr.(*ssa.IndexAddr); !isElem {
					return
				}
				if add, ok := st.Val.(*ssa.BinOp); ok && add.Op == token.ADD && (add.X == ssa.Value(div) || add.Y == ssa.Value(div)) {
					stores = append(stores, st)
				}
			})
			for _, st := range stores {
				nShare++
				key := fmt.Sprintf("html/layout.%s | += %s", name, opText(p, fn, div))
				l := core.InnermostLoop(fn, st.Block())
				if l == nil {
					r.Fail(key, p.Pos(st.Pos()), "the share is not added in a loop")
					continue
				}
				// the loop ranges over the slice whose length divides
				ranges := false
				if ifi, ok := l.Header.Instrs[len(l.Header.Instrs)-1].(*ssa.If); ok {
					if cmp, ok := ifi.Cond.(*ssa.BinOp); ok {
						if lc, ok := cmp.Y.(*ssa.Call); ok {
							if b2, isB := lc.Call.Value.(*ssa.Builtin); isB && b2.Name() == "len" && (lc.Call.Args[0] == call.Call.Args[0]) {
								ranges = true
							}
						}
					}
				}
				always, _ := core.EveryIterationPasses(l, func(in ssa.Instruction) bool { return in == ssa.Instruction(st) })
				r.Cond(ranges && always, key, p.Pos(st.Pos()), "added once per element of the list whose length divides", fmt.Sprintf("the excess is divided by the length of a list but the quotient is not added to every element of that list (loop over the same list: %v, added on every iteration: %v): the columns no longer fill the table's width", ranges, always))
			}
		}
	}
	if nShare == 0 {
		r.Anchor("table layout: excess / len(columns) added to the columns")
	}
}

// c13MinWidth: a specified width never makes the table narrower than its content's minimum.
func c13MinWidth(c *core.Check) {
	p := c.Prog
	r := c.Rule("R8", "a table is never narrower than its content's minimum: in tableAndColumnsPreferredWidths every value of the table's min-content (resp. max-content) width that comes from the specified width through adjust(…) is combined by a maximum with the width computed from the columns", 2)
	fn := p.Fn("html/layout", "tableAndColumnsPreferredWidths")
	if fn == nil {
		r.Anchor("html/layout.tableAndColumnsPreferredWidths")
		return
	}
	n := 0
	core.Instrs(fn, func(in ssa.Instruction) {
		call, ok := in.(*ssa.Call)
		if !ok || !calleeIsLocal(call, "adjust") {
			if !ok || call.Call.StaticCallee() == nil || call.Call.StaticCallee().Name() != "adjust" {
				return
			}
		}
		// only the calls on the table's own specified widths (inner widths: outer == false)
		if len(call.Call.Args) < 2 {
			return
		}
		if k, isK := call.Call.Args[1].(*ssa.Const); !isK || k.Value == nil || k.Value.String() != "false" {
			return
		}
		refs := call.Referrers()
		if refs == nil {
			return
		}
		direct := false
		for _, ref := range *refs {
			switch x := ref.(type) {
			case *ssa.Call:
				if x.Call.StaticCallee() != nil && strings.EqualFold(x.Call.StaticCallee().Name(), "max") {
					n++
					r.OK(fmt.Sprintf("html/layout.tableAndColumnsPreferredWidths | adjust(…) #%d", n), p.Pos(call.Pos()), "combined by Max with the width computed from the columns")
					direct = true
				}
			case *ssa.Phi, *ssa.Store, *ssa.Return:
				n++
				r.Fail(fmt.Sprintf("html/layout.tableAndColumnsPreferredWidths | adjust(…) #%d", n), p.Pos(call.Pos()), "the width derived from the specified width replaces the width computed from the columns instead of being combined with it by a maximum: `width: 40px` on a table whose columns need 98px gives a 40px table")
				direct = true
			}
		}
		_ = direct
	})
	if n == 0 {
		r.Anchor("tableAndColumnsPreferredWidths: uses of adjust(…)")
	}
}

// c13PadEdge: the edge the cells of a row are padded down to is the bottom of that row.
func c13PadEdge(c *core.Check) {
	p := c.Prog
	r := c.Rule("R9", "a spanning cell covers its slots: in tableLayout the edge from which the bottom of a cell is subtracted to pad it (extra = edge − cell bottom) is, on every path, the row's own PositionY or PositionY + Height — never the bottom of the tallest ending cell, which may be above the row", 1)
	n := 0
	for _, fn := range p.FuncsOfPkg("html/layout") {
		root := fn
		for root.Parent() != nil {
			root = root.Parent()
		}
		if root.Name() != "tableLayout" {
			continue
		}
		fn := fn
		isField := func(v ssa.Value, name string) (ssa.Value, bool) {
			if call, ok := v.(*ssa.Call); ok && call.Call.IsInvoke() && call.Call.Method.Name() == "V" {
				v = call.Call.Value
			}
			if mi, ok := v.(*ssa.MakeInterface); ok {
				v = mi.X
			}
			ld, ok := v.(*ssa.UnOp)
			if !ok || ld.Op != token.MUL {
				return nil, false
			}
			fa, ok := ld.X.(*ssa.FieldAddr)
			if !ok || core.FieldName(fa) != name {
				return nil, false
			}
			return fa.X, true
		}
		// the padding subtraction: X − (cell.PositionY + cell.BorderHeight())
		core.Instrs(fn, func(in ssa.Instruction) {
			sub, ok := in.(*ssa.BinOp)
			if !ok || sub.Op != token.SUB {
				return
			}
			bottom, ok := sub.Y.(*ssa.BinOp)
			if !ok || bottom.Op != token.ADD {
				return
			}
			_, hasPos := isField(bottom.X, "PositionY")
			bh, isCall := bottom.Y.(*ssa.Call)
			if !hasPos || !isCall || bh.Call.StaticCallee() == nil || bh.Call.StaticCallee().Name() != "BorderHeight" {
				return
			}
			phi, ok := sub.X.(*ssa.Phi)
			if !ok {
				return
			}
			for i, e := range phi.Edges {
				n++
				key := fmt.Sprintf("html/layout.tableLayout | edge the cells are padded to, definition %d", i+1)
				ok := false
				if _, is := isField(e, "PositionY"); is {
					ok = true
				} else if add, isAdd := e.(*ssa.BinOp); isAdd && add.Op == token.ADD {
					bx, isP := isField(add.X, "PositionY")
					by, isH := isField(add.Y, "Height")
					if !isP || !isH {
						bx, isP = isField(add.Y, "PositionY")
						by, isH = isField(add.X, "Height")
					}
					ok = isP && isH && bx == by
				}
				r.Cond(ok, key, p.Pos(sub.Pos()), "the row's PositionY (+ Height)", "on this path the edge is not computed from the row's own position and height (the bottom of the tallest cell ending in the row can be above the top of the row: a rowspan=2 cell 10px high next to a 50px first row and an empty second row is not extended over its slots)")
			}
		})
	}
	if n == 0 {
		r.Anchor("tableLayout: extra := rowBottomY - (cell.PositionY + cell.BorderHeight())")
	}
}

// c13FixedWidths: the fixed layout never computes a negative column width.
func c13FixedWidths(c *core.Check) {
	p := c.Prog
	r := c.Rule("R10", "no negative column in the fixed layout: in fixedTableLayout every quotient that becomes a column width has a dividend that cannot be negative — clamped with Max(·, 0), or a difference a − b computed only where a >= b was tested", 2)
	fn := p.Fn("html/layout", "fixedTableLayout")
	if fn == nil {
		r.Anchor("html/layout.fixedTableLayout")
		return
	}
	n := 0
	core.Instrs(fn, func(in ssa.Instruction) {
		q, ok := in.(*ssa.BinOp)
		if !ok || q.Op != token.QUO {
			return
		}
		if b, isB := q.Type().Underlying().(*types.Basic); !isB || b.Info()&types.IsFloat == 0 {
			return
		}
		// only quotients whose divisor is a count (a converted len)
		if !core.DerivesFrom(q.Y, func(v ssa.Value) bool {
			call, ok := v.(*ssa.Call)
			if !ok {
				return false
			}
			b, ok := call.Call.Value.(*ssa.Builtin)
			return ok && b.Name() == "len"
		}) {
			return
		}
		n++
		key := "html/layout.fixedTableLayout | " + p.StmtTextAt(fn, q.Pos())
		ok, how := false, "the dividend is neither clamped at 0 nor a difference guarded by a comparison of its terms"
		switch d := q.X.(type) {
		case *ssa.Call:
			if cal := d.Call.StaticCallee(); cal != nil && cal.Name() == "Max" && len(d.Call.Args) == 2 {
				for _, a := range d.Call.Args {
					if k, isK := core.ConstFloat(a); isK && k == 0 {
						ok, how = true, "dividend clamped with Max(·, 0)"
					}
				}
			}
		case *ssa.BinOp:
			if d.Op == token.SUB {
				var atoms []ssa.Value
				pol := map[ssa.Value]bool{}
				for _, a := range core.CondAtoms(fn) {
					cmp, isCmp := a.(*ssa.BinOp)
					if !isCmp {
						continue
					}
					same := func(x, y ssa.Value) bool { return valueText(x) == valueText(y) }
					switch {
					case cmp.Op == token.GEQ && same(cmp.X, d.X) && same(cmp.Y, d.Y), cmp.Op == token.LEQ && same(cmp.X, d.Y) && same(cmp.Y, d.X):
						atoms, pol[a] = append(atoms, a), true
					case cmp.Op == token.LSS && same(cmp.X, d.X) && same(cmp.Y, d.Y), cmp.Op == token.GTR && same(cmp.X, d.Y) && same(cmp.Y, d.X):
						atoms, pol[a] = append(atoms, a), false
					}
				}
				if len(atoms) > 0 {
					g, _ := core.GuardedBy(fn, q.Block(), atoms, func(m map[ssa.Value]bool) bool {
						for a, v := range m {
							if v == pol[a] {
								return true
							}
						}
						return false
					})
					if g {
						ok, how = true, "difference computed only where its first term is at least the second"
					}
				}
			}
		}
		r.Cond(ok, key, p.Pos(q.Pos()), how, how+": a spanning cell narrower than the columns it spans that already have a width gives the others a negative width (ColumnWidths = [375 -75])")
	})
	if n < 2 {
		r.Anchor(fmt.Sprintf("fixedTableLayout: the quotients by a number of columns (%d found, 2 confirmed by reading)", n))
	}
}

// valueText identifies a value up to reloads: loads of the same field of the same base, and calls of the same
// niladic method on such loads, are the same quantity as long as no store intervenes (not checked: used only to
// match a comparison with the difference it guards, a few instructions apart).
func valueText(v ssa.Value) string {
	switch x := v.(type) {
	case *ssa.Call:
		if x.Call.IsInvoke() && len(x.Call.Args) == 0 {
			return valueText(x.Call.Value) + "." + x.Call.Method.Name() + "()"
		}
		if callee := x.Call.StaticCallee(); callee != nil && callee.Signature.Recv() != nil && len(x.Call.Args) == 1 {
			return valueText(x.Call.Args[0]) + "." + callee.Name() + "()"
		}
		if b, ok := x.Call.Value.(*ssa.Builtin); ok && b.Name() == "len" && len(x.Call.Args) == 1 {
			return "len(" + valueText(x.Call.Args[0]) + ")"
		}
	case *ssa.MakeInterface:
		return valueText(x.X)
	case *ssa.UnOp:
		if x.Op == token.MUL {
			if fa, ok := x.X.(*ssa.FieldAddr); ok {
				return fmt.Sprintf("%s.#%d", valueText(fa.X), fa.Field)
			}
			switch a := x.X.(type) {
			case *ssa.Alloc, *ssa.FreeVar, *ssa.Global, *ssa.Parameter:
				return "*" + a.Name()
			}
		}
	case *ssa.FieldAddr:
		return fmt.Sprintf("&%s.#%d", valueText(x.X), x.Field)
	case *ssa.Field:
		return fmt.Sprintf("%s.#%d", valueText(x.X), x.Field)
	case *ssa.BinOp:
		return "(" + valueText(x.X) + " " + x.Op.String() + " " + valueText(x.Y) + ")"
	case *ssa.Const:
		if x.Value != nil {
			return x.Value.ExactString()
		}
	}
	return v.Name()
}

// c13SpacingCount cross-checks the two places that count the horizontal spacings of a table: the preferred widths
// (the width given to the table includes count × border-spacing) and tableLayout (the columns are placed one spacing
// apart).  Both must count the same columns, or the columns plus spacing do not fill the table.
func c13SpacingCount(c *core.Check) {
	p := c.Prog
	r := c.Rule("R11", "the columns plus spacing fill the table: the number of horizontal spacings included in the table's width (tableAndColumnsPreferredWidths) and the number of spacings laid between the columns (tableLayout) are counted the same way — one per column on every iteration of both loops, or conditionally in both", 2)
	pref := p.Fn("html/layout", "tableAndColumnsPreferredWidths")
	lay := p.Fn("html/layout", "tableLayout")
	if pref == nil || lay == nil {
		r.Anchor("html/layout.tableAndColumnsPreferredWidths / tableLayout")
		return
	}
	// preferred widths: the increments (+1) feeding the value stored in the field totalHorizontalBorderSpacing
	var stored []ssa.Value
	core.Instrs(pref, func(in ssa.Instruction) {
		if st, ok := in.(*ssa.Store); ok {
			if fa, ok := st.Addr.(*ssa.FieldAddr); ok && core.FieldName(fa) == "totalHorizontalBorderSpacing" {
				stored = append(stored, st.Val)
			}
		}
	})
	var incs []*ssa.BinOp
	core.Instrs(pref, func(in ssa.Instruction) {
		bo, ok := in.(*ssa.BinOp)
		if !ok || bo.Op != token.ADD {
			return
		}
		if k, isK := core.ConstFloat(bo.Y); !isK || k != 1 {
			return
		}
		if _, isPhi := bo.X.(*ssa.Phi); !isPhi {
			return
		}
		for _, s := range stored {
			if arithDerives(s, func(v ssa.Value) bool { return v == ssa.Value(bo) }) {
				incs = append(incs, bo)
				return
			}
		}
	})
	if len(stored) == 0 || len(incs) != 1 {
		r.Anchor(fmt.Sprintf("tableAndColumnsPreferredWidths: the count of spacings stored in totalHorizontalBorderSpacing (%d stores, %d increments)", len(stored), len(incs)))
		return
	}
	inc := incs[0]
	loop := core.InnermostLoop(pref, inc.Block())
	if loop == nil {
		r.Anchor("tableAndColumnsPreferredWidths: the loop counting the spacings")
		return
	}
	prefAlways, _ := core.EveryIterationPasses(loop, func(in ssa.Instruction) bool { return in == ssa.Instruction(inc) })

	// tableLayout: the loops that append to ColumnPositions; the spacing is the value added or subtracted there
	nLay := 0
	layAlways := true
	for _, fn := range p.FuncsOfPkg("html/layout") {
		root := fn
		for root.Parent() != nil {
			root = root.Parent()
		}
		if root != lay {
			continue
		}
		for _, l := range core.Loops(fn) {
			appends := false
			for b := range l.Blocks {
				for _, in := range b.Instrs {
					if st, ok := in.(*ssa.Store); ok {
						if fa, ok := st.Addr.(*ssa.FieldAddr); ok && core.FieldName(fa) == "ColumnPositions" {
							appends = true
						}
					}
				}
			}
			if !appends {
				continue
			}
			// the spacing: a loop-invariant float added to / subtracted from the running position
			isSpacing := func(in ssa.Instruction) bool {
				bo, ok := in.(*ssa.BinOp)
				if !ok || (bo.Op != token.ADD && bo.Op != token.SUB) {
					return false
				}
				if b, isB := bo.Type().Underlying().(*types.Basic); !isB || b.Info()&types.IsFloat == 0 {
					return false
				}
				// a step of the running position: the left operand is the loop's phi or an earlier step
				switch bo.X.(type) {
				case *ssa.Phi, *ssa.BinOp:
				default:
					return false
				}
				// the column width is the element of the list ranged over; anything else is the spacing
				if ld, ok := bo.Y.(*ssa.UnOp); ok && ld.Op == token.MUL {
					if _, isElem := ld.X.(*ssa.IndexAddr); isElem {
						return false
					}
				}
				return true
			}
			found := false
			for b := range l.Blocks {
				for _, in := range b.Instrs {
					if isSpacing(in) {
						found = true
					}
				}
			}
			if !found {
				continue
			}
			nLay++
			if always, _ := core.EveryIterationPasses(l, isSpacing); !always {
				layAlways = false
			}
		}
	}
	if nLay < 2 {
		r.Anchor(fmt.Sprintf("tableLayout: the loops placing the columns one spacing apart (%d found, 2 confirmed by reading: ltr and rtl)", nLay))
		return
	}
	r.Cond(layAlways, "html/layout.tableLayout | one spacing before every column", p.Pos(lay.Pos()), "the position advances by the spacing on every iteration", "a column is placed without a spacing on some iterations")
	desc := func(b bool) string {
		if b {
			return "one per column"
		}
		return "only for some columns (conditional increment)"
	}
	r.Cond(prefAlways == layAlways, "html/layout.tableAndColumnsPreferredWidths | spacings counted as tableLayout lays them", p.Pos(inc.Pos()), "same count on both sides ("+desc(prefAlways)+")",
		"the width of the table includes "+desc(prefAlways)+" spacing, tableLayout lays "+desc(layAlways)+": a column with no originating cell gets a spacing that the table's width does not contain, and the columns plus spacing overflow the table")
}


// c13ResumedRowShift: the cells of a row share their top edge also when the row is resumed on a new page under a
// repeated header with collapsed borders.  The shift applied to a cell's PositionY in that case must be applied to
// every cell of the resumed row: the condition that guards it tests the cell's resume stack *after* it was defaulted
// (every cell of a resumed row has one: the recorded one, or "already finished"), never the raw lookup in the row's
// resume stack, which is nil for the cells that were finished on the previous page.
func c13ResumedRowShift(c *core.Check) {
	p := c.Prog
	r := c.Rule("R12", "cells of a resumed row share their top edge: in tableLayout the condition guarding an adjustment of a cell's PositionY inside the cell loop does not test a raw lookup of the row's resume stack by the cell's index (nil for the cells already finished) but the defaulted resume stack of the cell, which is set for every cell of a resumed row", 1)
	n := 0
	for _, fn := range p.FuncsOfPkg("html/layout") {
		root := fn
		for root.Parent() != nil {
			root = root.Parent()
		}
		if root.Name() != "tableLayout" {
			continue
		}
		fn := fn
		core.Instrs(fn, func(in ssa.Instruction) {
			st, ok := in.(*ssa.Store)
			if !ok {
				return
			}
			fa, ok := st.Addr.(*ssa.FieldAddr)
			if !ok || core.FieldName(fa) != "PositionY" {
				return
			}
			add, ok := st.Val.(*ssa.BinOp)
			if !ok || add.Op != token.ADD {
				return
			}
			// an increment of the same field
			ld, ok := add.X.(*ssa.UnOp)
			if !ok {
				return
			}
			fa2, ok := ld.X.(*ssa.FieldAddr)
			if !ok || fa2.Field != fa.Field || fa2.X != fa.X {
				return
			}
			if core.InnermostLoop(fn, st.Block()) == nil {
				return
			}
			// the nil tests that dominate the store
			raw := ""
			guarded := false
			for _, a := range core.CondAtoms(fn) {
				bo, ok := a.(*ssa.BinOp)
				if !ok || (bo.Op != token.NEQ && bo.Op != token.EQL) {
					continue
				}
				if k, isK := bo.Y.(*ssa.Const); !isK || k.Value != nil {
					continue
				}
				if _, isMap := bo.X.Type().Underlying().(*types.Map); !isMap {
					continue
				}
				g, _ := core.GuardedBy(fn, st.Block(), []ssa.Value{a}, func(m map[ssa.Value]bool) bool { return m[a] == (bo.Op == token.NEQ) })
				if !g {
					continue
				}
				guarded = true
				switch x := bo.X.(type) {
				case *ssa.Lookup:
					raw = "a lookup in the row's resume stack"
				case *ssa.Extract:
					if _, isL := x.Tuple.(*ssa.Lookup); isL {
						raw = "a lookup in the row's resume stack"
					}
				}
			}
			if !guarded {
				return
			}
			n++
			r.Cond(raw == "", "html/layout.tableLayout | shift of the cells of a resumed row", p.Pos(st.Pos()), "guarded by the cell's defaulted resume stack", "the shift is guarded by "+raw+" by the cell's index, which is nil for the cells that were finished on the previous page: only the continuing cells are shifted and the cells of the row no longer share their top edge")
		})
	}
	if n == 0 {
		r.Anchor("tableLayout: cell.PositionY += … under a test of the cell's resume stack")
	}
}

// c13MaxStart: a running maximum of positions starts below every position.  tableLayout computes the bottom of a
// row as the maximum of the bottoms of the cells ending in it; started at 0 the maximum is wrong for a table placed
// above the origin (negative margin): the row is stretched down to y = 0.
func c13MaxStart(c *core.Check) {
	p := c.Prog
	r := c.Rule("R13", "a running maximum of cell positions starts at −∞: in tableLayout every loop variable that is only raised to larger values of PositionY + BorderHeight (`if v > m { m = v }`) enters its loop with −∞, not with a finite constant (a table above the origin has all its cell bottoms below 0)", 1)
	n := 0
	for _, fn := range p.FuncsOfPkg("html/layout") {
		root := fn
		for root.Parent() != nil {
			root = root.Parent()
		}
		if root.Name() != "tableLayout" {
			continue
		}
		for _, l := range core.Loops(fn) {
			for _, in := range l.Header.Instrs {
				phi, ok := in.(*ssa.Phi)
				if !ok {
					continue
				}
				if b, isB := phi.Type().Underlying().(*types.Basic); !isB || b.Info()&types.IsFloat == 0 {
					continue
				}
				// raised under `v > phi` with v a sum with a PositionY load
				raised := false
				for b := range l.Blocks {
					for _, in2 := range b.Instrs {
						cmp, ok := in2.(*ssa.BinOp)
						if !ok || cmp.Op != token.GTR || cmp.Y != ssa.Value(phi) {
							continue
						}
						if add, ok := cmp.X.(*ssa.BinOp); ok && add.Op == token.ADD {
							for _, side := range []ssa.Value{add.X, add.Y} {
								if ld, ok := side.(*ssa.UnOp); ok {
									if fa, ok := ld.X.(*ssa.FieldAddr); ok && core.FieldName(fa) == "PositionY" {
										raised = true
									}
								}
							}
						}
					}
				}
				if !raised {
					continue
				}
				for i, pred := range l.Header.Preds {
					if l.Blocks[pred] {
						continue
					}
					n++
					start := phi.Edges[i]
					if inner, ok := start.(*ssa.Phi); ok && len(inner.Edges) > 0 {
						start = inner.Edges[0]
					}
					k, isK := core.ConstFloat(start)
					if neg, ok := start.(*ssa.UnOp); ok && neg.Op == token.SUB {
						// −Inf spelled with the package's Inf variable
						if ld, ok := neg.X.(*ssa.UnOp); ok {
							if g, ok := ld.X.(*ssa.Global); ok && g.Name() == "Inf" {
								isK, k = true, -1e38
							}
						}
					}
					r.Cond(isK && k < -1e30, "html/layout.tableLayout | start of the maximum of the cells' bottoms", p.Pos(phi.Pos()), "starts at −∞", fmt.Sprintf("starts at %v: with every cell bottom below that value (a table moved above the origin by a negative margin) the row is given the height up to it (50 instead of 20)", start))
				}
			}
		}
	}
	if n == 0 {
		r.Anchor("tableLayout: the maximum of the cells' bottoms")
	}
}
