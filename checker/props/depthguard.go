package props

import (
	"fmt"
	"go/token"

	"golang.org/x/tools/go/ssa"

	"wrverif/core"
)

// depthGuardRule: the recursive descent of the CSS tokenizer is bounded by a counter.  Let S be the recursive
// component (static calls) of (*tokenizer).consumeValueList.  Every call between members of S goes through one
// member g (the guard); in g every call into S is reachable only when a comparison of a receiver field F with a
// positive constant allows it, and F is incremented between the test and the call and decremented after it.
func depthGuardRule(c *core.Check, r *core.Rule) {
	p := c.Prog
	root := p.Method("css/parser", "tokenizer", "consumeValueList")
	if root == nil {
		r.Anchor("css/parser.(*tokenizer).consumeValueList")
		return
	}
	scc := p.SCCOf(root)
	type site struct {
		from *ssa.Function
		call *ssa.Call
	}
	var sites []site
	for fn := range scc {
		fn := fn
		core.Instrs(fn, func(in ssa.Instruction) {
			if call, ok := in.(*ssa.Call); ok {
				if t := call.Common().StaticCallee(); t != nil && scc[t] {
					sites = append(sites, site{fn, call})
				}
			}
		})
	}
	if len(sites) == 0 {
		r.Cond(true, "css/parser.(*tokenizer).consumeValueList | not recursive", p.Pos(root.Pos()), "no recursion", "")
		return
	}
	// the guard: the member whose calls into S are all guarded by a counter test
	guardOf := func(fn *ssa.Function, call *ssa.Call) (bool, string) {
		// atoms: load(FieldAddr(recv, F)) cmp const
		var atoms []ssa.Value
		pol := map[ssa.Value]bool{}
		field := map[ssa.Value]int{}
		for _, a := range core.CondAtoms(fn) {
			bo, ok := a.(*ssa.BinOp)
			if !ok {
				continue
			}
			k, isK := core.ConstInt(bo.Y)
			ld, isLd := bo.X.(*ssa.UnOp)
			if !isK || k <= 0 || !isLd || ld.Op != token.MUL {
				continue
			}
			fa, ok := ld.X.(*ssa.FieldAddr)
			if !ok {
				continue
			}
			switch bo.Op {
			case token.GEQ, token.GTR:
				atoms, pol[a], field[a] = append(atoms, a), false, fa.Field
			case token.LSS, token.LEQ:
				atoms, pol[a], field[a] = append(atoms, a), true, fa.Field
			}
		}
		if len(atoms) == 0 {
			return false, "no comparison of a receiver field with a positive constant"
		}
		ok, _ := core.GuardedBy(fn, call.Block(), atoms, func(m map[ssa.Value]bool) bool {
			for a, v := range m {
				if v == pol[a] {
					return true
				}
			}
			return false
		})
		if !ok {
			return false, "a path reaches the recursive call without the depth test"
		}
		// the counter is incremented before the call and decremented after it, in the block of the call
		inc, dec, seenCall := false, false, false
		for _, in := range call.Block().Instrs {
			if in == ssa.Instruction(call) {
				seenCall = true
				continue
			}
			st, ok := in.(*ssa.Store)
			if !ok {
				continue
			}
			fa, ok := st.Addr.(*ssa.FieldAddr)
			if !ok {
				continue
			}
			counted := false
			for _, f := range field {
				if f == fa.Field {
					counted = true
				}
			}
			bo, isBo := st.Val.(*ssa.BinOp)
			if !counted || !isBo {
				continue
			}
			if k, isK := core.ConstInt(bo.Y); isK && k == 1 {
				if bo.Op == token.ADD && !seenCall {
					inc = true
				}
				if bo.Op == token.SUB && seenCall {
					dec = true
				}
			}
		}
		if !inc || !dec {
			return false, fmt.Sprintf("the tested counter is not incremented before and decremented after the call (inc=%v dec=%v)", inc, dec)
		}
		return true, "depth counter tested against a constant, incremented before and decremented after the call"
	}
	for _, s := range sites {
		ok, how := guardOf(s.from, s.call)
		key := core.FuncName(s.from) + " | " + p.StmtTextAt(s.from, s.call.Pos())
		if s.from == root && !ok {
			// the root may recurse only through a guard: its own calls must target a guarded member, not itself
			t := s.call.Common().StaticCallee()
			guarded := t != root
			if guarded {
				// every call of t into S is guarded
				core.Instrs(t, func(in ssa.Instruction) {
					if c2, ok := in.(*ssa.Call); ok {
						if t2 := c2.Common().StaticCallee(); t2 != nil && scc[t2] {
							if g, _ := guardOf(t, c2); !g {
								guarded = false
							}
						}
					}
				})
			}
			r.Cond(guarded, key, p.Pos(s.call.Pos()), "the nested content is parsed through "+t.Name()+", which bounds the depth",
				"a block or function is parsed by a recursive call that no depth counter bounds: a style sheet (or a style attribute) made of 1 MB of opening parentheses exhausts the stack and kills the process")
			continue
		}
		r.Cond(ok, key, p.Pos(s.call.Pos()), how, how+": the nesting of blocks is unbounded, 1 MB of opening parentheses exhausts the stack and kills the process")
	}
}

// depthParamRule: the builder of the SVG tree — the only producer of the tree every other recursive function of the
// package walks — bounds its depth: each of its recursive calls passes depth+k (k > 0) for one integer parameter and
// is reachable only when a comparison of that parameter with a constant allows it.
func depthParamRule(c *core.Check, r *core.Rule) {
	p := c.Prog
	outer := p.Fn("svg", "newSVGContext")
	if outer == nil {
		r.Anchor("svg.newSVGContext")
		return
	}
	g := p.VTA()
	n := 0
	for _, fn := range outer.AnonFuncs {
		node := g.Nodes[fn]
		if node == nil {
			continue
		}
		var sites []*ssa.Call
		seen := map[ssa.CallInstruction]bool{}
		for _, e := range node.Out {
			if e.Callee.Func == fn && e.Site != nil && !seen[e.Site] {
				seen[e.Site] = true
				if cc, ok := e.Site.(*ssa.Call); ok {
					sites = append(sites, cc)
				}
			}
		}
		for _, call := range sites {
			n++
			key := core.FuncName(fn) + " | " + p.StmtTextAt(fn, call.Pos())
			ok, how := false, "no integer parameter is passed on incremented"
			for k, par := range fn.Params {
				if k >= len(call.Call.Args) {
					continue
				}
				bo, isBo := call.Call.Args[k].(*ssa.BinOp)
				if !isBo || bo.Op != token.ADD || bo.X != ssa.Value(par) {
					continue
				}
				if inc, isK := core.ConstInt(bo.Y); !isK || inc <= 0 {
					continue
				}
				var atoms []ssa.Value
				pol := map[ssa.Value]bool{}
				for _, a := range core.CondAtoms(fn) {
					cmp, isCmp := a.(*ssa.BinOp)
					if !isCmp || cmp.X != ssa.Value(par) {
						continue
					}
					if lim, isK := core.ConstInt(cmp.Y); !isK || lim <= 0 || lim > 1<<16 {
						continue
					}
					switch cmp.Op {
					case token.GTR, token.GEQ:
						atoms, pol[a] = append(atoms, a), false
					case token.LSS, token.LEQ:
						atoms, pol[a] = append(atoms, a), true
					}
				}
				if len(atoms) == 0 {
					how = "the incremented parameter is never compared with a constant"
					continue
				}
				guarded, _ := core.GuardedBy(fn, call.Block(), atoms, func(m map[ssa.Value]bool) bool {
					for a, v := range m {
						if v == pol[a] {
							return true
						}
					}
					return false
				})
				if guarded {
					ok, how = true, fmt.Sprintf("parameter %s is passed on incremented and the call is reachable only below a constant depth", par.Name())
				} else {
					how = "a path reaches the recursive call without the depth test"
				}
			}
			r.Cond(ok, key, p.Pos(call.Pos()), how, how+": the depth of the SVG tree is the depth of the document; 2 000 000 nested <g> elements (14 MB) exhaust the stack and kill the process")
		}
	}
	if n == 0 {
		r.Anchor("svg.newSVGContext: the recursive tree builder")
	}
}
