package props

import (
	"fmt"
	"go/token"
	"go/types"

	"golang.org/x/tools/go/ssa"

	"wrverif/core"
)

// c11SpaceWidth (R12): removing the trailing space of a line conserves widths.  removeLastWhitespace shrinks the
// last text box and then subtracts one amount from the width of every inline ancestor (and shifts rtl lines by it):
// on every path that amount is the width the text box had on entry minus the width stored into it.  Decided
// symbolically: loads of the text box's width are OLD before the store and the stored value after it.
func c11SpaceWidth(c *core.Check) {
	p := c.Prog
	r := c.Rule("R12", "removeLastWhitespace: on every path, the amount subtracted from the width of the ancestors equals the text box's width on entry minus the width stored into the text box (linear forms over the loads, the store splitting old from new)", 2)
	fn := p.Fn("html/layout", "removeLastWhitespace")
	if fn == nil {
		r.Anchor("html/layout.removeLastWhitespace")
		return
	}
	isTextBox := func(v ssa.Value) bool {
		// the address chain textBox -> (BoxFields) -> Width
		for {
			fa, ok := v.(*ssa.FieldAddr)
			if !ok {
				break
			}
			v = fa.X
		}
		if pt, ok := v.Type().(*types.Pointer); ok {
			if n, ok := pt.Elem().(*types.Named); ok {
				return n.Obj().Name() == "TextBox"
			}
		}
		return false
	}
	widthAddr := func(v ssa.Value) (*ssa.FieldAddr, bool) {
		fa, ok := v.(*ssa.FieldAddr)
		return fa, ok && core.FieldName(fa) == "Width"
	}
	// stores to the text box's width, and the ancestors' store
	var tbStores []*ssa.Store
	var amount ssa.Value
	var amountPos token.Pos
	core.Instrs(fn, func(in ssa.Instruction) {
		st, ok := in.(*ssa.Store)
		if !ok {
			return
		}
		fa, ok := widthAddr(st.Addr)
		if !ok {
			return
		}
		if isTextBox(fa) {
			tbStores = append(tbStores, st)
			return
		}
		v := st.Val
		if mi, ok := v.(*ssa.MakeInterface); ok {
			v = mi.X
		}
		if bo, ok := v.(*ssa.BinOp); ok && bo.Op == token.SUB {
			amount, amountPos = bo.Y, st.Pos()
		}
	})
	key := "removeLastWhitespace | amount taken from the ancestors"
	if amount == nil || len(tbStores) == 0 {
		r.Unknown(key, p.Pos(fn.Pos()), fmt.Sprintf("the subtraction from the ancestors' width (%v) or the stores to the text box's width (%d) were not found", amount != nil, len(tbStores)))
		return
	}
	before := func(a, b ssa.Instruction) bool {
		if a.Block() == b.Block() {
			for _, in := range a.Block().Instrs {
				if in == a {
					return true
				}
				if in == b {
					return false
				}
			}
		}
		return a.Block().Dominates(b.Block())
	}
	type edge struct {
		v    ssa.Value
		pred *ssa.BasicBlock
	}
	var edges []edge
	var collect func(v ssa.Value, at *ssa.BasicBlock, depth int)
	collect = func(v ssa.Value, at *ssa.BasicBlock, depth int) {
		if phi, ok := v.(*ssa.Phi); ok && depth < 4 {
			for i, e := range phi.Edges {
				collect(e, phi.Block().Preds[i], depth+1)
			}
			return
		}
		edges = append(edges, edge{v, at})
	}
	collect(amount, nil, 0)
	_ = amountPos
	for i, e := range edges {
		k := fmt.Sprintf("%s, path %d", key, i+1)
		in, ok := e.v.(ssa.Instruction)
		if !ok || e.pred == nil {
			// a constant amount on a path: only right if nothing is stored on it
			r.Unknown(k, p.Pos(amountPos), "the amount is not computed on this path")
			continue
		}
		// the store of this path: the one executed before the end of the predecessor
		var st *ssa.Store
		n := 0
		for _, s := range tbStores {
			if s.Block() == e.pred || s.Block().Dominates(e.pred) {
				st = s
				n++
			}
		}
		if n != 1 {
			r.Unknown(k, p.Pos(in.Pos()), fmt.Sprintf("%d stores to the text box's width on this path", n))
			continue
		}
		var lin func(v ssa.Value, depth int) (core.Lin, bool)
		lin = func(v ssa.Value, depth int) (core.Lin, bool) {
			if depth > 10 {
				return core.Lin{}, false
			}
			switch x := v.(type) {
			case *ssa.MakeInterface:
				return lin(x.X, depth+1)
			case *ssa.ChangeType:
				return lin(x.X, depth+1)
			case *ssa.Convert:
				return lin(x.X, depth+1)
			case *ssa.Const:
				if f, ok := core.ConstFloat(x); ok && f == float64(int64(f)) {
					return core.Lin{T: map[string]int64{}, K: int64(f)}, true
				}
			case *ssa.Call:
				if x.Call.IsInvoke() && x.Call.Method.Name() == "V" {
					return lin(x.Call.Value, depth+1)
				}
			case *ssa.UnOp:
				if x.Op == token.SUB {
					if a, ok := lin(x.X, depth+1); ok {
						return a.Scale(-1), true
					}
				}
				if x.Op == token.MUL {
					if fa, ok := widthAddr(x.X); ok && isTextBox(fa) {
						if before(st, x) {
							return lin(st.Val, depth+1)
						}
						return core.Lin{T: map[string]int64{"OLD": 1}}, true
					}
					return core.Lin{T: map[string]int64{valueText(x): 1}}, true
				}
			case *ssa.BinOp:
				a, ok1 := lin(x.X, depth+1)
				b, ok2 := lin(x.Y, depth+1)
				if ok1 && ok2 {
					switch x.Op {
					case token.ADD:
						return a.Plus(b, 1), true
					case token.SUB:
						return a.Plus(b, -1), true
					}
				}
			}
			return core.Lin{}, false
		}
		// the stored value must not itself be read after the store (it is computed before)
		got, ok1 := lin(e.v, 0)
		stored, ok2 := lin(st.Val, 0)
		if !ok1 || !ok2 {
			r.Unknown(k, p.Pos(in.Pos()), "the amount or the stored width is not a linear form over width loads")
			continue
		}
		want := core.Lin{T: map[string]int64{"OLD": 1}}.Plus(stored, -1)
		diff := got.Plus(want, -1)
		r.Cond(len(diff.T) == 0 && diff.K == 0, k, p.Pos(in.Pos()), "amount = "+got.String()+" = old width - stored width", fmt.Sprintf("the amount is %s but the text box shrinks by %s: the ancestors (and the rtl shift) are not adjusted by the width of the removed space", got.String(), want.String()))
	}
}
