package props

import (
	"fmt"
	"go/token"
	"go/types"
	"strings"

	"golang.org/x/tools/go/ssa"

	"wrverif/core"
)

// c14CountMinus (R14): `space` repetition distributes the free room over the gaps between the tiles: the divisor is
// the number of tiles minus one.  A floating point division by (count − k), count being a number of repetitions
// (an integer converted to float, or the result of Floor/Ceil/Round), is reached only under a comparison that makes
// count exceed k; with a single tile the quotient is infinite or NaN and reaches the backend in a translation or a
// group size.
func c14CountMinus(c *core.Check) {
	p := c.Prog
	r := c.Rule("R14", "finite gaps: in the drawing and background layout code every floating point division whose divisor is (count − k), k a positive constant and count a number of repetitions, is dominated by the true side of a comparison count >= k' (k' > k) or count > k'' (k'' >= k)", 4)
	isCount := func(v ssa.Value) bool {
		return arithDerives(v, func(v ssa.Value) bool {
			switch x := v.(type) {
			case *ssa.Convert:
				if bt, ok := x.X.Type().Underlying().(*types.Basic); ok && bt.Info()&types.IsInteger != 0 {
					return true
				}
			case *ssa.Call:
				if callee := x.Call.StaticCallee(); callee != nil {
					switch callee.Name() {
					case "Floor", "Ceil", "Round", "Trunc":
						return true
					}
				}
			}
			return false
		})
	}
	n := 0
	for _, pkg := range []string{"html/layout", "html/document", "images", "svg"} {
		for _, fn := range p.FuncsOfPkg(pkg) {
			if fn.Blocks == nil {
				continue
			}
			k := 0
			core.Instrs(fn, func(in ssa.Instruction) {
				div, ok := in.(*ssa.BinOp)
				if !ok || div.Op != token.QUO {
					return
				}
				if bt, ok := div.X.Type().Underlying().(*types.Basic); !ok || bt.Info()&types.IsFloat == 0 {
					return
				}
				sub, ok := div.Y.(*ssa.BinOp)
				if !ok || sub.Op != token.SUB {
					return
				}
				kv, ok := core.ConstFloat(sub.Y)
				if !ok || kv <= 0 || kv != float64(int64(kv)) || !isCount(sub.X) {
					return
				}
				n++
				k++
				key := fmt.Sprintf("%s | division by a count minus %v #%d", core.FuncName(fn), kv, k)
				strip := func(v ssa.Value) ssa.Value {
					for {
						switch x := v.(type) {
						case *ssa.Convert:
							v = x.X
							continue
						case *ssa.ChangeType:
							v = x.X
							continue
						}
						return v
					}
				}
				ct := valueText(strip(sub.X))
				guarded := false
				for _, a := range core.CondAtoms(fn) {
					g, ok := a.(*ssa.BinOp)
					if !ok {
						continue
					}
					lim, ok := core.ConstFloat(g.Y)
					if !ok {
						if li, isInt := core.ConstInt(g.Y); isInt {
							lim, ok = float64(li), true
						}
					}
					if !ok || valueText(strip(g.X)) != ct {
						continue
					}
					okCmp := g.Op == token.GEQ && lim > kv || g.Op == token.GTR && lim >= kv
					if !okCmp {
						continue
					}
					for _, b := range fn.Blocks {
						if len(b.Instrs) == 0 {
							continue
						}
						if ifi, ok := b.Instrs[len(b.Instrs)-1].(*ssa.If); ok && ifi.Cond == ssa.Value(g) {
							if s := b.Succs[0]; s == div.Block() || s.Dominates(div.Block()) {
								guarded = true
							}
						}
					}
				}
				r.Cond(guarded, key, p.Pos(div.Pos()), "reached only with the count above the constant", "no comparison makes the count exceed the constant on the way to the division: with "+strings.TrimSuffix(fmt.Sprint(kv), ".0")+" repetition(s) the divisor is zero and the quotient, infinite or NaN, is sent to the backend")
			})
		}
	}
	if n == 0 {
		r.Unknown("drawing code | divisions by a count minus a constant", "-", "none found")
	}
}

// c14FiniteAttributes (R15): strconv.ParseFloat accepts "NaN", "Inf" and "Infinity".  In package svg, a number
// parsed from attribute text reaches the backend as a coordinate, a size or a line width; every call of
// strconv.ParseFloat there is either made on a span of number characters delimited by the path scanner
// (consumeNumber), or its result is tested with math.IsNaN and math.IsInf in the same function.
func c14FiniteAttributes(c *core.Check) {
	p := c.Prog
	r := c.Rule("R15", "finite numbers from SVG attributes: every call of strconv.ParseFloat in package svg has its result tested with math.IsNaN and math.IsInf in the same function, unless its argument is a span delimited by consumeNumber", 2)
	n := 0
	for _, fn := range p.FuncsOfPkg("svg") {
		if fn.Blocks == nil {
			continue
		}
		k := 0
		core.Instrs(fn, func(in ssa.Instruction) {
			call, ok := in.(*ssa.Call)
			if !ok {
				return
			}
			callee := call.Call.StaticCallee()
			if callee == nil || callee.Pkg == nil || callee.Pkg.Pkg.Path() != "strconv" || callee.Name() != "ParseFloat" {
				return
			}
			n++
			k++
			key := fmt.Sprintf("%s | strconv.ParseFloat #%d", core.FuncName(fn), k)
			// a scanned span
			scanned := core.DerivesFrom(call.Call.Args[0], func(v ssa.Value) bool {
				c2, ok := v.(*ssa.Call)
				return ok && c2.Call.StaticCallee() != nil && c2.Call.StaticCallee().Name() == "consumeNumber"
			})
			if !scanned {
				if sl, ok := call.Call.Args[0].(*ssa.Slice); ok && sl.High != nil {
					scanned = core.DerivesFrom(sl.High, func(v ssa.Value) bool {
						c2, ok := v.(*ssa.Call)
						return ok && c2.Call.StaticCallee() != nil && c2.Call.StaticCallee().Name() == "consumeNumber"
					})
				}
			}
			if scanned {
				r.OK(key, p.Pos(call.Pos()), "a span of number characters delimited by the scanner")
				return
			}
			var res ssa.Value
			for _, ref := range *call.Referrers() {
				if ex, ok := ref.(*ssa.Extract); ok && ex.Index == 0 {
					res = ex
				}
			}
			nan, inf := false, false
			core.Instrs(fn, func(in2 ssa.Instruction) {
				c2, ok := in2.(*ssa.Call)
				if !ok || res == nil {
					return
				}
				cl := c2.Call.StaticCallee()
				if cl == nil || cl.Pkg == nil || cl.Pkg.Pkg.Path() != "math" || len(c2.Call.Args) == 0 || c2.Call.Args[0] != res {
					return
				}
				switch cl.Name() {
				case "IsNaN":
					nan = true
				case "IsInf":
					inf = true
				}
			})
			r.Cond(nan && inf, key, p.Pos(call.Pos()), "tested with math.IsNaN and math.IsInf", fmt.Sprintf("the result is not tested for finiteness (IsNaN: %v, IsInf: %v): the attribute text NaN or Infinity is accepted and sent to the backend as a coordinate or a size", nan, inf))
		})
	}
	if n == 0 {
		r.Unknown("svg | strconv.ParseFloat", "-", "no call found")
	}
}

// c14MarkerScale (R16): a marker whose markerWidth or markerHeight is zero is not rendered (SVG 2 §13.7.1), and must
// not be: its scale is zero and the clip of the marker divides by it.  In drawMarkers every floating point division
// whose divisor is a scale returned by resolveTransforms is dominated by comparisons of both resolved marker sizes
// with zero.
func c14MarkerScale(c *core.Check) {
	p := c.Prog
	r := c.Rule("R16", "zero-sized markers are skipped: in (*SVGImage).drawMarkers every division by a scale obtained from resolveTransforms is dominated by a comparison of the resolved markerWidth and one of the resolved markerHeight with zero", 4)
	fn := p.Method("svg", "SVGImage", "drawMarkers")
	if fn == nil {
		r.Anchor("svg.(*SVGImage).drawMarkers")
		return
	}
	fromResolve := func(v ssa.Value) bool {
		ex, ok := v.(*ssa.Extract)
		if !ok {
			return false
		}
		call, ok := ex.Tuple.(*ssa.Call)
		return ok && call.Call.StaticCallee() != nil && call.Call.StaticCallee().Name() == "resolveTransforms" && ex.Index <= 1
	}
	isScale := func(v ssa.Value) bool {
		return arithDerives(v, func(v ssa.Value) bool {
			if fromResolve(v) {
				return true
			}
			// the scale lives in a local captured by the drawing closure: a load of a variable the result is stored to
			if ld, ok := v.(*ssa.UnOp); ok && ld.Op == token.MUL {
				if al, ok := ld.X.(*ssa.Alloc); ok {
					for _, ref := range *al.Referrers() {
						if st, ok := ref.(*ssa.Store); ok && st.Addr == ssa.Value(al) && fromResolve(st.Val) {
							return true
						}
					}
				}
			}
			return false
		})
	}
	// the resolved marker sizes: results of the call whose arguments are the markerWidth / markerHeight fields
	var sizes []ssa.Value
	core.Instrs(fn, func(in ssa.Instruction) {
		call, ok := in.(*ssa.Call)
		if !ok || len(call.Call.Args) < 2 {
			return
		}
		isSizeField := false
		for _, a := range call.Call.Args {
			if ld, ok := a.(*ssa.UnOp); ok {
				if fa, ok := ld.X.(*ssa.FieldAddr); ok && (core.FieldName(fa) == "markerWidth" || core.FieldName(fa) == "markerHeight") {
					isSizeField = true
				}
			}
		}
		if !isSizeField {
			return
		}
		for _, ref := range *call.Referrers() {
			if ex, ok := ref.(*ssa.Extract); ok {
				sizes = append(sizes, ex)
			}
		}
	})
	n := 0
	core.Instrs(fn, func(in ssa.Instruction) {
		div, ok := in.(*ssa.BinOp)
		if !ok || div.Op != token.QUO || !isScale(div.Y) {
			return
		}
		n++
		key := fmt.Sprintf("svg.(*SVGImage).drawMarkers | division by a marker scale #%d", n)
		tested := 0
		for _, sz := range sizes {
			for _, a := range core.CondAtoms(fn) {
				g, ok := a.(*ssa.BinOp)
				if !ok || g.X != sz {
					continue
				}
				if z, ok := core.ConstFloat(g.Y); !ok || z != 0 {
					continue
				}
				if g.Block() != div.Block() && g.Block().Dominates(div.Block()) {
					tested++
					break
				}
			}
		}
		r.Cond(len(sizes) >= 2 && tested >= 2, key, p.Pos(div.Pos()), "both marker sizes were compared with zero before", fmt.Sprintf("%d of the %d resolved marker sizes are compared with zero before this division: markerWidth=\"0\" gives a zero scale and the clip rectangle of the marker is NaN/Inf", tested, len(sizes)))
	})
	if n == 0 {
		r.Unknown("svg.(*SVGImage).drawMarkers | divisions by a marker scale", p.Pos(fn.Pos()), "none found")
	}
}

// c14GradientBoxDivisors (R17): gradient.paint scales the gradient vector by the ratio of the sides of the box it
// paints.  Every floating point division of that function whose divisor is the width or the height of the box is
// dominated by a comparison of that value with zero (a shape without width or height cannot use bounding-box
// units: the pattern matrix would hold +Inf and NaN).
func c14GradientBoxDivisors(c *core.Check) {
	p := c.Prog
	r := c.Rule("R17", "finite pattern matrices: in svg.gradient.paint every division by the width or the height of the painted box is dominated by a comparison of that value with zero", 2)
	fn := p.Method("svg", "gradient", "paint")
	if fn == nil {
		r.Anchor("svg.gradient.paint")
		return
	}
	named := func(v ssa.Value) string {
		switch x := v.(type) {
		case *ssa.Phi:
			return x.Comment
		case *ssa.UnOp:
			if al, ok := x.X.(*ssa.Alloc); ok {
				return al.Comment
			}
			if fa, ok := x.X.(*ssa.FieldAddr); ok {
				return core.FieldName(fa)
			}
		case *ssa.Field:
			if st, ok := x.X.Type().Underlying().(*types.Struct); ok {
				return st.Field(x.Field).Name()
			}
		}
		return ""
	}
	n := 0
	core.Instrs(fn, func(in ssa.Instruction) {
		div, ok := in.(*ssa.BinOp)
		if !ok || div.Op != token.QUO {
			return
		}
		nm := strings.ToLower(named(div.Y))
		if nm != "width" && nm != "height" {
			return
		}
		n++
		key := fmt.Sprintf("svg.gradient.paint | division by the box %s #%d", nm, n)
		tested := false
		vt := valueText(div.Y)
		for _, a := range core.CondAtoms(fn) {
			g, ok := a.(*ssa.BinOp)
			if !ok {
				continue
			}
			if z, ok := core.ConstFloat(g.Y); !ok || z != 0 {
				continue
			}
			if g.X != div.Y && valueText(g.X) != vt {
				continue
			}
			if g.Block() != div.Block() && g.Block().Dominates(div.Block()) {
				tested = true
			}
		}
		r.Cond(tested, key, p.Pos(div.Pos()), "compared with zero before", "the "+nm+" is not compared with zero before it divides: on a box without "+nm+" the pattern matrix holds +Inf and NaN")
	})
	if n == 0 {
		r.Unknown("svg.gradient.paint | divisions by the box sides", p.Pos(fn.Pos()), "none found")
	}
}

// c14CriticalPointsFiltered (R18): the critical points of a Bézier segment are roots of a quadratic: a division by the
// leading coefficient and a square root, NaN for a degenerate segment (all abscissas equal).  computeBezierBoundingBox
// keeps those inside [0, 1]; the filter must reject NaN, and every ordered comparison with NaN is false: the call of
// evaluateCurve(t) is reached only on paths where at least one ordered comparison of t came out TRUE
// (`!(0 <= t && t <= 1)` rejects NaN, `t < 0 || t > 1` lets it through to the bounding box, and from there to
// NewGroup and the gradient matrices).
func c14CriticalPointsFiltered(c *core.Check) {
	p := c.Prog
	r := c.Rule("R18", "critical points are filtered against NaN: in svg.computeBezierBoundingBox the call of evaluateCurve(t) is reached only on paths where an ordered comparison (<, <=, >, >=) of t was decided true (every ordered comparison with NaN is false)", 1)
	fn := p.Fn("svg", "computeBezierBoundingBox")
	if fn == nil {
		r.Anchor("svg.computeBezierBoundingBox")
		return
	}
	n := 0
	core.Instrs(fn, func(in ssa.Instruction) {
		call, ok := in.(*ssa.Call)
		if !ok || !call.Call.IsInvoke() || call.Call.Method.Name() != "evaluateCurve" || len(call.Call.Args) != 1 {
			return
		}
		n++
		key := fmt.Sprintf("svg.computeBezierBoundingBox | evaluateCurve(t) #%d", n)
		t := call.Call.Args[0]
		var atoms []ssa.Value
		for _, a := range core.CondAtoms(fn) {
			b, ok := a.(*ssa.BinOp)
			if !ok {
				continue
			}
			switch b.Op {
			case token.LSS, token.LEQ, token.GTR, token.GEQ:
				if b.X == t || b.Y == t {
					atoms = append(atoms, a)
				}
			}
		}
		if len(atoms) == 0 {
			r.Fail(key, p.Pos(call.Pos()), "the parameter of the curve is not compared before it is used: critical points outside [0, 1] and NaN reach the bounding box")
			return
		}
		// an explicit test math.IsNaN(t) found false serves as well
		isNaN := map[ssa.Value]bool{}
		for _, a := range core.CondAtoms(fn) {
			if nc, ok := a.(*ssa.Call); ok && nc.Call.StaticCallee() != nil && nc.Call.StaticCallee().Name() == "IsNaN" && len(nc.Call.Args) == 1 {
				if core.DerivesFrom(nc.Call.Args[0], func(v ssa.Value) bool { return v == t }) {
					isNaN[a] = true
					atoms = append(atoms, a)
				}
			}
		}
		ok2, _ := core.GuardedBy(fn, call.Block(), atoms, func(m map[ssa.Value]bool) bool {
			for a, v := range m {
				if isNaN[a] {
					if !v {
						return true
					}
				} else if v {
					return true
				}
			}
			return false
		})
		r.Cond(ok2, key, p.Pos(call.Pos()), fmt.Sprintf("reached only when one of the %d comparisons of t excludes NaN", len(atoms)), "a path reaches evaluateCurve(t) on which every ordered comparison of t was false: NaN (a degenerate segment) passes the filter and the bounding box is NaN")
	})
	if n == 0 {
		r.Unknown("svg.computeBezierBoundingBox | evaluateCurve(t)", p.Pos(fn.Pos()), "no call of evaluateCurve")
	}
}
