package props

import (
	"fmt"
	"go/token"
	"go/types"

	"golang.org/x/tools/go/ssa"

	"wrverif/core"
)

// c01AttrTag (R23): a content item is a tagged union: the box builder reads the content of an item tagged "url"
// with an unchecked assertion to NamedString.  computeAttrFunction builds such items for attr(name url): on every
// path it can take when the requested type is "url", the content it returns is a NamedString — the fallback used
// for a missing attribute included, which used to be returned as the String it was written as.
func c01AttrTag(c *core.Check) {
	p := c.Prog
	r := c.Rule("R23", "tag and dynamic type agree for attr(… url): in computeAttrFunction, with every comparison of the requested type decided for \"url\", each value that can flow into the returned content is a NamedString (the box builder asserts that type without a test)", 1)
	fn := p.Fn("html/tree", "computeAttrFunction")
	if fn == nil {
		r.Anchor("html/tree.computeAttrFunction")
		return
	}
	key := "html/tree.computeAttrFunction | content returned under the tag url"
	// the requested type: the value compared with "url"
	var typ ssa.Value
	for _, a := range core.CondAtoms(fn) {
		if bo, ok := a.(*ssa.BinOp); ok && bo.Op == token.EQL {
			if k, ok := core.ConstStr(bo.Y); ok && k == "url" {
				typ = bo.X
			}
		}
	}
	if typ == nil {
		r.Unknown(key, p.Pos(fn.Pos()), "no comparison of the requested type with \"url\"")
		return
	}
	assign := map[ssa.Value]bool{}
	for _, a := range core.CondAtoms(fn) {
		if bo, ok := a.(*ssa.BinOp); ok && (bo.Op == token.EQL || bo.Op == token.NEQ) && bo.X == typ {
			if k, ok := core.ConstStr(bo.Y); ok {
				assign[a] = (k == "url") == (bo.Op == token.EQL)
			}
		}
	}
	// the other tests of document data that decide the path: is the attribute empty, is there a fallback.  Every
	// combination is a scenario of its own (the merges of these booleans are resolved along each path)
	var free []ssa.Value
	for _, a := range core.CondAtoms(fn) {
		bo, ok := a.(*ssa.BinOp)
		if !ok || (bo.Op != token.EQL && bo.Op != token.NEQ) {
			continue
		}
		if _, done := assign[a]; done {
			continue
		}
		if k, ok := core.ConstStr(bo.Y); ok && k == "" {
			free = append(free, a)
		} else if k, ok := bo.Y.(*ssa.Const); ok && k.IsNil() && types.IsInterface(bo.X.Type()) {
			if _, isErr := bo.X.Type().(*types.Named); !isErr || bo.X.Type().String() != "error" {
				free = append(free, a)
			}
		}
	}
	if len(free) > 4 {
		free = free[:4]
	}
	n, bad := 0, ""
	for mask := 0; mask < 1<<len(free); mask++ {
		as := map[ssa.Value]bool{}
		for k, v := range assign {
			as[k] = v
		}
		for i, a := range free {
			as[a] = mask&(1<<i) != 0
		}
		reach := core.ForwardReach(fn.Blocks[0], as, nil)
		var content ssa.Value
		core.Instrs(fn, func(in ssa.Instruction) {
			if st, ok := in.(*ssa.Store); ok {
				if fa, ok := st.Addr.(*ssa.FieldAddr); ok && core.FieldName(fa) == "Content" && reach[in.Block()] {
					content = st.Val
				}
			}
		})
		if content == nil {
			continue // this combination returns before building the result
		}
		seen := map[ssa.Value]bool{}
		var walk func(v ssa.Value, d int)
		walk = func(v ssa.Value, d int) {
			if seen[v] || d > 6 {
				return
			}
			seen[v] = true
			switch x := v.(type) {
			case *ssa.Phi:
				for i, e := range x.Edges {
					if reach[x.Block().Preds[i]] {
						walk(e, d+1)
					}
				}
				return
			case *ssa.MakeInterface:
				n++
				if nm, ok := x.X.Type().(*types.Named); !ok || nm.Obj().Name() != "NamedString" {
					bad = "a " + types.TypeString(x.X.Type(), func(*types.Package) string { return "" })
				}
				return
			}
			n++
			bad = "a value of unknown dynamic type (" + v.String() + ")"
		}
		walk(content, 0)
	}
	r.Cond(bad == "" && n > 0, key, p.Pos(fn.Pos()), fmt.Sprintf("the %d values that can reach it are NamedStrings", n), "the content can be "+bad+": `content: attr(missing url)` panics in the box builder (interface conversion)")
}
