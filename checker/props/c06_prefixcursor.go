package props

import (
	"fmt"
	"go/token"
	"strings"

	"golang.org/x/tools/go/ssa"

	"wrverif/core"
)

// c06PrefixCursor (R15): the tokenizer looks at a byte, then at a longer prefix that starts with the same byte
// (`src[pos] == '\\' && !HasPrefix(src[pos:], "\\\n")`: a backslash that is not followed by a newline).  The two tests
// are about the same place of the input: the index of the byte test and the start of the slice given to HasPrefix
// are the same expression.  (With another cursor in the second test, `-\<newline>` became an identifier.)
func c06PrefixCursor(c *core.Check) {
	p := c.Prog
	r := c.Rule("R15", "a byte test and the prefix test that refines it look at the same place: in css/parser, for every bytes.HasPrefix(src[j:], K) with a constant K that is reached only through the true side of a comparison src[i] == K[0], i and j are the same expression", 1)
	n := 0
	for _, fn := range p.FuncsOfPkg("css/parser") {
		fn := fn
		k := 0
		core.Instrs(fn, func(in ssa.Instruction) {
			call, ok := in.(*ssa.Call)
			if !ok || call.Call.StaticCallee() == nil || call.Call.StaticCallee().Name() != "HasPrefix" || len(call.Call.Args) != 2 {
				return
			}
			if pk := call.Call.StaticCallee().Pkg; pk == nil || (pk.Pkg.Path() != "bytes" && pk.Pkg.Path() != "strings") {
				return
			}
			sl, ok := call.Call.Args[0].(*ssa.Slice)
			if !ok || sl.Low == nil {
				return
			}
			lit := call.Call.Args[1]
			if cv, ok := lit.(*ssa.Convert); ok {
				lit = cv.X
			}
			ks, ok := core.ConstStr(lit)
			if !ok || ks == "" {
				return
			}
			first := int64(ks[0])
			// byte tests src[i] == first whose true side leads here
			for _, b := range fn.Blocks {
				if len(b.Instrs) == 0 {
					continue
				}
				ifi, ok := b.Instrs[len(b.Instrs)-1].(*ssa.If)
				if !ok {
					continue
				}
				cmp, ok := ifi.Cond.(*ssa.BinOp)
				if !ok || cmp.Op != token.EQL {
					continue
				}
				kk, ok := core.ConstInt(cmp.Y)
				if !ok || kk != first {
					continue
				}
				// the byte: a load of &src[i], or src[i]
				var idx, base ssa.Value
				switch x := cmp.X.(type) {
				case *ssa.UnOp:
					if ia, ok := x.X.(*ssa.IndexAddr); ok {
						idx, base = ia.Index, ia.X
					}
				case *ssa.Index:
					idx, base = x.Index, x.X
				}
				if idx == nil || !sameExpr(base, sl.X, 0) {
					continue
				}
				// the true side is the only way to the call
				ts := b.Succs[0]
				if len(ts.Preds) != 1 || !(ts == call.Block() || ts.Dominates(call.Block())) {
					continue
				}
				k++
				n++
				key := fmt.Sprintf("%s | HasPrefix after a byte test #%d", core.FuncName(fn), k)
				r.Cond(sameExpr(idx, sl.Low, 0), key, p.Pos(call.Pos()), "same index", "the byte is tested at one index and the prefix at another: the second test does not refine the first")
			}
		})
	}
	if n == 0 {
		r.Anchor("HasPrefix tests refining a byte test in css/parser")
	}
}

// c06BlockContentFirstToken (R16): an item of a block's contents that starts with `;` is empty and one that starts
// with a {} block is a rule with an empty prelude: in both cases the first token already ends (or is) the item, and
// consumeBlocksContent must not read further tokens for it.  The loop that collects the following tokens is reached
// only when the first token is neither (`{} a:b; c:d` otherwise loses `a:b`).
func c06BlockContentFirstToken(c *core.Check) {
	p := c.Prog
	r := c.Rule("R16", "an item that starts with ; or with a {} block reads no further token: in css/parser.consumeBlocksContent the first call of HasNext is reached only when IsLiteral(firstToken, \";\") is false and the assertion of firstToken to CurlyBracketsBlock failed", 1)
	fn := p.Fn("css/parser", "consumeBlocksContent")
	if fn == nil {
		r.Anchor("css/parser.consumeBlocksContent")
		return
	}
	key := "css/parser.consumeBlocksContent | first token ends the item"
	var site *ssa.BasicBlock
	core.Instrs(fn, func(in ssa.Instruction) {
		if site == nil && core.CalleeName(in) != "" && (core.CalleeName(in) == "HasNext" || hasSuffixName(core.CalleeName(in), "HasNext")) {
			site = in.Block()
		}
	})
	if site == nil || len(fn.Params) == 0 {
		r.Unknown(key, p.Pos(fn.Pos()), "no call of HasNext")
		return
	}
	first := fn.Params[0]
	var semi, curly []ssa.Value
	for _, a := range core.CondAtoms(fn) {
		switch x := a.(type) {
		case *ssa.Call:
			if x.Call.StaticCallee() != nil && x.Call.StaticCallee().Name() == "IsLiteral" && len(x.Call.Args) == 2 && x.Call.Args[0] == ssa.Value(first) {
				if k, ok := core.ConstStr(x.Call.Args[1]); ok && k == ";" {
					semi = append(semi, a)
				}
			}
		case *ssa.Extract:
			if ta, ok := x.Tuple.(*ssa.TypeAssert); ok && x.Index == 1 && ta.X == ssa.Value(first) && strings.HasSuffix(ta.AssertedType.String(), "CurlyBracketsBlock") {
				curly = append(curly, a)
			}
		}
	}
	if len(semi) == 0 || len(curly) == 0 {
		r.Fail(key, p.Pos(fn.Pos()), fmt.Sprintf("tests of the first token not found (%d for the semicolon, %d for the {} block)", len(semi), len(curly)))
		return
	}
	ok, _ := core.GuardedBy(fn, site, append(append([]ssa.Value{}, semi...), curly...), func(m map[ssa.Value]bool) bool {
		for _, v := range m {
			if v {
				return false
			}
		}
		return true
	})
	r.Cond(ok, key, p.Pos(fn.Pos()), "further tokens are read only when the first one is neither ; nor a {} block", "further tokens are read although the first token is a ; or a {} block: the item swallows the following declaration or rule")
}

func hasSuffixName(s, suf string) bool {
	return len(s) >= len(suf) && s[len(s)-len(suf):] == suf
}
