package props

import (
	"fmt"
	"go/ast"
	"go/constant"
	"go/token"
	"regexp"
	"sort"
	"strconv"
	"strings"

	"golang.org/x/tools/go/ssa"

	"wrverif/core"
)

func init() { register("C06", c06) }

// evalPred evaluates a boolean expression built from comparisons of one variable with constants, &&, ||, ! and
// strings.ContainsRune(constant, variable), for a given value of the variable. ok=false when the expression has
// another shape.
func evalPred(p *core.Prog, pkg string, e ast.Expr, v string, x int64) (res bool, ok bool) {
	info := p.Info(pkg)
	var num func(e ast.Expr) (int64, bool)
	num = func(e ast.Expr) (int64, bool) {
		switch y := e.(type) {
		case *ast.ParenExpr:
			return num(y.X)
		case *ast.Ident:
			if y.Name == v {
				return x, true
			}
		case *ast.CallExpr:
			// conversions rune(u), int(c)
			if len(y.Args) == 1 {
				if id, isId := y.Fun.(*ast.Ident); isId && (id.Name == "rune" || id.Name == "int" || id.Name == "byte") {
					return num(y.Args[0])
				}
			}
		}
		if c := core.ConstOf(info, e); c != nil && c.Kind() == constant.Int {
			n, _ := constant.Int64Val(c)
			return n, true
		}
		return 0, false
	}
	var ev func(e ast.Expr) (bool, bool)
	ev = func(e ast.Expr) (bool, bool) {
		switch y := e.(type) {
		case *ast.ParenExpr:
			return ev(y.X)
		case *ast.UnaryExpr:
			if y.Op == token.NOT {
				r, ok := ev(y.X)
				return !r, ok
			}
		case *ast.BinaryExpr:
			switch y.Op {
			case token.LAND, token.LOR:
				a, ok1 := ev(y.X)
				b, ok2 := ev(y.Y)
				if !ok1 || !ok2 {
					return false, false
				}
				if y.Op == token.LAND {
					return a && b, true
				}
				return a || b, true
			case token.LSS, token.LEQ, token.GTR, token.GEQ, token.EQL, token.NEQ:
				a, ok1 := num(y.X)
				b, ok2 := num(y.Y)
				if !ok1 || !ok2 {
					return false, false
				}
				switch y.Op {
				case token.LSS:
					return a < b, true
				case token.LEQ:
					return a <= b, true
				case token.GTR:
					return a > b, true
				case token.GEQ:
					return a >= b, true
				case token.EQL:
					return a == b, true
				default:
					return a != b, true
				}
			}
		case *ast.CallExpr:
			if sel, isSel := y.Fun.(*ast.SelectorExpr); isSel && sel.Sel.Name == "ContainsRune" && len(y.Args) == 2 {
				if s, ok := core.StrConst(info, y.Args[0]); ok {
					if n, ok := num(y.Args[1]); ok {
						return strings.ContainsRune(s, rune(n)), true
					}
				}
			}
		}
		return false, false
	}
	return ev(e)
}

func classString(set func(int64) bool) string {
	var parts []string
	start := int64(-1)
	for c := int64(0); c <= 0x101; c++ {
		in := c <= 0x100 && set(c)
		if in && start < 0 {
			start = c
		}
		if !in && start >= 0 {
			if start == c-1 {
				parts = append(parts, fmt.Sprintf("%#x", start))
			} else {
				parts = append(parts, fmt.Sprintf("%#x-%#x", start, c-1))
			}
			start = -1
		}
	}
	return strings.Join(parts, " ")
}

func c06(c *core.Check) {
	c.Explain = "Thin: the lexical tables of CSS Syntax 3 as they appear in the tokenizer, decided by constant evaluation of the source: (R1) input preprocessing replaces NUL by U+FFFD and CRLF, CR, FF by LF, CRLF before CR; (R2) the code point classes — name-start, name, whitespace — evaluated for every code point 0..0x100 from the predicates' expressions equal the classes of §4.2; (R3) the number and hex-escape grammars (the two regular expressions, extracted as constants) accept exactly the prefix the railroad diagrams of §4.3.12 / §4.3.7 assign on a battery derived from the diagrams; (R4) a quoted string ends at its quote, is a bad string at an unescaped newline, and drops an escaped newline. Token values in general, url(), nested blocks, error recovery (how much input a malformed construct consumes) and source positions quantify over all input strings and are not decided; that no cursor read leaves the input is decided under C07.R1. Also decided: (R5) white space and comments are skipped together in the parsing code; (R6) a failed declaration is re-parsed as a rule on exactly the tokens taken from the iterator.  (R7) the remnants of a bad url skip every valid escape."
	p := c.Prog
	c06Trivia(c)
	c06Rewind(c)
	c06BadURL(c)
	c06CommentEOF(c)
	c06EscapeAtCursor(c)
	r10 := c.Rule("R10", "the tokenizer never reads its input out of range, whatever the input ends with: every read of tokenizer.src at a position derived from the cursor is implied in range by the tests that dominate it, the invariant 0 <= pos <= len(src) and the preconditions established by the callers (shared with C07.R11; error recovery at the end of the input is exact only if it does not crash)", 250)
	scannerBoundsRule(c, r10)
	c06LineStart(c)
	c06ImportantState(c)
	c06URLInvalidEscape(c)
	c06URLAtEOF(c)
	c06PrefixCursor(c)
	c06BlockContentFirstToken(c)

	// ---- R1 preprocessing
	r1 := c.Rule("R1", "Tokenize preprocesses its input as CSS Syntax §3.3: U+0000 becomes U+FFFD, and CRLF, CR and FF become LF, the CRLF replacement coming before the CR one (otherwise CRLF becomes two newlines), each replacement running on every path (or skipped only when its own pattern is absent)", 7)
	tz := p.Fn("css/parser", "Tokenize")
	if tz == nil {
		r1.Anchor("css/parser.Tokenize")
	} else {
		type repl struct {
			from, to string
			in       ssa.Instruction
		}
		var rs []repl
		constBytes := func(v ssa.Value) (string, bool) {
			if cv, ok := v.(*ssa.Convert); ok {
				return core.ConstStr(cv.X)
			}
			return "", false
		}
		core.Instrs(tz, func(in ssa.Instruction) {
			call, ok := in.(*ssa.Call)
			if !ok || call.Call.StaticCallee() == nil || call.Call.StaticCallee().Name() != "ReplaceAll" || len(call.Call.Args) != 3 {
				return
			}
			f, ok1 := constBytes(call.Call.Args[1])
			t, ok2 := constBytes(call.Call.Args[2])
			if ok1 && ok2 {
				rs = append(rs, repl{f, t, in})
			}
		})
		want := map[string]string{"\x00": "�", "\r\n": "\n", "\r": "\n", "\f": "\n"}
		idx := map[string]int{}
		for i, r := range rs {
			idx[r.from] = i + 1
		}
		for f, t := range want {
			got := ""
			if i := idx[f]; i > 0 {
				got = rs[i-1].to
			}
			r1.Cond(idx[f] > 0 && got == t, fmt.Sprintf("Tokenize | %q is replaced by %q", f, t), p.Pos(tz.Pos()), "replacement present", fmt.Sprintf("replaced by %q (0 = absent: %d)", got, idx[f]))
		}
		r1.Cond(idx["\r\n"] > 0 && idx["\r"] > 0 && idx["\r\n"] < idx["\r"], "Tokenize | CRLF is replaced before CR", p.Pos(tz.Pos()), "order CRLF, CR", "CR is replaced first: CRLF becomes two newlines")
		// each replacement is unconditional, or skipped only when its own pattern is absent
		for _, rp := range rs {
			if _, wanted := want[rp.from]; !wanted {
				continue
			}
			blk := rp.in.Block()
			okGuard, why := true, "executed on every path"
			for b := blk; b != nil && b.Idom() != nil; b = b.Idom() {
				d := b.Idom()
				ifi, isIf := d.Instrs[len(d.Instrs)-1].(*ssa.If)
				if !isIf || d.Succs[0] == d.Succs[1] {
					continue
				}
				// is blk reachable from both successors? then the test does not guard it
				r0 := d.Succs[0] == blk || core.ForwardReach(d.Succs[0], nil, nil)[blk]
				r1b := d.Succs[1] == blk || core.ForwardReach(d.Succs[1], nil, nil)[blk]
				if r0 && r1b {
					continue
				}
				// guarded: the condition must be a search for the same pattern
				pat := ""
				core.Instrs(tz, func(in ssa.Instruction) {
					call, ok := in.(*ssa.Call)
					if !ok || call.Call.StaticCallee() == nil || call.Block() != d {
						return
					}
					switch call.Call.StaticCallee().Name() {
					case "Contains", "Index":
						if len(call.Call.Args) == 2 {
							pat, _ = constBytes(call.Call.Args[1])
						}
					case "IndexByte", "ContainsRune", "IndexRune":
						if len(call.Call.Args) == 2 {
							if k, ok := core.ConstInt(call.Call.Args[1]); ok {
								pat = string(rune(k))
							}
						}
					}
				})
				_ = ifi
				if pat != rp.from {
					okGuard, why = false, fmt.Sprintf("skipped under a test that looks for %q, not for the replaced %q", pat, rp.from)
				} else {
					why = "skipped only when its own pattern is absent"
				}
			}
			r1.Cond(okGuard, fmt.Sprintf("Tokenize | the replacement of %q is unconditional", rp.from), p.Pos(rp.in.Pos()), why, "the replacement is "+why+": input that contains the pattern can reach the tokenizer unprocessed")
		}
	}

	// ---- R2 code point classes
	r2 := c.Rule("R2", "code point classes of CSS Syntax §4.2, evaluated for every code point 0..0x100 from the source expressions: name-start = letters, '_' and non-ASCII; name = name-start, digits and '-'; whitespace (after preprocessing) = newline, tab and space", 1)
	isLetter := func(x int64) bool { return ('a' <= x && x <= 'z') || ('A' <= x && x <= 'Z') }
	specs := []struct {
		fn, v string
		want  func(int64) bool
		pick  func(body *ast.BlockStmt) ast.Expr
		free  func(int64) bool // code points that cannot occur after preprocessing: either answer is right
	}{
		{"isNameStart", "c", func(x int64) bool { return isLetter(x) || x == '_' || x > 0x7F }, func(b *ast.BlockStmt) ast.Expr {
			for _, s := range b.List {
				if r, ok := s.(*ast.ReturnStmt); ok && len(r.Results) == 1 {
					return r.Results[0]
				}
			}
			return nil
		}, nil},
		{"isSpace", "r", func(x int64) bool { return x == ' ' || x == '\n' || x == '\t' }, func(b *ast.BlockStmt) ast.Expr {
			for _, s := range b.List {
				if r, ok := s.(*ast.ReturnStmt); ok && len(r.Results) == 1 {
					return r.Results[0]
				}
			}
			return nil
		}, func(x int64) bool { return x == '\r' || x == '\f' || x == 0 }},
		{"(*tokenizer).consumeIdent", "c", func(x int64) bool { return isLetter(x) || x == '_' || x > 0x7F || ('0' <= x && x <= '9') || x == '-' }, func(b *ast.BlockStmt) ast.Expr {
			// the first `if` of the scanning loop whose condition mentions ContainsRune
			var found ast.Expr
			ast.Inspect(b, func(n ast.Node) bool {
				if ifs, ok := n.(*ast.IfStmt); ok && found == nil && strings.Contains(p.NodeText(ifs.Cond), "ContainsRune") {
					found = ifs.Cond
				}
				return true
			})
			return found
		}, nil},
	}
	for _, sp := range specs {
		fn := p.Lookup("css/parser." + sp.fn)
		body := p.Body(fn)
		key := "css/parser." + sp.fn + " | class"
		if fn == nil || body == nil {
			r2.Anchor("css/parser." + sp.fn)
			continue
		}
		e := sp.pick(body)
		if e == nil {
			r2.Unknown(key, p.Pos(fn.Pos()), "the class expression was not found")
			continue
		}
		okAll, evalOK := true, true
		got := func(x int64) bool {
			r, ok := evalPred(p, "css/parser", e, sp.v, x)
			if !ok {
				evalOK = false
			}
			return r
		}
		var diff []string
		for x := int64(0); x <= 0x100; x++ {
			if sp.free != nil && sp.free(x) {
				got(x)
				continue
			}
			if got(x) != sp.want(x) {
				okAll = false
				if len(diff) < 6 {
					diff = append(diff, fmt.Sprintf("%#x", x))
				}
			}
		}
		if !evalOK {
			r2.Unknown(key, p.Pos(e.Pos()), "the expression is not a combination of comparisons with constants: "+p.NodeText(e))
			continue
		}
		r2.Cond(okAll, key, p.Pos(e.Pos()), "accepts "+classString(sp.want), fmt.Sprintf("accepts %s, CSS Syntax gives %s (first differences at %s)", classString(got), classString(sp.want), strings.Join(diff, " ")))
	}

	// ---- R3 grammars held in regular expressions
	r3 := c.Rule("R3", "the number grammar (§4.3.12) and the hex escape grammar (§4.3.7) held in numberRe and hexEscapeRe consume exactly the prefix the specification assigns, on a battery of inputs derived from the railroad diagrams", 2)
	batteries := map[string]map[string]int{ // input -> length of the consumed prefix (-1: no match)
		"numberRe": {
			"1": 1, "12px": 2, "+1": 2, "-1": 2, "1.5": 3, "-1.5e3": 6, ".5": 2, "+.5": 3, "1.": 1, "1.e3": 1, "1e3": 3, "1E3": 3, "1e+3": 4, "1e-3": 4,
			"1e": 1, "1e+": 1, "1em": 1, "e3": -1, "+": -1, "-": -1, ".": -1, "-.": -1, "+-1": -1, "--1": -1, "1..2": 1, "1.2.3": 3, "a1": -1, "": -1, " 1": -1,
			"0": 1, "00.10": 5, "1_000": 1, "1,5": 1, "٣": -1,
		},
		"hexEscapeRe": {
			"41": 2, "41 ": 3, "41  ": 3, "41\n": 3, "41\t": 3, "000041": 6, "0000411": 6, "000041 1": 7, "a": 1, "F": 1, "fF9": 3, "g": -1, "": -1, " 41": -1,
			"10FFFF": 6, "41x": 2, "41\r": 2,
		},
	}
	for _, name := range []string{"numberRe", "hexEscapeRe"} {
		init := p.VarInit("css/parser", name)
		key := "css/parser." + name
		pat := ""
		if call, ok := init.(*ast.CallExpr); ok && len(call.Args) == 1 {
			if bl, ok := call.Args[0].(*ast.BasicLit); ok && bl.Kind == token.STRING {
				pat, _ = strconv.Unquote(bl.Value)
			}
		}
		if pat == "" {
			r3.Anchor(key + " (regexp.MustCompile of a string literal)")
			continue
		}
		re, err := regexp.Compile(pat)
		if err != nil {
			r3.Fail(key, p.Pos(init.Pos()), "the pattern does not compile: "+err.Error())
			continue
		}
		var bad []string
		var inputs []string
		for in := range batteries[name] {
			inputs = append(inputs, in)
		}
		sort.Strings(inputs)
		for _, in := range inputs {
			want := batteries[name][in]
			got := -1
			if loc := re.FindStringIndex(in); loc != nil && loc[0] == 0 {
				got = loc[1]
			}
			if got != want {
				bad = append(bad, fmt.Sprintf("%q consumes %d, specified %d", in, got, want))
			}
		}
		r3.Cond(len(bad) == 0, key, p.Pos(init.Pos()), fmt.Sprintf("%d inputs consume the specified prefix", len(inputs)), strings.Join(bad, "; "))
	}

	// ---- R4 quoted strings
	r4 := c.Rule("R4", "consumeQuotedString: the string ends at the quote that opened it, an unescaped newline makes it a bad string, a backslash followed by a newline is dropped and any other backslash starts an escape", 1)
	qs := p.Lookup("css/parser.(*tokenizer).consumeQuotedString")
	body := p.Body(qs)
	if qs == nil || body == nil {
		r4.Anchor("css/parser.(*tokenizer).consumeQuotedString")
	} else {
		info := p.Info("css/parser")
		var sw *core.SwitchInfo
		for _, s := range core.Switches(body) {
			if len(s.Cases) >= 3 {
				sw = s
			}
		}
		if sw == nil {
			r4.Unknown("consumeQuotedString | switch", p.Pos(qs.Pos()), "no switch over the current code point found")
		} else {
			caseOf := func(pred func(ast.Expr) bool) int {
				for i, cs := range sw.Cases {
					for _, e := range cs {
						if pred(e) {
							return i
						}
					}
				}
				return -1
			}
			isRune := func(r rune) func(ast.Expr) bool {
				return func(e ast.Expr) bool {
					if cv := core.ConstOf(info, e); cv != nil && cv.Kind() == constant.Int {
						n, _ := constant.Int64Val(cv)
						return n == int64(r)
					}
					return false
				}
			}
			iq := caseOf(func(e ast.Expr) bool { id, ok := e.(*ast.Ident); return ok && id.Name == "quote" })
			ib := caseOf(isRune('\\'))
			in := caseOf(isRune('\n'))
			r4.Cond(iq >= 0 && strings.Contains(p.NodeText(&ast.BlockStmt{List: sw.Bodies[max(iq, 0)]}), "break"), "consumeQuotedString | closing quote", p.Pos(sw.Pos), "the case of the opening quote leaves the loop", "no case ends the string at the quote that opened it")
			okNL := in >= 0 && strings.Contains(p.NodeText(&ast.BlockStmt{List: sw.Bodies[max(in, 0)]}), "errBadString")
			r4.Cond(okNL, "consumeQuotedString | unescaped newline", p.Pos(sw.Pos), "returns a bad string", "an unescaped newline does not produce a bad-string token")
			okEsc := false
			if ib >= 0 {
				txt := p.NodeText(&ast.BlockStmt{List: sw.Bodies[ib]})
				okEsc = strings.Contains(txt, `'\n'`) && strings.Contains(txt, "consumeEscape")
			}
			r4.Cond(okEsc, "consumeQuotedString | backslash", p.Pos(sw.Pos), "an escaped newline is skipped, anything else is an escape", "the backslash case does not distinguish an escaped newline from an escape")
		}
	}
}

// c06Trivia: comments are to the parser what white space is (CSS Syntax strips comments in the tokenizer; this parser
// keeps them as tokens when asked to, so every place that steps over white space must step over comments too).
func c06Trivia(c *core.Check) {
	r := c.Rule("R5", "white space and comments are skipped together: in the parsing code, every switch with a case for the white-space token (kind or type) has a case for the comment token, and every condition that excludes white space excludes comments in the same condition", 7)
	triviaRule(c, r)
}

// triviaRule is shared by C06 (parsing) and C08 (a comment is one more spelling of the same declaration).
func triviaRule(c *core.Check, r *core.Rule, only ...string) {
	p := c.Prog
	scope := map[string]map[string]bool{
		"css/parser": {"parser.go": true, "tokenizer.go": true, "colors.go": true, "nth.go": true},
		"html/tree":  {"style.go": true},
	}
	exempt := map[string]string{
		"String": "Kind.String names each kind",
	}
	n := 0
	for pkg, files := range scope {
		pk := p.ByPath[pkg]
		if pk == nil {
			r.Anchor(pkg)
			continue
		}
		mentions := func(e ast.Node, names ...string) bool {
			found := false
			ast.Inspect(e, func(x ast.Node) bool {
				switch y := x.(type) {
				case *ast.Ident:
					for _, nm := range names {
						if y.Name == nm {
							found = true
						}
					}
				case *ast.SelectorExpr:
					for _, nm := range names {
						if y.Sel.Name == nm {
							found = true
						}
					}
					return false
				}
				return true
			})
			return found
		}
		for _, f := range pk.Syntax {
			name := p.Fset.Position(f.Pos()).Filename
			if i := strings.LastIndex(name, "/"); i >= 0 {
				name = name[i+1:]
			}
			if !files[name] {
				continue
			}
			for _, d := range f.Decls {
				fd, ok := d.(*ast.FuncDecl)
				if !ok || fd.Body == nil {
					continue
				}
				if _, ex := exempt[fd.Name.Name]; ex {
					continue
				}
				if len(only) > 0 {
					wanted := false
					for _, o := range only {
						wanted = wanted || o == fd.Name.Name
					}
					if !wanted {
						continue
					}
				}
				ast.Inspect(fd.Body, func(x ast.Node) bool {
					var clauses []*ast.CaseClause
					switch y := x.(type) {
					case *ast.SwitchStmt:
						for _, cl := range y.Body.List {
							clauses = append(clauses, cl.(*ast.CaseClause))
						}
					case *ast.TypeSwitchStmt:
						for _, cl := range y.Body.List {
							clauses = append(clauses, cl.(*ast.CaseClause))
						}
					case *ast.IfStmt:
						// `if _, isSpace := token.(Whitespace); !isSpace`: the assertion form of the same test
						asserts := func(n ast.Node, typ string) bool {
							found := false
							if n == nil {
								return false
							}
							ast.Inspect(n, func(z ast.Node) bool {
								if ta, ok := z.(*ast.TypeAssertExpr); ok && ta.Type != nil && mentions(ta.Type, typ) {
									found = true
								}
								return true
							})
							return found
						}
						var init ast.Node
						if y.Init != nil {
							init = y.Init
						}
						if asserts(init, "Whitespace") || asserts(y.Cond, "Whitespace") {
							n++
							key := fmt.Sprintf("%s.%s | if on an assertion to Whitespace", pkg, fd.Name.Name)
							r.Cond(asserts(init, "Comment") || asserts(y.Cond, "Comment"), key, p.Pos(y.Pos()), "the condition also asserts the comment type", "the condition steps over white-space tokens (type assertion) but not over comments: a comment at that place changes the parse")
						}
						return true
					case *ast.BinaryExpr:
						// a maximal && / || chain comparing with the white-space kind
						if (y.Op == token.EQL || y.Op == token.NEQ) && mentions(y, "KWhitespace") {
							// a lone comparison with the white-space kind (not part of a chain, which is handled below)
							n++
							key := fmt.Sprintf("%s.%s | %s", pkg, fd.Name.Name, p.NodeText(y))
							if why, ok := triviaLone[key]; ok {
								r.Skip(key, p.Pos(y.Pos()), "not decided: "+why)
							} else {
								r.Fail(key, p.Pos(y.Pos()), "the test steps over (or looks for) white space alone: a comment at that place changes the parse")
							}
							return false
						}
						if y.Op != token.LAND && y.Op != token.LOR {
							return true
						}
						if mentions(y, "KWhitespace") {
							n++
							key := fmt.Sprintf("%s.%s | %s", pkg, fd.Name.Name, p.NodeText(y))
							if len(key) > 140 {
								key = key[:140] + "…"
							}
							r.Cond(mentions(y, "KComment"), key, p.Pos(y.Pos()), "the condition also tests the comment kind", "the condition steps over white space but not over comments: a comment at that place changes the parse")
						}
						return false
					}
					if clauses == nil {
						return true
					}
					ws, cm := false, false
					for _, cl := range clauses {
						for _, e := range cl.List {
							if mentions(e, "KWhitespace", "Whitespace") {
								ws = true
							}
							if mentions(e, "KComment", "Comment") {
								cm = true
							}
						}
					}
					if ws {
						n++
						key := fmt.Sprintf("%s.%s | switch with a white-space case", pkg, fd.Name.Name)
						r.Cond(cm, key, p.Pos(x.Pos()), "the switch also has a comment case", "the switch has a case for white space and none for comments: a comment at that place is treated as a significant token")
					}
					return true
				})
			}
		}
	}
	want := 6
	if len(only) > 0 {
		want = 1
	}
	if n < want {
		r.Unknown("white-space tests found", "-", fmt.Sprintf("%d switches / conditions found, %d expected", n, want))
	}
}

// triviaLone: lone tests of the white-space kind that are right as they are, read one by one.
var triviaLone = map[string]string{}
