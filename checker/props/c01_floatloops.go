package props

import (
	"go/token"
	"go/types"

	"golang.org/x/tools/go/ssa"

	"wrverif/core"
)

// loops whose only exit tests compare floating-point numbers and that are not counted: function -> why they end
var c01FloatLoopNotes = map[string]string{
	"html/layout.reportFootnotes": "each iteration reports the last footnote of the page (the list shrinks by one) and lays the footnote area out again; the loop stops when the area is no taller than it was before the columns. That the area shrinks below that height before the list is empty is not decided",
}

// c01FloatLoops: a loop whose every exit test compares floating-point numbers ends only if its float progress is
// real: a step of zero (a thickness of zero), a step absorbed by rounding, or an infinite bound make it run forever,
// appending stops or path segments until the memory is exhausted.  Such a loop must also be counted: one of its
// exit tests compares an integer that the loop increments with a bound.
func c01FloatLoops(c *core.Check) {
	p := c.Prog
	r := c.Rule("R21", "loops that advance a floating-point position are counted: every loop of the module whose exit conditions compare floating-point values also exits on an integer counter compared with a bound (a zero or absorbed float step, or an infinite limit, would otherwise never end), or is a named site", 3)
	isFloat := func(t types.Type) bool {
		b, ok := t.Underlying().(*types.Basic)
		return ok && b.Info()&types.IsFloat != 0
	}
	isInt := func(t types.Type) bool {
		b, ok := t.Underlying().(*types.Basic)
		return ok && b.Info()&types.IsInteger != 0
	}
	n := 0
	for _, fn := range p.ModFuncs {
		if fn.Blocks == nil {
			continue
		}
		for _, l := range core.Loops(fn) {
			floatExit, counted := false, false
			var at token.Pos
			var visit func(cond ssa.Value, depth int)
			visit = func(cond ssa.Value, depth int) {
				for _, a := range core.ExpandBoolPhi(cond) {
					cmp, ok := a.(*ssa.BinOp)
					if !ok {
						continue
					}
					if isFloat(cmp.X.Type()) {
						floatExit = true
						if at == token.NoPos {
							at = cmp.Pos()
						}
					}
					if isInt(cmp.X.Type()) {
						// the compared integer is a loop counter: a phi of the header fed by itself plus a constant
						for _, side := range []ssa.Value{cmp.X, cmp.Y} {
							if phi, ok := side.(*ssa.Phi); ok && phi.Block() == l.Header {
								for _, e := range phi.Edges {
									if inc, ok := e.(*ssa.BinOp); ok && inc.Op == token.ADD && inc.X == ssa.Value(phi) {
										if k, isK := core.ConstInt(inc.Y); isK && k > 0 {
											counted = true
										}
									}
								}
							}
						}
					}
				}
			}
			otherExit := false
			for b := range l.Blocks {
				ifi, ok := b.Instrs[len(b.Instrs)-1].(*ssa.If)
				if !ok {
					continue
				}
				leaves := false
				for _, s := range b.Succs {
					if !l.Blocks[s] {
						leaves = true
					}
				}
				if !leaves {
					continue
				}
				before := floatExit
				wasCounted := counted
				visit(ifi.Cond, 0)
				if floatExit == before && counted == wasCounted {
					if _, isCmp := ifi.Cond.(*ssa.BinOp); !isCmp || !isFloat(ifi.Cond.(*ssa.BinOp).X.Type()) {
						otherExit = true
					}
				}
			}
			if !floatExit || (otherExit && !counted) {
				// exits decided by something else than floats (range loops, list lengths, flags) are not this rule's
				if !floatExit {
					continue
				}
				continue
			}
			n++
			root := fn
			for root.Parent() != nil {
				root = root.Parent()
			}
			key := core.FuncName(fn) + " | loop at " + p.StmtTextAt(fn, at)
			if counted {
				r.OK(key, p.Pos(at), "also exits on an integer counter")
				continue
			}
			if why, ok := c01FloatLoopNotes[core.FuncName(root)]; ok {
				r.Skip(key, p.Pos(at), why)
				continue
			}
			r.Fail(key, p.Pos(at), "the loop ends only when a floating-point position passes a limit: with a zero step (a wavy underline of thickness 0), a step lost in rounding (stops 0.000001px apart over 1000px) or an infinite limit (x2=\"3e38\") it never does, and each iteration appends to a list or to the path until the memory is exhausted")
		}
	}
	if n == 0 {
		r.Anchor("loops controlled by floating-point comparisons")
	}
}
