package props

import (
	"fmt"
	"go/token"
	"go/types"
	"os"
	"sort"
	"strings"

	"golang.org/x/tools/go/ssa"

	"wrverif/core"
)

func init() { register("C02", c02) }

// c02 decides structural necessary conditions of content conservation across fragmentation: the bookkeeping of
// resume points. It does not decide conservation itself.
func c02(c *core.Check) {
	c.Explain = "Thin: structural necessary conditions of content conservation, decided on the SSA form of the fragmentation bookkeeping: (R1) every key stored in a ResumeStack (the index of the child where the continuation starts) is counted from the start of the children list — a loop index over children[skip:] enters a key only together with skip; (R2) a resume point taken from a line box is taken from the last line kept on the page. That every character is laid out exactly once is a relation over runtime break positions and is not decided."
	c02Keys(c)
	c02Discarded(c)
	c02LastLine(c)
	c02Forward(c)
	c02CellKeys(c)
	c02RunGlyphs(c)
	c02FootnoteSnapshot(c)
	c02RetryReset(c)
	c02CancelledPublishesNothing(c)
	c02SpanningResume(c)
	c02FirstLetter(c)
	c02PrefixAppend(c)
	c02EarlierBreakKeys(c)
	c02WordPrefix(c)
	c02FixedHeightOverflow(c)
}

func isResumeStack(t types.Type) bool {
	n, ok := t.(*types.Named)
	return ok && n.Obj().Name() == "ResumeStack" && n.Obj().Pkg() != nil && strings.HasSuffix(n.Obj().Pkg().Path(), "html/tree")
}

// c02Keys: keys of ResumeStack literals are absolute child indices.
func c02Keys(c *core.Check) {
	p := c.Prog
	r := c.Rule("R1", "resume keys are absolute child indices: in every ResumeStack built by the layout code, a key that depends on the index of a loop over children[skip:] (or over any re-sliced list) contains the slice's lower bound with the same coefficient, so that the continuation starts at the child the fragment stopped at", 36)
	for _, fn := range p.FuncsOfPkg("html/layout") {
		fn := fn
		// the lower bounds of the slices each phi indexes
		lowOf := func(phi *ssa.Phi) (lows []ssa.Value, plain bool) {
			seen := map[ssa.Value]bool{}
			var visit func(v ssa.Value)
			visit = func(v ssa.Value) {
				if seen[v] {
					return
				}
				seen[v] = true
				refs := v.Referrers()
				if refs == nil {
					return
				}
				for _, ref := range *refs {
					switch x := ref.(type) {
					case *ssa.IndexAddr:
						if x.Index != v {
							continue
						}
						if sl, ok := x.X.(*ssa.Slice); ok && sl.Low != nil {
							lows = append(lows, sl.Low)
						} else {
							plain = true
						}
					case *ssa.Index:
						if x.Index == v {
							plain = true
						}
					}
				}
			}
			visit(phi)
			// the range loop of go/ssa indexes with phi+1
			if refs := phi.Referrers(); refs != nil {
				for _, ref := range *refs {
					if b, ok := ref.(*ssa.BinOp); ok {
						if k, isK := core.ConstInt(b.Y); isK && k == 1 && b.X == ssa.Value(phi) {
							visit(b)
						}
					}
				}
			}
			return
		}
		core.Instrs(fn, func(in ssa.Instruction) {
			mu, ok := in.(*ssa.MapUpdate)
			if !ok || !isResumeStack(mu.Map.Type()) {
				return
			}
			txt := p.MapKeyExprAt(fn, mu.Pos())
			if txt == "" {
				txt = stripRegs(mu.Key.Name())
			}
			key := core.FuncName(fn) + " | key " + txt
			lin, okl := keyLin(mu.Key, 0)
			if !okl {
				r.Unknown(key, p.Pos(mu.Pos()), "the key is not a linear expression of indices")
				return
			}
			var problems []string
			phis := 0
			for leaf, cf := range lin.T {
				phi := phiLeaves[leaf]
				if phi == nil {
					continue
				}
				lows, plain := lowOf(phi)
				if len(lows) == 0 {
					continue
				}
				phis++
				if plain {
					problems = append(problems, fmt.Sprintf("index %s is used both on a re-sliced and on a whole list", phi.Comment))
					continue
				}
				for _, low := range lows {
					ll, okk := keyLin(low, 0)
					if !okk {
						problems = append(problems, "the slice's lower bound is not linear")
						continue
					}
					for lleaf, lcf := range ll.T {
						if lin.T[lleaf] != cf*lcf {
							problems = append(problems, fmt.Sprintf("the key counts %s from the start of a list re-sliced at %s, without adding %s: the continuation would start %s children too early", stripRegs(leaf), stripRegs(lleaf), stripRegs(lleaf), stripRegs(lleaf)))
						}
					}
				}
			}
			if os.Getenv("WRVERIF_DEBUG_C02") != "" {
				fmt.Fprintln(os.Stderr, "c02 key:", p.Pos(mu.Pos()), key, linString(lin), phis, problems)
			}
			sort.Strings(problems)
			if len(problems) > 0 {
				r.Fail(key, p.Pos(mu.Pos()), strings.Join(problems, "; "))
			} else if phis > 0 {
				r.OK(key, p.Pos(mu.Pos()), "loop index and lower bound enter the key together: "+linString(lin))
			} else {
				r.Trivially(key, p.Pos(mu.Pos()), "no index over a re-sliced list in the key: "+linString(lin))
			}
		})
	}
}

// phiLeaves maps the leaf names produced by keyLin back to their phis.
var phiLeaves = map[string]*ssa.Phi{}

func keyLin(v ssa.Value, depth int) (core.Lin, bool) {
	switch x := v.(type) {
	case *ssa.Phi:
		name := fmt.Sprintf("φ%s/%p", x.Comment, x)
		phiLeaves[name] = x
		return core.Lin{T: map[string]int64{name: 1}}, true
	case *ssa.BinOp:
		a, ok1 := keyLin(x.X, depth+1)
		b, ok2 := keyLin(x.Y, depth+1)
		if ok1 && ok2 {
			switch x.Op.String() {
			case "+":
				return a.Plus(b, 1), true
			case "-":
				return a.Plus(b, -1), true
			}
		}
		return core.Lin{T: map[string]int64{x.Name(): 1}}, true
	case *ssa.Convert:
		return keyLin(x.X, depth+1)
	case *ssa.ChangeType:
		return keyLin(x.X, depth+1)
	case *ssa.Const:
		if k, ok := core.ConstInt(x); ok {
			return core.Lin{T: map[string]int64{}, K: k}, true
		}
		return core.Lin{}, false
	}
	return core.Lin{T: map[string]int64{fmt.Sprintf("%s/%p", v.Name(), v): 1}}, true
}

func linString(l core.Lin) string {
	var names []string
	for k := range l.T {
		names = append(names, k)
	}
	sort.Strings(names)
	var parts []string
	for _, n := range names {
		nm := n
		if i := strings.Index(nm, "/0x"); i >= 0 {
			nm = nm[:i]
		}
		if l.T[n] == 1 {
			parts = append(parts, nm)
		} else {
			parts = append(parts, fmt.Sprintf("%d·%s", l.T[n], nm))
		}
	}
	if l.K != 0 || len(parts) == 0 {
		parts = append(parts, fmt.Sprint(l.K))
	}
	return strings.Join(parts, " + ")
}

// resumeResult reports which results of a function carry a resume point: a tree.ResumeStack, or a struct with a
// field of that type (blockLayout, splitedInline …). It returns result index -> field index (-1 for the value itself).
func resumeResults(sig *types.Signature) map[int]int {
	out := map[int]int{}
	for i := 0; i < sig.Results().Len(); i++ {
		t := sig.Results().At(i).Type()
		if isResumeStack(t) {
			out[i] = -1
			continue
		}
		if st, ok := t.Underlying().(*types.Struct); ok {
			for f := 0; f < st.NumFields(); f++ {
				if isResumeStack(st.Field(f).Type()) {
					out[i] = f
				}
			}
		}
	}
	return out
}

// c02Discarded: a fragment whose continuation is thrown away must not have been cut.
func c02Discarded(c *core.Check) {
	p := c.Prog
	r := c.Rule("R2", "no continuation is thrown away: a call of a fragmenting layout function (one that returns a resume point) whose resume point is never read passes bottomSpace = −∞, so that the callee is never asked to stop at the page bottom (measurement passes); a call that lays content out against the real page bottom and drops the resume point loses everything after the break", 9)
	for _, fn := range p.FuncsOfPkg("html/layout") {
		fn := fn
		core.Instrs(fn, func(in ssa.Instruction) {
			call, ok := in.(*ssa.Call)
			if !ok {
				return
			}
			callee := call.Call.StaticCallee()
			if callee == nil || !core.IsModFunc(callee) {
				return
			}
			rr := resumeResults(callee.Signature)
			if len(rr) == 0 {
				return
			}
			// is the resume point read?
			used := false
			refs := call.Referrers()
			if refs != nil {
				for _, ref := range *refs {
					switch x := ref.(type) {
					case *ssa.Extract:
						fidx, isR := rr[x.Index]
						if !isR {
							continue
						}
						if fieldUsed(x, fidx) {
							used = true
						}
					default:
						if callee.Signature.Results().Len() == 1 {
							if fieldUsedBy(ref, call, rr[0]) {
								used = true
							}
						}
					}
				}
			}
			if used {
				return
			}
			// find the bottomSpace argument
			bi := -1
			for i, par := range callee.Params {
				if par.Name() == "bottomSpace" {
					bi = i
				}
			}
			key := core.FuncName(fn) + " | " + callee.Name() + " ← " + discardKeyText(p.StmtTextAt(fn, call.Pos()))
			if os.Getenv("WRVERIF_DEBUG_C02") != "" {
				fmt.Fprintln(os.Stderr, "c02 discard:", p.Pos(call.Pos()), key, bi)
			}
			if bi < 0 {
				return // not a fragmenting layout function (ResumeStack.Unpack, constructors …)
			}
			if why, has := c02DiscardNotes[key]; has {
				r.Skip(key, p.Pos(call.Pos()), "not decided: "+why)
				return
			}
			arg := call.Call.Args[bi]
			r.Cond(isMinusInf(arg), key, p.Pos(call.Pos()), "bottomSpace = −∞: the callee never stops at the page bottom", "the resume point is dropped although the callee is given a real page bottom ("+exprName(arg)+"): content after the break is lost")
		})
	}
}

// fieldUsed: is the resume field (fidx, or the value itself for -1) of the extracted result read anywhere?
func fieldUsed(x *ssa.Extract, fidx int) bool {
	refs := x.Referrers()
	if refs == nil {
		return false
	}
	for _, ref := range *refs {
		if fieldUsedBy(ref, x, fidx) {
			return true
		}
	}
	return false
}

func fieldUsedBy(ref ssa.Instruction, v ssa.Value, fidx int) bool {
	if _, isDbg := ref.(*ssa.DebugRef); isDbg {
		return false
	}
	if fidx < 0 {
		return true
	}
	switch y := ref.(type) {
	case *ssa.Field:
		return y.Field == fidx
	case *ssa.Store:
		// spilled to a local: any later read of the field counts
		if al, ok := y.Addr.(*ssa.Alloc); ok && y.Val == v && al.Referrers() != nil {
			for _, r2 := range *al.Referrers() {
				if fa, ok := r2.(*ssa.FieldAddr); ok && fa.Field == fidx {
					return true
				}
				if u, ok := r2.(*ssa.UnOp); ok && u.Referrers() != nil {
					for _, r3 := range *u.Referrers() {
						if fieldUsedBy(r3, u, fidx) {
							return true
						}
					}
				}
			}
			return false
		}
		return true
	case *ssa.Return, *ssa.Call, *ssa.Phi, *ssa.MakeInterface:
		return true
	}
	return false
}

// isMinusInf: -pr.Inf (the negation of the package-level infinity), directly or through a phi of such values.
func isMinusInf(v ssa.Value) bool {
	switch x := v.(type) {
	case *ssa.UnOp:
		if x.Op.String() == "-" {
			if ld, ok := x.X.(*ssa.UnOp); ok && ld.Op.String() == "*" {
				if g, ok := ld.X.(*ssa.Global); ok && g.Name() == "Inf" {
					return true
				}
			}
		}
	case *ssa.Phi:
		for _, e := range x.Edges {
			if !isMinusInf(e) {
				return false
			}
		}
		return len(x.Edges) > 0
	}
	return false
}

// discardKeyText keeps the left-hand side and callee of the statement (stable under edits of the argument list).
func discardKeyText(stmt string) string {
	if i := strings.Index(stmt, "("); i >= 0 {
		stmt = stmt[:i]
	}
	return strings.TrimSpace(stmt)
}

// c02DiscardNotes: calls that drop a resume point against a real page bottom, read and found harmless.
var c02DiscardNotes = map[string]string{
	"html/layout.tableLayout$1 | blockContainerLayout ← cell_, _, _ = blockContainerLayout": "the retry lays out a copy of the cell without children (CopyWithChildren(cell_, nil)) and the cell's resume point is set to {0: nil} on the next line: the whole content is resumed",
	"html/layout.columnsLayout | blockBoxLayout ← nextBox, _ := blockBoxLayout":             "a measurement of the next box's minimum height with bottomSpace = +∞; the box is thrown away and its placeholders removed",
}

// c02LastLine: a resume point read from a line box is read from the last line kept.
func c02LastLine(c *core.Check) {
	p := c.Prog
	r := c.Rule("R3", "the continuation after a run of line boxes starts where the last kept line stopped: every ResumeStack entry whose value is the ResumeAt of a line box reads it from element len(S) − 1 of the list S of kept lines (an earlier element would lay lines out twice, a later one does not exist)", 2)
	for _, fn := range p.FuncsOfPkg("html/layout") {
		fn := fn
		core.Instrs(fn, func(in ssa.Instruction) {
			mu, ok := in.(*ssa.MapUpdate)
			if !ok || !isResumeStack(mu.Map.Type()) {
				return
			}
			// value = *(&(x.(*LineBox)).ResumeAt)
			ld, ok := mu.Value.(*ssa.UnOp)
			if !ok {
				return
			}
			fa, ok := ld.X.(*ssa.FieldAddr)
			if !ok || core.FieldName(fa) != "ResumeAt" {
				return
			}
			ta, ok := fa.X.(*ssa.TypeAssert)
			if !ok {
				return
			}
			el, ok := ta.X.(*ssa.UnOp)
			if !ok {
				return
			}
			ia, ok := el.X.(*ssa.IndexAddr)
			if !ok {
				return
			}
			key := core.FuncName(fn) + " | resume from " + p.MapKeyExprAt(fn, mu.Pos())
			idx, okl := ptrLin(ia.Index, 0)
			want, okw := offsetLinFull2Len(ia.X)
			_ = want
			if !okl || !okw {
				r.Unknown(key, p.Pos(mu.Pos()), "the index of the line is not a linear expression")
				return
			}
			d := idx.Plus(want, -1)
			r.Cond(len(d.T) == 0 && d.K == -1, key, p.Pos(mu.Pos()), "element len − 1 of the kept lines", fmt.Sprintf("the resume point is not read from the last kept line: index − len = %d plus %d other terms (expected −1)", d.K, len(d.T)))
		})
	}
}

// offsetLinFull2Len gives the linear form of len(s) for a slice value (expanding re-slicing).
func offsetLinFull2Len(s ssa.Value) (core.Lin, bool) {
	if sl, ok := s.(*ssa.Slice); ok {
		var hi core.Lin
		var okh bool
		if sl.High != nil {
			hi, okh = offsetLinFull(sl.High)
		} else {
			hi, okh = offsetLinFull2Len(sl.X)
		}
		if !okh {
			return core.Lin{}, false
		}
		if sl.Low == nil {
			return hi, true
		}
		lo, okl := offsetLinFull(sl.Low)
		if !okl {
			return core.Lin{}, false
		}
		return hi.Plus(lo, -1), true
	}
	return core.Lin{T: map[string]int64{"len(" + sliceIdentity(s) + ")": 1}}, true
}

// sliceIdentity names a slice value; two loads of the same cell in a block that neither stores to it nor calls
// anything are the same value.
func sliceIdentity(s ssa.Value) string {
	if ld, ok := s.(*ssa.UnOp); ok && ld.Op == token.MUL {
		quiet := true
		for _, in := range ld.Block().Instrs {
			switch x := in.(type) {
			case *ssa.Store:
				if x.Addr == ld.X {
					quiet = false
				}
			case *ssa.Call:
				if _, isB := x.Call.Value.(*ssa.Builtin); !isB {
					quiet = false
				}
			}
		}
		if quiet {
			return fmt.Sprintf("load %p in block %d", ld.X, ld.Block().Index)
		}
	}
	return fmt.Sprintf("%p", s)
}

// ptrLin is a linear form whose len() leaves are named by the identity of the slice value.
func ptrLin(v ssa.Value, depth int) (core.Lin, bool) {
	if depth > 8 {
		return core.Lin{}, false
	}
	switch x := v.(type) {
	case *ssa.Const:
		if k, ok := core.ConstInt(x); ok {
			return core.Lin{T: map[string]int64{}, K: k}, true
		}
	case *ssa.Convert:
		return ptrLin(x.X, depth+1)
	case *ssa.Call:
		if b, isB := x.Call.Value.(*ssa.Builtin); isB && b.Name() == "len" {
			return offsetLinFull2Len(x.Call.Args[0])
		}
	case *ssa.BinOp:
		a, ok1 := ptrLin(x.X, depth+1)
		b, ok2 := ptrLin(x.Y, depth+1)
		if ok1 && ok2 {
			switch x.Op {
			case token.ADD:
				return a.Plus(b, 1), true
			case token.SUB:
				return a.Plus(b, -1), true
			}
		}
	}
	return core.Lin{T: map[string]int64{fmt.Sprintf("%p", v): 1}}, true
}

// c02Forward: a continuation is never moved forward past content that was not laid out.
func c02Forward(c *core.Check) {
	p := c.Prog
	r := c.Rule("R4", "a resume point is never replaced by a later one: no ResumeStack is built with a key K on a path guarded by `k < K`, k being the key of the resume point already computed (the children between k and K, and the rest of child k, would never be laid out)", 2)
	n := 0
	for _, fn := range p.FuncsOfPkg("html/layout") {
		fn := fn
		core.Instrs(fn, func(in ssa.Instruction) {
			mu, ok := in.(*ssa.MapUpdate)
			if !ok || !isResumeStack(mu.Map.Type()) {
				return
			}
			n++
			b := mu.Block()
			if len(b.Preds) != 1 {
				return
			}
			pb := b.Preds[0]
			ifi, ok := pb.Instrs[len(pb.Instrs)-1].(*ssa.If)
			if !ok {
				return
			}
			cmp, ok := ifi.Cond.(*ssa.BinOp)
			if !ok {
				return
			}
			onTrue := pb.Succs[0] == b
			var small, large ssa.Value
			switch {
			case cmp.Op == token.LSS && onTrue, cmp.Op == token.GEQ && !onTrue:
				small, large = cmp.X, cmp.Y
			case cmp.Op == token.GTR && onTrue, cmp.Op == token.LEQ && !onTrue:
				small, large = cmp.Y, cmp.X
			default:
				return
			}
			// large is the new key, small is the key of an existing resume point
			if large != mu.Key {
				return
			}
			ex, ok := small.(*ssa.Extract)
			if !ok || ex.Index != 0 {
				return
			}
			call, ok := ex.Tuple.(*ssa.Call)
			if !ok || call.Call.StaticCallee() == nil || call.Call.StaticCallee().Name() != "Unpack" {
				return
			}
			key := core.FuncName(fn) + " | resume point moved forward to " + p.MapKeyExprAt(fn, mu.Pos())
			r.Fail(key, p.Pos(mu.Pos()), "the resume point already computed (key "+exprName(small)+") is replaced by a later one ("+exprName(large)+") when it lies before it: the content in between is never laid out")
		})
	}
	if n == 0 {
		r.Anchor("ResumeStack literals in html/layout")
	}
	r.OK("html/layout | ResumeStack literals examined", "-", fmt.Sprintf("%d literals", n))
}

// c02CellKeys: the per-cell resume points of a table row split across pages.
func c02CellKeys(c *core.Check) {
	p := c.Prog
	r := c.Rule("R5", "a split table row resumes each cell where that cell stopped: in tableLayout the resume point of a cell is stored under, and looked up with, the same key — the index of the cell in its row (a column number differs from it after a colspan, and the cells that follow would be taken as finished)", 1)
	n := 0
	for _, fn := range p.FuncsOfPkg("html/layout") {
		root := fn
		for root.Parent() != nil {
			root = root.Parent()
		}
		if root.Name() != "tableLayout" {
			continue
		}
		var reads []*ssa.Lookup
		var writes []*ssa.MapUpdate
		core.Instrs(fn, func(in ssa.Instruction) {
			switch x := in.(type) {
			case *ssa.Lookup:
				if x.CommaOk && isResumeStack(x.X.Type()) {
					// skipStack[k] where the element type is itself a resume stack: a per-child entry
					reads = append(reads, x)
				}
			case *ssa.MapUpdate:
				if isResumeStack(x.Map.Type()) {
					if _, nested := x.Map.(*ssa.Lookup); nested {
						writes = append(writes, x)
					}
				}
			}
		})
		for _, rd := range reads {
			for _, wr := range writes {
				// same loop: the innermost loop of both
				lr, lw := core.InnermostLoop(fn, rd.Block()), core.InnermostLoop(fn, wr.Block())
				if lr == nil || lw == nil || lr.Header != lw.Header {
					continue
				}
				n++
				same := rd.Index == wr.Key
				r.Cond(same, core.FuncName(fn)+" | cell resume key read = key written", p.Pos(rd.Pos()), "both are "+exprName(wr.Key), "the resume point of a cell is stored under "+p.MapKeyExprAt(fn, wr.Pos())+" and looked up with another key: after a colspan the lookup misses and the rest of the cell is never laid out")
			}
		}
	}
	if n == 0 {
		r.Anchor("tableLayout: per-cell resume point lookup and update in the loop over a row's cells")
	}
}

// c02RunGlyphs: the glyphs of every pango run reach the backend.  createFirstLinePango hands the glyphs of a pango
// run to the last TextRun of the drawing by assigning the whole list; that is right only while every pango run gets
// a TextRun of its own.  If the creation of a TextRun is skipped when the font is the one of the previous run (the
// test compares with a value carried from one iteration to the next), the assignment overwrites the glyphs of that
// previous run and its text is never drawn: the glyph list must then be extended, not replaced.
func c02RunGlyphs(c *core.Check) {
	p := c.Prog
	r := c.Rule("R6", "every run's glyphs are kept: in createFirstLinePango either each pango run gets a backend run of its own (the test guarding the creation compares the font with a constant) or, when a backend run can be shared with the previous pango run, its glyph list is extended (append to the list already there) and never replaced", 1)
	var fn *ssa.Function
	for _, f := range p.FuncsOfPkg("text/draw") {
		if f.Name() == "createFirstLinePango" {
			fn = f
		}
	}
	if fn == nil {
		r.Anchor("text/draw.Context.createFirstLinePango")
		return
	}
	var addFont *ssa.Call
	core.Instrs(fn, func(in ssa.Instruction) {
		if call, ok := in.(*ssa.Call); ok && call.Call.IsInvoke() && call.Call.Method.Name() == "AddFont" {
			addFont = call
		}
	})
	if addFont == nil || addFont.Referrers() == nil {
		r.Anchor("createFirstLinePango: ctx.Output.AddFont(…)")
		return
	}
	shared := false
	found := false
	for _, ref := range *addFont.Referrers() {
		cmp, ok := ref.(*ssa.BinOp)
		if !ok || (cmp.Op != token.NEQ && cmp.Op != token.EQL) {
			continue
		}
		found = true
		other := cmp.Y
		if other == ssa.Value(addFont) {
			other = cmp.X
		}
		if _, isK := other.(*ssa.Const); !isK {
			shared = true
		}
	}
	if !found {
		r.Anchor("createFirstLinePango: the test guarding the creation of a backend run")
		return
	}
	// the store into the Glyphs field of a backend.TextRun
	n := 0
	core.Instrs(fn, func(in ssa.Instruction) {
		st, ok := in.(*ssa.Store)
		if !ok {
			return
		}
		fa, ok := st.Addr.(*ssa.FieldAddr)
		if !ok || core.FieldName(fa) != "Glyphs" {
			return
		}
		if pt, ok := fa.X.Type().Underlying().(*types.Pointer); !ok || !strings.HasSuffix(pt.Elem().String(), "backend.TextRun") {
			return
		}
		n++
		extended := false
		if call, ok := st.Val.(*ssa.Call); ok {
			if b, isB := call.Call.Value.(*ssa.Builtin); isB && b.Name() == "append" && len(call.Call.Args) > 0 {
				if ld, ok := call.Call.Args[0].(*ssa.UnOp); ok {
					if fa2, ok := ld.X.(*ssa.FieldAddr); ok && fa2.Field == fa.Field {
						extended = true
					}
				}
			}
		}
		r.Cond(!shared || extended, "text/draw.createFirstLinePango | glyphs of the run handed to the backend", p.Pos(st.Pos()), "each pango run has its own backend run (or the list is extended)",
			"a backend run can be shared by consecutive pango runs of the same font, but its glyph list is replaced by the glyphs of the last of them: the text of the earlier runs is never drawn (\"alpha βήτα gamma\" sends 5 glyphs instead of 16)")
	})
	if n == 0 {
		r.Anchor("createFirstLinePango: runDst.Glyphs = …")
	}
}

// c02FootnoteSnapshot: the list of footnotes restored at the start of every re-pagination pass is a snapshot.
// layoutDocument saves context.footnotes before the first pass and puts a copy of the saved list back before each
// later pass; the passes remove footnotes from context.footnotes in place (removeFromBoxes), so the saved list must
// not share its backing array with it: it is a fresh copy (append to a nil or empty list, or make + copy).
func c02FootnoteSnapshot(c *core.Check) {
	p := c.Prog
	r := c.Rule("R7", "the footnotes restored before a re-pagination pass come from a snapshot: in layoutDocument the list copied back into context.footnotes inside the pass loop was itself built as a fresh copy before the loop, not read from context.footnotes (which the passes filter in place)", 1)
	fn := p.Fn("html/layout", "layoutDocument")
	if fn == nil {
		r.Anchor("html/layout.layoutDocument")
		return
	}
	isFresh := func(v ssa.Value) bool {
		call, ok := v.(*ssa.Call)
		if !ok {
			return false
		}
		b, isB := call.Call.Value.(*ssa.Builtin)
		if !isB || b.Name() != "append" || len(call.Call.Args) != 2 {
			return false
		}
		switch a := call.Call.Args[0].(type) {
		case *ssa.Const:
			return a.Value == nil
		case *ssa.Slice:
			// empty literal
			return false
		}
		return false
	}
	n := 0
	core.Instrs(fn, func(in ssa.Instruction) {
		st, ok := in.(*ssa.Store)
		if !ok {
			return
		}
		fa, ok := st.Addr.(*ssa.FieldAddr)
		if !ok || core.FieldName(fa) != "footnotes" || core.InnermostLoop(fn, st.Block()) == nil {
			return
		}
		call, ok := st.Val.(*ssa.Call)
		if !ok || !isFresh(call) {
			return
		}
		n++
		saved := call.Call.Args[1]
		r.Cond(isFresh(saved), "html/layout.layoutDocument | list restored into context.footnotes", p.Pos(st.Pos()), "the saved list is a fresh copy made before the loop",
			"the list saved before the first pass is context.footnotes itself: the passes filter that list in place, the saved list is corrupted and the pages made again by a second pass do not find their footnotes (three footnotes and content: counter(pages): the bodies of two footnotes are never drawn)")
	})
	if n == 0 {
		r.Anchor("layoutDocument: context.footnotes = append([]Box(nil), saved...) in the pass loop")
	}
}
