package props

import (
	"fmt"
	"go/constant"
	"go/token"
	"go/types"
	"sort"

	"golang.org/x/tools/go/ssa"

	"wrverif/core"
)

// c08IntegerRanges (R18): CSS restricts some integer-valued properties to positive integers; a value outside the
// range is an invalid declaration and must be dropped alone, not kept and interpreted (max-lines: 0 overrides a
// valid max-lines and then means "no limit").  For each such property the validator registered in the validators
// table may use the integer of a Number token only where a comparison of that integer with a constant at least the
// CSS minimum holds.
var c08IntegerMinimum = map[string]int64{
	"POrphans":       1, // css-break-3: <integer [1,∞]>
	"PWidows":        1,
	"PColumnCount":   1, // css-multicol-1: <integer [1,∞]>
	"PMaxLines":      1, // css-overflow-4: none | <integer [1,∞]>
	"PBookmarkLevel": 1, // css-gcpm-3: none | <integer [1,∞]>
}

func c08IntegerRanges(c *core.Check) {
	p := c.Prog
	r := c.Rule("R18", "integer ranges: in the validators of orphans, widows, column-count, max-lines and bookmark-level (<integer [1,∞]> in CSS) every use of the integer of a Number token, other than comparing it, is on the true side of a comparison of that integer with a constant ≥ 1", 3)
	tab, err := p.Table("css/validation", "validators")
	if err != nil {
		r.Anchor("css/validation.validators: " + err.Error())
		return
	}
	names := map[int64]string{}
	for n, k := range p.ConstsOfType("css/properties", "KnownProp") {
		names[n] = k.Name()
	}
	var props []string
	for k := range c08IntegerMinimum {
		props = append(props, k)
	}
	sort.Strings(props)
	done := map[string]bool{}
	for _, e := range tab {
		if e.Key == nil {
			continue
		}
		n, _ := constant.Int64Val(e.Key)
		name := names[n]
		min, ok := c08IntegerMinimum[name]
		if !ok {
			continue
		}
		f, ok := e.ValObj.(*types.Func)
		if !ok {
			continue
		}
		fn := p.SSA.FuncValue(f)
		if fn == nil || fn.Blocks == nil {
			continue
		}
		done[name] = true
		key := fmt.Sprintf("css/validation.%s | %s", fn.Name(), name)
		isInt := func(v ssa.Value) (*ssa.Call, bool) {
			call, ok := v.(*ssa.Call)
			if !ok {
				return nil, false
			}
			callee := call.Call.StaticCallee()
			return call, callee != nil && callee.Name() == "Int" && callee.Signature.Recv() != nil && len(call.Call.Args) == 1
		}
		// guards: true successors of comparisons Int() >= k
		type guard struct {
			recv string
			blk  *ssa.BasicBlock
		}
		var guards []guard
		for _, a := range core.CondAtoms(fn) {
			bo, ok := a.(*ssa.BinOp)
			if !ok {
				continue
			}
			call, ok := isInt(bo.X)
			if !ok {
				continue
			}
			k, ok := core.ConstInt(bo.Y)
			if !ok {
				continue
			}
			if !(bo.Op == token.GEQ && k >= min || bo.Op == token.GTR && k >= min-1) {
				continue
			}
			// the block entered when the atom is true
			for _, b := range fn.Blocks {
				if len(b.Instrs) == 0 {
					continue
				}
				if ifi, ok := b.Instrs[len(b.Instrs)-1].(*ssa.If); ok && ifi.Cond == ssa.Value(bo) {
					guards = append(guards, guard{valueText(call.Call.Args[0]), b.Succs[0]})
				}
			}
		}
		nUses, bad := 0, ""
		core.Instrs(fn, func(in ssa.Instruction) {
			call, ok := isInt(valueOf(in))
			if !ok {
				return
			}
			for _, ref := range *call.Referrers() {
				if bo, ok := ref.(*ssa.BinOp); ok {
					switch bo.Op {
					case token.GEQ, token.GTR, token.LSS, token.LEQ, token.EQL, token.NEQ:
						continue
					}
				}
				if _, ok := ref.(*ssa.DebugRef); ok {
					continue
				}
				nUses++
				guarded := false
				for _, g := range guards {
					if g.recv == valueText(call.Call.Args[0]) && (g.blk == ref.Block() || g.blk.Dominates(ref.Block())) {
						guarded = true
					}
				}
				if !guarded {
					bad = p.Pos(ref.Pos())
				}
			}
		})
		if nUses == 0 {
			r.Unknown(key, p.Pos(fn.Pos()), "the validator does not use the integer of a Number token")
			continue
		}
		r.Cond(bad == "", key, p.Pos(fn.Pos()), fmt.Sprintf("%d uses of the integer, each under a comparison with a constant ≥ %d", nUses, min), fmt.Sprintf("the integer is used at %s without having been compared with a constant ≥ %d: a value below the CSS minimum is accepted instead of invalidating the declaration", bad, min))
	}
	for _, name := range props {
		if !done[name] {
			r.Unknown("css/validation.validators | "+name, "-", "no validator function registered under this property")
		}
	}
}

func valueOf(in ssa.Instruction) ssa.Value {
	v, _ := in.(ssa.Value)
	return v
}

// c08NoneIsInvalid (R19): the helpers of css/validation report "not recognised" with the zero value of a struct
// type that has an IsNone method (Point, Dimension …).  Converted to the CssProperty interface that zero value is a
// non-nil property: a validator that returns such a helper's result must test IsNone first and return nil, or the
// invalid declaration is kept — and read as zeros.  For every function registered in the validators table, each
// returned interface made from a struct value with an IsNone method that comes from a call is reached only where
// IsNone() of that value was false.
func c08NoneIsInvalid(c *core.Check) {
	p := c.Prog
	r := c.Rule("R19", "none is invalid: in every validator of the validators table, a returned property made from a call result whose type has an IsNone method is dominated by the false side of IsNone() on that result (the zero value the helpers use for 'not recognised' must become nil, not a value)", 5)
	tab, err := p.Table("css/validation", "validators")
	if err != nil {
		r.Anchor("css/validation.validators: " + err.Error())
		return
	}
	seen := map[*ssa.Function]bool{}
	n := 0
	var fns []*ssa.Function
	for _, e := range tab {
		if f, ok := e.ValObj.(*types.Func); ok {
			if fn := p.SSA.FuncValue(f); fn != nil {
				fns = append(fns, fn)
			}
		}
	}
	// validators that ValidateKnown calls by name (color, handled apart for its inherit case)
	if vk := p.Fn("css/validation", "ValidateKnown"); vk != nil {
		core.Instrs(vk, func(in ssa.Instruction) {
			if call, ok := in.(*ssa.Call); ok {
				if callee := call.Call.StaticCallee(); callee != nil && callee.Pkg == vk.Pkg && len(callee.Params) == 2 {
					fns = append(fns, callee)
				}
			}
		})
	}
	for _, fn := range fns {
		if fn == nil || fn.Blocks == nil || seen[fn] {
			continue
		}
		seen[fn] = true
		k := 0
		check := func(mi *ssa.MakeInterface, at *ssa.BasicBlock, pos token.Pos) {
			inner := mi.X
			if ct, ok := inner.(*ssa.ChangeType); ok { // pr.Color(parser.ParseColor(…))
				inner = ct.X
			}
			alias := ""
			if ld, ok := inner.(*ssa.UnOp); ok { // the result kept in a local: one store, of a call
				if al, ok := ld.X.(*ssa.Alloc); ok {
					var stores []*ssa.Store
					for _, ref := range *al.Referrers() {
						if st, ok := ref.(*ssa.Store); ok && st.Addr == ssa.Value(al) {
							stores = append(stores, st)
						}
					}
					if len(stores) == 1 {
						alias = valueText(ld)
						inner = stores[0].Val
					}
				}
			}
			call, ok := inner.(*ssa.Call)
			if !ok {
				return
			}
			ms := p.SSA.MethodSets.MethodSet(call.Type())
			has := false
			for i := 0; i < ms.Len(); i++ {
				if ms.At(i).Obj().Name() == "IsNone" {
					has = true
				}
			}
			if !has {
				return
			}
			callee := call.Call.StaticCallee()
			if callee == nil || callee.Pkg == nil || (core.Rel(callee.Pkg.Pkg.Path()) != "css/validation" && core.Rel(callee.Pkg.Pkg.Path()) != "css/parser") || !returnsZeroStruct(callee) {
				return
			}
			n++
			k++
			key := fmt.Sprintf("%s | returned %s #%d", core.FuncName(fn), typeName(mi.X.Type()), k)
			tested := false
			for _, b := range fn.Blocks {
				if len(b.Instrs) == 0 {
					continue
				}
				ifi, ok := b.Instrs[len(b.Instrs)-1].(*ssa.If)
				if !ok {
					continue
				}
				c2, ok := ifi.Cond.(*ssa.Call)
				if !ok {
					continue
				}
				cl := c2.Call.StaticCallee()
				if cl == nil || cl.Name() != "IsNone" || len(c2.Call.Args) != 1 {
					continue
				}
				if c2.Call.Args[0] != ssa.Value(call) && valueText(c2.Call.Args[0]) != valueText(call) && (alias == "" || valueText(c2.Call.Args[0]) != alias) {
					continue
				}
				if s := b.Succs[1]; s == at || s.Dominates(at) {
					tested = true
				}
			}
			r.Cond(tested, key, p.Pos(pos), "returned only where IsNone() is false", "the result of "+core.CalleeName(call)+" is returned without an IsNone test: for a value the helper does not recognise the validator returns a non-nil zero property, the invalid declaration is kept and read as zeros")
		}
		core.Instrs(fn, func(in ssa.Instruction) {
			ret, ok := in.(*ssa.Return)
			if !ok || len(ret.Results) == 0 {
				return
			}
			switch x := ret.Results[0].(type) {
			case *ssa.MakeInterface:
				check(x, x.Block(), ret.Pos())
			case *ssa.Phi: // several returns merged into one
				for _, e := range x.Edges {
					if mi, ok := e.(*ssa.MakeInterface); ok {
						check(mi, mi.Block(), mi.Pos())
					}
				}
			}
		})
	}
	if n == 0 {
		r.Unknown("css/validation.validators | returned structs with IsNone", "-", "none found")
	}
}

// returnsZeroStruct: some return of fn yields the zero value of a struct type as its first result.
func returnsZeroStruct(fn *ssa.Function) bool {
	found := false
	core.Instrs(fn, func(in ssa.Instruction) {
		ret, ok := in.(*ssa.Return)
		if !ok || len(ret.Results) == 0 {
			return
		}
		isAgg := func(t types.Type) bool {
			switch t.Underlying().(type) {
			case *types.Struct, *types.Array:
				return true
			}
			return false
		}
		if k, ok := ret.Results[0].(*ssa.Const); ok && k.Value == nil && isAgg(k.Type()) {
			found = true
		}
		// an empty composite literal materialised in memory: a load of a local that nothing writes
		if ld, ok := ret.Results[0].(*ssa.UnOp); ok && isAgg(ld.Type()) {
			if al, ok := ld.X.(*ssa.Alloc); ok {
				written := false
				for _, ref := range *al.Referrers() {
					switch x := ref.(type) {
					case *ssa.Store:
						written = written || x.Addr == ssa.Value(al)
					case *ssa.IndexAddr, *ssa.FieldAddr:
						written = true
					}
				}
				if !written {
					found = true
				}
			}
		}
	})
	return found
}

// c08UnitlessZero (R20): a unitless number is a length only when it is zero (CSS Values §5.2).  In getLength the
// scalar zero is produced under a comparison of the token's floating point value with 0 — not of its integer part,
// which is 0 for every number in (−1, 1): `margin: 0.9` would be accepted as 0.
func c08UnitlessZero(c *core.Check) {
	p := c.Prog
	r := c.Rule("R20", "unitless zero only: in css/validation.getLength the branch that builds the zero length for a Number token is entered by a comparison of the token's float value (ValueF) with 0", 1)
	fn := p.Fn("css/validation", "getLength")
	if fn == nil {
		r.Anchor("css/validation.getLength")
		return
	}
	key := "css/validation.getLength | unitless number"
	// calls NewDim(0, …)
	var zeros []*ssa.Call
	core.Instrs(fn, func(in ssa.Instruction) {
		call, ok := in.(*ssa.Call)
		if !ok || call.Call.StaticCallee() == nil || call.Call.StaticCallee().Name() != "NewDim" || len(call.Call.Args) < 1 {
			return
		}
		if z, ok := core.ConstFloat(call.Call.Args[0]); ok && z == 0 {
			zeros = append(zeros, call)
		}
	})
	if len(zeros) == 0 {
		r.Unknown(key, p.Pos(fn.Pos()), "no construction of a zero dimension")
		return
	}
	for i, z := range zeros {
		guarded, other := false, ""
		for _, b := range fn.Blocks {
			if len(b.Instrs) == 0 {
				continue
			}
			ifi, ok := b.Instrs[len(b.Instrs)-1].(*ssa.If)
			if !ok || !(b.Succs[0] == z.Block() || b.Succs[0].Dominates(z.Block())) || len(b.Succs[0].Preds) != 1 {
				continue
			}
			bo, ok := ifi.Cond.(*ssa.BinOp)
			if !ok || bo.Op != token.EQL {
				continue
			}
			if zz, ok := constNumber(bo.Y); !ok || zz != 0 {
				continue
			}
			isField := func(v ssa.Value) bool {
				switch x := v.(type) {
				case *ssa.Field:
					if st, ok := x.X.Type().Underlying().(*types.Struct); ok {
						return st.Field(x.Field).Name() == "ValueF"
					}
				case *ssa.UnOp:
					if fa, ok := x.X.(*ssa.FieldAddr); ok {
						return core.FieldName(fa) == "ValueF"
					}
				}
				return false
			}
			if isField(bo.X) {
				guarded = true
			} else {
				other = bo.X.String()
			}
		}
		r.Cond(guarded, fmt.Sprintf("%s #%d", key, i+1), p.Pos(z.Pos()), "under ValueF == 0", "the zero length is built under a test of "+other+" instead of the float value: every unitless number whose tested part is 0 (0.5, -0.75, 9e-1) is accepted as the length 0")
	}
}
