package props

import (
	"fmt"

	"golang.org/x/tools/go/ssa"

	"wrverif/core"
)

// c01FetchRecursion (R26): a function that fetches a resource named by the document and calls itself on what it
// fetched follows a reference the document controls: a sheet that imports itself, directly or through others, must
// not be followed for ever.  Every directly self-recursive function of the module that reaches a fetch of a resource
// (utils.FetchSource, or a helper calling it) calls itself only where a membership test of a set of names in
// progress failed, after the name was added to that set.
func c01FetchRecursion(c *core.Check) {
	p := c.Prog
	r := c.Rule("R26", "recursion through fetched resources is cycle-guarded: every function of the module that calls itself directly and reaches utils.FetchSource within two calls makes the recursive call only on the false side of a Set.Has test, with a Set.Add before it", 1)
	fetches := func(fn *ssa.Function) bool {
		found := false
		var walk func(f *ssa.Function, d int)
		seen := map[*ssa.Function]bool{}
		walk = func(f *ssa.Function, d int) {
			if f == nil || f.Blocks == nil || seen[f] || d > 2 || found {
				return
			}
			seen[f] = true
			core.Instrs(f, func(in ssa.Instruction) {
				if call, ok := in.(ssa.CallInstruction); ok {
					if callee := call.Common().StaticCallee(); callee != nil {
						if callee.Name() == "FetchSource" {
							found = true
							return
						}
						if callee.Pkg != nil && core.InModule(callee.Pkg.Pkg.Path()) {
							walk(callee, d+1)
						}
					}
				}
			})
		}
		walk(fn, 0)
		return found
	}
	n := 0
	for _, fn := range p.ModFuncs {
		if fn.Blocks == nil {
			continue
		}
		var recs []*ssa.Call
		core.Instrs(fn, func(in ssa.Instruction) {
			if call, ok := in.(*ssa.Call); ok && call.Call.StaticCallee() == fn {
				recs = append(recs, call)
			}
		})
		if len(recs) == 0 || !fetches(fn) {
			continue
		}
		for i, rec := range recs {
			// only calls made on what was fetched: a structural descent into the current sheet (@media content) ends by itself
			onFetched := false
			for _, a := range rec.Call.Args {
				seen := map[ssa.Value]bool{}
				var walk func(v ssa.Value, d int)
				walk = func(v ssa.Value, d int) {
					if v == nil || seen[v] || d > 8 || onFetched {
						return
					}
					seen[v] = true
					switch x := v.(type) {
					case *ssa.Call:
						if callee := x.Call.StaticCallee(); callee != nil && (callee.Name() == "FetchSource" || callee != fn && fetches(callee)) {
							onFetched = true
							return
						}
						for _, a2 := range x.Call.Args {
							walk(a2, d+1)
						}
					case *ssa.Extract:
						walk(x.Tuple, d+1)
					case *ssa.Phi:
						for _, e := range x.Edges {
							walk(e, d+1)
						}
					case *ssa.Field:
						walk(x.X, d+1)
					case *ssa.UnOp:
						walk(x.X, d+1)
					case *ssa.FieldAddr:
						walk(x.X, d+1)
					case *ssa.Slice:
						walk(x.X, d+1)
					case *ssa.ChangeType:
						walk(x.X, d+1)
					case *ssa.Convert:
						walk(x.X, d+1)
					case *ssa.MakeInterface:
						walk(x.X, d+1)
					}
				}
				walk(a, 0)
			}
			if !onFetched {
				continue
			}
			n++
			key := fmt.Sprintf("%s | recursive call #%d", core.FuncName(fn), i+1)
			guarded, added := false, false
			for _, b := range fn.Blocks {
				if len(b.Instrs) == 0 {
					continue
				}
				ifi, ok := b.Instrs[len(b.Instrs)-1].(*ssa.If)
				if !ok {
					continue
				}
				call, ok := ifi.Cond.(*ssa.Call)
				if !ok {
					continue
				}
				if callee := call.Call.StaticCallee(); callee == nil || callee.Name() != "Has" {
					continue
				}
				if s := b.Succs[1]; s == rec.Block() || s.Dominates(rec.Block()) {
					guarded = true
				}
			}
			core.Instrs(fn, func(in ssa.Instruction) {
				call, ok := in.(*ssa.Call)
				if !ok {
					return
				}
				if callee := call.Call.StaticCallee(); callee == nil || callee.Name() != "Add" {
					return
				}
				if call.Block() == rec.Block() && call.Pos() < rec.Pos() || call.Block() != rec.Block() && call.Block().Dominates(rec.Block()) {
					added = true
				}
			})
			r.Cond(guarded && added, key, p.Pos(rec.Pos()), "on the false side of a membership test, after an insertion", fmt.Sprintf("membership test before the call: %v, insertion before the call: %v — a resource that names itself (a style sheet importing itself) is followed until the stack is exhausted", guarded, added))
		}
	}
	if n == 0 {
		r.Unknown("module | self-recursive functions reaching FetchSource", "-", "none found")
	}
}
