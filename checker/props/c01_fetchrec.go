package props

import (
	"fmt"
	"go/token"
	"go/types"

	"golang.org/x/tools/go/ssa"

	"wrverif/core"
)

// c01FetchRecursion (R26): a function that fetches a resource named by the document and calls itself on what it
// fetched follows a reference the document controls: a sheet that imports itself, directly or through others, must
// not be followed for ever.  Every directly self-recursive function of the module that reaches a fetch of a resource
// (utils.FetchSource, or a helper calling it) calls itself only where a membership test of a set of names in
// progress failed, after the name was added to that set.
func c01FetchRecursion(c *core.Check) {
	p := c.Prog
	r := c.Rule("R26", "recursion through fetched resources is cycle-guarded: every function of the module that calls itself directly and reaches utils.FetchSource within two calls makes the recursive call only on the false side of a Set.Has test, with a Set.Add before it", 1)
	fetches := func(fn *ssa.Function) bool {
		found := false
		var walk func(f *ssa.Function, d int)
		seen := map[*ssa.Function]bool{}
		walk = func(f *ssa.Function, d int) {
			if f == nil || f.Blocks == nil || seen[f] || d > 2 || found {
				return
			}
			seen[f] = true
			core.Instrs(f, func(in ssa.Instruction) {
				if call, ok := in.(ssa.CallInstruction); ok {
					if callee := call.Common().StaticCallee(); callee != nil {
						if callee.Name() == "FetchSource" {
							found = true
							return
						}
						if callee.Pkg != nil && core.InModule(callee.Pkg.Pkg.Path()) {
							walk(callee, d+1)
						}
					}
				}
			})
		}
		walk(fn, 0)
		return found
	}
	n := 0
	for _, fn := range p.ModFuncs {
		if fn.Blocks == nil {
			continue
		}
		var recs []*ssa.Call
		core.Instrs(fn, func(in ssa.Instruction) {
			if call, ok := in.(*ssa.Call); ok && call.Call.StaticCallee() == fn {
				recs = append(recs, call)
			}
		})
		if len(recs) == 0 || !fetches(fn) {
			continue
		}
		for i, rec := range recs {
			// only calls made on what was fetched: a structural descent into the current sheet (@media content) ends by itself
			onFetched := false
			for _, a := range rec.Call.Args {
				seen := map[ssa.Value]bool{}
				var walk func(v ssa.Value, d int)
				walk = func(v ssa.Value, d int) {
					if v == nil || seen[v] || d > 8 || onFetched {
						return
					}
					seen[v] = true
					switch x := v.(type) {
					case *ssa.Call:
						if callee := x.Call.StaticCallee(); callee != nil && (callee.Name() == "FetchSource" || callee != fn && fetches(callee)) {
							onFetched = true
							return
						}
						for _, a2 := range x.Call.Args {
							walk(a2, d+1)
						}
					case *ssa.Extract:
						walk(x.Tuple, d+1)
					case *ssa.Phi:
						for _, e := range x.Edges {
							walk(e, d+1)
						}
					case *ssa.Field:
						walk(x.X, d+1)
					case *ssa.UnOp:
						walk(x.X, d+1)
					case *ssa.FieldAddr:
						walk(x.X, d+1)
					case *ssa.Slice:
						walk(x.X, d+1)
					case *ssa.ChangeType:
						walk(x.X, d+1)
					case *ssa.Convert:
						walk(x.X, d+1)
					case *ssa.MakeInterface:
						walk(x.X, d+1)
					}
				}
				walk(a, 0)
			}
			if !onFetched {
				continue
			}
			n++
			key := fmt.Sprintf("%s | recursive call #%d", core.FuncName(fn), i+1)
			guarded, added := false, false
			for _, b := range fn.Blocks {
				if len(b.Instrs) == 0 {
					continue
				}
				ifi, ok := b.Instrs[len(b.Instrs)-1].(*ssa.If)
				if !ok {
					continue
				}
				call, ok := ifi.Cond.(*ssa.Call)
				if !ok {
					continue
				}
				if callee := call.Call.StaticCallee(); callee == nil || callee.Name() != "Has" {
					continue
				}
				if s := b.Succs[1]; s == rec.Block() || s.Dominates(rec.Block()) {
					guarded = true
				}
			}
			core.Instrs(fn, func(in ssa.Instruction) {
				call, ok := in.(*ssa.Call)
				if !ok {
					return
				}
				if callee := call.Call.StaticCallee(); callee == nil || callee.Name() != "Add" {
					return
				}
				if call.Block() == rec.Block() && call.Pos() < rec.Pos() || call.Block() != rec.Block() && call.Block().Dominates(rec.Block()) {
					added = true
				}
			})
			r.Cond(guarded && added, key, p.Pos(rec.Pos()), "on the false side of a membership test, after an insertion", fmt.Sprintf("membership test before the call: %v, insertion before the call: %v — a resource that names itself (a style sheet importing itself) is followed until the stack is exhausted", guarded, added))
		}
	}
	if n == 0 {
		r.Unknown("module | self-recursive functions reaching FetchSource", "-", "none found")
	}
}

// c01LoaderCycles (R27): the same obligation for recursion that goes through a closure: an SVG image is parsed
// with a loader for the images it embeds, and that loader loads SVG images.  In the call graph of package images
// extended with "creates the closure" edges, every cycle that contains a call of a url fetcher has a member that
// tests a set of urls in progress, returns when the url is in it, and adds the url before calling on into the cycle.
func c01LoaderCycles(c *core.Check) {
	p := c.Prog
	r := c.Rule("R27", "image loaders do not load themselves: every cycle of package images' call graph (static calls and closure creations) that fetches a url contains a function that leaves on a Set.Has test and calls Set.Add before every call that stays in the cycle", 1)
	var fns []*ssa.Function
	for fn := range p.AllFuncs {
		if fn.Pkg != nil && core.Rel(fn.Pkg.Pkg.Path()) == "images" && fn.Blocks != nil {
			fns = append(fns, fn)
		}
	}
	in := map[*ssa.Function]bool{}
	for _, f := range fns {
		in[f] = true
	}
	succ := map[*ssa.Function][]*ssa.Function{}
	fetch := map[*ssa.Function]bool{}
	for _, f := range fns {
		core.Instrs(f, func(ins ssa.Instruction) {
			switch x := ins.(type) {
			case *ssa.MakeClosure:
				if g, ok := x.Fn.(*ssa.Function); ok && in[g] {
					succ[f] = append(succ[f], g)
				}
			case ssa.CallInstruction:
				if g := x.Common().StaticCallee(); g != nil && in[g] {
					succ[f] = append(succ[f], g)
				} else if g == nil && !x.Common().IsInvoke() {
					if nm, ok := x.Common().Value.Type().(interface{ String() string }); ok && (nm.String() == "github.com/benoitkugler/webrender/utils.UrlFetcher") {
						fetch[f] = true
					}
				}
			}
		})
	}
	reach := func(a, b *ssa.Function) bool {
		seen := map[*ssa.Function]bool{}
		work := append([]*ssa.Function{}, succ[a]...)
		for len(work) > 0 {
			f := work[len(work)-1]
			work = work[:len(work)-1]
			if f == b {
				return true
			}
			if seen[f] {
				continue
			}
			seen[f] = true
			work = append(work, succ[f]...)
		}
		return false
	}
	n := 0
	done := map[*ssa.Function]bool{}
	for _, f := range fns {
		if done[f] || !fetch[f] || !reach(f, f) {
			continue
		}
		// the cycle(s) through f
		var members []*ssa.Function
		for _, g := range fns {
			if g == f || reach(f, g) && reach(g, f) {
				members = append(members, g)
				done[g] = true
			}
		}
		n++
		key := "images | cycle through " + core.FuncName(f)
		guarded := false
		for _, g := range members {
			var hasBlk *ssa.BasicBlock
			for _, b := range g.Blocks {
				if len(b.Instrs) == 0 {
					continue
				}
				if ifi, ok := b.Instrs[len(b.Instrs)-1].(*ssa.If); ok {
					if call, ok := ifi.Cond.(*ssa.Call); ok {
						if callee := call.Call.StaticCallee(); callee != nil && callee.Name() == "Has" {
							hasBlk = b
						}
					}
				}
			}
			if hasBlk == nil {
				continue
			}
			// the true side returns without calling into the cycle
			leaves := true
			core.Instrs(g, func(ins ssa.Instruction) {
				if !(ins.Block() == hasBlk.Succs[0] || hasBlk.Succs[0].Dominates(ins.Block())) {
					return
				}
				if ci, ok := ins.(ssa.CallInstruction); ok {
					if callee := ci.Common().StaticCallee(); callee != nil && in[callee] && reach(callee, g) {
						leaves = false
					}
				}
			})
			// every call that stays in the cycle follows an Add
			var adds []*ssa.Call
			core.Instrs(g, func(ins ssa.Instruction) {
				if call, ok := ins.(*ssa.Call); ok {
					if callee := call.Call.StaticCallee(); callee != nil && callee.Name() == "Add" {
						adds = append(adds, call)
					}
				}
			})
			allAfter := len(adds) > 0
			core.Instrs(g, func(ins ssa.Instruction) {
				ci, ok := ins.(ssa.CallInstruction)
				if !ok {
					return
				}
				callee := ci.Common().StaticCallee()
				if callee == nil || !in[callee] || !reach(callee, g) {
					return
				}
				after := false
				for _, a := range adds {
					if a.Block() == ins.Block() && a.Pos() < ins.Pos() || a.Block() != ins.Block() && a.Block().Dominates(ins.Block()) {
						after = true
					}
				}
				if !after {
					allAfter = false
				}
			})
			if leaves && allAfter {
				guarded = true
			}
		}
		r.Cond(guarded, key, p.Pos(f.Pos()), fmt.Sprintf("%d functions in the cycle, one of them keeps the set of urls in progress", len(members)), fmt.Sprintf("none of the %d functions of the cycle tests and fills a set of urls in progress: an SVG file whose <image> names the file itself is loaded until the stack is exhausted", len(members)))
	}
	if n == 0 {
		r.Unknown("images | loader cycles", "-", "no cycle through a url fetcher found")
	}
}

// c01BoundedRepeats (R28): memory proportional to a quotient of document lengths is capped.  A function of the
// gradient code that sizes a slice with an integer converted from a floating point value (a number of repetitions:
// area / gradient length) allocates only under a comparison with a constant: inside the function, dominating the
// allocation, or in every caller, dominating the call.
func c01BoundedRepeats(c *core.Check) {
	p := c.Prog
	r := c.Rule("R28", "repetition counts are capped before they size an allocation: in svg and images, every make whose size derives from a float converted to an integer is dominated by a comparison with a constant, in the function itself or at each of its call sites", 1)
	fromFloat := func(v ssa.Value) bool {
		return arithDerives(v, func(v ssa.Value) bool {
			cv, ok := v.(*ssa.Convert)
			if !ok {
				return false
			}
			from, ok1 := cv.X.Type().Underlying().(*types.Basic)
			to, ok2 := cv.Type().Underlying().(*types.Basic)
			return ok1 && ok2 && from.Info()&types.IsFloat != 0 && to.Info()&types.IsInteger != 0
		})
	}
	constCmpDominating := func(fn *ssa.Function, at ssa.Instruction) bool {
		for _, b := range fn.Blocks {
			if len(b.Instrs) == 0 {
				continue
			}
			ifi, ok := b.Instrs[len(b.Instrs)-1].(*ssa.If)
			if !ok {
				continue
			}
			for _, a := range core.IfCondAtoms(ifi.Cond) {
				bo, ok := a.(*ssa.BinOp)
				if !ok {
					continue
				}
				switch bo.Op {
				case token.LSS, token.LEQ, token.GTR, token.GEQ:
				default:
					continue
				}
				kx, okx := constNumber(bo.X)
				ky, oky := constNumber(bo.Y)
				if !(okx && kx >= 100 || oky && ky >= 100) {
					continue
				}
				if b != at.Block() && b.Dominates(at.Block()) {
					return true
				}
			}
		}
		return false
	}
	n := 0
	for _, pkg := range []string{"svg", "images"} {
		for _, fn := range p.FuncsOfPkg(pkg) {
			if fn.Blocks == nil {
				continue
			}
			var makes []*ssa.MakeSlice
			core.Instrs(fn, func(in ssa.Instruction) {
				if ms, ok := in.(*ssa.MakeSlice); ok && (fromFloat(ms.Len) || fromFloat(ms.Cap)) {
					makes = append(makes, ms)
				}
			})
			for i, ms := range makes {
				n++
				key := fmt.Sprintf("%s | allocation sized by a converted float #%d", core.FuncName(fn), i+1)
				if constCmpDominating(fn, ms) {
					r.OK(key, p.Pos(ms.Pos()), "under a comparison with a constant in the function")
					continue
				}
				sites, capped := 0, 0
				for _, caller := range p.ModFuncs {
					core.Instrs(caller, func(in ssa.Instruction) {
						if ci, ok := in.(ssa.CallInstruction); ok && ci.Common().StaticCallee() == fn {
							sites++
							if constCmpDominating(caller, in) {
								capped++
							}
						}
					})
				}
				r.Cond(sites > 0 && capped == sites, key, p.Pos(ms.Pos()), fmt.Sprintf("each of the %d call sites is under a comparison with a constant", sites), fmt.Sprintf("%d of %d call sites are under a comparison with a constant: a gradient a millionth of the area long allocates one colour stop per repetition (out of memory)", capped, sites))
			}
		}
	}
	if n == 0 {
		r.Unknown("svg, images | allocations sized by a converted float", "-", "none found")
	}
}

func constNumber(v ssa.Value) (float64, bool) {
	if f, ok := core.ConstFloat(v); ok {
		return f, true
	}
	if i, ok := core.ConstInt(v); ok {
		return float64(i), true
	}
	return 0, false
}
