package props

import (
	"fmt"
	"go/token"
	"go/types"
	"sort"
	"strings"

	"golang.org/x/tools/go/ssa"

	"wrverif/core"
)

// c18PercentReferences (R11): a percentage in a geometry attribute refers to the width of the viewport for
// horizontal quantities, to its height for vertical ones and to its normalised diagonal for the others (SVG 2
// §8.9 "Units").  The rule follows each attribute name from the map lookup through parseValue into the struct
// field that keeps the Value, and each such field to the places that resolve it (Value.Resolve directly, or through
// a helper whose parameter is resolved against innerWidth / innerHeight / innerDiagonal), and requires that every
// attribute name that can fill a field is resolved, somewhere, against the reference SVG gives it.  Fields resolved
// against something else (gradient and pattern units) are outside the rule.
func c18PercentReferences(c *core.Check) {
	p := c.Prog
	r := c.Rule("R11", "percentages of geometry attributes: every attribute name stored (through parseValue) in a Value field of package svg that is resolved against the viewport is resolved, at some use of that field, against the reference SVG assigns to that name — x*, cx, rx, dx, width, refX, markerWidth: viewport width; y*, cy, ry, dy, height, refY, markerHeight: viewport height; r, stroke widths, dash offsets, letter-spacing, textLength: normalised diagonal", 23)
	pk := p.ByPath["svg"]
	if pk == nil {
		r.Anchor("package svg")
		return
	}
	expected := func(name string) string {
		switch name {
		case "x", "x1", "x2", "cx", "rx", "dx", "fx", "width", "refX", "markerWidth":
			return "innerWidth"
		case "y", "y1", "y2", "cy", "ry", "dy", "fy", "height", "refY", "markerHeight":
			return "innerHeight"
		case "r", "fr", "stroke-width", "stroke-dashoffset", "letter-spacing", "textLength":
			return "innerDiagonal"
		}
		return ""
	}
	isValue := func(t types.Type) bool {
		n, ok := t.(*types.Named)
		return ok && n.Obj().Name() == "Value" && n.Obj().Pkg() != nil && core.Rel(n.Obj().Pkg().Path()) == "svg"
	}
	fieldOf := func(v ssa.Value) string {
		switch x := v.(type) {
		case *ssa.Field:
			if st, ok := x.X.Type().Underlying().(*types.Struct); ok {
				return typeName(x.X.Type()) + "." + st.Field(x.Field).Name()
			}
		case *ssa.UnOp:
			if x.Op == token.MUL {
				if fa, ok := x.X.(*ssa.FieldAddr); ok {
					return typeName(fa.X.Type().(*types.Pointer).Elem()) + "." + core.FieldName(fa)
				}
			}
		}
		return ""
	}
	var fns []*ssa.Function
	for _, fn := range p.ModFuncs {
		if fn.Pkg != nil && fn.Pkg.Pkg == pk.Types && fn.Blocks != nil {
			fns = append(fns, fn)
		}
	}
	// 1. names per field
	names := map[string]map[string]bool{}
	pos := map[string]token.Pos{}
	var keysOf func(v ssa.Value, depth int, out map[string]bool)
	keysOf = func(v ssa.Value, depth int, out map[string]bool) {
		if depth > 6 {
			return
		}
		switch x := v.(type) {
		case *ssa.Lookup:
			if k, ok := core.ConstStr(x.Index); ok {
				out[k] = true
			}
		case *ssa.Extract:
			keysOf(x.Tuple, depth+1, out)
		case *ssa.Phi:
			for _, e := range x.Edges {
				keysOf(e, depth+1, out)
			}
		}
	}
	for _, fn := range fns {
		core.Instrs(fn, func(in ssa.Instruction) {
			st, ok := in.(*ssa.Store)
			if !ok {
				return
			}
			fa, ok := st.Addr.(*ssa.FieldAddr)
			if !ok || !isValue(st.Val.Type()) {
				return
			}
			ex, ok := st.Val.(*ssa.Extract)
			if !ok {
				return
			}
			call, ok := ex.Tuple.(*ssa.Call)
			if !ok {
				return
			}
			if callee := call.Call.StaticCallee(); callee == nil || callee.Name() != "parseValue" || len(call.Call.Args) != 1 {
				return
			}
			f := typeName(fa.X.Type().(*types.Pointer).Elem()) + "." + core.FieldName(fa)
			if names[f] == nil {
				names[f] = map[string]bool{}
				pos[f] = st.Pos()
			}
			keysOf(call.Call.Args[0], 0, names[f])
		})
	}
	// 2. parameter summaries: param index -> references
	refOf := func(v ssa.Value) string {
		f := fieldOf(v)
		if i := strings.LastIndex(f, "."); i >= 0 {
			switch f[i+1:] {
			case "innerWidth", "innerHeight", "innerDiagonal":
				return f[i+1:]
			}
		}
		return ""
	}
	isResolve := func(call *ssa.Call) bool {
		callee := call.Call.StaticCallee()
		return callee != nil && callee.Name() == "Resolve" && callee.Signature.Recv() != nil && isValue(callee.Signature.Recv().Type()) && len(call.Call.Args) == 3
	}
	summary := map[*ssa.Function]map[int]map[string]bool{}
	for _, fn := range fns {
		core.Instrs(fn, func(in ssa.Instruction) {
			call, ok := in.(*ssa.Call)
			if !ok || !isResolve(call) {
				return
			}
			ref := refOf(call.Call.Args[2])
			if ref == "" {
				return
			}
			recv := call.Call.Args[0]
			for i, prm := range fn.Params {
				if recv == ssa.Value(prm) || spilledParam(recv, prm) {
					if summary[fn] == nil {
						summary[fn] = map[int]map[string]bool{}
					}
					if summary[fn][i] == nil {
						summary[fn][i] = map[string]bool{}
					}
					summary[fn][i][ref] = true
				}
			}
		})
	}
	// 3. uses per field
	uses := map[string]map[string]bool{}
	add := func(f, ref string) {
		if f == "" || ref == "" {
			return
		}
		if uses[f] == nil {
			uses[f] = map[string]bool{}
		}
		uses[f][ref] = true
	}
	for _, fn := range fns {
		core.Instrs(fn, func(in ssa.Instruction) {
			call, ok := in.(*ssa.Call)
			if !ok {
				return
			}
			if isResolve(call) {
				add(fieldOf(call.Call.Args[0]), refOf(call.Call.Args[2]))
				return
			}
			callee := call.Call.StaticCallee()
			if callee == nil || summary[callee] == nil {
				return
			}
			for i, a := range call.Call.Args {
				for ref := range summary[callee][i] {
					add(fieldOf(a), ref)
				}
			}
		})
	}
	// 4. obligations
	var fields []string
	for f := range names {
		fields = append(fields, f)
	}
	sort.Strings(fields)
	for _, f := range fields {
		if len(uses[f]) == 0 {
			continue
		}
		var us []string
		for u := range uses[f] {
			us = append(us, u)
		}
		sort.Strings(us)
		var ns []string
		for n := range names[f] {
			ns = append(ns, n)
		}
		sort.Strings(ns)
		for _, n := range ns {
			want := expected(n)
			if want == "" {
				continue
			}
			key := fmt.Sprintf("svg.%s | attribute %s", f, n)
			r.Cond(uses[f][want], key, p.Pos(pos[f]), "resolved against "+want, fmt.Sprintf("the field is only resolved against %s; a percentage in `%s` refers to %s", strings.Join(us, ", "), n, want))
		}
	}
}

func typeName(t types.Type) string {
	if n, ok := t.(*types.Named); ok {
		return n.Obj().Name()
	}
	return t.String()
}

// spilledParam: v is a load of the local the parameter was spilled to.
func spilledParam(v ssa.Value, prm *ssa.Parameter) bool {
	ld, ok := v.(*ssa.UnOp)
	if !ok || ld.Op != token.MUL {
		return false
	}
	al, ok := ld.X.(*ssa.Alloc)
	if !ok {
		return false
	}
	for _, ref := range *al.Referrers() {
		if st, ok := ref.(*ssa.Store); ok && st.Addr == ssa.Value(al) && st.Val == ssa.Value(prm) {
			return true
		}
	}
	return false
}
