package props

import (
	"fmt"
	"go/token"
	"sort"

	"golang.org/x/tools/go/ssa"

	"wrverif/core"
)

// c01Fanout: a function that calls itself twice in one activation on what may be the same node of the tree takes a
// time exponential in the depth of the tree (2 calls per level): the document is never finished for a few dozen
// nested elements.  Decided for direct self-recursion (static calls, and interface calls that the VTA call graph
// resolves to the function or to the promoted-method wrapper of it): for every pair of such sites that one activation
// can both execute (the second is reachable from the first without a back edge), the two subjects (receiver, or first
// argument) are distinct by construction — different fields of one value, elements i and i+k of one list — or the
// second call is reachable only after a test that they differ.
func c01Fanout(c *core.Check) {
	p := c.Prog
	r := c.Rule("R12", "no function visits the same subtree twice per level: for every pair of direct self-recursive calls that one activation can both execute, the two subjects (receiver or first argument) are different fields of one value, elements i and i+k of one list, or the second call is reachable only after a test that they differ — otherwise the time is exponential in the depth of the tree", 2)
	g := p.VTA()
	type pair struct {
		fn   *ssa.Function
		a, b *ssa.Call
	}
	var pairs []pair
	for fn := range p.AllFuncs {
		if !core.IsModFunc(fn) || fn.Blocks == nil {
			continue
		}
		node := g.Nodes[fn]
		if node == nil {
			continue
		}
		var sites []*ssa.Call
		seen := map[ssa.CallInstruction]bool{}
		for _, e := range node.Out {
			if e.Site == nil || seen[e.Site] {
				continue
			}
			t := e.Callee.Func
			self := t == fn
			if !self && t.Synthetic != "" && t.Blocks != nil {
				core.Instrs(t, func(in ssa.Instruction) {
					if cc, ok := in.(*ssa.Call); ok && cc.Common().StaticCallee() == fn {
						self = true
					}
				})
			}
			if cc, ok := e.Site.(*ssa.Call); ok && self {
				seen[e.Site] = true
				sites = append(sites, cc)
			}
		}
		sort.Slice(sites, func(i, j int) bool { return sites[i].Pos() < sites[j].Pos() })
		for i, a := range sites {
			for _, b := range sites[i+1:] {
				switch {
				case forwardFrom(a, b):
					pairs = append(pairs, pair{fn, a, b})
				case forwardFrom(b, a):
					pairs = append(pairs, pair{fn, b, a})
				}
			}
		}
	}
	sort.Slice(pairs, func(i, j int) bool { return pairs[i].a.Pos() < pairs[j].a.Pos() })
	subject := func(call *ssa.Call) ssa.Value {
		cc := call.Common()
		if cc.IsInvoke() {
			return cc.Value
		}
		if len(cc.Args) > 0 {
			return cc.Args[0]
		}
		return nil
	}
	for _, pr := range pairs {
		fn, a, b := pr.fn, pr.a, pr.b
		key := core.FuncName(fn) + " | " + p.StmtTextAt(fn, a.Pos()) + " ; " + p.StmtTextAt(fn, b.Pos())
		x, y := subject(a), subject(b)
		if x == nil || y == nil {
			r.Unknown(key, p.Pos(b.Pos()), "recursive calls without a subject")
			continue
		}
		if ok, how := distinctByConstruction(x, y); ok {
			r.Cond(true, key, p.Pos(b.Pos()), how, "")
			continue
		}
		// guarded by x != y
		var atoms []ssa.Value
		pol := map[ssa.Value]bool{}
		for _, at := range core.CondAtoms(fn) {
			bo, ok := at.(*ssa.BinOp)
			if !ok || (bo.Op != token.NEQ && bo.Op != token.EQL) {
				continue
			}
			if (bo.X == x && bo.Y == y) || (bo.X == y && bo.Y == x) {
				atoms = append(atoms, at)
				pol[at] = bo.Op == token.NEQ
			}
		}
		ok := false
		if len(atoms) > 0 {
			ok, _ = core.GuardedBy(fn, b.Block(), atoms, func(m map[ssa.Value]bool) bool {
				for at, v := range m {
					if v == pol[at] {
						return true
					}
				}
				return false
			})
		}
		r.Cond(ok, key, p.Pos(b.Pos()), "the second call is reachable only when the two subjects differ",
			"both calls can be made on the same node (the two subjects are not distinct by construction and no test that they differ guards the second call): with an only child at every level the function runs 2^depth times — a chain of 40 nested elements never finishes")
	}
}

// forwardFrom: b is executed after a on some path that takes no back edge.
func forwardFrom(a, b *ssa.Call) bool {
	if a.Block() == b.Block() {
		for _, in := range a.Block().Instrs {
			if in == ssa.Instruction(a) {
				return true
			}
			if in == ssa.Instruction(b) {
				return false
			}
		}
	}
	seen := map[*ssa.BasicBlock]bool{}
	var walk func(x *ssa.BasicBlock) bool
	walk = func(x *ssa.BasicBlock) bool {
		for _, s := range x.Succs {
			if s.Dominates(x) || seen[s] {
				continue
			}
			seen[s] = true
			if s == b.Block() || walk(s) {
				return true
			}
		}
		return false
	}
	return walk(a.Block())
}

// distinctByConstruction: x and y are different fields of one value, or elements i and i+k (k != 0) of one list.
func distinctByConstruction(x, y ssa.Value) (bool, string) {
	type sel struct {
		base  ssa.Value
		field int
		index ssa.Value
		kind  string
	}
	decompose := func(v ssa.Value) (sel, bool) {
		switch t := v.(type) {
		case *ssa.Field:
			return sel{base: t.X, field: t.Field, kind: "field"}, true
		case *ssa.UnOp:
			if t.Op != token.MUL {
				return sel{}, false
			}
			switch ad := t.X.(type) {
			case *ssa.FieldAddr:
				return sel{base: ad.X, field: ad.Field, kind: "field"}, true
			case *ssa.IndexAddr:
				base := ad.X
				if l, ok := base.(*ssa.UnOp); ok && l.Op == token.MUL {
					base = l.X // compare the addresses the lists are loaded from
				}
				return sel{base: base, index: ad.Index, kind: "index"}, true
			}
		}
		return sel{}, false
	}
	sx, okx := decompose(x)
	sy, oky := decompose(y)
	if !okx || !oky || sx.kind != sy.kind {
		return false, ""
	}
	sameBase := sx.base == sy.base
	if !sameBase {
		// two loads of the same field address / value receiver spilled twice
		bx, okbx := sx.base.(*ssa.UnOp)
		by, okby := sy.base.(*ssa.UnOp)
		if okbx && okby && bx.X == by.X {
			sameBase = true
		}
	}
	if !sameBase {
		return false, ""
	}
	if sx.kind == "field" {
		if sx.field != sy.field {
			return true, fmt.Sprintf("fields #%d and #%d of the same value", sx.field, sy.field)
		}
		return false, ""
	}
	// indices i and i+k
	offset := func(i, j ssa.Value) bool {
		if bo, ok := j.(*ssa.BinOp); ok && (bo.Op == token.ADD || bo.Op == token.SUB) {
			if k, isK := core.ConstInt(bo.Y); isK && k != 0 && bo.X == i {
				return true
			}
		}
		return false
	}
	if offset(sx.index, sy.index) || offset(sy.index, sx.index) {
		return true, "elements i and i+k of the same list"
	}
	if ki, ok := core.ConstInt(sx.index); ok {
		if kj, ok := core.ConstInt(sy.index); ok && ki != kj {
			return true, "two constant positions of the same list"
		}
	}
	return false, ""
}
