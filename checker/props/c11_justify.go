package props

import (
	"fmt"
	"go/token"
	"go/types"
	"strings"

	"golang.org/x/tools/go/ssa"

	"wrverif/core"
)

// c11Justify folds the text-box branch of layout.addWordSpacing: justification moves a text box by the advance
// accumulated by the boxes before it and widens it by the spacing times its number of spaces; and checks the right
// limit of the first line in getNextLinebox.
func c11Justify(c *core.Check) {
	p := c.Prog
	r := c.Rule("R10", "justification and indentation offsets: addWordSpacing, folded for a text box with and without spaces, moves the box by the advance accumulated so far (x + advance), widens it by spacing × spaces, and returns advance + spacing × spaces; in getNextLinebox the text indent moves the start of the line handed to splitInlineBox but not its right limit", 1)
	fn := p.Fn("html/layout", "addWordSpacing")
	bpk := p.ByPath["html/boxes"]
	if fn == nil || bpk == nil || bpk.Types.Scope().Lookup("TextBox") == nil {
		r.Anchor("html/layout.addWordSpacing / boxes.TextBox")
	} else {
		tbT := bpk.Types.Scope().Lookup("TextBox").Type()
		sym := core.SymP
		for _, spaces := range []bool{true, false} {
			key := fmt.Sprintf("html/layout.addWordSpacing | text box, has spaces = %v", spaces)
			box := core.StructAV(tbT, nil)
			cell := &core.Cell{V: box}
			setField := func(path []string, v core.AV) bool {
				nv, ok := core.SetFieldAV(cell.V, tbT, v, path...)
				if ok {
					cell.V = nv
				}
				return ok
			}
			if !setField([]string{"BoxFields", "PositionX"}, sym("x")) || !setField([]string{"BoxFields", "Width"}, sym("w")) {
				r.Anchor("boxes.TextBox.BoxFields.PositionX / Width")
				break
			}
			justified := 0
			f := &core.Folder{MaxDepth: 0}
			f.Assert = func(x *ssa.TypeAssert, v core.AV) (core.AV, bool, bool) {
				if strings.HasSuffix(x.AssertedType.String(), "boxes.TextBox") {
					return core.Ptr{C: cell}, true, true
				}
				return nil, false, false
			}
			f.Call = func(_ *core.Folder, call *ssa.Call, args []core.AV) (core.AV, bool) {
				if cal := call.Call.StaticCallee(); cal != nil {
					switch cal.Name() {
					case "countSpaces":
						if spaces {
							return sym("n"), true
						}
						return core.Num(0), true
					case "V":
						if len(args) == 1 {
							return args[0], true
						}
					}
				}
				return nil, false
			}
			f.Invoke = func(_ *core.Folder, call *ssa.Call, recv core.AV, args []core.AV) (core.AV, bool) {
				switch call.Call.Method.Name() {
				case "V":
					return recv, true
				case "SetJustification":
					justified++
					return core.NilV{}, true
				}
				return nil, false
			}
			f.Cmp = func(op token.Token, x, y core.AV) (bool, bool) {
				// n against 0, n > 0 in the scenario with spaces
				px, okx := x.(core.Poly)
				py, oky := y.(core.Poly)
				if !okx || !oky {
					return false, false
				}
				if px.Equal(sym("n")) && len(py.T) == 0 {
					switch op {
					case token.GTR, token.GEQ, token.NEQ:
						return true, true
					case token.LSS, token.LEQ, token.EQL:
						return false, true
					}
				}
				return false, false
			}
			res, err := f.Fold(fn, []core.AV{core.NilV{}, core.StrV("box"), sym("s"), sym("adv")})
			if err != nil || len(res) != 1 {
				r.Unknown(key, p.Pos(fn.Pos()), fmt.Sprintf("could not be folded: %v", err))
				continue
			}
			extra := core.Num(0)
			if spaces {
				extra = sym("s").Mul(sym("n"))
			}
			var diffs []string
			gx, _ := core.FieldAV(cell.V, tbT, "BoxFields", "PositionX").(core.Poly)
			gw, _ := core.FieldAV(cell.V, tbT, "BoxFields", "Width").(core.Poly)
			gr, _ := res[0].(core.Poly)
			if !gx.Equal(sym("x").Add(sym("adv"))) {
				diffs = append(diffs, "the box is at "+core.AVString(core.FieldAV(cell.V, tbT, "BoxFields", "PositionX"))+", expected x + adv")
			}
			if !gw.Equal(sym("w").Add(extra)) {
				diffs = append(diffs, "its width is "+core.AVString(core.FieldAV(cell.V, tbT, "BoxFields", "Width"))+", expected "+sym("w").Add(extra).String())
			}
			if !gr.Equal(sym("adv").Add(extra)) {
				diffs = append(diffs, "the advance returned is "+core.AVString(res[0])+", expected "+sym("adv").Add(extra).String())
			}
			if spaces && justified == 0 {
				diffs = append(diffs, "the spacing is not handed to the text layout")
			}
			r.Cond(len(diffs) == 0, key, p.Pos(fn.Pos()), "x + adv, w + s·n, adv + s·n", strings.Join(diffs, "; "))
		}
	}

	// the right limit of the first line does not move with the indent
	gl := p.Fn("html/layout", "getNextLinebox")
	if gl == nil {
		r.Anchor("html/layout.getNextLinebox")
		return
	}
	isIndent := func(v ssa.Value) bool {
		if ld, ok := v.(*ssa.UnOp); ok {
			if fa, ok := ld.X.(*ssa.FieldAddr); ok && core.FieldName(fa) == "TextIndent" {
				return true
			}
		}
		if call, ok := v.(*ssa.Call); ok && call.Call.IsInvoke() && call.Call.Method.Name() == "V" {
			if ld, ok := call.Call.Value.(*ssa.UnOp); ok {
				if fa, ok := ld.X.(*ssa.FieldAddr); ok && core.FieldName(fa) == "TextIndent" {
					return true
				}
			}
		}
		return false
	}
	found := false
	core.Instrs(gl, func(in ssa.Instruction) {
		call, ok := in.(*ssa.Call)
		if !ok || call.Call.StaticCallee() == nil || call.Call.StaticCallee().Name() != "splitInlineBox" {
			return
		}
		callee := call.Call.StaticCallee()
		pi, mi := -1, -1
		for i, par := range callee.Params {
			switch par.Name() {
			case "positionX":
				pi = i
			case "maxX":
				mi = i
			}
		}
		if pi < 0 || mi < 0 {
			return
		}
		found = true
		startMoves := linDepends(call.Call.Args[pi], isIndent, 0)
		limitMoves := linDepends(call.Call.Args[mi], isIndent, 0)
		r.Cond(startMoves && !limitMoves, "html/layout.getNextLinebox | splitInlineBox(positionX, maxX)", p.Pos(call.Pos()), "the start carries the text indent, the right limit does not", fmt.Sprintf("start depends on text-indent: %v; right limit depends on text-indent: %v (a limit that moves with the indent lets the first line overflow its container by the indent)", startMoves, limitMoves))
	})
	if !found {
		r.Anchor("call of splitInlineBox(positionX, maxX) in getNextLinebox")
	}
	_ = types.Typ
}

// linDepends: does the value depend, through additions, subtractions, conversions and loop phis, on a leaf
// satisfying pred?
func linDepends(v ssa.Value, pred func(ssa.Value) bool, depth int) bool {
	seen := map[ssa.Value]bool{}
	var walk func(v ssa.Value, d int) bool
	walk = func(v ssa.Value, d int) bool {
		if seen[v] || d > 12 {
			return false
		}
		seen[v] = true
		if pred(v) {
			return true
		}
		switch x := v.(type) {
		case *ssa.BinOp:
			if x.Op == token.ADD || x.Op == token.SUB {
				return walk(x.X, d+1) || walk(x.Y, d+1)
			}
		case *ssa.Convert:
			return walk(x.X, d+1)
		case *ssa.ChangeType:
			return walk(x.X, d+1)
		case *ssa.Phi:
			for _, e := range x.Edges {
				if walk(e, d+1) {
					return true
				}
			}
		case *ssa.UnOp:
			if x.Op == token.MUL {
				// a spilled local: follow its stores
				if al, ok := x.X.(*ssa.Alloc); ok {
					for _, st := range core.StoresTo(al) {
						if walk(st, d+1) {
							return true
						}
					}
				}
			}
		}
		return false
	}
	return walk(v, depth)
}

// c11LastLine: a line ending with a forced break is a last line for alignment.
func c11LastLine(c *core.Check) {
	p := c.Prog
	r := c.Rule("R11", "text-align-last and justification apply to the line before a forced break as to the last line of the block (CSS Text 3 §6.3): the `last line` flag getNextLinebox hands to textAlign depends both on the absence of a resume point and on the preserved line break reported by splitInlineBox", 1)
	fn := p.Fn("html/layout", "getNextLinebox")
	if fn == nil {
		r.Anchor("html/layout.getNextLinebox")
		return
	}
	n := 0
	core.Instrs(fn, func(in ssa.Instruction) {
		call, ok := in.(*ssa.Call)
		if !ok || call.Call.StaticCallee() == nil || call.Call.StaticCallee().Name() != "textAlign" {
			return
		}
		n++
		arg := call.Call.Args[len(call.Call.Args)-1]
		dependsOnBreak := false
		dependsOnResume := false
		seen := map[ssa.Value]bool{}
		var walk func(v ssa.Value, d int)
		walk = func(v ssa.Value, d int) {
			if seen[v] || d > 8 {
				return
			}
			seen[v] = true
			if core.IsFieldNamed(v, "preservedLineBreak") {
				dependsOnBreak = true
			}
			switch x := v.(type) {
			case *ssa.Phi:
				for _, e := range x.Edges {
					walk(e, d+1)
				}
				// the branch deciding the phi
				for _, pred := range x.Block().Preds {
					if ifi, ok := pred.Instrs[len(pred.Instrs)-1].(*ssa.If); ok {
						walk(ifi.Cond, d+1)
					}
				}
			case *ssa.BinOp:
				if x.Op == token.EQL || x.Op == token.NEQ {
					if k, isK := x.Y.(*ssa.Const); isK && k.Value == nil {
						if core.DerivesFrom(x.X, func(w ssa.Value) bool { return core.IsFieldNamed(w, "resumeAt") }) {
							dependsOnResume = true
						}
					}
				}
				walk(x.X, d+1)
				walk(x.Y, d+1)
			case *ssa.UnOp:
				walk(x.X, d+1)
			}
		}
		walk(arg, 0)
		r.Cond(dependsOnBreak && dependsOnResume, "html/layout.getNextLinebox | textAlign(…, last line)", p.Pos(call.Pos()), "resumeAt == nil || preservedLineBreak", fmt.Sprintf("the flag depends on the resume point: %v, on the preserved line break: %v — the line before a <br> is justified like a full line", dependsOnResume, dependsOnBreak))
	})
	if n == 0 {
		r.Anchor("getNextLinebox: call of textAlign")
	}
}
