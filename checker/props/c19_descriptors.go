package props

import (
	"fmt"
	"sort"

	"golang.org/x/tools/go/ssa"

	"wrverif/core"
)

// descriptorTable lists the validators stored in a package-level map of css/validation by its initialiser.
func descriptorTable(p *core.Prog, table string) map[string]*ssa.Function {
	out := map[string]*ssa.Function{}
	for fn := range p.AllFuncs {
		if fn.Pkg == nil || core.Rel(fn.Pkg.Pkg.Path()) != "css/validation" || (fn.Synthetic != "package initializer" && fn.Name() != "init") {
			continue
		}
		var maps []ssa.Value
		core.Instrs(fn, func(in ssa.Instruction) {
			if st, ok := in.(*ssa.Store); ok {
				if g, ok := st.Addr.(*ssa.Global); ok && g.Name() == table {
					maps = append(maps, st.Val)
				}
			}
		})
		core.Instrs(fn, func(in ssa.Instruction) {
			mu, ok := in.(*ssa.MapUpdate)
			if !ok {
				return
			}
			for _, m := range maps {
				if mu.Map != m {
					continue
				}
				k, isStr := core.ConstStr(mu.Key)
				v := mu.Value
				if ct, ok := v.(*ssa.ChangeType); ok {
					v = ct.X
				}
				if f, ok := v.(*ssa.Function); ok && isStr {
					out[k] = f
				}
			}
		})
	}
	return out
}

// descriptorValidatorsRule: a descriptor validator receives the tokens of one declaration and the record of the
// descriptors read so far.  (1) It never appends to a field of that record: a repeated descriptor replaces the
// previous one (`symbols: A B; symbols: C D` is C D).  (2) After a write into the record no return of an error can
// be reached: an invalid declaration is ignored as a whole and leaves the value of an earlier one in place
// (`symbols: X Y; symbols: A 5 B` is X Y, not X Y A; an invalid `suffix` does not erase the one given before).
func descriptorValidatorsRule(c *core.Check, r *core.Rule, table string) {
	p := c.Prog
	tab := descriptorTable(p, table)
	if len(tab) == 0 {
		r.Anchor("css/validation." + table)
		return
	}
	var names []string
	for k := range tab {
		names = append(names, k)
	}
	sort.Strings(names)
	for _, name := range names {
		fn := tab[name]
		if len(fn.Params) == 0 {
			continue
		}
		rec := fn.Params[len(fn.Params)-1]
		key := fmt.Sprintf("%s | descriptor %s", core.FuncName(fn), name)
		// addresses inside the record: field addresses (and element addresses of them) rooted at the parameter
		inRecord := func(addr ssa.Value) bool {
			for i := 0; i < 6; i++ {
				switch x := addr.(type) {
				case *ssa.FieldAddr:
					if x.X == ssa.Value(rec) {
						return true
					}
					addr = x.X
				case *ssa.IndexAddr:
					addr = x.X
				case *ssa.Slice:
					addr = x.X
				default:
					return addr == ssa.Value(rec)
				}
			}
			return false
		}
		var writes []ssa.Instruction
		appended := ""
		core.Instrs(fn, func(in ssa.Instruction) {
			switch x := in.(type) {
			case *ssa.Store:
				if inRecord(x.Addr) {
					writes = append(writes, in)
				}
			case *ssa.Call:
				b, ok := x.Call.Value.(*ssa.Builtin)
				if !ok {
					return
				}
				if b.Name() == "copy" && len(x.Call.Args) == 2 && inRecord(x.Call.Args[0]) {
					writes = append(writes, in)
				}
				if b.Name() == "append" && len(x.Call.Args) > 0 {
					if ld, ok := x.Call.Args[0].(*ssa.UnOp); ok && inRecord(ld.X) {
						appended = p.Pos(in.Pos())
					}
				}
			}
		})
		if appended != "" {
			r.Fail(key, appended, "the validator appends to the value read from an earlier declaration: a repeated descriptor adds to the previous one instead of replacing it, and the items read before an invalid one stay")
			continue
		}
		if len(writes) == 0 {
			r.Unknown(key, p.Pos(fn.Pos()), "the validator does not write into the record of descriptors")
			continue
		}
		bad := ""
		for _, w := range writes {
			if core.Reaches(w, func(in ssa.Instruction) bool {
				ret, ok := in.(*ssa.Return)
				if !ok || len(ret.Results) == 0 {
					return false
				}
				res := ret.Results[len(ret.Results)-1]
				if k, ok := res.(*ssa.Const); ok && k.IsNil() {
					return false
				}
				return true
			}) {
				bad = p.Pos(w.Pos())
			}
		}
		r.Cond(bad == "", key, p.Pos(fn.Pos()), fmt.Sprintf("%d write(s) into the record, each followed by `return nil` only", len(writes)), "after the write at "+bad+" a return of an error is reachable: an invalid declaration changes the record (it erases or extends the value of an earlier, valid one)")
	}
}

// c19DescriptorsReplace (R17): the rule above for the descriptors of @counter-style.
func c19DescriptorsReplace(c *core.Check) {
	r := c.Rule("R17", "descriptors of @counter-style replace and are all-or-nothing: no validator of the counterStyleDescriptors table appends to a field of the record it fills, and after a write into the record no return of a non-nil error is reachable (a repeated descriptor replaces the previous one; an invalid one leaves it in place)", 7)
	descriptorValidatorsRule(c, r, "counterStyleDescriptors")
}

// c08FontFaceDescriptors (R23): the same rule for the descriptors of @font-face: an invalid declaration of the block
// is discarded alone, the others keep the effect they have without it.
func c08FontFaceDescriptors(c *core.Check) {
	r := c.Rule("R23", "descriptors of @font-face replace and are all-or-nothing: no validator of the fontFaceDescriptors table appends to a field of the record it fills, and after a write into the record no return of a non-nil error is reachable (an invalid declaration leaves the value of an earlier one in place)", 5)
	descriptorValidatorsRule(c, r, "fontFaceDescriptors")
}
