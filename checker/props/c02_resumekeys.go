package props

import (
	"fmt"
	"go/token"
	"strings"

	"golang.org/x/tools/go/ssa"

	"wrverif/core"
)

// c02EarlierBreakKeys (R13): findEarlierPageBreak walks back over the children *already laid out on this page* to
// find a legal break.  When their parent is itself continued from an earlier page the position of a child in that
// list is not its index in the parent (the children before the resume point are not in it); each laid-out box records
// the latter in its Index field.  Every key of a resume point built by this function is a constant (the line case:
// the inner key comes from the line box) or is read from the field Index of a box — never computed from a position
// in the list.  (With `{index: nil}` the page after a moved break restarts from a child that was already drawn:
// a2 a3 a4 are laid out twice.)
func c02EarlierBreakKeys(c *core.Check) {
	p := c.Prog
	r := c.Rule("R13", "resume points name children of the original parent: in html/layout.findEarlierPageBreak every key of a ResumeStack it builds is a constant or is read from the Index field of a box (the list it walks holds only the children laid out on this page)", 1)
	fn := p.Fn("html/layout", "findEarlierPageBreak")
	if fn == nil {
		r.Anchor("html/layout.findEarlierPageBreak")
		return
	}
	n := 0
	core.Instrs(fn, func(in ssa.Instruction) {
		mu, ok := in.(*ssa.MapUpdate)
		if !ok {
			return
		}
		if mm, ok := mu.Map.(*ssa.MakeMap); !ok || !strings.HasSuffix(mm.Type().String(), "ResumeStack") {
			return
		}
		n++
		key := fmt.Sprintf("html/layout.findEarlierPageBreak | resume key #%d", n)
		if _, isConst := mu.Key.(*ssa.Const); isConst {
			r.OK(key, p.Pos(mu.Pos()), "constant key")
			return
		}
		fromIndex := core.DerivesFrom(mu.Key, func(v ssa.Value) bool { return core.IsFieldNamed(v, "Index") })
		r.Cond(fromIndex, key, p.Pos(mu.Pos()), "the key is read from the Index field of a box", "the key is computed from a position in the list of the children laid out on this page: when the parent is continued from an earlier page the next page restarts from a child that was already drawn, or skips some")
	})
	if n == 0 {
		r.Unknown("html/layout.findEarlierPageBreak | resume keys", p.Pos(fn.Pos()), "no ResumeStack built")
	}
}

// c02FixedHeightOverflow (R15): when the page is full, the children of a fixed-height block that are still to come are
// forgotten only if they lie below the block's own bottom edge (they overflow a box that ends on this page); a block
// whose fixed height is larger than the page continues on the next one with them.  The test is made on the box's
// bottom edge (PositionY + Height): the function that decides it, called with that edge, compares it with the
// position reached — it does not subtract it from the page bottom (overflowsPage takes a *bottom space*; given an
// edge it is true as soon as a tall block is fragmented: `<div style="height:200px">` lost its last lines).
func c02FixedHeightOverflow(c *core.Check) {
	p := c.Prog
	r := c.Rule("R15", "a fixed-height block keeps the children that do not fit the page: in html/layout.blockContainerLayout the call, deciding a branch, that receives the box's bottom edge (PositionY + Height) goes to a function that does not read the page bottom", 1)
	fn := p.Fn("html/layout", "blockContainerLayout")
	if fn == nil {
		r.Anchor("html/layout.blockContainerLayout")
		return
	}
	isEdge := func(v ssa.Value) bool {
		b, ok := v.(*ssa.BinOp)
		if !ok || b.Op != token.ADD {
			return false
		}
		field := func(v ssa.Value, name string) bool {
			if call, ok := v.(*ssa.Call); ok && call.Call.IsInvoke() && call.Call.Method.Name() == "V" {
				v = call.Call.Value
			}
			return core.DerivesFrom(v, func(x ssa.Value) bool { return core.IsFieldNamed(x, name) })
		}
		return (field(b.X, "PositionY") && field(b.Y, "Height")) || (field(b.Y, "PositionY") && field(b.X, "Height"))
	}
	n := 0
	for _, a := range core.CondAtoms(fn) {
		call, ok := a.(*ssa.Call)
		if !ok || call.Call.StaticCallee() == nil {
			continue
		}
		edge := false
		for _, arg := range call.Call.Args {
			if isEdge(arg) {
				edge = true
			}
		}
		if !edge {
			continue
		}
		n++
		key := fmt.Sprintf("html/layout.blockContainerLayout | test of the box's bottom edge #%d", n)
		readsPageBottom := false
		for f := range p.StaticReach([]*ssa.Function{call.Call.StaticCallee()}) {
			core.Instrs(f, func(in ssa.Instruction) {
				if fa, ok := in.(*ssa.FieldAddr); ok && core.FieldName(fa) == "pageBottom" {
					readsPageBottom = true
				}
			})
		}
		r.Cond(!readsPageBottom, key, p.Pos(call.Pos()), "compared with the position reached by "+call.Call.StaticCallee().Name(), call.Call.StaticCallee().Name()+" subtracts its argument from the page bottom: given the bottom edge of the box it is true for every block taller than what is left of the page, and the children that do not fit are forgotten instead of continuing on the next page")
	}
	if n == 0 {
		// the comparison may be written in place: position > (PositionY + Height) * (1 + ε)
		for _, a := range core.CondAtoms(fn) {
			cmp, ok := a.(*ssa.BinOp)
			if !ok {
				continue
			}
			switch cmp.Op {
			case token.GTR, token.GEQ, token.LSS, token.LEQ:
			default:
				continue
			}
			for _, side := range []ssa.Value{cmp.X, cmp.Y} {
				if !arithDerives(side, isEdge) {
					continue
				}
				n++
				key := fmt.Sprintf("html/layout.blockContainerLayout | test of the box's bottom edge #%d", n)
				page := arithDerives(side, func(v ssa.Value) bool {
					return core.DerivesFrom(v, func(x ssa.Value) bool { return core.IsFieldNamed(x, "pageBottom") })
				})
				r.Cond(!page, key, p.Pos(cmp.Pos()), "the position is compared with the edge itself", "the edge is combined with the page bottom before the comparison")
			}
		}
	}
	if n == 0 {
		r.Unknown("html/layout.blockContainerLayout | test of the box's bottom edge", p.Pos(fn.Pos()), "no call deciding a branch receives PositionY + Height, and no comparison is made on it")
	}
}
