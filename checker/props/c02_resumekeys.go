package props

import (
	"fmt"
	"strings"

	"golang.org/x/tools/go/ssa"

	"wrverif/core"
)

// c02EarlierBreakKeys (R13): findEarlierPageBreak walks back over the children *already laid out on this page* to
// find a legal break.  When their parent is itself continued from an earlier page the position of a child in that
// list is not its index in the parent (the children before the resume point are not in it); each laid-out box records
// the latter in its Index field.  Every key of a resume point built by this function is a constant (the line case:
// the inner key comes from the line box) or is read from the field Index of a box — never computed from a position
// in the list.  (With `{index: nil}` the page after a moved break restarts from a child that was already drawn:
// a2 a3 a4 are laid out twice.)
func c02EarlierBreakKeys(c *core.Check) {
	p := c.Prog
	r := c.Rule("R13", "resume points name children of the original parent: in html/layout.findEarlierPageBreak every key of a ResumeStack it builds is a constant or is read from the Index field of a box (the list it walks holds only the children laid out on this page)", 3)
	fn := p.Fn("html/layout", "findEarlierPageBreak")
	if fn == nil {
		r.Anchor("html/layout.findEarlierPageBreak")
		return
	}
	n := 0
	core.Instrs(fn, func(in ssa.Instruction) {
		mu, ok := in.(*ssa.MapUpdate)
		if !ok {
			return
		}
		if mm, ok := mu.Map.(*ssa.MakeMap); !ok || !strings.HasSuffix(mm.Type().String(), "ResumeStack") {
			return
		}
		n++
		key := fmt.Sprintf("html/layout.findEarlierPageBreak | resume key #%d", n)
		if _, isConst := mu.Key.(*ssa.Const); isConst {
			r.OK(key, p.Pos(mu.Pos()), "constant key")
			return
		}
		fromIndex := core.DerivesFrom(mu.Key, func(v ssa.Value) bool { return core.IsFieldNamed(v, "Index") })
		r.Cond(fromIndex, key, p.Pos(mu.Pos()), "the key is read from the Index field of a box", "the key is computed from a position in the list of the children laid out on this page: when the parent is continued from an earlier page the next page restarts from a child that was already drawn, or skips some")
	})
	if n == 0 {
		r.Unknown("html/layout.findEarlierPageBreak | resume keys", p.Pos(fn.Pos()), "no ResumeStack built")
	}
}
