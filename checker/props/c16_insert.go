package props

import (
	"fmt"
	"go/ast"
	"go/token"
	"sort"
	"strings"

	"golang.org/x/tools/go/ssa"

	"wrverif/core"
)

// c16InsertPositions (R10): a box is inserted into a painting list at the position that list had before the
// box's children were dispatched (tree order: a block precedes its descendants in the list).  The position handed
// to insertBox for a list is therefore a length of *that* list, saved earlier — never the length of a sibling list,
// which is shorter or longer as soon as a table cell was seen.
func c16InsertPositions(c *core.Check) {
	p := c.Prog
	r := c.Rule("R10", "tree order in the painting lists: every position passed to insertBox(&list, position, box) in html/document is a saved len(list) of the same list (followed through the saved pointer: load, merge, allocation, store)", 2)
	n := 0
	for _, fn := range p.ModFuncs {
		if fn.Pkg == nil || fn.Blocks == nil || core.Rel(fn.Pkg.Pkg.Path()) != "html/document" {
			continue
		}
		k := 0
		core.Instrs(fn, func(in ssa.Instruction) {
			call, ok := in.(*ssa.Call)
			if !ok {
				return
			}
			callee := call.Call.StaticCallee()
			if callee == nil || callee.Name() != "insertBox" || len(call.Call.Args) != 3 {
				return
			}
			n++
			k++
			list := call.Call.Args[0]
			key := fmt.Sprintf("%s | insertBox #%d into %s", core.FuncName(fn), k, list.Name())
			// sources of the position
			var srcs []ssa.Value
			undecided := ""
			seen := map[ssa.Value]bool{}
			var walk func(v ssa.Value, d int)
			walk = func(v ssa.Value, d int) {
				if v == nil || seen[v] || d > 8 {
					return
				}
				seen[v] = true
				switch x := v.(type) {
				case *ssa.UnOp:
					if x.Op == token.MUL {
						walk(x.X, d+1)
						return
					}
				case *ssa.Phi:
					for _, e := range x.Edges {
						walk(e, d+1)
					}
					return
				case *ssa.Alloc:
					for _, ref := range *x.Referrers() {
						if st, ok := ref.(*ssa.Store); ok && st.Addr == ssa.Value(x) {
							walk(st.Val, d+1)
						}
					}
					return
				case *ssa.Const:
					if x.IsNil() {
						return
					}
				case *ssa.Call:
					if b, ok := x.Call.Value.(*ssa.Builtin); ok && b.Name() == "len" {
						srcs = append(srcs, x.Call.Args[0])
						return
					}
				}
				undecided = v.String()
			}
			walk(call.Call.Args[1], 0)
			if undecided != "" || len(srcs) == 0 {
				r.Unknown(key, p.Pos(call.Pos()), fmt.Sprintf("the position is not a saved length (%s)", undecided))
				return
			}
			bad := ""
			for _, s := range srcs {
				ld, ok := s.(*ssa.UnOp)
				if !ok || ld.Op != token.MUL || ld.X != list {
					bad = s.String()
				}
			}
			r.Cond(bad == "", key, p.Pos(call.Pos()), fmt.Sprintf("the %d saved positions are lengths of the same list", len(srcs)), "the position is the length of another list ("+bad+"): after a table cell was dispatched the two lists differ in length and the box is inserted before content that precedes it in the tree")
		})
	}
	if n == 0 {
		r.Unknown("html/document | insertBox", "-", "no call of insertBox found")
	}
}

// c16ContainerClasses (R11): flex and grid containers are the two block-level containers that are not block
// boxes; the box classes of the port were extended with the grid ones after the flex ones.  A disjunction of
// box-class tests in the drawing and layout code that lists FlexContainerT among other classes lists GridContainerT
// too: step 2 of the stacking-context painting (own background and border) left the grid containers out.
func c16ContainerClasses(c *core.Check) {
	p := c.Prog
	r := c.Rule("R11", "flex and grid containers are painted and laid out alike: in html/document and html/layout every disjunction of box-class tests on one box that names FlexContainerT together with another class names GridContainerT too", 2)
	n := 0
	for _, rel := range []string{"html/layout", "html/document"} {
		pk := p.ByPath[rel]
		if pk == nil {
			r.Anchor("package " + rel)
			continue
		}
		for _, f := range pk.Syntax {
			if strings.HasSuffix(p.Fset.Position(f.Pos()).Filename, "_test.go") {
				continue
			}
			var fnName string
			ast.Inspect(f, func(nd ast.Node) bool {
				if fd, ok := nd.(*ast.FuncDecl); ok {
					fnName = fd.Name.Name
				}
				be, ok := nd.(*ast.BinaryExpr)
				if !ok || be.Op != token.LOR {
					return true
				}
				var leaves []ast.Expr
				var flat func(e ast.Expr)
				flat = func(e ast.Expr) {
					e = ast.Unparen(e)
					if b, ok := e.(*ast.BinaryExpr); ok && b.Op == token.LOR {
						flat(b.X)
						flat(b.Y)
						return
					}
					leaves = append(leaves, e)
				}
				flat(be)
				classes := map[string]map[string]bool{}
				for _, l := range leaves {
					call, ok := l.(*ast.CallExpr)
					if !ok || len(call.Args) != 1 {
						continue
					}
					sel, ok := call.Fun.(*ast.SelectorExpr)
					if !ok || sel.Sel.Name != "IsInstance" {
						continue
					}
					name := ""
					switch x := sel.X.(type) {
					case *ast.SelectorExpr:
						name = x.Sel.Name
					case *ast.Ident:
						name = x.Name
					}
					arg := p.NodeText(call.Args[0])
					if classes[arg] == nil {
						classes[arg] = map[string]bool{}
					}
					classes[arg][name] = true
				}
				for arg, set := range classes {
					if !set["FlexContainerT"] || len(set) < 2 {
						continue
					}
					n++
					var names []string
					for k := range set {
						names = append(names, k)
					}
					sort.Strings(names)
					r.Cond(set["GridContainerT"], rel+"."+fnName+" | box classes tested on "+arg, p.Pos(be.Pos()), "FlexContainerT and GridContainerT together", "the disjunction tests "+strings.Join(names, ", ")+" only: a grid container takes another path than a flex container (as the root of a stacking context it painted neither background nor border)")
				}
				return false
			})
		}
	}
	if n == 0 {
		r.Anchor("disjunctions naming FlexContainerT")
	}
}

// c16ClearedIsTested (R12): the background propagated to the canvas is removed from the box it was taken from
// (CSS 2.1 §14.2: the body's background, when the root has none, is painted on the canvas *instead of* on the
// body).  Structurally: where a branch is guarded by `x.F != nil` and clears the field F of a box of the same type,
// the box cleared is x — not the root box when x is the body, or the background is painted twice, the second
// time over the negative z-index children.
func c16ClearedIsTested(c *core.Check) {
	p := c.Prog
	r := c.Rule("R12", "cleared is tested: in html/layout, a branch guarded by `x.F != nil` that stores nil into the field F of a struct of the same type stores it into x (layoutBackgrounds removes the propagated background from the box it chose, which is the body when the root has none)", 1)
	n := 0
	for _, fn := range p.FuncsOfPkg("html/layout") {
		if fn.Blocks == nil {
			continue
		}
		k := 0
		for _, b := range fn.Blocks {
			if len(b.Instrs) == 0 {
				continue
			}
			ifi, ok := b.Instrs[len(b.Instrs)-1].(*ssa.If)
			if !ok {
				continue
			}
			bo, ok := ifi.Cond.(*ssa.BinOp)
			if !ok || bo.Op != token.NEQ {
				continue
			}
			if kk, ok := bo.Y.(*ssa.Const); !ok || !kk.IsNil() {
				continue
			}
			ld, ok := bo.X.(*ssa.UnOp)
			if !ok || ld.Op != token.MUL {
				continue
			}
			fa, ok := ld.X.(*ssa.FieldAddr)
			if !ok {
				continue
			}
			side := b.Succs[0]
			core.Instrs(fn, func(in ssa.Instruction) {
				if !(in.Block() == side || side.Dominates(in.Block())) {
					return
				}
				st, ok := in.(*ssa.Store)
				if !ok {
					return
				}
				kk, ok := st.Val.(*ssa.Const)
				if !ok || !kk.IsNil() {
					return
				}
				fa2, ok := st.Addr.(*ssa.FieldAddr)
				if !ok || fa2.Field != fa.Field || fa2.X.Type().String() != fa.X.Type().String() {
					return
				}
				n++
				k++
				key := fmt.Sprintf("%s | %s cleared under a test of %s #%d", core.FuncName(fn), core.FieldName(fa2), core.FieldName(fa), k)
				r.Cond(valueText(fa2.X) == valueText(fa.X), key, p.Pos(st.Pos()), "the struct cleared is the one tested", "the field is cleared on another struct than the one whose field was tested: the tested one keeps its value (the body keeps the background that was moved to the canvas and paints it again)")
			})
		}
	}
	if n == 0 {
		r.Unknown("html/layout | cleared fields", "-", "no field cleared under a test of the same field")
	}
}
