package props

import (
	"fmt"
	"go/token"

	"golang.org/x/tools/go/ssa"

	"wrverif/core"
)

// c16InsertPositions (R10): a box is inserted into a painting list at the position that list had before the
// box's children were dispatched (tree order: a block precedes its descendants in the list).  The position handed
// to insertBox for a list is therefore a length of *that* list, saved earlier — never the length of a sibling list,
// which is shorter or longer as soon as a table cell was seen.
func c16InsertPositions(c *core.Check) {
	p := c.Prog
	r := c.Rule("R10", "tree order in the painting lists: every position passed to insertBox(&list, position, box) in html/document is a saved len(list) of the same list (followed through the saved pointer: load, merge, allocation, store)", 2)
	n := 0
	for _, fn := range p.ModFuncs {
		if fn.Pkg == nil || fn.Blocks == nil || core.Rel(fn.Pkg.Pkg.Path()) != "html/document" {
			continue
		}
		k := 0
		core.Instrs(fn, func(in ssa.Instruction) {
			call, ok := in.(*ssa.Call)
			if !ok {
				return
			}
			callee := call.Call.StaticCallee()
			if callee == nil || callee.Name() != "insertBox" || len(call.Call.Args) != 3 {
				return
			}
			n++
			k++
			list := call.Call.Args[0]
			key := fmt.Sprintf("%s | insertBox #%d into %s", core.FuncName(fn), k, list.Name())
			// sources of the position
			var srcs []ssa.Value
			undecided := ""
			seen := map[ssa.Value]bool{}
			var walk func(v ssa.Value, d int)
			walk = func(v ssa.Value, d int) {
				if v == nil || seen[v] || d > 8 {
					return
				}
				seen[v] = true
				switch x := v.(type) {
				case *ssa.UnOp:
					if x.Op == token.MUL {
						walk(x.X, d+1)
						return
					}
				case *ssa.Phi:
					for _, e := range x.Edges {
						walk(e, d+1)
					}
					return
				case *ssa.Alloc:
					for _, ref := range *x.Referrers() {
						if st, ok := ref.(*ssa.Store); ok && st.Addr == ssa.Value(x) {
							walk(st.Val, d+1)
						}
					}
					return
				case *ssa.Const:
					if x.IsNil() {
						return
					}
				case *ssa.Call:
					if b, ok := x.Call.Value.(*ssa.Builtin); ok && b.Name() == "len" {
						srcs = append(srcs, x.Call.Args[0])
						return
					}
				}
				undecided = v.String()
			}
			walk(call.Call.Args[1], 0)
			if undecided != "" || len(srcs) == 0 {
				r.Unknown(key, p.Pos(call.Pos()), fmt.Sprintf("the position is not a saved length (%s)", undecided))
				return
			}
			bad := ""
			for _, s := range srcs {
				ld, ok := s.(*ssa.UnOp)
				if !ok || ld.Op != token.MUL || ld.X != list {
					bad = s.String()
				}
			}
			r.Cond(bad == "", key, p.Pos(call.Pos()), fmt.Sprintf("the %d saved positions are lengths of the same list", len(srcs)), "the position is the length of another list ("+bad+"): after a table cell was dispatched the two lists differ in length and the box is inserted before content that precedes it in the tree")
		})
	}
	if n == 0 {
		r.Unknown("html/document | insertBox", "-", "no call of insertBox found")
	}
}
